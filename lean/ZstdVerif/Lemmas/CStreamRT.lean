/-
What C02 / C10 demand of EVERY call history of the streaming compressor, proved of the deterministic model of
`ZSTD_compressStream2` (Model/CStream.lean; tied call by call to the real code by tools/ent_cstream.py).
-/
import ZstdVerif.Model.CStream
namespace ZstdVerif.CStream

/-! ## the byte streams the ghost events describe -/

/-- positions (in the chunk-output stream) of the bytes written to the caller's output, in order -/
def emitted : List Event → List Nat
  | [] => []
  | .emit pos len :: es => List.range' pos len ++ emitted es
  | _ :: es => emitted es

/-- positions (in the chunk-output stream) of the bytes the chunk compressor produced, in order -/
def chunkOut : List Event → List Nat
  | [] => []
  | .chunk _ _ _ outAt cSize _ _ :: es => List.range' outAt cSize ++ chunkOut es
  | _ :: es => chunkOut es

/-- positions (in the input) of the bytes the chunk compressor was given, in order -/
def chunkSrc : List Event → List Nat
  | [] => []
  | .chunk _ srcAt srcSize _ _ _ _ :: es => List.range' srcAt srcSize ++ chunkSrc es
  | _ :: es => chunkSrc es

theorem emitted_append (a b : List Event) : emitted (a ++ b) = emitted a ++ emitted b := by
  induction a with
  | nil => rfl
  | cons e es ih => cases e <;> simp [emitted, ih]

theorem chunkOut_append (a b : List Event) : chunkOut (a ++ b) = chunkOut a ++ chunkOut b := by
  induction a with
  | nil => rfl
  | cons e es ih => cases e <;> simp [chunkOut, ih]

theorem chunkSrc_append (a b : List Event) : chunkSrc (a ++ b) = chunkSrc a ++ chunkSrc b := by
  induction a with
  | nil => rfl
  | cons e es ih => cases e <;> simp [chunkSrc, ih]

theorem range_glue {a n b m k : Nat} (hb : b = a + n) (hk : k = n + m) : List.range' a n ++ List.range' b m = List.range' a k := by
  subst hb hk; rw [List.range'_append_1]


theorem tail_nil {A : List Nat} {q m : Nat} (h : m = 0) : A = A ++ List.range' q m := by subst h; simp

theorem tail_range {A : List Nat} {p n q m : Nat} (h1 : p = q) (h2 : n = m) : A ++ List.range' p n = A ++ List.range' q m := by
  subst h1 h2; rfl

theorem tail_zero {A : List Nat} {p n q m : Nat} (h1 : n = 0) (h2 : m = 0) : A ++ List.range' p n = A ++ List.range' q m := by
  subst h1 h2; simp

/-- closes the event-list goals of `Delta` once the new events are explicit -/
macro "ev_tac" : tactic => `(tactic| (
  simp only [resetSession, emitted_append, emitted, chunkOut_append, chunkOut, chunkSrc_append, chunkSrc, List.append_nil,
    List.append_assoc]
  first
    | exact tail_nil (by omega)
    | exact tail_range (by omega) (by omega)
    | exact tail_zero (by omega) (by omega)))

/-- a chunk taken from `inBuff` is at most `B` bytes long, and not empty unless it is the last chunk of the frame -/
def chunkOk (B : Nat) : Event → Prop
  | .chunk _ _ srcSize _ _ last true => srcSize ≤ B ∧ (last = false → 0 < srcSize)
  | _ => True

theorem ok_snoc1 {B : Nat} {es : List Event} {e1 : Event} (h0 : ∀ e ∈ es, chunkOk B e) (h1 : chunkOk B e1) :
    ∀ e ∈ es ++ [e1], chunkOk B e := by
  intro e he
  rcases List.mem_append.1 he with he | he
  · exact h0 e he
  · rw [List.mem_singleton.1 he]; exact h1

theorem ok_snoc2 {B : Nat} {es : List Event} {e1 e2 : Event} (h0 : ∀ e ∈ es, chunkOk B e) (h1 : chunkOk B e1) (h2 : chunkOk B e2) :
    ∀ e ∈ es ++ [e1, e2], chunkOk B e := by
  intro e he
  rcases List.mem_append.1 he with he | he
  · exact h0 e he
  · simp only [List.mem_cons, List.not_mem_nil, or_false] at he
    rcases he with he | he <;> rw [he] <;> assumption

-- closes the stage-conditional goals of `Delta` (`hst` is the hypothesis naming the stage of the start state)
set_option hygiene false in
macro "st_tac" : tactic => `(tactic| (first
  | (intro hh; rfl)
  | (intro hh; simp [resetSession] at hh; done)
  | (intro hh; rw [hst] at hh; cases hh)))

/-- closes the numeric goals of `Delta` -/
macro "num_tac" : tactic => `(tactic| (first | rfl | ((try simp only [resetSession]); omega)))

/-! ## the invariant of the buffer machine -/

/-- holds between calls (with `l = {}`) and at every turn of the loop.  `inSize` is the input of the call under way, `B` the bound
on the distance `inBuffTarget - inToCompress` (the block size, plus one in a frame whose pledged size equals the block size). -/
structure LInv (inSize B : Nat) (s : State) (l : Loc) : Prop where
  blk : s.streamStage ≠ .init → 0 < s.blockSize
  blkB : s.streamStage ≠ .init → s.blockSize ≤ B
  pos_lt : s.streamStage ≠ .init → s.inBuffPos < s.inBuffTarget
  bnd : s.streamStage ≠ .init → s.inBuffTarget ≤ s.inToCompress + B
  toC_le : s.inToCompress ≤ s.inBuffPos
  fl_le : s.outBuffFlushedSize ≤ s.outBuffContentSize
  /-- stage flush: `outBuff` holds the chunk-output bytes `[outBase, outDone)`, of which `[outBase, outBase+flushed)` are out -/
  out_flush : s.streamStage = .flush →
    s.outBase + s.outBuffFlushedSize = s.totalOut + l.op ∧ s.outBase + s.outBuffContentSize = s.outDone
  /-- otherwise `outBuff` is empty and every chunk-output byte has been written to the caller -/
  out_load : s.streamStage ≠ .flush → s.outBuffContentSize = 0 ∧ s.outBuffFlushedSize = 0 ∧ s.totalOut + l.op = s.outDone
  /-- the input taken from the caller = what the chunk compressor has been given + the section of `inBuff` waiting -/
  in_acct : s.srcDone + (s.inBuffPos - s.inToCompress) = s.totalIn + l.ip
  in_base : s.inToCompress < s.inBuffPos → s.inBase = s.srcDone
  fl_empty : s.streamStage = .flush → s.inBuffPos = s.inToCompress
  init_empty : s.streamStage = .init → s.inBuffPos = s.inToCompress
  ip_le : l.ip ≤ inSize

/-- what a turn of the loop (or a whole call) does to the ghost totals and to the event list -/
structure Delta (B : Nat) (s : State) (l : Loc) (s1 : State) (l1 : Loc) : Prop where
  ip_mono : l.ip ≤ l1.ip
  op_mono : l.op ≤ l1.op
  tin : s1.totalIn = s.totalIn
  tout : s1.totalOut = s.totalOut
  out_mono : s.outDone ≤ s1.outDone
  src_mono : s.srcDone ≤ s1.srcDone
  ev_emit : emitted l1.events = emitted l.events ++ List.range' (s.totalOut + l.op) (l1.op - l.op)
  ev_out : chunkOut l1.events = chunkOut l.events ++ List.range' s.outDone (s1.outDone - s.outDone)
  ev_src : chunkSrc l1.events = chunkSrc l.events ++ List.range' s.srcDone (s1.srcDone - s.srcDone)
  ev_ok : (∀ e ∈ l.events, chunkOk B e) → ∀ e ∈ l1.events, chunkOk B e
  blk_same : s1.blockSize = s.blockSize
  pl_same : s1.streamStage ≠ .init → s1.pledgedSrcSizePlusOne = s.pledgedSrcSizePlusOne
  stage_init : s.streamStage = .init → s1.streamStage = .init

theorem Delta.refl (B : Nat) (s : State) (l : Loc) : Delta B s l s l := by
  constructor <;> simp

theorem Delta.trans {B : Nat} {s s1 s2 : State} {l l1 l2 : Loc} (a : Delta B s l s1 l1) (b : Delta B s1 l1 s2 l2) :
    Delta B s l s2 l2 := by
  have h1 := a.ip_mono; have h2 := a.op_mono; have h3 := b.ip_mono; have h4 := b.op_mono
  have h5 := a.out_mono; have h6 := b.out_mono; have h7 := a.src_mono; have h8 := b.src_mono
  have t1 := a.tin; have t2 := a.tout; have t3 := b.tin; have t4 := b.tout
  refine ⟨by omega, by omega, by omega, by omega, by omega, by omega, ?_, ?_, ?_, fun hh => b.ev_ok (a.ev_ok hh),
    by rw [b.blk_same, a.blk_same], ?_, fun hh => b.stage_init (a.stage_init hh)⟩
  · rw [b.ev_emit, a.ev_emit, List.append_assoc, t2, range_glue (k := l2.op - l.op) (by omega) (by omega)]
  · rw [b.ev_out, a.ev_out, List.append_assoc, range_glue (k := s2.outDone - s.outDone) (by omega) (by omega)]
  · rw [b.ev_src, a.ev_src, List.append_assoc, range_glue (k := s2.srcDone - s.srcDone) (by omega) (by omega)]
  · intro hh
    rw [b.pl_same hh]
    by_cases h1i : s1.streamStage = .init
    · exact absurd (b.stage_init h1i) hh
    · exact a.pl_same h1i


/-! ## one turn of the loop -/

/-- the input side is untouched -/
def SameIn (s : State) (l : Loc) (s1 : State) (l1 : Loc) : Prop :=
  s1.inBuffPos = s.inBuffPos ∧ s1.inToCompress = s.inToCompress ∧ l1.ip = l.ip ∧ s1.frameEnded = s.frameEnded ∧
  s1.blockSize = s.blockSize

def FlushPost (inSize B outSize : Nat) (s : State) (l : Loc) : Out → Prop
  | .cont s1 l1 => LInv inSize B s1 l1 ∧ Delta B s l s1 l1 ∧ SameIn s l s1 l1 ∧ s1.streamStage = .load ∧ s.frameEnded = false ∧
      (s.outBuffFlushedSize < s.outBuffContentSize → l.op < outSize → l.op < l1.op)
  | .stop s1 l1 => LInv inSize B s1 l1 ∧ Delta B s l s1 l1 ∧ SameIn s l s1 l1 ∧
      ((s1.streamStage = .flush ∧ s1.outBuffFlushedSize < s1.outBuffContentSize) ∨ (s1.streamStage = .init ∧ s.frameEnded = true)) ∧
      (s.outBuffFlushedSize < s.outBuffContentSize → l.op < outSize → l.op < l1.op)
  | .fail _ _ => False

theorem stFlush_ok (inSize B outSize : Nat) (s : State) (l : Loc) (h : LInv inSize B s l) (hst : s.streamStage = .flush) :
    FlushPost inSize B outSize s l (stFlush s l outSize) := by
  obtain ⟨hf1, hf2⟩ := h.out_flush hst
  have he := h.fl_empty hst
  have h1 := h.fl_le; have h2 := h.toC_le; have h3 := h.in_acct; have h4 := h.ip_le
  have h5 := h.blk (by simp [hst]); have h6 := h.blkB (by simp [hst]); have h7 := h.pos_lt (by simp [hst]); have h8 := h.bnd (by simp [hst])
  unfold stFlush
  simp only []
  split
  · refine ⟨?_, ?_, ?_, ?_, ?_⟩
    · constructor <;> simp [hst] <;> omega
    · refine ⟨?_, ?_, ?_, ?_, ?_, ?_, ?_, ?_, ?_, fun hh => ok_snoc1 hh (by simp [chunkOk]), ?_, ?_, ?_⟩ <;> first | num_tac | ev_tac | st_tac
    · simp [SameIn]
    · left; simp [hst]; omega
    · intro _ _; simp only []; omega
  · split
    · refine ⟨?_, ?_, ?_, ?_, ?_⟩
      · constructor <;> simp [resetSession] <;> omega
      · refine ⟨?_, ?_, ?_, ?_, ?_, ?_, ?_, ?_, ?_, fun hh => ok_snoc1 hh (by simp [chunkOk]), ?_, ?_, ?_⟩ <;> first | num_tac | ev_tac | st_tac
      · simp [SameIn, resetSession]
      · right; simp [resetSession]; assumption
      · intro _ _; simp only []; omega
    · refine ⟨?_, ?_, ?_, ?_, ?_, ?_⟩
      · constructor <;> simp <;> omega
      · refine ⟨?_, ?_, ?_, ?_, ?_, ?_, ?_, ?_, ?_, fun hh => ok_snoc1 hh (by simp [chunkOk]), ?_, ?_, ?_⟩ <;> first | num_tac | ev_tac | st_tac
      · simp [SameIn]
      · rfl
      · simpa using ‹¬ s.frameEnded = true›
      · intro _ _; simp only []; omega


theorem nextBlock_spec (s : State) (B : Nat) (h : 0 < s.blockSize) (hB : s.blockSize ≤ B) :
    (nextBlock s).1 < (nextBlock s).2 ∧ (nextBlock s).2 ≤ (nextBlock s).1 + B := by
  unfold nextBlock
  simp only []
  split <;> simp only [] <;> omega

/-- what `compressChunk` is entitled to: the state right after the loading step of zcss_load -/
structure CPre (inSize B : Nat) (flushMode : EndOp) (s : State) (l : Loc) : Prop where
  st : s.streamStage = .load
  blk : 0 < s.blockSize
  blkB : s.blockSize ≤ B
  toC_le : s.inToCompress ≤ s.inBuffPos
  sz : s.inBuffPos ≤ s.inToCompress + B
  out0 : s.outBuffContentSize = 0 ∧ s.outBuffFlushedSize = 0 ∧ s.totalOut + l.op = s.outDone
  in_acct : s.srcDone + (s.inBuffPos - s.inToCompress) = s.totalIn + l.ip
  in_base : s.inToCompress < s.inBuffPos → s.inBase = s.srcDone
  ip_le : l.ip ≤ inSize
  nonlast : ¬ (flushMode = .eEnd ∧ l.ip = inSize) → s.inToCompress < s.inBuffPos

def ChunkPost (co : Nat → Nat) (inSize B outSize : Nat) (flushMode : EndOp) (s : State) (l : Loc) : Out → Prop
  | .cont s1 l1 => LInv inSize B s1 l1 ∧ Delta B s l s1 l1 ∧ s1.streamStage = .load ∧ s1.inBuffPos = s1.inToCompress ∧ l1.ip = l.ip ∧
      ¬ (flushMode = .eEnd ∧ l.ip = inSize) ∧ (0 < co s.nbChunks → l.op < outSize → l.op < l1.op)
  | .stop s1 l1 => LInv inSize B s1 l1 ∧ Delta B s l s1 l1 ∧ s1.inBuffPos = s1.inToCompress ∧ l1.ip = l.ip ∧
      ((s1.streamStage = .flush ∧ s1.outBuffFlushedSize < s1.outBuffContentSize) ∨
       (s1.streamStage = .init ∧ s1.frameEnded = true ∧ flushMode = .eEnd ∧ l.ip = inSize)) ∧
      (0 < co s.nbChunks → l.op < outSize → l.op < l1.op)
  | .fail _ _ => False

theorem chunk_of_flush {co : Nat → Nat} {inSize B outSize : Nat} {flushMode : EndOp} {s S : State} {l L : Loc} {o : Out}
    (hF : FlushPost inSize B outSize S L o) (hD : Delta B s l S L)
    (hpend : S.inBuffPos = S.inToCompress) (hip : L.ip = l.ip) (hop : L.op = l.op)
    (hfe : S.frameEnded = (decide (flushMode = .eEnd) && decide (l.ip = inSize)))
    (hfl : S.outBuffFlushedSize = 0) (hct : S.outBuffContentSize = co s.nbChunks) :
    ChunkPost co inSize B outSize flushMode s l o := by
  cases o with
  | cont s1 l1 =>
    obtain ⟨hi, hd, ⟨e1, e2, e3, e4, _⟩, hs, hne, hp⟩ := hF
    refine ⟨hi, hD.trans hd, hs, by omega, by omega, ?_, ?_⟩
    · rw [hfe] at hne; simpa using hne
    · intro h1 h2; have := hp (by omega) (by omega); omega
  | stop s1 l1 =>
    obtain ⟨hi, hd, ⟨e1, e2, e3, e4, _⟩, hs, hp⟩ := hF
    refine ⟨hi, hD.trans hd, by omega, by omega, ?_, ?_⟩
    · rcases hs with hs | ⟨hs1, hs2⟩
      · exact Or.inl hs
      · right; rw [hfe] at hs2; simp at hs2; exact ⟨hs1, by rw [e4, hfe]; simp [hs2], hs2.1, hs2.2⟩
    · intro h1 h2; have := hp (by omega) (by omega); omega
  | fail _ _ => exact hF

theorem compressChunk_ok (co : Nat → Nat) (inSize B outSize : Nat) (flushMode : EndOp) (s : State) (l : Loc)
    (h : CPre inSize B flushMode s l) : ChunkPost co inSize B outSize flushMode s l (compressChunk co s l inSize outSize flushMode) := by
  obtain ⟨hst, hblk, hblkB, htc, hsz, ⟨ho1, ho2, ho3⟩, hia, hib, hip, hnl⟩ := h
  obtain ⟨hn1, hn2⟩ := nextBlock_spec s B hblk hblkB
  have hck : ∀ a b c d, chunkOk B (.chunk a b (s.inBuffPos - s.inToCompress) c d
      (decide (flushMode = EndOp.eEnd) && decide (l.ip = inSize)) true) := by
    intro a b c d
    refine ⟨by omega, fun hl => ?_⟩
    have h1 : ¬ (flushMode = .eEnd ∧ l.ip = inSize) := by simpa using hl
    have := hnl h1; omega
  have hem : ∀ a b, chunkOk B (.emit a b) := fun _ _ => trivial
  have hbase : s.inBuffPos - s.inToCompress = 0 ∨ s.inBase = s.srcDone := by
    rcases Nat.lt_or_ge s.inToCompress s.inBuffPos with hz | hz
    · exact Or.inr (hib hz)
    · left; omega
  unfold compressChunk
  simp only []
  split
  · split
    · rename_i hd hl
      have hl2 : flushMode = .eEnd ∧ l.ip = inSize := by simpa using hl
      refine ⟨?_, ?_, rfl, rfl, Or.inr ⟨rfl, by simpa [resetSession] using hl, hl2.1, hl2.2⟩, ?_⟩
      · constructor <;> simp [resetSession] <;> omega
      · rcases hbase with hb | hb <;>
        refine ⟨?_, ?_, ?_, ?_, ?_, ?_, ?_, ?_, ?_, fun hh => ok_snoc2 hh (hck _ _ _ _) (hem _ _), ?_, ?_, ?_⟩ <;> first | num_tac | ev_tac | st_tac
      · intro h1 _; simp only []; omega
    · rename_i hd hl
      have hl2 : ¬ (flushMode = .eEnd ∧ l.ip = inSize) := by simpa using hl
      refine ⟨?_, ?_, hst, rfl, rfl, hl2, ?_⟩
      · constructor <;> simp [hst] <;> omega
      · rcases hbase with hb | hb <;>
        refine ⟨?_, ?_, ?_, ?_, ?_, ?_, ?_, ?_, ?_, fun hh => ok_snoc2 hh (hck _ _ _ _) (hem _ _), ?_, ?_, ?_⟩ <;> first | num_tac | ev_tac | st_tac
      · intro h1 _; simp only []; omega
  · refine chunk_of_flush (stFlush_ok inSize B outSize _ _ ?_ rfl) ?_ rfl rfl rfl rfl rfl rfl
    · constructor <;> simp <;> omega
    · rcases hbase with hb | hb <;>
      refine ⟨?_, ?_, ?_, ?_, ?_, ?_, ?_, ?_, ?_, fun hh => ok_snoc1 hh (hck _ _ _ _), ?_, ?_, ?_⟩ <;> first | num_tac | ev_tac | st_tac


/-- how a call can come to rest: (a) a flush the caller's room could not take entirely; (b) e_continue with a block not yet full;
(c) e_flush with nothing left anywhere; (d) the frame is complete -/
def StopOk (inSize : Nat) (flushMode : EndOp) (s0 s1 : State) (l1 : Loc) : Prop :=
  (s1.streamStage = .flush ∧ s1.outBuffFlushedSize < s1.outBuffContentSize) ∨
  (flushMode = .eContinue ∧ s1.streamStage = .load) ∨
  (flushMode = .eFlush ∧ s1.streamStage = .load ∧ s1.inBuffPos = s1.inToCompress ∧ l1.ip = inSize) ∨
  (s1.streamStage = .init ∧ s1.frameEnded = true ∧ s1.inBuffPos = s1.inToCompress ∧
    ((flushMode = .eEnd ∧ l1.ip = inSize) ∨ (s0.frameEnded = true ∧ s0.streamStage = .flush)))

/-- the measure that bounds the number of turns -/
def mu (inSize : Nat) (s : State) (l : Loc) : Nat :=
  2 * (inSize - l.ip) + (if s.streamStage = .flush then 2 else 0) + (if s.inToCompress < s.inBuffPos then 1 else 0)

/-- what a turn started at `(s, l)` and arriving at `l1` has achieved -/
def Prog (co : Nat → Nat) (inSize outSize : Nat) (flushMode : EndOp) (s : State) (l l1 : Loc) : Prop :=
  (s.streamStage = .load → l.ip < inSize → l.ip < l1.ip) ∧
  (s.streamStage = .flush → l.op < outSize → l.op < l1.op) ∧
  (s.streamStage = .load → (∀ i, 0 < co i) → l.op < outSize →
    (flushMode = .eEnd ∨ (flushMode = .eFlush ∧ (s.inToCompress < s.inBuffPos ∨ l.ip < inSize))) → l.op < l1.op)

def OutOk (co : Nat → Nat) (inSize B outSize : Nat) (flushMode : EndOp) (s : State) (l : Loc) : Out → Prop
  | .cont s1 l1 => LInv inSize B s1 l1 ∧ Delta B s l s1 l1 ∧ s1.streamStage = .load ∧ mu inSize s1 l1 < mu inSize s l ∧
      Prog co inSize outSize flushMode s l l1
  | .stop s1 l1 => LInv inSize B s1 l1 ∧ Delta B s l s1 l1 ∧ StopOk inSize flushMode s s1 l1 ∧ Prog co inSize outSize flushMode s l l1
  | .fail _ _ => False

theorem out_of_chunk {co : Nat → Nat} {inSize B outSize : Nat} {flushMode : EndOp} {s S : State} {l L : Loc} {o : Out}
    (hC : ChunkPost co inSize B outSize flushMode S L o) (hD : Delta B s l S L) (hst : s.streamStage = .load)
    (hop : L.op = l.op) (hstrict : l.ip < inSize → l.ip < L.ip)
    (hmu : ¬ (flushMode = .eEnd ∧ L.ip = inSize) →
      2 * (inSize - L.ip) < 2 * (inSize - l.ip) + (if s.inToCompress < s.inBuffPos then 1 else 0)) :
    OutOk co inSize B outSize flushMode s l o := by
  have hnf : s.streamStage ≠ .flush := by simp [hst]
  cases o with
  | cont s1 l1 =>
    obtain ⟨hi, hd, hs1, hp1, hip1, hnl, hpr⟩ := hC
    refine ⟨hi, hD.trans hd, hs1, ?_, ?_, ?_, ?_⟩
    · have := hmu hnl
      unfold mu
      rw [if_neg (by simp [hs1]), if_neg (by omega), if_neg hnf, hip1]
      omega
    · intro _ hh; have := hstrict hh; omega
    · intro hh; exact absurd hh hnf
    · intro _ hco h1 _; have := hpr (hco _) (by omega); omega
  | stop s1 l1 =>
    obtain ⟨hi, hd, hp1, hip1, hk, hpr⟩ := hC
    refine ⟨hi, hD.trans hd, ?_, ?_, ?_, ?_⟩
    · rcases hk with hk | ⟨hk1, hk2, hk3, hk4⟩
      · exact Or.inl hk
      · exact Or.inr (Or.inr (Or.inr ⟨hk1, hk2, hp1, Or.inl ⟨hk3, by omega⟩⟩))
    · intro _ hh; have := hstrict hh; omega
    · intro hh; exact absurd hh hnf
    · intro _ hco h1 _; have := hpr (hco _) (by omega); omega
  | fail _ _ => exact hC

theorem stLoad_ok (co : Nat → Nat) (inSize B outSize : Nat) (flushMode : EndOp) (s : State) (l : Loc)
    (h : LInv inSize B s l) (hst : s.streamStage = .load) :
    OutOk co inSize B outSize flushMode s l (stLoad co s l inSize outSize flushMode) := by
  have hne : s.streamStage ≠ .init := by simp [hst]
  have hnf : s.streamStage ≠ .flush := by simp [hst]
  have h1 := h.blk hne; have h2 := h.blkB hne; have h3 := h.pos_lt hne; have h4 := h.bnd hne
  have h5 := h.toC_le; have h6 := h.fl_le; obtain ⟨h7, h8, h9⟩ := h.out_load hnf
  have h10 := h.in_acct; have h11 := h.in_base; have h12 := h.ip_le
  unfold stLoad
  split
  · -- the single-pass shortcut
    rename_i hc
    obtain ⟨hc1, hc2, hc3⟩ := hc
    unfold shortcut
    simp only []
    refine ⟨?_, ?_, ?_, ?_⟩
    · constructor <;> simp [resetSession] <;> omega
    · refine ⟨?_, ?_, ?_, ?_, ?_, ?_, ?_, ?_, ?_, fun hh => ok_snoc2 hh trivial trivial, ?_, ?_, ?_⟩ <;> first | num_tac | ev_tac | st_tac
    · right; right; right
      simp only [resetSession]
      exact ⟨trivial, trivial, by omega, Or.inl ⟨hc1, trivial⟩⟩
    · refine ⟨fun _ hh => hh, fun hh => by simp [hst] at hh, fun _ hco _ _ => ?_⟩
      have := hco s.nbChunks; simp only []; omega
  · rename_i hc
    simp only []
    split
    · -- e_continue, block not full
      rename_i hs
      refine ⟨?_, ?_, ?_, ?_⟩
      · constructor <;> simp [hst] <;> (try split) <;> omega
      · refine ⟨?_, ?_, ?_, ?_, ?_, ?_, ?_, ?_, ?_, fun hh => ok_snoc1 hh trivial, ?_, ?_, ?_⟩ <;> first | num_tac | ev_tac | st_tac
      · right; left; exact ⟨hs.1, hst⟩
      · refine ⟨fun _ hh => ?_, fun hh => by simp [hst] at hh, fun _ _ _ hm => ?_⟩
        · simp only []; omega
        · rw [hs.1] at hm; simp at hm
    · split
      · -- e_flush, nothing to compress
        rename_i hs1 hs
        obtain ⟨hsa, hsb⟩ := hs
        refine ⟨?_, ?_, ?_, ?_⟩
        · constructor <;> simp [hst] <;> (try split) <;> omega
        · refine ⟨?_, ?_, ?_, ?_, ?_, ?_, ?_, ?_, ?_, fun hh => ok_snoc1 hh trivial, ?_, ?_, ?_⟩ <;> first | num_tac | ev_tac | st_tac
        · right; right; left; exact ⟨hsa, hst, hsb, by dsimp only; omega⟩
        · refine ⟨fun _ hh => ?_, fun hh => by simp [hst] at hh, fun _ _ _ hm => ?_⟩
          · dsimp only; omega
          · rcases hm with hm | ⟨_, hm⟩
            · rw [hsa] at hm; simp at hm
            · dsimp only; omega
      · -- a chunk is compressed
        rename_i hs1 hs2
        have hpend : ¬ (flushMode = .eEnd ∧ l.ip + min (s.inBuffTarget - s.inBuffPos) (inSize - l.ip) = inSize) →
            s.inToCompress < s.inBuffPos + min (s.inBuffTarget - s.inBuffPos) (inSize - l.ip) := by
          intro hn
          cases flushMode with
          | eContinue => simp at hs1; omega
          | eFlush => simp at hs2; omega
          | eEnd => simp at hn; omega
        refine out_of_chunk (compressChunk_ok co inSize B outSize flushMode _ _ ?_) ?_ hst rfl ?_ ?_
        · constructor <;> (try dsimp only) <;> first | assumption | omega | (intro hh; split <;> omega) | exact ⟨h7, h8, h9⟩
        · refine ⟨?_, ?_, ?_, ?_, ?_, ?_, ?_, ?_, ?_, fun hh => ok_snoc1 hh trivial, ?_, ?_, ?_⟩ <;> first | num_tac | ev_tac | st_tac
        · intro hh; dsimp only; omega
        · intro hn
          have := hpend hn
          dsimp only
          split <;> omega


/-- what the loop needs at the start of a turn -/
def TurnPre (inSize B : Nat) (s : State) (l : Loc) : Prop :=
  LInv inSize B s l ∧ s.streamStage ≠ .init ∧ (s.streamStage = .flush → s.outBuffFlushedSize < s.outBuffContentSize)

theorem micro_ok (co : Nat → Nat) (inSize B outSize : Nat) (flushMode : EndOp) (s : State) (l : Loc)
    (h : TurnPre inSize B s l) : OutOk co inSize B outSize flushMode s l (micro co s l inSize outSize flushMode) := by
  obtain ⟨hi, hne, hfl⟩ := h
  unfold micro
  split
  · rename_i hs; exact absurd hs hne
  · rename_i hs; exact stLoad_ok co inSize B outSize flushMode s l hi hs
  · rename_i hs
    have hF := stFlush_ok inSize B outSize s l hi hs
    have hpe := hi.fl_empty hs
    generalize stFlush s l outSize = o at hF
    cases o with
    | cont s1 l1 =>
      obtain ⟨hi1, hd, ⟨e1, e2, e3, e4, _⟩, hs1, _, hp⟩ := hF
      refine ⟨hi1, hd, hs1, ?_, ?_, ?_, ?_⟩
      · unfold mu
        rw [if_neg (by simp [hs1]), if_pos hs, e1, e2, e3]; omega
      · intro hh; rw [hs] at hh; cases hh
      · intro _ hh; exact hp (hfl hs) hh
      · intro hh; rw [hs] at hh; cases hh
    | stop s1 l1 =>
      obtain ⟨hi1, hd, ⟨e1, e2, e3, e4, _⟩, hk, hp⟩ := hF
      refine ⟨hi1, hd, ?_, ?_, ?_, ?_⟩
      · rcases hk with hk | ⟨hk1, hk2⟩
        · exact Or.inl hk
        · exact Or.inr (Or.inr (Or.inr ⟨hk1, by rw [e4]; exact hk2, by omega, Or.inr ⟨hk2, hs⟩⟩))
      · intro hh; rw [hs] at hh; cases hh
      · intro _ hh; exact hp (hfl hs) hh
      · intro hh; rw [hs] at hh; cases hh
    | fail _ _ => exact hF

/-- the whole loop: it stops (never fails) -/
def LoopPost (co : Nat → Nat) (inSize B outSize : Nat) (flushMode : EndOp) (s : State) (l : Loc) : Out → Prop
  | .stop s1 l1 => LInv inSize B s1 l1 ∧ Delta B s l s1 l1 ∧ StopOk inSize flushMode s s1 l1 ∧ Prog co inSize outSize flushMode s l l1
  | _ => False

theorem loop_ok (co : Nat → Nat) (inSize B outSize : Nat) (flushMode : EndOp) (fuel : Nat) (s : State) (l : Loc)
    (h : TurnPre inSize B s l) (hfuel : mu inSize s l < fuel) :
    LoopPost co inSize B outSize flushMode s l (loop co fuel s l inSize outSize flushMode) := by
  induction fuel generalizing s l with
  | zero => omega
  | succ fuel ih =>
    unfold loop
    have hm := micro_ok co inSize B outSize flushMode s l h
    generalize micro co s l inSize outSize flushMode = o at hm
    cases o with
    | cont s1 l1 =>
      obtain ⟨hi1, hd, hs1, hmu, hp1, hp2, hp3⟩ := hm
      have hpre : TurnPre inSize B s1 l1 := ⟨hi1, by simp [hs1], fun hh => by rw [hs1] at hh; cases hh⟩
      have hr := ih s1 l1 hpre (by omega)
      simp only []
      generalize loop co fuel s1 l1 inSize outSize flushMode = o2 at hr
      cases o2 with
      | stop s2 l2 =>
        obtain ⟨hi2, hd2, hk, hq1, hq2, hq3⟩ := hr
        have m1 := hd2.ip_mono; have m2 := hd2.op_mono
        refine ⟨hi2, hd.trans hd2, ?_, ?_, ?_, ?_⟩
        · rcases hk with hk | hk | hk | ⟨k1, k2, k3, k4⟩
          · exact Or.inl hk
          · exact Or.inr (Or.inl hk)
          · exact Or.inr (Or.inr (Or.inl hk))
          · refine Or.inr (Or.inr (Or.inr ⟨k1, k2, k3, ?_⟩))
            rcases k4 with k4 | ⟨_, k5⟩
            · exact Or.inl k4
            · rw [hs1] at k5; cases k5
        · intro a b; have := hp1 a b; omega
        · intro a b; have := hp2 a b; omega
        · intro a b c d; have := hp3 a b c d; omega
      | cont _ _ => exact hr
      | fail _ _ => exact hr
    | stop s1 l1 => exact hm
    | fail _ _ => exact hm


/-! ## one call -/

/-- the bound on a chunk taken from `inBuff`: the block size, plus one in a frame whose pledged size equals the block size
(`inBuffTarget = blockSize + (blockSize == pledgedSrcSize)`) -/
def Bof (s : State) : Nat := s.blockSize + (if s.blockSize = pledgedOf s.pledgedSrcSizePlusOne then 1 else 0)

/-- **the invariant between calls** -/
def Inv (s : State) : Prop :=
  LInv 0 (Bof s) s {} ∧ (s.streamStage = .flush → s.outBuffFlushedSize < s.outBuffContentSize)

theorem inv_start (w m : Nat) (p : Option Nat) : Inv (State.start w m p) := by
  refine ⟨?_, ?_⟩
  · constructor <;> intros <;> simp_all [State.start]
  · intro h; simp [State.start] at h

/-- the state `ZSTD_compressStream_generic` is entered with -/
def entry (s : State) (endOp : EndOp) (inSize : Nat) : State :=
  if s.streamStage = .init then initStream s endOp inSize else s

theorem resolveMaxBlockSize_pos (m : Nat) : 0 < resolveMaxBlockSize m := by
  unfold resolveMaxBlockSize
  split
  · decide
  · omega

theorem init_facts (s : State) (endOp : EndOp) (inSize : Nat) :
    (initStream s endOp inSize).streamStage = .load ∧ 0 < (initStream s endOp inSize).blockSize ∧
    (initStream s endOp inSize).inBuffPos = 0 ∧ (initStream s endOp inSize).inToCompress = 0 ∧
    (initStream s endOp inSize).inBuffTarget = Bof (initStream s endOp inSize) ∧
    (initStream s endOp inSize).outBuffContentSize = 0 ∧ (initStream s endOp inSize).outBuffFlushedSize = 0 ∧
    (initStream s endOp inSize).totalIn = s.totalIn ∧ (initStream s endOp inSize).totalOut = s.totalOut ∧
    (initStream s endOp inSize).srcDone = s.srcDone ∧ (initStream s endOp inSize).outDone = s.outDone ∧
    (initStream s endOp inSize).frameEnded = false := by
  refine ⟨rfl, ?_, rfl, rfl, rfl, rfl, rfl, rfl, rfl, rfl, rfl, rfl⟩
  have := resolveMaxBlockSize_pos s.maxBlockSize
  simp only [initStream]; omega

theorem entry_pre (s : State) (endOp : EndOp) (inSize : Nat) (h : Inv s) :
    TurnPre inSize (Bof (entry s endOp inSize)) (entry s endOp inSize) {} ∧
    mu inSize (entry s endOp inSize) {} < loopFuel inSize := by
  obtain ⟨hi, hfl⟩ := h
  unfold entry
  split
  · rename_i hs
    have hnf : s.streamStage ≠ .flush := by simp [hs]
    obtain ⟨o1, o2, o3⟩ := hi.out_load hnf
    have ia := hi.in_acct; have ie := hi.init_empty hs; have tc := hi.toC_le
    obtain ⟨f1, f2, f3, f4, f5, f6, f7, f8, f9, f10, f11, f12⟩ := init_facts s endOp inSize
    generalize initStream s endOp inSize = s0 at *
    have hne : s0.streamStage ≠ .init := by simp [f1]
    have hnf0 : s0.streamStage ≠ .flush := by simp [f1]
    have hB : s0.blockSize ≤ Bof s0 := by unfold Bof; omega
    simp only [] at o3 ia
    refine ⟨⟨?_, hne, fun hh => absurd hh hnf0⟩, ?_⟩
    · exact ⟨fun _ => f2, fun _ => hB, fun _ => by omega, fun _ => by omega, by omega, by omega,
        fun hh => absurd hh hnf0, fun _ => ⟨f6, f7, by simp only []; omega⟩, by simp only []; omega, fun hh => by omega,
        fun hh => absurd hh hnf0, fun hh => absurd hh hne, Nat.zero_le _⟩
    · unfold mu loopFuel
      rw [if_neg hnf0, if_neg (by omega)]; simp only []; omega
  · rename_i hs
    refine ⟨⟨?_, hs, hfl⟩, ?_⟩
    · exact { hi with ip_le := Nat.zero_le _ }
    · unfold mu loopFuel; simp only []; split <;> split <;> omega


/-- **the loop of `ZSTD_compressStream_generic` always comes to rest within `loopFuel` turns** (the model's error outcome is never
taken), and a call is: enter (initialising a frame if need be), run the loop to a stop, report -/
theorem step_spec (co : Nat → Nat) (s : State) (inSize outSize : Nat) (endOp : EndOp) (h : Inv s) :
    ∃ s1 l1, step co s inSize outSize endOp = finish s1 l1 (decide (s.streamStage = .init)) ∧
      LInv inSize (Bof (entry s endOp inSize)) s1 l1 ∧ Delta (Bof (entry s endOp inSize)) (entry s endOp inSize) {} s1 l1 ∧
      StopOk inSize endOp (entry s endOp inSize) s1 l1 ∧ Prog co inSize outSize endOp (entry s endOp inSize) {} l1 := by
  obtain ⟨hpre, hfuel⟩ := entry_pre s endOp inSize h
  have hl := loop_ok co inSize (Bof (entry s endOp inSize)) outSize endOp (loopFuel inSize) _ _ hpre hfuel
  have he : step co s inSize outSize endOp =
      match loop co (loopFuel inSize) (entry s endOp inSize) {} inSize outSize endOp with
      | .stop s1 l => finish s1 l (decide (s.streamStage = .init))
      | .cont s1 l => finish s1 l (decide (s.streamStage = .init))
      | .fail s1 l => (s1, { consumed := 0, produced := 0, ret := .err, hint := 0, genericRet := 0,
                             inited := decide (s.streamStage = .init), events := l.events }) := by
    unfold step entry
    by_cases hs : s.streamStage = .init <;> simp [hs] <;>
      (generalize loop co _ _ _ _ _ _ = o; cases o <;> rfl)
  generalize loop co (loopFuel inSize) (entry s endOp inSize) {} inSize outSize endOp = o at hl he
  cases o with
  | stop s1 l1 => exact ⟨s1, l1, he, hl⟩
  | cont _ _ => exact absurd hl id
  | fail _ _ => exact absurd hl id


theorem entry_totals (s : State) (endOp : EndOp) (inSize : Nat) :
    (entry s endOp inSize).totalIn = s.totalIn ∧ (entry s endOp inSize).totalOut = s.totalOut ∧
    (entry s endOp inSize).srcDone = s.srcDone ∧ (entry s endOp inSize).outDone = s.outDone := by
  unfold entry; split <;> exact ⟨rfl, rfl, rfl, rfl⟩

theorem entry_of_not_init (s : State) (endOp : EndOp) (inSize : Nat) (h : s.streamStage ≠ .init) : entry s endOp inSize = s := by
  unfold entry; rw [if_neg h]

theorem entry_of_init (s : State) (endOp : EndOp) (inSize : Nat) (h : s.streamStage = .init) :
    (entry s endOp inSize).streamStage = .load ∧ (entry s endOp inSize).inBuffPos = (entry s endOp inSize).inToCompress := by
  unfold entry; rw [if_pos h]; exact ⟨rfl, rfl⟩

theorem Bof_le (s : State) : Bof s ≤ s.blockSize + 1 := by unfold Bof; split <;> omega

/-- the invariant is kept by every call, whatever the sizes and the directive -/
theorem step_inv (co : Nat → Nat) (s : State) (inSize outSize : Nat) (endOp : EndOp) (h : Inv s) :
    Inv (step co s inSize outSize endOp).1 := by
  obtain ⟨s1, l1, he, hi, hd, hk, _⟩ := step_spec co s inSize outSize endOp h
  rw [he]
  have hB : s1.streamStage ≠ .init → Bof s1 = Bof (entry s endOp inSize) := by
    intro hh; unfold Bof; rw [hd.blk_same, hd.pl_same hh]
  have h5 := hi.toC_le; have h6 := hi.fl_le; have h9 := hi.in_acct
  refine ⟨⟨hi.blk, fun hh => ?_, hi.pos_lt, fun hh => ?_, h5, h6, fun hh => ?_, fun hh => ?_, ?_, hi.in_base, hi.fl_empty,
    hi.init_empty, Nat.le_refl _⟩, fun hh => ?_⟩
  · have := hi.blkB hh; rw [← hB hh] at this; exact this
  · have := hi.bnd hh; rw [← hB hh] at this; exact this
  · obtain ⟨a, b⟩ := hi.out_flush hh; exact ⟨by simp only [finish]; omega, b⟩
  · obtain ⟨a, b, c⟩ := hi.out_load hh; exact ⟨a, b, by simp only [finish]; omega⟩
  · simp only [finish]; omega
  · rcases hk with hk | hk | hk | hk
    · exact hk.2
    · have := hk.2; simp only [finish] at hh; rw [this] at hh; cases hh
    · have := hk.2.1; simp only [finish] at hh; rw [this] at hh; cases hh
    · have := hk.1; simp only [finish] at hh; rw [this] at hh; cases hh

/-- the return value is never the model's error outcome: it is the number of bytes still waiting in `outBuff` -/
theorem step_ret (co : Nat → Nat) (s : State) (inSize outSize : Nat) (endOp : EndOp) (h : Inv s) :
    (step co s inSize outSize endOp).2.ret =
      .val ((step co s inSize outSize endOp).1.outBuffContentSize - (step co s inSize outSize endOp).1.outBuffFlushedSize) := by
  obtain ⟨s1, l1, he, _⟩ := step_spec co s inSize outSize endOp h
  rw [he]; rfl

/-! ## the properties -/

/-- bytes of the chunk-output stream sitting in `outBuff`, not yet handed to the caller -/
def pendingOut (s : State) : List Nat :=
  List.range' (s.outBase + s.outBuffFlushedSize) (s.outBuffContentSize - s.outBuffFlushedSize)

/-- bytes of the input sitting in `inBuff`, not yet handed to the chunk compressor -/
def pendingIn (s : State) : List Nat := List.range' s.inBase (s.inBuffPos - s.inToCompress)

/-- **output_eq_chunks, one call**: what the call writes is the next `produced` bytes of the chunk-output stream; the chunks it
compresses extend that stream, and their sources are the next bytes of the input, contiguously and in order -/
theorem output_eq_chunks_step (co : Nat → Nat) (s : State) (inSize outSize : Nat) (endOp : EndOp) (h : Inv s) :
    let r := step co s inSize outSize endOp
    emitted r.2.events = List.range' s.totalOut r.2.produced ∧ r.1.totalOut = s.totalOut + r.2.produced ∧
    chunkOut r.2.events = List.range' s.outDone (r.1.outDone - s.outDone) ∧ s.outDone ≤ r.1.outDone ∧
    chunkSrc r.2.events = List.range' s.srcDone (r.1.srcDone - s.srcDone) ∧ s.srcDone ≤ r.1.srcDone ∧
    r.1.totalIn = s.totalIn + r.2.consumed ∧ r.2.consumed ≤ inSize := by
  obtain ⟨s1, l1, he, hi, hd, _, _⟩ := step_spec co s inSize outSize endOp h
  obtain ⟨e1, e2, e3, e4⟩ := entry_totals s endOp inSize
  simp only [he, finish]
  have a := hd.ev_emit; have b := hd.ev_out; have c := hd.ev_src
  rw [e2] at a; rw [e4] at b; rw [e3] at c
  have t1 := hd.tin; have t2 := hd.tout; have m1 := hd.out_mono; have m2 := hd.src_mono
  refine ⟨?_, by omega, ?_, by omega, ?_, by omega, by omega, hi.ip_le⟩
  · simpa [emitted] using a
  · simpa [chunkOut] using b
  · simpa [chunkSrc] using c

/-- between calls: the bytes written so far, followed by what waits in `outBuff`, are the chunk-output stream -/
theorem inv_out (s : State) (h : Inv s) :
    List.range' 0 s.totalOut ++ pendingOut s = List.range' 0 s.outDone := by
  obtain ⟨hi, _⟩ := h
  have := hi.fl_le
  unfold pendingOut
  by_cases hs : s.streamStage = .flush
  · obtain ⟨a, b⟩ := hi.out_flush hs
    simp only [] at a
    exact range_glue (by omega) (by omega)
  · obtain ⟨a, b, c⟩ := hi.out_load hs
    simp only [] at c
    rw [a, b, ← c]; simp

/-- between calls: the input consumed so far is what the chunk compressor was given, followed by what waits in `inBuff` -/
theorem inv_in (s : State) (h : Inv s) :
    List.range' 0 s.srcDone ++ pendingIn s = List.range' 0 s.totalIn := by
  obtain ⟨hi, _⟩ := h
  have a := hi.in_acct; have b := hi.toC_le
  simp only [] at a
  unfold pendingIn
  rcases Nat.lt_or_ge s.inToCompress s.inBuffPos with hz | hz
  · rw [hi.in_base hz]; exact range_glue (by omega) (by omega)
  · have : s.inBuffPos - s.inToCompress = 0 := by omega
    rw [this, show s.totalIn = s.srcDone by omega]; simp

def emittedAll (rs : List CallResult) : List Nat := rs.flatMap (fun r => emitted r.events)
def chunkOutAll (rs : List CallResult) : List Nat := rs.flatMap (fun r => chunkOut r.events)
def chunkSrcAll (rs : List CallResult) : List Nat := rs.flatMap (fun r => chunkSrc r.events)

theorem run_spec (co : Nat → Nat) (cs : List (Nat × Nat × EndOp)) (s : State) (h : Inv s) :
    Inv (run co s cs).1 ∧
    List.range' 0 s.totalOut ++ emittedAll (run co s cs).2 = List.range' 0 (run co s cs).1.totalOut ∧
    List.range' 0 s.outDone ++ chunkOutAll (run co s cs).2 = List.range' 0 (run co s cs).1.outDone ∧
    List.range' 0 s.srcDone ++ chunkSrcAll (run co s cs).2 = List.range' 0 (run co s cs).1.srcDone := by
  induction cs generalizing s with
  | nil => simp [run, emittedAll, chunkOutAll, chunkSrcAll, h]
  | cons c cs ih =>
    obtain ⟨i, o, d⟩ := c
    have hs := step_inv co s i o d h
    obtain ⟨a1, a2, a3, a4, a5, a6, a7, a8⟩ := output_eq_chunks_step co s i o d h
    obtain ⟨b1, b2, b3, b4⟩ := ih _ hs
    simp only [run, emittedAll, chunkOutAll, chunkSrcAll, List.flatMap_cons] at *
    refine ⟨b1, ?_, ?_, ?_⟩
    · rw [← b2, a1, ← List.append_assoc, range_glue (k := (step co s i o d).1.totalOut) (by omega) (by omega)]
    · rw [← b3, a3, ← List.append_assoc, range_glue (k := (step co s i o d).1.outDone) (by omega) (by omega)]
    · rw [← b4, a5, ← List.append_assoc, range_glue (k := (step co s i o d).1.srcDone) (by omega) (by omega)]

/-- **output_eq_chunks**: after ANY history of calls on a fresh context, the bytes emitted so far followed by the bytes waiting in
`outBuff` are exactly the concatenation of the chunk outputs so far, and the input consumed so far is exactly the concatenation of
the chunks' sources followed by the bytes waiting in `inBuff` — the chunks partition the consumed input, in order.  (Each chunk
output decodes to its source: the emitted stream decodes to the consumed input as soon as nothing waits.) -/
theorem output_eq_chunks (co : Nat → Nat) (w m : Nat) (p : Option Nat) (cs : List (Nat × Nat × EndOp)) :
    let r := run co (State.start w m p) cs
    emittedAll r.2 ++ pendingOut r.1 = chunkOutAll r.2 ∧ chunkSrcAll r.2 ++ pendingIn r.1 = List.range' 0 r.1.totalIn ∧
    emittedAll r.2 = List.range' 0 r.1.totalOut ∧ chunkOutAll r.2 = List.range' 0 r.1.outDone := by
  obtain ⟨hi, a, b, c⟩ := run_spec co cs (State.start w m p) (inv_start w m p)
  have e1 : emittedAll (run co (State.start w m p) cs).2 = List.range' 0 (run co (State.start w m p) cs).1.totalOut := by
    simpa [State.start] using a
  have e2 : chunkOutAll (run co (State.start w m p) cs).2 = List.range' 0 (run co (State.start w m p) cs).1.outDone := by
    simpa [State.start] using b
  have e3 : chunkSrcAll (run co (State.start w m p) cs).2 = List.range' 0 (run co (State.start w m p) cs).1.srcDone := by
    simpa [State.start] using c
  refine ⟨?_, ?_, e1, e2⟩
  · rw [e1, e2]; exact inv_out _ hi
  · rw [e3]; exact inv_in _ hi


/-- **the return value is truthful**: `ZSTD_compressStream2` returns 0 exactly when every byte the chunk compressor has produced so
far has been written to the caller (nothing waits in `outBuff`), whatever the directive -/
theorem ret_zero_iff_all_emitted (co : Nat → Nat) (s : State) (inSize outSize : Nat) (endOp : EndOp) (h : Inv s) :
    (step co s inSize outSize endOp).2.ret = .val 0 ↔
      (step co s inSize outSize endOp).1.totalOut = (step co s inSize outSize endOp).1.outDone := by
  have hr := step_ret co s inSize outSize endOp h
  obtain ⟨hi, hfl⟩ := step_inv co s inSize outSize endOp h
  generalize (step co s inSize outSize endOp).1 = s2 at *
  rw [hr]
  have := hi.fl_le
  by_cases hs : s2.streamStage = .flush
  · obtain ⟨a, b⟩ := hi.out_flush hs
    have := hfl hs
    simp only [] at a
    constructor
    · intro hh; injection hh with hh; omega
    · intro hh; omega
  · obtain ⟨a, b, c⟩ := hi.out_load hs
    simp only [] at c
    constructor
    · intro _; omega
    · intro _; rw [a, b]

/-- **flush_complete**: a call with e_flush or e_end that returns 0 leaves nothing buffered anywhere: `inBuff` has no byte waiting
(`inBuffPos = inToCompress`), `outBuff` is empty, every byte consumed so far has gone through the chunk compressor and every byte it
produced has been written to the caller.  The call has taken all the input it was offered, unless all it did was to finish flushing
a frame that an earlier call had already ended. -/
theorem flush_complete (co : Nat → Nat) (s : State) (inSize outSize : Nat) (endOp : EndOp) (h : Inv s)
    (hd : endOp ≠ .eContinue) (hz : (step co s inSize outSize endOp).2.ret = .val 0) :
    let r := step co s inSize outSize endOp
    r.1.inBuffPos = r.1.inToCompress ∧ r.1.outBuffContentSize = 0 ∧ r.1.outBuffFlushedSize = 0 ∧
    r.1.totalOut = r.1.outDone ∧ r.1.srcDone = r.1.totalIn ∧
    (r.2.consumed = inSize ∨ (s.streamStage = .flush ∧ s.frameEnded = true)) := by
  have hall := (ret_zero_iff_all_emitted co s inSize outSize endOp h).1 hz
  obtain ⟨s1, l1, he, hi, hdl, hk, _⟩ := step_spec co s inSize outSize endOp h
  rw [he] at hz hall
  simp only [he]
  simp only [finish] at hz hall ⊢
  have ia := hi.in_acct
  have key : s1.streamStage ≠ .flush ∧ s1.inBuffPos = s1.inToCompress ∧
      (l1.ip = inSize ∨ (s.streamStage = .flush ∧ s.frameEnded = true)) := by
    rcases hk with hk | hk | hk | hk
    · injection hz with hz; omega
    · exact absurd hk.1 hd
    · exact ⟨by simp [hk.2.1], hk.2.2.1, Or.inl hk.2.2.2⟩
    · refine ⟨by simp [hk.1], hk.2.2.1, ?_⟩
      rcases hk.2.2.2 with k | k
      · exact Or.inl k.2
      · by_cases hs : s.streamStage = .init
        · have := (entry_of_init s endOp inSize hs).1; rw [this] at k; cases k.2
        · rw [entry_of_not_init s endOp inSize hs] at k; exact Or.inr ⟨k.2, k.1⟩
  obtain ⟨k1, k2, k3⟩ := key
  obtain ⟨a, b, c⟩ := hi.out_load k1
  exact ⟨k2, a, b, hall, by omega, k3⟩

/-- **flush point ⇒ decodable**: when a call with e_flush or e_end returns 0 at the end of ANY history, the bytes emitted so far are
exactly the concatenation of the chunk outputs so far, and the chunks' sources are exactly the input consumed so far: everything
the caller has handed in is covered by the bytes the caller holds -/
theorem flush_point (co : Nat → Nat) (w m : Nat) (p : Option Nat) (cs : List (Nat × Nat × EndOp)) (i o : Nat) (d : EndOp)
    (hd : d ≠ .eContinue) (hz : (step co (run co (State.start w m p) cs).1 i o d).2.ret = .val 0) :
    let r := run co (State.start w m p) cs
    let c := step co r.1 i o d
    emittedAll (r.2 ++ [c.2]) = chunkOutAll (r.2 ++ [c.2]) ∧ chunkSrcAll (r.2 ++ [c.2]) = List.range' 0 c.1.totalIn := by
  obtain ⟨hi, a, b, c⟩ := run_spec co cs (State.start w m p) (inv_start w m p)
  obtain ⟨s1, s2, s3, s4, s5, s6, s7, _⟩ := output_eq_chunks_step co _ i o d hi
  obtain ⟨_, _, _, f4, f5, _⟩ := flush_complete co _ i o d hi hd hz
  rw [show (State.start w m p).totalOut = 0 from rfl] at a
  rw [show (State.start w m p).outDone = 0 from rfl] at b
  rw [show (State.start w m p).srcDone = 0 from rfl] at c
  simp only [List.range'_zero, List.nil_append] at a b c
  simp only [emittedAll, chunkOutAll, chunkSrcAll, List.flatMap_append, List.flatMap_cons, List.flatMap_nil, List.append_nil] at *
  rw [a, b, c, s1, s3, s5]
  rw [range_glue (k := (step co (run co (State.start w m p) cs).1 i o d).1.totalOut) (by omega) (by omega),
    range_glue (k := (step co (run co (State.start w m p) cs).1 i o d).1.outDone) (by omega) (by omega),
    range_glue (k := (step co (run co (State.start w m p) cs).1 i o d).1.srcDone) (by omega) (by omega), f4, f5]
  exact ⟨rfl, rfl⟩

/-- **progress**: a call that is given output room and has anything at all to do — input offered, or a flush under way, or the
directive e_end, or e_flush with bytes waiting in `inBuff` — consumes or produces at least one byte (chunk outputs are never
empty: a block has a 3-byte header).  Without room (`outSize = 0`) a call can still make internal progress only. -/
theorem progress (co : Nat → Nat) (s : State) (inSize outSize : Nat) (endOp : EndOp) (h : Inv s) (hco : ∀ i, 0 < co i)
    (hout : 0 < outSize)
    (hw : 0 < inSize ∨ s.streamStage = .flush ∨ endOp = .eEnd ∨
          (endOp = .eFlush ∧ s.streamStage = .load ∧ s.inToCompress < s.inBuffPos)) :
    0 < (step co s inSize outSize endOp).2.consumed + (step co s inSize outSize endOp).2.produced := by
  obtain ⟨s1, l1, he, hi, hdl, hk, hp1, hp2, hp3⟩ := step_spec co s inSize outSize endOp h
  simp only [he, finish]
  by_cases hf : s.streamStage = .flush
  · have hne : s.streamStage ≠ .init := by simp [hf]
    rw [entry_of_not_init s endOp inSize hne] at hp2
    have := hp2 hf hout; simp only [] at this; omega
  · have hl : (entry s endOp inSize).streamStage = .load := by
      by_cases hs : s.streamStage = .init
      · exact (entry_of_init s endOp inSize hs).1
      · rw [entry_of_not_init s endOp inSize hs]
        cases hx : s.streamStage with
        | init => exact absurd hx hs
        | load => rfl
        | flush => exact absurd hx hf
    rcases hw with hw | hw | hw | ⟨hw1, hw2, hw3⟩
    · have := hp1 hl hw; simp only [] at this; omega
    · exact absurd hw hf
    · have := hp3 hl hco hout (Or.inl hw); simp only [] at this; omega
    · have hne : s.streamStage ≠ .init := by simp [hw2]
      rw [entry_of_not_init s endOp inSize hne] at hp3
      have := hp3 hw2 hco hout (Or.inr ⟨hw1, Or.inl hw3⟩); simp only [] at this; omega

/-- **progress, input side**: unless an earlier flush is still stuck in `outBuff`, a call that is offered input takes at least one
byte of it, even without any output room -/
theorem progress_in (co : Nat → Nat) (s : State) (inSize outSize : Nat) (endOp : EndOp) (h : Inv s)
    (hf : s.streamStage ≠ .flush) (hin : 0 < inSize) : 0 < (step co s inSize outSize endOp).2.consumed := by
  obtain ⟨s1, l1, he, hi, hdl, hk, hp1, hp2, hp3⟩ := step_spec co s inSize outSize endOp h
  simp only [he, finish]
  have hl : (entry s endOp inSize).streamStage = .load := by
    by_cases hs : s.streamStage = .init
    · exact (entry_of_init s endOp inSize hs).1
    · rw [entry_of_not_init s endOp inSize hs]
      cases hx : s.streamStage with
      | init => exact absurd hx hs
      | load => rfl
      | flush => exact absurd hx hf
  have := hp1 hl hin; simp only [] at this; omega

/-- **end_zero_iff_frame_complete**: a call with e_end returns 0 exactly when the frame is complete: the last chunk went through
`ZSTD_compressEnd_public` (`frameEnded`: last block and epilogue are part of that chunk's output), the session has been reset
(`streamStage = zcss_init`: the next call starts a new frame), and — by `ret_zero_iff_all_emitted` / `flush_complete` — every byte
of it has been written to the caller. -/
theorem end_zero_iff_frame_complete (co : Nat → Nat) (s : State) (inSize outSize : Nat) (h : Inv s) :
    (step co s inSize outSize .eEnd).2.ret = .val 0 ↔
      ((step co s inSize outSize .eEnd).1.streamStage = .init ∧ (step co s inSize outSize .eEnd).1.frameEnded = true) := by
  obtain ⟨s1, l1, he, hi, hdl, hk, _⟩ := step_spec co s inSize outSize .eEnd h
  simp only [he, finish]
  constructor
  · intro hz
    rcases hk with hk | hk | hk | hk
    · injection hz with hz; omega
    · cases hk.1
    · cases hk.1
    · exact ⟨hk.1, hk.2.1⟩
  · intro ⟨a, _⟩
    obtain ⟨x, y, _⟩ := hi.out_load (by simp [a])
    rw [x, y]

/-- **chunks_le_blockSize**: every chunk the machine takes from `inBuff` is at most `blockSize` bytes long — `blockSize + 1` for
the first chunk of a frame whose pledged size equals the block size, which is how far `inBuffTarget` is set then — and is not empty
unless it is the final chunk of the frame.  (The single-pass shortcut hands the whole remaining input of the call to
`ZSTD_compressEnd_public` as one chunk: `buffered = false`, not bounded by the block size.) -/
theorem chunks_le_blockSize (co : Nat → Nat) (s : State) (inSize outSize : Nat) (endOp : EndOp) (h : Inv s)
    (idx srcAt srcSize outAt cSize : Nat) (last : Bool)
    (hm : Event.chunk idx srcAt srcSize outAt cSize last true ∈ (step co s inSize outSize endOp).2.events) :
    srcSize ≤ Bof (entry s endOp inSize) ∧ srcSize ≤ (step co s inSize outSize endOp).1.blockSize + 1 ∧
    (last = false → 0 < srcSize) := by
  obtain ⟨s1, l1, he, hi, hdl, hk, _⟩ := step_spec co s inSize outSize endOp h
  rw [he] at hm ⊢
  have hok := hdl.ev_ok (by intro e he; cases he) _ hm
  have hb := Bof_le (entry s endOp inSize)
  have hbs := hdl.blk_same
  obtain ⟨a, b⟩ := hok
  exact ⟨a, by simp only [finish]; omega, b⟩

/-- **the input size hint** (`ZSTD_nextInputSizeHint`, what `ZSTD_compressStream` returns): inside a frame it is positive, at most a
block (plus one, see `Bof`), and exactly what is missing to fill the block being gathered in `inBuff` -/
theorem hint_bounds (s : State) (h : Inv s) (hs : s.streamStage ≠ .init) :
    0 < nextInputSizeHint s ∧ nextInputSizeHint s ≤ Bof s ∧ s.inBuffPos + nextInputSizeHint s = s.inBuffTarget := by
  obtain ⟨hi, _⟩ := h
  have a := hi.pos_lt hs; have b := hi.bnd hs; have c := hi.toC_le
  unfold nextInputSizeHint
  simp only []
  rw [if_neg (by omega)]
  omega

/-- without a pledge (or with a pledged size different from the block size) the bound is the block size itself -/
theorem Bof_eq (s : State) (h : s.blockSize ≠ pledgedOf s.pledgedSrcSizePlusOne) : Bof s = s.blockSize := by
  unfold Bof; rw [if_neg h]; rfl

example : (step (fun _ => 20) (State.start 10 0 none) 5 100 .eEnd).2.ret = .val 0 := by decide
example : (step (fun _ => 20) (State.start 10 0 none) 5 7 .eEnd).2.ret = .val 13 := by decide
example : (step (fun _ => 20) (State.start 10 0 none) 2000 7 .eFlush).2.consumed = 1024 := by decide



/-! ## `frameEnded` is the flag of the most recent chunk -/

/-- the `last` flag of the most recent chunk event (`d` when there is none) -/
def lastFlag (d : Bool) : List Event → Bool
  | [] => d
  | .chunk _ _ _ _ _ last _ :: es => lastFlag last es
  | _ :: es => lastFlag d es

theorem lastFlag_append (d : Bool) (a b : List Event) : lastFlag d (a ++ b) = lastFlag (lastFlag d a) b := by
  induction a generalizing d with
  | nil => rfl
  | cons e es ih => cases e <;> simp [lastFlag, ih]

def FlagPost (f0 : Bool) : Out → Prop
  | .cont s1 l1 => s1.frameEnded = lastFlag f0 l1.events
  | .stop s1 l1 => s1.frameEnded = lastFlag f0 l1.events
  | .fail _ _ => True

theorem stFlush_flag (f0 : Bool) (s : State) (l : Loc) (outSize : Nat) (h : s.frameEnded = lastFlag f0 l.events) :
    FlagPost f0 (stFlush s l outSize) := by
  unfold stFlush
  simp only []
  split
  · simp [FlagPost, lastFlag_append, lastFlag, h]
  · split <;> simp [FlagPost, resetSession, lastFlag_append, lastFlag, h]

theorem micro_flag (co : Nat → Nat) (f0 : Bool) (s : State) (l : Loc) (inSize outSize : Nat) (flushMode : EndOp)
    (h : s.frameEnded = lastFlag f0 l.events) : FlagPost f0 (micro co s l inSize outSize flushMode) := by
  unfold micro
  split
  · trivial
  · unfold stLoad
    split
    · simp [shortcut, FlagPost, resetSession, lastFlag_append, lastFlag]
    · simp only []
      split
      · simp [FlagPost, lastFlag_append, lastFlag, h]
      · split
        · simp [FlagPost, lastFlag_append, lastFlag, h]
        · unfold compressChunk
          simp only []
          split
          · split <;> simp [FlagPost, resetSession, lastFlag_append, lastFlag]
          · apply stFlush_flag
            simp [lastFlag_append, lastFlag]
  · exact stFlush_flag f0 s l outSize h

theorem loop_flag (co : Nat → Nat) (f0 : Bool) (fuel : Nat) (s : State) (l : Loc) (inSize outSize : Nat) (flushMode : EndOp)
    (h : s.frameEnded = lastFlag f0 l.events) : FlagPost f0 (loop co fuel s l inSize outSize flushMode) := by
  induction fuel generalizing s l with
  | zero => trivial
  | succ fuel ih =>
    unfold loop
    have hm := micro_flag co f0 s l inSize outSize flushMode h
    generalize micro co s l inSize outSize flushMode = o at hm
    cases o with
    | cont s1 l1 => exact ih s1 l1 hm
    | stop s1 l1 => exact hm
    | fail _ _ => trivial

/-- after a call, `frameEnded` says whether the most recent chunk — of this call, or of the frame so far if the call compressed
none — went through `ZSTD_compressEnd_public` (a call that initialises a frame starts from `false`).  With
`end_zero_iff_frame_complete`: e_end returns 0 exactly when the most recent chunk of the frame was produced by
`ZSTD_compressEnd_public` (last block and epilogue included) and all of it has been written out. -/
theorem frameEnded_eq_lastFlag (co : Nat → Nat) (s : State) (inSize outSize : Nat) (endOp : EndOp) (h : Inv s) :
    (step co s inSize outSize endOp).1.frameEnded =
      lastFlag (if s.streamStage = .init then false else s.frameEnded) (step co s inSize outSize endOp).2.events := by
  obtain ⟨hpre, hfuel⟩ := entry_pre s endOp inSize h
  have hl := loop_ok co inSize (Bof (entry s endOp inSize)) outSize endOp (loopFuel inSize) _ _ hpre hfuel
  have hf := loop_flag co (if s.streamStage = .init then false else s.frameEnded) (loopFuel inSize) (entry s endOp inSize) {}
    inSize outSize endOp (by unfold entry; split <;> rfl)
  have he : step co s inSize outSize endOp =
      match loop co (loopFuel inSize) (entry s endOp inSize) {} inSize outSize endOp with
      | .stop s1 l => finish s1 l (decide (s.streamStage = .init))
      | .cont s1 l => finish s1 l (decide (s.streamStage = .init))
      | .fail s1 l => (s1, { consumed := 0, produced := 0, ret := .err, hint := 0, genericRet := 0,
                             inited := decide (s.streamStage = .init), events := l.events }) := by
    unfold step entry
    by_cases hs : s.streamStage = .init <;> simp [hs] <;>
      (generalize loop co _ _ _ _ _ _ = o; cases o <;> rfl)
  generalize loop co (loopFuel inSize) (entry s endOp inSize) {} inSize outSize endOp = o at hl he hf
  cases o with
  | stop s1 l1 => rw [he]; exact hf
  | cont _ _ => exact absurd hl id
  | fail _ _ => exact absurd hl id

end ZstdVerif.CStream
