/-
WINDOW SUFFICIENCY of sequence execution (Model/Exec.lean): what the window rule of the format buys.

A decoder which keeps only the last `w` bytes it has produced (a ring buffer of Window_Size bytes: what `ZSTD_decompressStream` allocates
from the header's Window_Descriptor, and all a memory-limited decoder can afford) cannot tell two outputs apart that agree on their last
`w` bytes.  `AgreeTail w a b` states exactly that.  The theorems below show that executing sequences preserves `AgreeTail w` as long as
every sequence obeys the window rule of `Conform.offsetOk` (match distance at most `w`, or the whole block still inside the first `w`
bytes of the frame): every byte a conformant frame regenerates is a function of the last `w` bytes only, so the limited decoder
regenerates the same content as the unlimited one.  Conversely nothing is claimed for a sequence that breaks the rule: that is the
situation the C05 / C11 checks report.

  copyMatch_window   one match copy
  step_window        one sequence (`ZSTD_execSequence`): same verdict, and on success outputs that still agree
  runSeqs_window     a whole sequence section
  run_window         `Exec.run`: sequences + last literals
-/
import ZstdVerif.Lemmas.ExecRT
namespace ZstdVerif.Exec

/-- `a` and `b` have the same length and the same last `w` bytes -/
def AgreeTail (w : Nat) (a b : ByteArray) : Prop :=
  a.size = b.size ∧ ∀ i, i < a.size → a.size ≤ i + w → a[i]! = b[i]!

theorem AgreeTail.refl (w : Nat) (a : ByteArray) : AgreeTail w a a := ⟨rfl, fun _ _ _ => rfl⟩

theorem AgreeTail.push {w : Nat} {a b : ByteArray} (h : AgreeTail w a b) (x : UInt8) : AgreeTail w (a.push x) (b.push x) := by
  refine ⟨by rw [ByteArray.size_push, ByteArray.size_push, h.1], ?_⟩
  intro i hi hw
  rw [ByteArray.size_push] at hi hw
  by_cases hlt : i < a.size
  · rw [ByteArray.getElem!_push_lt a x i hlt, ByteArray.getElem!_push_lt b x i (by rw [← h.1]; exact hlt)]
    exact h.2 i hlt (by omega)
  · have : i = a.size := by omega
    subst this
    rw [ByteArray.getElem!_push_eq, h.1, ByteArray.getElem!_push_eq]

theorem AgreeTail.append {w : Nat} {a b : ByteArray} (h : AgreeTail w a b) (l : ByteArray) : AgreeTail w (a ++ l) (b ++ l) := by
  refine ⟨by rw [ByteArray.size_append, ByteArray.size_append, h.1], ?_⟩
  intro i hi hw
  rw [ByteArray.size_append] at hi hw
  by_cases hlt : i < a.size
  · rw [bang_append_left hlt, bang_append_left (by rw [← h.1]; exact hlt)]
    exact h.2 i hlt (by omega)
  · rw [bang_append_right (by omega), bang_append_right (by rw [← h.1]; omega), h.1]

/-- **one match copy**: distance at most `w`, or everything the frame will have produced after the copy still within `w` bytes -/
theorem copyMatch_window (dict : ByteArray) (w fs off : Nat) (ml : Nat) (a b : ByteArray) (h : AgreeTail w a b) (hfs : fs ≤ a.size)
    (h1 : 1 ≤ off) (hw : off ≤ w ∨ a.size + ml - fs ≤ w) :
    AgreeTail w (copyMatch dict a fs off ml) (copyMatch dict b fs off ml) := by
  induction ml generalizing a b with
  | zero => simpa [copyMatch] using h
  | succ n ih =>
    simp only [copyMatch]
    rw [← h.1]
    split
    · rename_i hc
      -- the source byte lies in the output, `off` behind the write position: inside the agreed tail
      have hsrc : a[a.size - off]! = b[a.size - off]! := by
        apply h.2 (a.size - off) (by omega)
        rcases hw with hw | hw <;> omega
      rw [hsrc]
      have hp := h.push (b[a.size - off]!)
      have := ih (a.push b[a.size - off]!) (b.push b[a.size - off]!) hp (by rw [ByteArray.size_push]; omega)
        (by rw [ByteArray.size_push]; rcases hw with hw | hw
            · exact Or.inl hw
            · exact Or.inr (by omega))
      exact this
    · -- the source byte lies in the dictionary: the same for both
      have hp := h.push (dict[dict.size - (off - (a.size - fs))]!)
      exact ih _ _ hp (by rw [ByteArray.size_push]; omega)
        (by rw [ByteArray.size_push]; rcases hw with hw | hw
            · exact Or.inl hw
            · exact Or.inr (by omega))

/-- **one sequence** (`ZSTD_execSequence`): the verdict depends on sizes only, and on success the two outputs still agree -/
theorem step_window (dict lits : ByteArray) (w fs cap lp : Nat) (s : Seq) (a b : ByteArray) (h : AgreeTail w a b) (hfs : fs ≤ a.size)
    (h1 : 1 ≤ s.offset) (hw : s.offset ≤ w ∨ a.size + s.ll + s.ml - fs ≤ w) :
    match step dict fs cap lits a lp s, step dict fs cap lits b lp s with
    | .ok (a', p), .ok (b', q) => AgreeTail w a' b' ∧ p = q ∧ a.size ≤ a'.size
    | .error e, .error f => e = f
    | _, _ => False := by
  unfold step
  rw [← h.1]
  by_cases c1 : s.ll + s.ml > cap - a.size
  · simp [c1]
  · by_cases c2 : s.ll > lits.size - lp
    · simp [c1, c2]
    · by_cases c3 : s.offset > a.size + s.ll - fs + dict.size
      · simp [c1, c2, c3]
      · simp only [c1, c2, c3, if_false]
        have hsz : (lits.extract lp (lp + s.ll)).size = s.ll := by rw [ByteArray.size_extract]; omega
        have ha := h.append (lits.extract lp (lp + s.ll))
        have hsa : (a ++ lits.extract lp (lp + s.ll)).size = a.size + s.ll := by rw [ByteArray.size_append, hsz]
        refine ⟨copyMatch_window dict w fs s.offset s.ml _ _ ha (by omega) h1 ?_, ?_, ?_⟩
        · rcases hw with hw | hw
          · exact Or.inl hw
          · exact Or.inr (by omega)
        · first | rfl | trivial
        · rw [copyMatch_size, hsa]; omega

/-- the window rule for a whole sequence section, relative to the output size `n` at which the section starts: each sequence's
distance is at most `w`, or the frame content up to the end of that sequence still fits in `w` bytes -/
def WindowOk (w fs : Nat) : Nat → List Seq → Prop
  | _, [] => True
  | n, s :: rest => 1 ≤ s.offset ∧ (s.offset ≤ w ∨ n + s.ll + s.ml - fs ≤ w) ∧ WindowOk w fs (n + s.ll + s.ml) rest

/-- **a whole sequence section**: same verdict, and on success outputs that agree on their last `w` bytes -/
theorem runSeqs_window (dict lits : ByteArray) (w fs cap : Nat) (seqs : List Seq) (a b : ByteArray) (lp : Nat) (h : AgreeTail w a b)
    (hfs : fs ≤ a.size) (hok : WindowOk w fs a.size seqs) :
    match runSeqs dict fs cap lits a lp seqs, runSeqs dict fs cap lits b lp seqs with
    | .ok (a', p), .ok (b', q) => AgreeTail w a' b' ∧ p = q
    | .error e, .error f => e = f
    | _, _ => False := by
  induction seqs generalizing a b lp with
  | nil => simp [runSeqs, h]
  | cons s rest ih =>
    obtain ⟨h1, hw, hrest⟩ := hok
    have hs := step_window dict lits w fs cap lp s a b h hfs h1 hw
    simp only [runSeqs]
    cases ha : step dict fs cap lits a lp s with
    | error e =>
      cases hb : step dict fs cap lits b lp s with
      | error f => simpa [ha, hb] using hs
      | ok r => simp [ha, hb] at hs
    | ok r =>
      cases hb : step dict fs cap lits b lp s with
      | error f => simp [ha, hb] at hs
      | ok r' =>
        obtain ⟨a', p⟩ := r
        obtain ⟨b', q⟩ := r'
        simp only [ha, hb] at hs
        obtain ⟨hag, hpq, hge⟩ := hs
        subst hpq
        -- the size after the step is `a.size + ll + ml`
        have hsz : a'.size = a.size + s.ll + s.ml := by
          have := ha
          unfold step at this
          split at this
          · exact absurd this (by simp)
          · split at this
            · exact absurd this (by simp)
            · split at this
              · exact absurd this (by simp)
              · rename_i c1 c2 c3
                injection this with this
                injection this with h1' h2'
                rw [← h1', copyMatch_size, ByteArray.size_append, ByteArray.size_extract]
                omega
        exact ih a' b' p hag (by omega) (by rw [hsz]; exact hrest)

/-- **`Exec.run`** (the sequences, the verdict on the bit stream, the last literals): a decoder that kept only the last `w` bytes
(`b`) reaches the same verdict as the one that kept everything (`a`), and on success the outputs agree on their last `w` bytes - in
particular every byte regenerated by this block is the same whenever the block is no longer than `w` -/
theorem run_window (dict lits : ByteArray) (w fs cap : Nat) (seqs : List Seq) (chk : R Unit) (a b : ByteArray) (h : AgreeTail w a b)
    (hfs : fs ≤ a.size) (hok : WindowOk w fs a.size seqs) :
    match run dict { out := a, frameStart := fs, cap := cap } lits seqs chk, run dict { out := b, frameStart := fs, cap := cap } lits seqs chk with
    | .ok a', .ok b' => AgreeTail w a' b'
    | .error e, .error f => e = f
    | _, _ => False := by
  have hr := runSeqs_window dict lits w fs cap seqs a b 0 h hfs hok
  unfold run
  simp only
  cases ha : runSeqs dict fs cap lits a 0 seqs with
  | error e =>
    cases hb : runSeqs dict fs cap lits b 0 seqs with
    | error f => simpa [ha, hb] using hr
    | ok r => simp [ha, hb] at hr
  | ok r =>
    cases hb : runSeqs dict fs cap lits b 0 seqs with
    | error f => simp [ha, hb] at hr
    | ok r' =>
      obtain ⟨a', p⟩ := r
      obtain ⟨b', q⟩ := r'
      simp only [ha, hb] at hr
      obtain ⟨hag, hpq⟩ := hr
      subst hpq
      cases chk with
      | error e => simp
      | ok u =>
        simp only [lastLiterals]
        rw [← hag.1]
        by_cases c : lits.size - p > cap - a'.size
        · simp [c]
        · simp only [c, if_false]
          exact hag.append _

end ZstdVerif.Exec
