import ZstdVerif.Gen.Tables
import ZstdVerif.Gen.Consts
import ZstdVerif.Gen.Bounds
import ZstdVerif.Model.Params
