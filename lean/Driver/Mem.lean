import ZstdVerif.Model.Estimate
import ZstdVerif.Model.DBuf
import ZstdVerif.Model.Rep
import ZstdVerif.Model.Frame
import ZstdVerif.Model.HeaderW
import Driver.Util
/-! line-protocol driver for the memory-budget models (C14): workspace reservations / estimates, decoder buffer sizing -/
namespace Driver.Mem
open ZstdVerif ZstdVerif.Gen ZstdVerif.Cwksp ZstdVerif.Estimate ZstdVerif.DBuf

def reqStr : Req → String
  | .object n => s!"o{n}"
  | .table n => s!"t{n}"
  | .aligned n true => s!"i{n}"
  | .aligned n false => s!"a{n}"
  | .buffer n => s!"b{n}"

def parseRP (f : List Nat) : Option RP :=
  match f with
  | [wl, cl, hl, mm, st, ur, ldm, lh, lb, lm, ext, mb, isS, bi, bo, pl] =>
    some { windowLog := wl, chainLog := cl, hashLog := hl, minMatch := mm, strategy := st, useRow := ur != 0, ldm := ldm != 0, ldmHashLog := lh,
           ldmBucketSizeLog := lb, ldmMinMatch := lm, extSeq := ext != 0, maxBlockSize := mb, isStatic := isS != 0, buffIn := bi, buffOut := bo, pledged := pl }
  | _ => none

def nats (s : String) : List Nat := (s.splitOn ",").filterMap (·.toNat?)

def step (_ : Unit) (ws : List String) : Unit × String :=
  match ws with
  | ["reset", lo, size, fresh, oe, rp] =>
    match lo.toNat?, size.toNat?, fresh.toNat?, oe.toNat?, parseRP (nats rp) with
    | some lo, some size, some fresh, some oe, some p =>
      -- absolute addresses matter only modulo 64: place the workspace at 64*1024 + lo64
      let base := 65536 + lo
      let (w0, reqs) :=
        if fresh != 0 then (init base size, reserveSeq p)
        else (clear { lo := base, hi := base + size, objectEnd := base + oe, tableEnd := base + oe, allocStart := base + size, phase := 3, failed := false }, sessionReqs p)
      let (w, _, nulls) := run w0 reqs
      let tr := String.intercalate "," (reqs.map reqStr)
      ((), s!"need={estimate p} trace={tr} oe={w.objectEnd - base} te={w.tableEnd - base} as={w.allocStart - base} failed={if w.failed then 1 else 0} nulls={nulls}")
    | _, _, _, _, _ => ((), "bad-op")
  | ["estl", kind, l] => ((), toString (if kind == "cstream" then estStreamLevel l.toNat! else estLevel l.toNat!))
  | ["est", kind, cp] =>
    match nats cp with
    | [w, c, h, sl, mm, tl, st] => ((), toString (estimateUsingCParams ⟨w, c, h, sl, mm, tl, st⟩ (kind == "cstream")))
    | _ => ((), "bad-op")
  | ["rep", a, b, c, raw, l] =>
    let r : Rep.R := ⟨a.toNat!, b.toNat!, c.toNat!⟩
    let ll0 := l != "0"
    let ob := Rep.finalizeOffBase raw.toNat! r ll0
    let r' := Rep.updateRep r ob ll0
    ((), s!"{ob} {r'.r0} {r'.r1} {r'.r2}")
  | ["fhdr", wl, pl, cs, did, nd, ck, ml] =>
    let a : HeaderW.HArgs := { windowLog := wl.toNat!, pledged := pl.toNat!, contentSizeFlag := cs != "0", dictID := did.toNat!, noDictID := nd != "0",
                               checksum := ck != "0", magicless := ml != "0" }
    ((), (ByteArray.mk (HeaderW.writeHeader a).toArray).toHex)
  | ["codes", ll, ml] => ((), s!"{Rep.llCode ll.toNat!} {Rep.mlCode ml.toNat!}")
  | "dseq" :: out :: whole :: frames =>
    -- dseq <first output room> <whole stream in the first call 0|1> <hex frame> ... : buffer sizes after each frame through one context
    let needs : List (Option (Nat × Nat)) := frames.map (fun h =>
      let b := ByteArray.ofHex h
      match Frame.getHeader b 0 b.size false with
      | .ok hd =>
        let bsm := hd.blockSizeMax
        if singlePassOk hd.fcs out.toNat! (whole == "1") then none
        else some (max bsm 4, decodingBufferSize (effectiveWindow hd.windowSize) hd.fcs bsm)
      | _ => none)
    ((), ",".intercalate ((bufSeq {} needs).map (fun b => s!"{b.inSize}:{b.outSize}")))
  | ["dbuf", hw, fcs, bsm, wmax, out, whole] =>
    match hw.toNat?, fcs.toInt?, bsm.toNat?, wmax.toNat?, out.toNat? with
    | some hw, some fcs, some bsm, some wmax, some out =>
      let f : Option Nat := if fcs < 0 then none else some fcs.toNat
      let v := loadHeader hw f bsm wmax out (whole == "1")
      let vs := match v with
        | .singlePass => "single"
        | .buffered _ _ => "buffered"
        | .refused => "refused"
      ((), s!"verdict={vs} held={held v} est={estimateBuffers wmax}")
    | _, _, _, _, _ => ((), "bad-op")
  | ["dhdr", frame, wmax, out, whole] =>
    -- dhdr <hex frame (header first)> <window limit> <first output room> <whole frame in the first call 0|1> : the model reads the header itself
    -- (window descriptor / single-segment content size of any width) and decides; a descriptor above ZSTD_WINDOWLOG_MAX is refused by the parser
    let b := ByteArray.ofHex frame
    match Frame.getHeader b 0 b.size false, wmax.toNat?, out.toNat? with
    | .ok hd, some wmax, some out =>
      let v := loadHeader hd.windowSize hd.fcs hd.blockSizeMax wmax out (whole == "1")
      let vs := match v with
        | .singlePass => "single"
        | .buffered _ _ => "buffered"
        | .refused => "refused"
      let fs := match hd.fcs with
        | some n => toString n
        | none => "-"
      ((), s!"verdict={vs} held={held v} est={estimateBuffers wmax} window={hd.windowSize} fcs={fs} bsm={hd.blockSizeMax}")
    | .err .windowTooLarge, some wmax, _ => ((), s!"verdict=refused held=0 est={estimateBuffers wmax} window=descriptor-above-max fcs=- bsm=0")
    | .need n, _, _ => ((), s!"verdict=need-{n}")
    | _, _, _ => ((), "verdict=header-error")
  | ["cov", kind, cp, rp] =>
    -- cov <cctx|cstream> <w,c,h,s,mm,tl,strat> <applied parameters as in `reset`> : hypothesis of usingCParams_covers on this run + both sides of its conclusion
    match nats cp, parseRP (nats rp) with
    | [w, c, h, sl, mm, tl, st], some p =>
      let cpar : CPar := ⟨w, c, h, sl, mm, tl, st⟩
      let stream := kind == "cstream"
      ((), s!"le={if leB p (rpOfCParams cpar p.useRow stream) || leLB p (rpOfCParams cpar p.useRow stream) then 1 else 0} need={estimate p} pub={estimateUsingCParams cpar stream}")
    | _, _ => ((), "bad-op")
  | ["covp", kind, mode, cp, rp] =>
    -- covp <cctx|cstream> <0 auto|1 enable|2 disable> <w,c,h,s,mm,tl,strat> <applied parameters> : hypotheses of usingCCtxParams_covers on this run
    -- (domination, flavour covered) + both sides of its conclusion
    match nats cp, parseRP (nats rp) with
    | [w, c, h, sl, mm, tl, st], some p =>
      let cpar : CPar := ⟨w, c, h, sl, mm, tl, st⟩
      let stream := kind == "cstream"
      let m : RowMode := if mode == "1" then .enable else if mode == "2" then .disable else .auto
      ((), s!"le={if leB p (rpOfCCtxParams cpar m p.useRow stream) || leLB p (rpOfCCtxParams cpar m p.useRow stream) then 1 else 0} fl={if flavourCovered cpar m stream p.useRow then 1 else 0} need={estimate p} pub={estimateUsingCCtxParams cpar m stream}")
    | _, _ => ((), "bad-op")
  | _ => ((), "bad-op")

def main : IO Unit := do
  lineLoop (← IO.getStdin) (← IO.getStdout) () step

end Driver.Mem
