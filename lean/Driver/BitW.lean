import ZstdVerif.Model.BitW
import ZstdVerif.Model.Bits
import Driver.Util
/-! `bitw <policy>[f] v1:n1,v2:n2,...` : the forward bit writer model under the flush schedule of harness/zvh_bitw.c,
printed as hex, followed by ` rt=ok` when (a) the scheduled run equals the canonical `BitW.ofFields` and (b) the
backward reader model `BitR` reads the fields back in reverse order and ends exactly at the start of the stream. -/
namespace Driver.BitW
open ZstdVerif

def parseField (t : String) : Option (Nat × Nat) :=
  match t.splitOn ":" with
  | [v, n] => match v.toNat?, n.toNat? with
    | some v, some n => if n ≤ 56 ∧ v < 2 ^ 64 then some (v, n) else none
    | _, _ => none
  | _ => none

def parsePolicy (t : String) : Option Nat :=
  if t.endsWith "f" then (t.dropEnd 1).toString.toNat? else t.toNat?

/-- the schedule of zvh_bitw.c: forced flush before an add that would exceed 56 register bits, BIT_addBits for
widths ≤ 31 and BIT_addBitsFast (cleaned value) above, policy flush after the add -/
def schedule (policy : Nat) (fs : List (Nat × Nat)) : BitW :=
  let w := fs.foldl (fun (w : BitW) (f : Nat × Nat) =>
    let w := if w.bitPos + f.2 > 56 then w.flush else w
    let w := if f.2 ≤ 31 then w.addBits f.1 f.2 else w.addBitsFast (f.1 &&& ((1 <<< f.2) - 1)) f.2
    if w.bitPos ≥ policy then w.flush else w) BitW.init
  if w.bitPos + 1 > 56 then w.flush else w

/-- read the widths back to front with the reader model; true iff the values come back and the stream ends bit-exact -/
def readBack (b : Bytes) (fs : List (Nat × Nat)) : Bool :=
  match BitR.init b 0 b.size with
  | .error _ => false
  | .ok r0 =>
    let (ok, r) := fs.reverse.foldl (fun (acc : Bool × BitR) (f : Nat × Nat) =>
      let (v, r) := acc.2.read f.2
      (acc.1 && v == f.1 % 2 ^ f.2 && !r.over, r)) (true, r0)
    ok && r.atEnd

def step (_ : Unit) (ws : List String) : Unit × String :=
  match ws with
  | "bitw" :: pol :: rest =>
    let toks := match rest with
      | [] => some []
      | ["-"] => some []
      | [fl] => some ((fl.splitOn ",").filter (· ≠ ""))
      | _ => none
    match parsePolicy pol, toks.bind (·.mapM parseField) with
    | some policy, some fs =>
      let b := (schedule policy fs).close
      let hex := if b.size = 0 then "-" else b.toHex
      let canon := BitW.ofFields fs
      let ok := canon.data == b.data && readBack b fs
      ((), hex ++ (if ok then " rt=ok" else " rt=FAIL"))
    | _, _ => ((), "bad-op")
  | _ => ((), "bad-op")

def main : IO Unit := do
  lineLoop (← IO.getStdin) (← IO.getStdout) () step

end Driver.BitW
