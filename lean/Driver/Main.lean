import Driver.Params
import Driver.Pool
import Driver.Dec
import Driver.Mem
import Driver.Ledger
import Driver.MTProto
import Driver.Train
import Driver.Cli
import Driver.BitW
import Driver.FSEEnc
import Driver.HufEnc
import Driver.LitEnc
import Driver.SeqEnc
import Driver.DStream
import Driver.Serialize
import Driver.BlockEnc
import Driver.CStream
import Driver.Wear
import Driver.SeqProd
import Driver.WindowUpd

def main (args : List String) : IO UInt32 := do
  match args with
  | ["params"] => Driver.Params.main; return 0
  | ["pool"] => Driver.Pool.main; return 0
  | ["dec"] => Driver.Dec.main; return 0
  | ["mem"] => Driver.Mem.main; return 0
  | ["ledger"] => Driver.Ledger.main; return 0
  | ["mtproto"] => Driver.MTProto.main; return 0
  | ["train"] => Driver.Train.main; return 0
  | ["cli"] => Driver.Cli.main; return 0
  | ["bitw"] => Driver.BitW.main; return 0
  | ["fseenc"] => Driver.FSEEnc.main; return 0
  | ["hufenc"] => Driver.HufEnc.main; return 0
  | ["litenc"] => Driver.LitEnc.main; return 0
  | ["seqenc"] => Driver.SeqEnc.main; return 0
  | ["dstream"] => Driver.DStream.main; return 0
  | ["serialize"] => Driver.Serialize.main; return 0
  | ["blockenc"] => Driver.BlockEnc.main; return 0
  | ["cstream"] => Driver.CStream.main; return 0
  | ["wear"] => Driver.Wear.main; return 0
  | ["seqprod"] => Driver.SeqProd.main; return 0
  | ["windowupd"] => Driver.WindowUpd.main; return 0
  | _ => IO.eprintln "usage: zvdriver <model>"; return 2
