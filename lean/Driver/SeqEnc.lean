import ZstdVerif.Model.SeqEnc
import ZstdVerif.Model.Block
import Driver.Util
/-
Line-protocol driver of the sequences-section encoder model (Model/SeqEnc.lean) and, on its output, of the sequence decoder model
(Model/Block.lean: `Block.decodeSeqs`); the C side is harness/zvh_seqenc.c, the differential check tools/ent_seq.py.

  seqenc <tLL>,<tOF>,<tML> <specLL> <specOF> <specML> <litLength:mlBase:offBase,...>
      t = b (predefined tables, spec `-`) | r (RLE, spec = the symbol) | c (compressed, spec = <tableLog>:<c0,c1,...>)
  -> ok <hex of the bit stream> rt=ok|FAIL hyp=ok|FAIL
     rt  = the bytes, decoded the way `Block.prepare` decodes them (BitR.init, three state reads, `Block.decodeSeqs`), give back
           (litLength, mlBase + 3, offBase) of every sequence and the reader ends `atEnd`;
     hyp = the hypotheses of `SeqRT.seq_section_roundtrip` hold for this op: every `c` table is normalised (`NormOK`), the encoder's
           spreading respects the counts (`spreadOK`) and equals the decoder's (`inverts_build`), `tableLog ≤ 14`, values in range.
  `err usage` when the line is malformed, a `c` distribution is not normalised, or a code has probability 0 in its table.
-/
namespace Driver.SeqEnc
open ZstdVerif ZstdVerif.Gen ZstdVerif.SeqEnc

structure Table where
  ct : FSE.CTable
  dt : Array SeqCell
  log : Nat
  /-- symbols the table can encode -/
  ok : Nat → Bool
  /-- hypotheses of the round-trip theorem that are checked at run time -/
  hyp : Bool

def parseInts (s : String) : Option (Array Int) :=
  (s.splitOn ",").foldl (fun acc t => match acc, t.toInt? with
    | some a, some x => some (a.push x)
    | _, _ => none) (some #[])

/-- `FSE.NormOK` (Lemmas/FSERT.lean) as a run-time check -/
def normOK (norm : Array Int) (log : Nat) : Bool :=
  1 ≤ log && norm.all (fun c => -1 ≤ c) && ((List.range norm.size).map (FSE.cnt norm)).sum == 2 ^ log

def fseTable (norm : Array Int) (log : Nat) (dt : Array SeqCell) : Table :=
  let se := FSE.spreadEnc norm log
  { ct := FSE.ctableOf se norm log, dt := dt, log := log, ok := fun s => s < norm.size && norm[s]! != 0,
    hyp := normOK norm log && log ≤ 14 && FSE.spreadOK se norm log && se == FSE.spread norm log }

/-- which = 0 LL, 1 OF, 2 ML -/
def mkTable (which : Nat) (ty spec : String) : Option Table :=
  let (base, bits, maxSym, maxLog) :=
    if which == 0 then (LL_base, LL_bits, MaxLL, LLFSELog) else if which == 1 then (OF_base, OF_bits, MaxOff, OffFSELog)
    else (ML_base, ML_bits, MaxML, MLFSELog)
  if ty == "b" then
    if spec != "-" then none else
    if which == 0 then some (fseTable LL_defaultNorm.toArray LL_DEFAULTNORMLOG LL_defaultDTable.toArray)
    else if which == 1 then some (fseTable OF_defaultNorm.toArray OF_DEFAULTNORMLOG OF_defaultDTable.toArray)
    else some (fseTable ML_defaultNorm.toArray ML_DEFAULTNORMLOG ML_defaultDTable.toArray)
  else if ty == "r" then
    match spec.toNat? with
    | some sym => if sym > maxSym then none else
        some { ct := rleCTable sym, dt := FSE.rleSeqTable sym base bits, log := 0, ok := fun s => s == sym, hyp := true }
    | none => none
  else if ty == "c" then
    match spec.splitOn ":" with
    | [l, cs] =>
      match l.toNat?, parseInts cs with
      | some log, some norm =>
        if norm.size == 0 || norm.size > maxSym + 1 || log < FSE_MIN_TABLELOG || log > maxLog || !normOK norm log then none
        else some (fseTable norm log (FSE.buildSeqTable norm log base bits))
      | _, _ => none
    | _ => none
  else none

def parseSeq (t : String) : Option SeqIn :=
  match t.splitOn ":" with
  | [a, b, c] => match a.toNat?, b.toNat?, c.toNat? with
    | some ll, some ml, some ob => if ll < 0x20000 ∧ ml < 0x20000 ∧ 1 ≤ ob ∧ ob < 2 ^ 32 then some ⟨ll, ml, ob⟩ else none
    | _, _, _ => none
  | _ => none

/-- decode the bytes as `Block.prepare` does and compare with the input -/
def readBack (tLL tOF tML : Table) (b : Bytes) (seqs : List SeqIn) : Bool :=
  match BitR.init b 0 b.size with
  | .error _ => false
  | .ok r0 =>
    let (sLL0, r1) := r0.read tLL.log
    let (sOF0, r2) := r1.read tOF.log
    let (sML0, r3) := r2.read tML.log
    let sd := Block.decodeSeqs tLL.dt tOF.dt tML.dt seqs.length sLL0 sOF0 sML0 r3 #[1, 4, 8]
    sd.r.atEnd && sd.seqs.toList.map (fun q => (q.ll, q.ml, q.ofValue)) == seqs.map (fun s => (s.litLength, s.mlBase + 3, s.offBase))

def seqencLine (types : String) (specs : List String) (seqStr : String) : String :=
  match types.splitOn ",", specs with
  | [t0, t1, t2], [s0, s1, s2] =>
    match mkTable 0 t0 s0, mkTable 1 t1 s1, mkTable 2 t2 s2, ((seqStr.splitOn ",").mapM parseSeq) with
    | some tLL, some tOF, some tML, some seqs =>
      let long := (seqs.filter (fun s => s.litLength > 0xFFFF || s.mlBase > 0xFFFF)).length
      let both := seqs.any (fun s => s.litLength > 0xFFFF && s.mlBase > 0xFFFF)
      if seqs.isEmpty || long > 1 || both ||
          seqs.any (fun s => let c := codesOf s; !(tLL.ok c.ll && tOF.ok c.of && tML.ok c.ml)) then "err usage" else
      let b := encodeSeqBytes tLL.ct tOF.ct tML.ct seqs
      let rt := readBack tLL tOF tML b seqs
      -- `InRange` of the theorem: lengths below 2^17 and offBase a non-zero U32 are enforced by `parseSeq`
      let hyp := tLL.hyp && tOF.hyp && tML.hyp
      s!"ok {b.toHex} rt={if rt then "ok" else "FAIL"} hyp={if hyp then "ok" else "FAIL"}"
    | _, _, _, _ => "err usage"
  | _, _ => "err usage"

def step (_ : Unit) (ws : List String) : Unit × String :=
  match ws with
  | ["seqenc", types, s0, s1, s2, seqs] => ((), seqencLine types [s0, s1, s2] seqs)
  | "seqenc" :: _ => ((), "err usage")
  | _ => ((), "err unknown-op")

def main : IO Unit := do
  Driver.lineLoop (← IO.getStdin) (← IO.getStdout) () step

end Driver.SeqEnc
