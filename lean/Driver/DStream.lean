import ZstdVerif.Model.Frame
import ZstdVerif.Model.DStream
import Driver.Util
/-!
`zvdriver dstream` — the deterministic model of `ZSTD_decompressStream` (Model/DStream.lean) run on the ops of harness/zvh_dstream.c:
  ds <cap> <hex stream> <in sizes csv> <out sizes csv> [limit] [windowLogMax]
The stream is parsed with the independent decoder (`Frame.decompressAll`); its traces give the frame descriptions the model is
parameterised by.  One ` consumed:produced:ret` triple per call, exactly as the harness prints them.
-/
namespace Driver.DStream
open ZstdVerif ZstdVerif.DStream

def blockOf (b : Frame.BlockTrace) : BlockD :=
  { ty := if b.hdr.ty == 0 then .raw else if b.hdr.ty == 1 then .rle else .compressed,
    cSize := b.hdr.cSize, regen := b.regen, last := b.hdr.last }

def frameOf (t : Frame.FrameTrace) : FrameD :=
  if t.hdr.skippable then
    { skippable := true, headerSize := 8, blocks := [], checksum := false, fcs := some (t.size - 8), windowSize := 0, blockSizeMax := 0,
      payload := t.size - 8 }
  else
    { skippable := false, headerSize := t.hdr.headerSize, blocks := t.blocks.toList.map blockOf, checksum := t.hdr.checksum, fcs := t.hdr.fcs,
      windowSize := t.hdr.windowSize, blockSizeMax := t.hdr.blockSizeMax, payload := 0 }

/-- `none` = the size `h` (the previous return value) -/
def parseList (s : String) : Array (Option Nat) :=
  ((s.splitOn ",").filter (· ≠ "")).toArray.map (fun t => if t.startsWith "h" then none else some t.toNat!)

def retStr : Ret → String
  | .err e => "E" ++ e.name
  | .hint n => toString n

structure Run where
  s : State
  consumed : Nat := 0
  produced : Nat := 0
  r : Nat := 5
  left : Nat := 0
  idle : Nat := 0
  out : Array String := #[]

/-- the call loop of harness/zvh_dstream.c -/
def runCalls (ic oc : Array (Option Nat)) (limit cap : Nat) : Nat → Nat → Run → Run
  | 0, _, st => st
  | fuel + 1, calls, st =>
    let isz0 := match ic[calls % ic.size]! with
      | some n => n
      | none => if st.left ≠ 0 then st.left else if st.r ≠ 0 then st.r else 5
    let isz := min isz0 (limit - st.consumed)
    let osz := min ((oc[calls % oc.size]!).getD 0) (cap - st.produced)
    let (s1, c) := DStream.step st.s isz osz
    let o := st.out.push s!" {c.consumed}:{c.produced}:{retStr c.ret}"
    match c.ret with
    | .err _ => { st with s := s1, out := o }
    | .hint r =>
      let idle := if c.consumed == 0 && c.produced == 0 then st.idle + 1 else 0
      let st1 : Run := { s := s1, consumed := st.consumed + c.consumed, produced := st.produced + c.produced, r := r, left := isz - c.consumed,
                         idle := idle, out := o }
      if idle ≥ 20 then st1 else runCalls ic oc limit cap fuel (calls + 1) st1

def ds (cap : Nat) (hx ins outs : String) (limit? wl? : Option Nat) : String :=
  let b := if hx == "-" then ByteArray.empty else ByteArray.ofHex hx
  match Frame.decompressAll b {} (1 <<< 30) with
  | .error e => s!"parse-err {e.cls}"
  | .ok (_, trs) =>
    let frames := trs.toList.map frameOf
    if !frames.all FrameD.ok then "invalid-parse" else
    let ic := parseList ins
    let oc := parseList outs
    if ic.size == 0 || oc.size == 0 then "ds" else
    let limit := min (limit?.getD b.size) b.size
    let s0 : State := { State.start frames with maxWindowSize := match wl? with | some w => 1 <<< w | none => ZSTD_MAXWINDOWSIZE_DEFAULT }
    let r := runCalls ic oc limit cap 3000000 0 { s := s0 }
    "ds" ++ String.join r.out.toList

def step (_ : Unit) (ws : List String) : Unit × String :=
  match ws with
  | ["ds", cap, hx, ins, outs] => ((), ds cap.toNat! hx ins outs none none)
  | ["ds", cap, hx, ins, outs, lim] => ((), ds cap.toNat! hx ins outs (some lim.toNat!) none)
  | ["ds", cap, hx, ins, outs, lim, wl] => ((), ds cap.toNat! hx ins outs (some lim.toNat!) (some wl.toNat!))
  | _ => ((), "unknown-op")

def main : IO Unit := do
  let stdin ← IO.getStdin
  let stdout ← IO.getStdout
  Driver.lineLoop stdin stdout () step

end Driver.DStream
