import ZstdVerif.Model.Block
import ZstdVerif.Model.LitEnc
import Driver.Util
/-!
`zvdriver litenc`: the literals-section WRITER model (Model/LitEnc.lean) against harness/zvh_litenc.c, and the decoder model
(`Block.decodeLiterals`) on the model's own output.
  raw <hex literals>                                   -> section=<hex> rt=ok|FAIL:..
  rle <hex literals>                                   -> section=<hex> rt=ok|FAIL:..
  huf <tableLog> <w0,w1,..> <hex tree|-> <hex literals> -> section=<hex|none> form=direct|given rt=ok|FAIL:..|-
        weights of symbols 0..maxSymbolValue (from the library's code lengths); tree description `-` = the model's direct form
        (LitEnc.directWeights), otherwise the library's own tree description bytes (FSE-compressed weights) are placed in the section
  huf4 <tableLog> <w0,w1,..> <hex literals>            -> same as huf with the direct tree description, but always FOUR streams
  dec <hex section> <hex literals>                     -> rt=ok|FAIL:..   (`Block.decodeLiterals` on the library's section)
The section is decoded followed by one more byte (the start of the sequences section), as inside a block.
-/
namespace Driver.LitEnc
open ZstdVerif

def parseWeights (s : String) : Array Nat := ((s.splitOn ",").filter (· ≠ "")).toArray.map String.toNat!

def unhex (hx : String) : ByteArray := if hx == "-" then ByteArray.empty else ByteArray.ofHex hx

def hex (b : ByteArray) : String := if b.size == 0 then "-" else b.toHex

/-- `Block.decodeLiterals` on `sec ++ [0]`: must regenerate `lits` and consume exactly the section -/
def roundTrip (sec lits : ByteArray) (mode : Block.LitMode) : String :=
  let src := sec.push 0
  let bsm := max (1 <<< 17) lits.size
  match Block.decodeLiterals src 0 src.size {} bsm bsm with
  | .ok r =>
    if r.lits != lits then "FAIL:literals"
    else if r.used != sec.size then s!"FAIL:used={r.used}"
    else if r.mode != mode then "FAIL:mode"
    else "ok"
  | .error e => s!"FAIL:{e.cls}"

def step (_ : Unit) (ws : List String) : Unit × String :=
  match ws with
  | ["raw", hx] =>
      let lits := unhex hx
      let sec := LitEnc.rawLiterals lits
      ((), s!"section={hex sec} rt={roundTrip sec lits .raw}")
  | ["rle", hx] =>
      let lits := unhex hx
      let sec := LitEnc.rleLiterals lits
      ((), s!"section={hex sec} rt={roundTrip sec lits .rle}")
  | ["huf", lg, wstr, tree, hx] =>
      let weights := parseWeights wstr
      let log := lg.toNat!
      let src := unhex hx
      let lits := src.toList.map UInt8.toNat
      if tree == "-" then
        match LitEnc.hufLiterals weights log lits with
        | some sec => ((), s!"section={hex sec} form=direct rt={roundTrip sec src .compressed}")
        | none => ((), "section=none form=direct rt=-")
      else
        let single := decide (lits.length < 256)
        match LitEnc.hufStreams single (HufEnc.codesOf weights log) lits with
        | some streams =>
          let sec := LitEnc.compressedLiterals single (unhex tree) streams lits.length
          ((), s!"section={hex sec} form=given rt={roundTrip sec src .compressed}")
        | none => ((), "section=none form=given rt=-")
  | ["huf4", lg, wstr, hx] =>
      -- four streams whatever the size (the format allows them from 6 literals on; the bundled compressor only uses them from 256)
      let weights := parseWeights wstr
      let src := unhex hx
      let lits := src.toList.map UInt8.toNat
      let codes := HufEnc.codesOf weights lg.toNat!
      let (s1, s2, s3, s4) := HufEnc.segments lits
      let w := fun (sg : List Nat) => BitW.ofFields (HufEnc.encode1 codes sg)
      match LitEnc.directWeights weights.toList.dropLast, HufEnc.layout4 (w s1) (w s2) (w s3) (w s4) with
      | some hdr, some streams =>
        let sec := LitEnc.compressedLiterals false hdr streams lits.length
        -- the same streams behind a "repeat the previous table" header (for a later block of the same frame)
        let rep := LitEnc.compressedLiterals false ByteArray.empty streams lits.length LitEnc.set_repeat
        ((), s!"section={hex sec} form=direct4 rt={roundTrip sec src .compressed} treeless={hex rep}")
      | _, _ => ((), "section=none form=direct4 rt=-")
  | ["dec", shx, hx] =>
      let sec := unhex shx
      let lits := unhex hx
      let mode : Block.LitMode := match sec.u8 0 &&& 3 with
        | 0 => .raw | 1 => .rle | 2 => .compressed | _ => .treeless
      ((), s!"rt={roundTrip sec lits mode}")
  | _ => ((), "err unknown-op")

def main : IO Unit := do
  let stdin ← IO.getStdin
  let stdout ← IO.getStdout
  Driver.lineLoop stdin stdout () step

end Driver.LitEnc
