import ZstdVerif.Model.Train
import Driver.Util
/-! driver for the training-contract models (C18) -/
namespace Driver.Train
open ZstdVerif.Train

def replayBest (toks : List String) : String := Id.run do
  let mut s : Best := {}
  let mut active := false
  let mut nextId := 0
  let mut pending : List Nat := []
  let mut idx := 0
  let mut holders := 0
  for t in toks do
    let ws := (t.trimAscii.toString.splitOn " ").filter (· ≠ "")
    idx := idx + 1
    match ws with
    | [] => pure ()
    | ["best-init"] => s := {}; active := true; pending := []; holders := holders + 1
    | ["dispatch"] =>
      match bstep s (.dispatch nextId) with
      | some s' => s := s'; pending := pending ++ [nextId]; nextId := nextId + 1
      | none => return s!"REJECT event {idx}: dispatch not allowed"
    | ["finish", sz] =>
      match pending with
      | j :: rest =>
        match bstep s (.finish j sz.toNat!) with
        | some s' => s := { s' with finished := [] , dispatched := s'.dispatched.erase j }; pending := rest
        | none => return s!"REJECT event {idx}: finish with live={s.live}"
      | [] => return s!"REJECT event {idx}: a job finished that the dispatcher never counted in"
    | ["waitret"] =>
      match bstep s .waitReturn with
      | some _ => pure ()
      | none => return s!"REJECT event {idx}: COVER_best_wait returned with {s.live} live jobs"
    | _ => return s!"REJECT event {idx}: '{t}' is not an event of the result-holder protocol (a job must be counted in by the dispatching thread before it is handed over)"
  return s!"accept holders={holders} jobs={nextId}"

def step (_ : Unit) (ws : List String) : Unit × String :=
  match ws with
  | "best" :: rest => ((), replayBest ((" ".intercalate rest).splitOn ";"))
  | ["fin", h, c, cap] =>
    match finalizeLayout h.toNat! c.toNat! cap.toNat! with
    | some (a, b, k) => ((), s!"some {a} {b} {k}")
    | none => ((), "none")
  | ["cid", x] => ((), toString (compliantID x.toNat!))
  | ["cparams", k, d, sn, sd, cap] => ((), if coverParamsOk k.toNat! d.toNat! sn.toInt! sd.toInt! cap.toNat! then "1" else "0")
  | ["fparams", k, d, sn, sd, cap, f, a] => ((), if fastCoverParamsOk k.toNat! d.toNat! sn.toInt! sd.toInt! cap.toNat! f.toNat! a.toNat! then "1" else "0")
  | ["epochs", cap, n, k, p] =>
    match computeEpochs cap.toNat! n.toNat! k.toNat! p.toNat! with
    | some (a, b) => ((), s!"{a} {b}")
    | none => ((), "undefined")
  | ["ctxinit", total, t, nt, ns, d] =>
    match ctxInit total.toNat! t.toNat! nt.toNat! ns.toNat! d.toNat! with
    | some n => ((), s!"ok {n}")
    | none => ((), "err")
  | ["dins", m, ss] =>
    -- ZDICT_insertDictItem (no merge): savings s_0, s_1, .. inserted in this order into a table of m slots; answer = table->pos and the used slots in rank order
    let es := (if ss == "-" then [] else ss.splitOn ",").zipIdx.map (fun (v, i) => ({ id := i, savings := v.toNat! } : DictItem))
    let t := insertAll m.toNat! es
    ((), s!"pos={t.length + 1} items=" ++ (if t.isEmpty then "-" else ",".intercalate (t.map (fun x => s!"{x.id}:{x.savings}"))))
  | _ => ((), "bad-op")

def main : IO Unit := do
  Driver.lineLoop (← IO.getStdin) (← IO.getStdout) () step

end Driver.Train
