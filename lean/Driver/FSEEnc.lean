import ZstdVerif.Model.FSEEnc
import ZstdVerif.Model.NCountW
import Driver.Util
/-
Line-protocol driver of the FSE encoder model (Model/FSEEnc.lean) and of the FSE decoding-table model (Model/FSE.lean); the C side
is harness/zvh_fseenc.c, the differential check tools/ent_fse.py.
  ctable <tableLog> <c0,c1,...>            -> ok log=<tableLog> st=<stateTable> tt=<deltaNbBits:deltaFindState,...> spreadOK=<b> spreadEncEqDec=<b>
  dtable <tableLog> <c0,c1,...>            -> ok cells=<sym:nbBits:newState,...>
  enc <tableLog> <c0,c1,...> <s0,s1,...>   -> ok <hex of the bit stream>
  seqtableLL|seqtableOF|seqtableML <tableLog> <c0,c1,...>   -> ok cells=<nextState:nbAddBits:nbBits:baseValue,...>   (ZSTD_buildFSETable)
  ncount <tableLog> <c0,c1,...>            -> ok <hex of NCountW.writeNCount? norm tableLog>  |  err generic  (the model's `none`)
                                              FSE_writeNCount's own two guards in front of FSE_writeNCount_generic are answered here, not
                                              by the model: tableLog > FSE_MAX_TABLELOG -> err tableLog_tooLarge, < FSE_MIN_TABLELOG -> err generic
  rncount <maxSV> <hex|->                  -> ok log=<tableLog> norm=<c0,...,c_maxSVout> used=<bytes read>   (FSE.readNCount bytes 0 bytes.size maxSV)
                                              |  err <Err.cls>  (the site FSE:127 is printed as maxSymbolValue_tooSmall, the C error code there)
-/
namespace Driver.FSEEnc
open ZstdVerif

/-- comma-separated list of integers -/
def parseInts (s : String) : Option (Array Int) :=
  (s.splitOn ",").foldl (fun acc t => match acc, t.toInt? with
    | some a, some x => some (a.push x)
    | _, _ => none) (some #[])

/-- comma-separated list of naturals -/
def parseNats (s : String) : Option (List Nat) :=
  ((s.splitOn ",").foldl (fun acc t => match acc, t.toNat? with
    | some a, some x => some (a.push x)
    | _, _ => none) (some (#[] : Array Nat))).map Array.toList

def commaSep (xs : List String) : String := ",".intercalate xs

def hexDigit (n : Nat) : Char := "0123456789abcdef".toList.getD (n % 16) '0'

def hexByte (b : Nat) : String := String.ofList [hexDigit (b / 16), hexDigit b]

/-- BIT_addBits ... BIT_closeCStream on the abstract field stack (top of stack first): the fields are laid down LSB first in push
order, the end mark `1` sits just above the last field, and the stream has `ceil((totalBits + 1) / 8)` bytes (little endian). -/
def streamBytes (stack : List (Nat × Nat)) : List Nat :=
  let acc := stack.reverse.foldl (fun (a : Nat × Nat) f => (a.1 + (f.1 <<< a.2), a.2 + f.2)) (0, 0)
  let total := acc.2
  let v := acc.1 + (1 <<< total)
  (List.range ((total + 1 + 7) / 8)).map fun k => (v >>> (8 * k)) % 256

def streamHex (stack : List (Nat × Nat)) : String :=
  String.join ((streamBytes stack).map hexByte)

def ttStr (norm : Array Int) (tt : Array FSE.SymTT) : String :=
  commaSep ((List.range tt.size).map fun s =>
    let e := tt[s]!
    if norm[s]! == 0 then s!"{e.deltaNbBits}:-" else s!"{e.deltaNbBits}:{e.deltaFindState}")

def ctableLine (norm : Array Int) (log : Nat) : String :=
  let ct := FSE.buildCTable norm log
  let se := FSE.spreadEnc norm log
  let ok := FSE.spreadOK se norm log
  let eq := se == FSE.spread norm log
  s!"ok log={ct.tableLog} st={commaSep (ct.stateTable.toList.map toString)} tt={ttStr norm ct.symbolTT} spreadOK={ok} spreadEncEqDec={eq}"

def dtableLine (norm : Array Int) (log : Nat) : String :=
  let cells := FSE.buildCells norm log
  "ok cells=" ++ commaSep (cells.toList.map fun c => s!"{c.sym}:{c.nbBits}:{c.newState}")

/-- ZSTD_buildFSETable: the sequence decoding table of one alphabet -/
def seqtableLine (norm : Array Int) (log : Nat) (base bits : List Nat) : String :=
  let cells := FSE.buildSeqTable norm log base bits
  "ok cells=" ++ commaSep (cells.toList.map fun c => s!"{c.nextState}:{c.nbAddBits}:{c.nbBits}:{c.baseValue}")

def encLine (norm : Array Int) (log : Nat) (syms : List Nat) : String :=
  if syms.isEmpty || syms.any (fun s => s ≥ norm.size || norm[s]! == 0) then "err usage" else
  "ok " ++ streamHex (FSE.encodeAll (FSE.buildCTable norm log) syms)

/-- FSE_writeNCount (fse_compress.c): its two table-log guards, then FSE_writeNCount_generic = `NCountW.writeNCount?` -/
def ncountLine (norm : Array Int) (log : Nat) : String :=
  if log > ZstdVerif.Gen.FSE_MAX_TABLELOG then "err tableLog_tooLarge"
  else if log < ZstdVerif.Gen.FSE_MIN_TABLELOG then "err generic"
  else match NCountW.writeNCount? norm log with
    | none => "err generic"
    | some b => "ok " ++ (if b.size = 0 then "-" else b.toHex)

/-- FSE_readNCount (entropy_common.c) on exactly `bytes` -/
def rncountLine (maxSV : Nat) (bytes : ByteArray) : String :=
  match FSE.readNCount bytes 0 bytes.size maxSV with
  | .ok r => s!"ok log={r.tableLog} norm={commaSep (r.norm.toList.map toString)} used={r.used}"
  | .error e => "err " ++ (if e.site == "FSE:127" then "maxSymbolValue_tooSmall" else e.cls)

def step (_ : Unit) (ws : List String) : Unit × String :=
  match ws with
  | ["ctable", l, cs] =>
      match l.toNat?, parseInts cs with
      | some log, some norm => ((), ctableLine norm log)
      | _, _ => ((), "err usage")
  | ["dtable", l, cs] =>
      match l.toNat?, parseInts cs with
      | some log, some norm => ((), dtableLine norm log)
      | _, _ => ((), "err usage")
  | ["seqtableLL", l, cs] =>
      match l.toNat?, parseInts cs with
      | some log, some norm => ((), seqtableLine norm log ZstdVerif.Gen.LL_base ZstdVerif.Gen.LL_bits)
      | _, _ => ((), "err usage")
  | ["seqtableOF", l, cs] =>
      match l.toNat?, parseInts cs with
      | some log, some norm => ((), seqtableLine norm log ZstdVerif.Gen.OF_base ZstdVerif.Gen.OF_bits)
      | _, _ => ((), "err usage")
  | ["seqtableML", l, cs] =>
      match l.toNat?, parseInts cs with
      | some log, some norm => ((), seqtableLine norm log ZstdVerif.Gen.ML_base ZstdVerif.Gen.ML_bits)
      | _, _ => ((), "err usage")
  | ["ncount", l, cs] =>
      match l.toNat?, parseInts cs with
      | some log, some norm => ((), ncountLine norm log)
      | _, _ => ((), "err usage")
  | ["rncount", m, hx] =>
      match m.toNat? with
      | some maxSV => ((), if maxSV > 255 then "err usage" else rncountLine maxSV (if hx == "-" then ByteArray.empty else ByteArray.ofHex hx))
      | none => ((), "err usage")
  | ["enc", l, cs, ss] =>
      match l.toNat?, parseInts cs, parseNats ss with
      | some log, some norm, some syms => ((), encLine norm log syms)
      | _, _, _ => ((), "err usage")
  | _ => ((), "err unknown-op")

def main : IO Unit := do
  Driver.lineLoop (← IO.getStdin) (← IO.getStdout) () step

end Driver.FSEEnc
