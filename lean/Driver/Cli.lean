import ZstdVerif.Model.Cli
import ZstdVerif.Model.Sparse
import ZstdVerif.Model.Bytes
import Driver.Util
/-! driver for the CLI file-operation model (C19): prints the skeleton `Cli.program` predicts for an invocation -/
namespace Driver.Cli
open ZstdVerif.Cli

def opStr : Op → String
  | .openR p => s!"open:R:{p}"
  | .openW p => s!"open:W:{p}:trunc"
  | .close p _ => s!"close:{p}"
  | .unlink p => s!"unlink:{p}"
  | .sigOn _ => "sigint:on"
  | .sigOff => "sigint:off"
  | .exit c => s!"exit:{c}"

def kv (ws : List String) (k : String) : String :=
  match ws.find? (fun w => w.startsWith (k ++ "=")) with
  | some w => (w.drop (k.length + 1)).toString
  | none => ""

def lst (s : String) : List String := if s == "" || s == "-" then [] else s.splitOn ","

def step (_ : Unit) (ws : List String) : Unit × String :=
  match ws with
  | "cli" :: rest =>
    let mode := match kv rest "mode" with | "d" => Mode.decompress | "t" => Mode.test | _ => Mode.compress
    let out := kv rest "out"
    let inv : Inv := { mode := mode, files := lst (kv rest "files"), force := kv rest "force" == "1", rm := kv rest "rm" == "1",
                       toStdout := kv rest "stdout" == "1", outName := if out == "" || out == "-" then none else some out,
                       level := (if kv rest "level" == "" then 1 else (kv rest "level").toNat!), confirm := kv rest "confirm" == "1" }
    let ex := lst (kv rest "exists"); let miss := lst (kv rest "missing"); let bad := lst (kv rest "bad")
    let env : Env := { dstExists := fun p => ex.contains p, srcExists := fun p => !miss.contains p, codecOk := fun p => !bad.contains p }
    ((), " ".intercalate ((program inv env).map opStr))
  | "sparse" :: bufs =>
    -- sparse <hex buffer> ... : the seek / write calls the sparse writer issues for this sequence of buffers, and the resulting file
    let bs : List (List UInt8) := bufs.map (fun h => if h == "-" then [] else (ByteArray.ofHex h).toList)
    let r := ZstdVerif.Sparse.writeAll bs
    let ops := r.ops.map (fun o => match o with | .seek n => s!"s{n}" | .write n => s!"w{n}")
    let sum := r.content.foldl (fun a b => (a * 31 + b.toNat) % 4294967291) 7
    ((), s!"size={r.content.length} sum={sum} ops={",".intercalate ops}")
  | "sparsebig" :: items =>
    -- sparsebig <hex buffer | - | z<size>x<count>> ... : the same with run-length coded zero buffers (runs of many GiB), on the length view
    -- of the writer (Model/Sparse.lean LSt; Props/C19.lean sparse_big: equal to the byte-level writer on the expanded buffers)
    let its : List ZstdVerif.Sparse.Item := items.map (fun h =>
      if h == "-" then .data []
      else if h.startsWith "z" then
        match ((h.drop 1).toString).splitOn "x" with
        | [a, b] => .zeros a.toNat! b.toNat!
        | [a] => .zeros a.toNat! 1
        | _ => .data []
      else .data (ByteArray.ofHex h).toList)
    let r := ZstdVerif.Sparse.writeAllL its
    let ops := r.ops.map (fun o => match o with | .seek n => s!"s{n}" | .write n => s!"w{n}")
    ((), s!"size={r.size} ops={",".intercalate ops}")
  | _ => ((), "bad-op")

def main : IO Unit := do
  Driver.lineLoop (← IO.getStdin) (← IO.getStdout) () step

end Driver.Cli
