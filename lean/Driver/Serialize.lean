import ZstdVerif.Model.Serialize
import Driver.Util
/-! `serialize` : the frame serializer model (Model/Serialize.lean), tied to zstd_compress.c by harness/zvh_rawframe.c.
  `rawframe <windowLog> <contentSizeFlag> <checksum> <blockSize|0> <hex x|->`     -> hex of `rawFrame` (blockSize 0) / `rawFrameWith`
  `blkframe <windowLog> <contentSizeFlag> <checksum> <r<n>|e<n>,...|-> <hex x|->` -> hex of `serializeFrame` for that block list
followed by ` rt=ok` when the decoder model (`Frame.decompressAll`, exact capacity) maps the frame back to `x`. -/
namespace Driver.Serialize
open ZstdVerif ZstdVerif.Serialize

def hexArg (s : String) : ByteArray := if s == "-" then ByteArray.empty else ByteArray.ofHex s

def args (wl csf ck : String) (x : ByteArray) : Option HeaderW.HArgs :=
  match wl.toNat?, csf.toNat?, ck.toNat? with
  | some wl, some csf, some ck => some ⟨wl, x.size, csf != 0, 0, false, ck != 0, false⟩
  | _, _, _ => none

/-- `r<n>` / `e<n>` tokens; the RLE byte is the byte of `x` at the block's position -/
def parseBlocks (x : ByteArray) (toks : List String) : Option (List BlockChoice) :=
  let rec go (toks : List String) (pos : Nat) (acc : List BlockChoice) : Option (List BlockChoice) :=
    match toks with
    | [] => some acc.reverse
    | t :: rest =>
      match (t.drop 1).toString.toNat? with
      | none => none
      | some n =>
        if t.startsWith "e" then go rest (pos + n) (.rle (UInt8.ofNat (x.u8 pos)) n :: acc)
        else if t.startsWith "r" then go rest (pos + n) (.raw n :: acc)
        else none
  go toks 0 []

def report (frame x : ByteArray) : String :=
  let hex := if frame.size = 0 then "-" else frame.toHex
  match Frame.decompressAll frame {} x.size {} with
  | .ok (y, _) => hex ++ (if y.data == x.data then " rt=ok" else " rt=DIFF")
  | .error e => hex ++ " rt=ERR:" ++ e.cls

def step (_ : Unit) (ws : List String) : Unit × String :=
  match ws with
  | ["rawframe", wl, csf, ck, bsz, hx] =>
    let x := hexArg hx
    match args wl csf ck x, bsz.toNat? with
    | some a, some bsz => ((), report (if bsz = 0 then rawFrame a x else rawFrameWith a bsz x) x)
    | _, _ => ((), "bad-op")
  | ["blkframe", wl, csf, ck, spec, hx] =>
    let x := hexArg hx
    let toks := if spec == "-" then [] else (spec.splitOn ",").filter (· ≠ "")
    match args wl csf ck x, parseBlocks x toks with
    | some a, some bs => ((), report (serializeFrame a bs x) x)
    | _, _ => ((), "bad-op")
  | _ => ((), "bad-op")

def main : IO Unit := do
  lineLoop (← IO.getStdin) (← IO.getStdout) () step

end Driver.Serialize
