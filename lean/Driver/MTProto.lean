import ZstdVerif.Model.MTProto
import Driver.Util
/-! replays the protocol events printed by harness/zvh_mt.c through the LTS Model/MTProto.lean: one input line = the whole event list
of one run (events separated by ';'), one output line = verdict -/
namespace Driver.MTProto
open ZstdVerif.MTProto

structure RS where
  st : Option St := none          -- none = no frame in progress (events of abandoned jobs are ignored)
  frames : Nat := 0
  steps : Nat := 0
  maxLive : Nat := 0
  bad : Option String := none

def parseEv (ws : List String) : Option Ev :=
  match ws with
  | ["post", n, ck] => n.toNat?.map (fun n => .post n (ck != "0"))
  | ["unpost"] => some .unpost
  | ["inline", z, ck] => z.toNat?.map (fun z => .inline z (ck != "0"))
  | ["cksum"] => some .cksum
  | ["serial", j, w] => j.toNat?.map (fun j => .serial j (w == "2"))
  | ["prod", j, c, z] => match j.toNat?, c.toNat?, z.toNat? with
    | some j, some c, some z => some (.produce j c z)
    | _, _, _ => none
  | ["fail", j] => j.toNat?.map .fail
  | ["flush", b] => b.toNat?.map .flush
  | ["retire"] => some .retire
  | _ => none

def feed (r : RS) (idx : Nat) (tok : String) : RS :=
  if r.bad.isSome then r else
  let ws := (tok.trimAscii.toString.splitOn " ").filter (· ≠ "")
  match ws with
  | [] => r
  | ["frame", m] =>
    match r.st with
    | some s => if s.jobs.isEmpty then { r with st := some { mask := m.toNat! }, frames := r.frames + 1 }
                else { r with bad := some s!"event {idx}: a frame starts while jobs {s.done}..{s.next} of the previous one are live" }
    | none => { r with st := some { mask := m.toNat! }, frames := r.frames + 1 }
  | ["abort"] => { r with st := none }
  | ["frameend"] =>
    match r.st with
    | some s => if s.jobs.isEmpty && s.done == s.next then { r with st := none }
                else { r with bad := some s!"event {idx}: frame reported complete with jobs {s.done}..{s.next} outstanding" }
    | none => r
  -- the worker of a FAILED job j went through ZSTDMT_serialState_ensureFinished with serial.nextJobID = b at lock and = a at unlock (the harness
  -- logs it whether or not a frame is being replayed: the trace is cut when an allocation fault fires): the counter must move as `step _ (.fail j)` says
  | ["efin", j, b, a] =>
    match j.toNat?, b.toNat?, a.toNat? with
    | some j, some b, some a =>
      let s0 : St := { mask := 0, done := j, next := j + 1, serialNext := b, jobs := [{ id := j, srcSize := 0 }] }
      match step s0 (.fail j) with
      | some s1 => if s1.serialNext == a then { r with steps := r.steps + 1 }
                   else { r with bad := some s!"event {idx}: failed job {j} left the serial section with serial.nextJobID {b} -> {a}, the model's `fail {j}` gives {s1.serialNext} (later jobs wait for a turn nobody hands over)" }
      | none => { r with bad := some s!"event {idx}: `fail {j}` is not a transition of the protocol model" }
    | _, _, _ => { r with bad := some s!"event {idx}: unparsable '{tok}'" }
  | "sync-gap" :: _ => { r with bad := some s!"event {idx}: harness lost track of the caller ({tok})" }
  | _ =>
    match r.st with
    | none => r
    | some s =>
      match parseEv ws with
      | none => { r with bad := some s!"event {idx}: unparsable '{tok}'" }
      | some e =>
        match step s e with
        -- the flush / serial logs are ghost state (no guard reads them): dropped here so that long runs stay linear
        | some s' => { r with st := some { s' with out := [], serialLog := [] }, steps := r.steps + 1, maxLive := max r.maxLive s'.jobs.length }
        | none => { r with bad := some s!"event {idx}: '{tok}' is not a transition of the protocol model from done={s.done} next={s.next} serialNext={s.serialNext} live={s.jobs.length}" }

def stepLine (_ : Unit) (line : List String) : Unit × String :=
  let toks := (" ".intercalate line).splitOn ";"
  let (r, _) := toks.foldl (fun (acc : RS × Nat) t => (feed acc.1 acc.2 t, acc.2 + 1)) ({}, 0)
  match r.bad with
  | some b => ((), "REJECT " ++ b)
  | none => ((), s!"accept frames={r.frames} steps={r.steps} maxLive={r.maxLive}")

def main : IO Unit := do
  Driver.lineLoop (← IO.getStdin) (← IO.getStdout) () stepLine

end Driver.MTProto
