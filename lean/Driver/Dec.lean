import ZstdVerif.Model.Frame
import Driver.Util
namespace Driver.Dec
open ZstdVerif

def resultLine (r : R (ByteArray × Array Frame.FrameTrace)) : String :=
  match r with
  | .ok (out, _) => s!"ok {out.size} {XXH64.toHex16 (XXH64.hash out)}"
  | .error e => s!"err {e.cls}"

def step (_ : Unit) (ws : List String) : Unit × String :=
  match ws with
  | ["dec", cap, hx] => ((), resultLine (Frame.decompressAll (if hx == "-" then ByteArray.empty else ByteArray.ofHex hx) {} cap.toNat!))
  | ["dec", cap, hx, dh] =>
      let d := if dh == "-" then ByteArray.empty else ByteArray.ofHex dh
      ((), resultLine (Frame.decompressAll (if hx == "-" then ByteArray.empty else ByteArray.ofHex hx) { content := d } cap.toNat!))
  | ["fsize", hx] =>
      let b := if hx == "-" then ByteArray.empty else ByteArray.ofHex hx
      ((), match Frame.findFrameCompressedSize b 0 b.size with | .ok n => s!"ok {n}" | .error e => s!"err {e.cls}")
  | _ => ((), "bad-op")

def main : IO Unit := do
  Driver.lineLoop (← IO.getStdin) (← IO.getStdout) () step

end Driver.Dec
