import ZstdVerif.Model.Conform
import ZstdVerif.Model.Walker
import ZstdVerif.Model.Bound
import ZstdVerif.Model.Stream
import ZstdVerif.Model.SeqApi
import ZstdVerif.Model.Seekable
import ZstdVerif.Model.Window
import ZstdVerif.Model.Dict
import ZstdVerif.Model.MTBack
import Driver.Util
namespace Driver.Dec
open ZstdVerif

def resultLine (r : R (ByteArray × Array Frame.FrameTrace)) : String :=
  match r with
  | .ok (out, _) => s!"ok {out.size} {XXH64.toHex16 (XXH64.hash out)}"
  | .error e => s!"err {e.cls}"

def resultLineDbg (r : R (ByteArray × Array Frame.FrameTrace)) : String :=
  match r with
  | .ok (out, _) => s!"ok {out.size} {XXH64.toHex16 (XXH64.hash out)}"
  | .error e => s!"err {e.cls} @{e.site}"

def step (_ : Unit) (ws : List String) : Unit × String :=
  match ws with
  | ["dec", cap, hx] => ((), resultLine (Frame.decompressAll (if hx == "-" then ByteArray.empty else ByteArray.ofHex hx) {} cap.toNat!))
  | ["decdbg", cap, hx] => ((), resultLineDbg (Frame.decompressAll (if hx == "-" then ByteArray.empty else ByteArray.ofHex hx) {} cap.toNat!))
  | ["decf", fmt, cap, hx] => ((), resultLine (Frame.decompressAll (if hx == "-" then ByteArray.empty else ByteArray.ofHex hx) {} cap.toNat! { magicless := fmt == "1" }))
  | ["dec", cap, hx, dh] =>
      let d := if dh == "-" then ByteArray.empty else ByteArray.ofHex dh
      ((), resultLine (Frame.decompressAll (if hx == "-" then ByteArray.empty else ByteArray.ofHex hx) { content := d } cap.toNat!))
  | ["dictload", dh] =>
      -- both loaders' verdicts and the dictionary ID (Model/Dict.lean)
      let d := if dh == "-" then ByteArray.empty else ByteArray.ofHex dh
      let dv := match Dict.loadD d with | .ok D => s!"ok:{D.id}" | .error e => s!"err:{e.cls}"
      let cv := match Dict.acceptC d with | some i => s!"ok:{i}" | none => "err:dictionary_corrupted"
      ((), s!"C={cv} D={dv} idDict={Dict.dictIDFromDict d}")
  | ["decd", cap, hx, dh, asPrefix] =>
      -- decode with a dictionary loaded by the decoder-side loader model (asPrefix = 1: raw content, as ZSTD_DCtx_refPrefix)
      let d := if dh == "-" then ByteArray.empty else ByteArray.ofHex dh
      let f := if hx == "-" then ByteArray.empty else ByteArray.ofHex hx
      match (if asPrefix == "1" then (.ok { content := d } : R Frame.Dict) else Dict.loadD d) with
      | .error e => ((), s!"dict-err {e.cls}")
      | .ok D => ((), resultLine (Frame.decompressAll f D cap.toNat!))
  | ["fsize", hx] =>
      let b := if hx == "-" then ByteArray.empty else ByteArray.ofHex hx
      ((), match Frame.findFrameCompressedSize b 0 b.size with | .ok n => s!"ok {n}" | .error e => s!"err {e.cls}")
  | ["conform", fh, sh, dh, mb, fmt, sub] =>
      -- decode the frame with the independent decoder, compare with the source, evaluate Conform on the trace
      let f := if fh == "-" then ByteArray.empty else ByteArray.ofHex fh
      let x := if sh == "-" then ByteArray.empty else ByteArray.ofHex sh
      let d := if dh == "-" then ByteArray.empty else ByteArray.ofHex dh
      -- the dictionary goes through the decoder-side loader model: raw content, or a formatted dictionary with its entropy tables
      match Dict.loadD d with
      | .error e => ((), s!"dict-err {e.cls}")
      | .ok D =>
      match Frame.decompressAll f D x.size { magicless := fmt == "1" } with
      | .error e => ((), s!"decode-err {e.cls}")
      | .ok (out, trs) =>
        if out != x then ((), s!"mismatch size={out.size}") else
        let viol := trs.toList.flatMap (fun t => Conform.checkFrame t D.content.size none mb.toNat! (sub == "1"))
        if !viol.isEmpty then ((), "viol " ++ "; ".intercalate viol) else
        let blocks := trs.foldl (fun n t => n + t.blocks.size) 0
        let seqs := trs.foldl (fun n t => t.blocks.foldl (fun m b => m + (b.tr.map (·.nbSeq)).getD 0) n) 0
        let cov := trs.foldl (fun c t => t.blocks.foldl (fun c b =>
            match b.tr with
            | none => c ||| (1 <<< b.hdr.ty)
            | some tr =>
              let (a, o, m) := tr.modes
              c ||| (1 <<< 2) ||| (1 <<< (4 + (match tr.litMode with | .raw => 0 | .rle => 1 | .compressed => 2 | .treeless => 3)))
                ||| (if tr.litStreams == 4 then 1 <<< 8 else 0) ||| (if tr.nbSeq == 0 then 1 <<< 9 else (1 <<< (10 + a)) ||| (1 <<< (14 + o)) ||| (1 <<< (18 + m)))
                ||| (if tr.nbSeq ≥ 0x7F00 then 1 <<< 22 else 0)) c) 0
        ((), s!"ok frames={trs.size} blocks={blocks} seqs={seqs} cov={cov}")
  | ["conform", fh, sh, dh, mb, fmt] =>
      -- decode the frame with the independent decoder, compare with the source, evaluate Conform on the trace
      let f := if fh == "-" then ByteArray.empty else ByteArray.ofHex fh
      let x := if sh == "-" then ByteArray.empty else ByteArray.ofHex sh
      let d := if dh == "-" then ByteArray.empty else ByteArray.ofHex dh
      -- the dictionary goes through the decoder-side loader model: raw content, or a formatted dictionary with its entropy tables
      match Dict.loadD d with
      | .error e => ((), s!"dict-err {e.cls}")
      | .ok D =>
      match Frame.decompressAll f D x.size { magicless := fmt == "1" } with
      | .error e => ((), s!"decode-err {e.cls}")
      | .ok (out, trs) =>
        if out != x then ((), s!"mismatch size={out.size}") else
        let viol := trs.toList.flatMap (fun t => Conform.checkFrame t D.content.size none mb.toNat! false)
        if !viol.isEmpty then ((), "viol " ++ "; ".intercalate viol) else
        let blocks := trs.foldl (fun n t => n + t.blocks.size) 0
        let seqs := trs.foldl (fun n t => t.blocks.foldl (fun m b => m + (b.tr.map (·.nbSeq)).getD 0) n) 0
        let cov := trs.foldl (fun c t => t.blocks.foldl (fun c b =>
            match b.tr with
            | none => c ||| (1 <<< b.hdr.ty)
            | some tr =>
              let (a, o, m) := tr.modes
              c ||| (1 <<< 2) ||| (1 <<< (4 + (match tr.litMode with | .raw => 0 | .rle => 1 | .compressed => 2 | .treeless => 3)))
                ||| (if tr.litStreams == 4 then 1 <<< 8 else 0) ||| (if tr.nbSeq == 0 then 1 <<< 9 else (1 <<< (10 + a)) ||| (1 <<< (14 + o)) ||| (1 <<< (18 + m)))
                ||| (if tr.nbSeq ≥ 0x7F00 then 1 <<< 22 else 0)) c) 0
        ((), s!"ok frames={trs.size} blocks={blocks} seqs={seqs} cov={cov}")
  | ["cbound", n] => ((), if n.toNat! ≥ Gen.ZSTD_MAX_INPUT_SIZE then "E" else toString (Bound.compressBound n.toNat!))
  | ["decprefix", cap, hx] =>
      let b := if hx == "-" then ByteArray.empty else ByteArray.ofHex hx
      ((), match Frame.decompressPrefix b {} cap.toNat! with
           | .ok out => s!"ok {out.size} {XXH64.toHex16 (XXH64.hash out)}"
           | .error e => s!"err {e.cls}")
  | ["frameinfo", cap, hx] =>
      -- per frame: end offset in the compressed stream and end offset in the regenerated content
      let b := if hx == "-" then ByteArray.empty else ByteArray.ofHex hx
      ((), match Frame.decompressAll b {} cap.toNat! with
           | .ok (_, trs) => "ok " ++ ";".intercalate (trs.toList.map (fun t => s!"{t.start + t.size}:{t.regenStart + t.regenSize}"))
           | .error e => s!"err {e.cls}")
  | "dcheck" :: endsS :: totalS :: calls =>
      -- trace inclusion of an observed ZSTD_decompressStream history into the specification LTS (Model/Stream.lean)
      let ends := (endsS.splitOn ";").filterMap (fun e => match e.splitOn ":" with | [a, b] => some (a.toNat!, b.toNat!) | _ => none)
      let total := totalS.toNat!
      let rec goD (k cons prod : Nat) : List String → String
        | [] => s!"ok calls={k} consumed={cons} produced={prod}"
        | t :: rest =>
          match t.splitOn ":" with
          | [i, o, z] =>
            match i.splitOn "/", o.splitOn "/" with
            | [c, ia], [p, oc] =>
              if z == "E" then s!"ok calls={k} (error reported)" else
              if Stream.dlegalNum ends total cons prod ia.toNat! oc.toNat! c.toNat! p.toNat! (z == "0") then goD (k + 1) (cons + c.toNat!) (prod + p.toNat!) rest
              else s!"illegal call {k}: {t} at consumed={cons} produced={prod}"
            | _, _ => "bad-trace"
          | _ => "bad-trace"
      ((), goD 0 0 0 calls)
  | ["hintsm", cap, hx] =>
      -- model of the decoder's input pacing for every frame of the stream (first 12 requests, as the harness prints them)
      let b := if hx == "-" then ByteArray.empty else ByteArray.ofHex hx
      ((), match Frame.decompressAll b {} cap.toNat! with
           | .ok (_, trs) =>
             let shape (t : Frame.FrameTrace) : Stream.FrameShape :=
               if t.hdr.skippable then ⟨true, t.hdr.headerSize, [0], false, t.size - 8⟩
               else ⟨false, t.hdr.headerSize, t.blocks.toList.map (fun b => b.hdr.cSize), t.hdr.checksum, 0⟩
             let hs := trs.toList.flatMap (fun t => Stream.hints (shape t))
             "ok " ++ ",".intercalate ((hs.take 12).map toString)
           | .error e => s!"err {e.cls}")
  | ["seqaccept", bl, w, d, mm, srcSize, sq] =>
      let seqs : List SeqApi.Seq := if sq == "-" then [] else (sq.splitOn ",").filterMap (fun t => match t.splitOn ":" with
        | [a, b, c] => some ⟨a.toNat!, b.toNat!, c.toNat!⟩ | _ => none)
      let cfg : SeqApi.Cfg := ⟨bl.toNat!, w.toNat!, d.toNat!, mm.toNat!⟩
      ((), if SeqApi.acceptExplicit cfg (seqs.length + 2) seqs 0 srcSize.toNat! then "accept" else "reject")
  | ["tbl", hx] =>
      let b := if hx == "-" then ByteArray.empty else ByteArray.ofHex hx
      ((), match Seekable.load b with
        | .error _ => "err"
        | .ok (es, _) =>
          let n := es.length
          let cum := Seekable.cumulative es
          let cell (i : Nat) : String :=
            if i < n then
              let (co, dof) := cum.getD i (0, 0)
              let e := es.getD i default
              s!" {co}:{dof}:{e.cSize}:{e.dSize}"
            else " E:E:E"
          let cells := (List.range (n + 2)).filter (fun i => i < 6 || i + 3 > n) |>.map cell
          let hc := es.foldl (fun h e => (h * 1000003 + e.cSize) % 18446744073709551616) 0
          let hd := es.foldl (fun h e => (h * 1000003 + e.dSize) % 18446744073709551616) 0
          s!"ok n={n}" ++ String.join cells ++ s!" sums={String.ofList (Nat.toDigits 16 hc)}:{String.ofList (Nat.toDigits 16 hd)}")
  | ["tblser", hx] =>
      -- writer model against the real writer's bytes: the table the model serializes from the loaded entries must be the tail of the archive
      let b := if hx == "-" then ByteArray.empty else ByteArray.ofHex hx
      ((), match Seekable.load b with
        | .error _ => "err"
        | .ok (es, ck) =>
          let ser := Seekable.serialize es ck
          let n := ser.length
          if n > b.size then "longer"
          else
            let tail := (List.range n).map (fun i => b.u8 (b.size - n + i))
            if tail == ser then "same" else "DIFFERENT")
  | ["cks", hx, sx] =>
      -- the checksum column of the seek table the real writer emitted, as the model derives it from the SOURCE and the table's frame cut
      let b := if hx == "-" then ByteArray.empty else ByteArray.ofHex hx
      let x := if sx == "-" then ByteArray.empty else ByteArray.ofHex sx
      ((), match Seekable.load b with
        | .error _ => "err"
        | .ok (es, ck) =>
          let ds := es.map (·.dSize)
          if ds.foldl (· + ·) 0 != x.size then s!"err frames-cover {ds.foldl (· + ·) 0} of {x.size} bytes"
          else
            let cs := Seekable.expectedChecksums x ck 0 ds
            s!"ok n={es.length} ck={if ck then 1 else 0} e=" ++ ",".intercalate ((ds.zip cs).map (fun (d, c) => s!"{d}:{c}")))
  | ["idx", hx, ps] =>
      let b := if hx == "-" then ByteArray.empty else ByteArray.ofHex hx
      ((), match Seekable.load b with
        | .error _ => "err"
        | .ok (es, _) =>
          let cum := (Seekable.cumulative es).toArray
          let d (i : Nat) : Nat := (cum.getD i (0, 0)).2
          "ok" ++ String.join ((ps.splitOn ",").map (fun p => " " ++ toString (Seekable.offsetToFrameIndex d es.length p.toNat!))))
  | ["corr", lo, di, nb, cyc, md, cur] =>
      let (c, nc, w) := Window.correctOverflow ⟨lo.toNat!, di.toNat!, nb.toNat!⟩ cyc.toNat! md.toNat! cur.toNat!
      ((), s!"{c} {nc} {w.lowLimit} {w.dictLimit} {w.nbOverflowCorrections}")
  | ["need", fr, lo, di, nb, cyc, md, lde, cs, ce] =>
      ((), if Window.needOverflowCorrection (fr == "1") ⟨lo.toNat!, di.toNat!, nb.toNat!⟩ cyc.toNat! md.toNat! lde.toNat! cs.toNat! ce.toNat! then "1" else "0")
  | ["reduce", pm, red, vs] =>
      ((), ",".intercalate ((vs.splitOn ",").map (fun v => toString (Window.reduceCell (pm == "1") red.toNat! v.toNat!))))
  | ["walk", hx] =>
      let b := if hx == "-" then ByteArray.empty else ByteArray.ofHex hx
      ((), match Walker.frames (fun i => b.u8 i) (b.size + 1) 0 b.size with
           | .ok l => "ok " ++ ",".intercalate (l.map toString)
           | .error e => s!"err {e.cls}")
  | ["pledge", pl, total, chunks, mode] =>
      -- the streaming compressor's pledged-size bookkeeping on the same call history as the harness drives
      let tot := total.toNat!
      let cs := (chunks.splitOn ",").filterMap (·.toNat?)
      let p0 : Walker.Pledge := { plusOne := (match pl.toInt? with | some v => if v < 0 then 0 else v.toNat + 1 | none => 0), consumed := 0, started := false }
      let rec go (p : Walker.Pledge) (fed : Nat) (k : Nat) : List Nat → String
        | [] =>
          if mode == "0" then s!"ok fed={fed}" else
          match p.call 0 .end_ with
          | .ok _ => s!"ok fed={fed}"
          | .error _ => s!"err at={k} fed={fed}"
        | c :: rest =>
          let n := min c (tot - fed)
          let last := rest.isEmpty
          match p.call n (if last && mode == "0" then .end_ else .cont) with
          | .ok p' => go p' (fed + n) (k + 1) rest
          | .error _ => s!"err at={k} fed={fed}"
      ((), go p0 0 0 cs)
  | ["pledgeh", pl, calls] =>
      -- pledged-size bookkeeping over an explicit call history "<c|f|e><bytes>,..." (continue / flush / end, every call consuming all it is given);
      -- a history that does not finish with an end gets a final empty end call, as the harness does
      let p0 : Walker.Pledge := { plusOne := (match pl.toInt? with | some v => if v < 0 then 0 else v.toNat + 1 | none => 0), consumed := 0, started := false }
      let cs : List (Nat × Walker.Dir) := ((calls.splitOn ",").filter (· != "-")).map (fun c =>
        ((c.drop 1).toNat!, if c.front == 'e' then Walker.Dir.end_ else if c.front == 'f' then Walker.Dir.flush else Walker.Dir.cont))
      let cs := match cs.getLast? with
        | some (_, .end_) => cs
        | _ => cs ++ [(0, Walker.Dir.end_)]
      let rec goH (p : Walker.Pledge) (fed : Nat) (k : Nat) : List (Nat × Walker.Dir) → String
        | [] => s!"ok fed={fed}"
        | (n, d) :: rest =>
          match p.call n d with
          | .ok p' => goH p' (fed + n) (k + 1) rest
          | .error _ => s!"err at={k} fed={fed}"
      ((), goH p0 0 0 cs)
  | ["mtback", nbWorkers, target, offered, piece] =>
      -- multithreaded compression, producer ahead of a consumer that takes nothing: descriptors, and bytes accepted out of `offered`
      -- presented in `piece`-byte writes (Model/MTBack.lean)
      let slots := MT.ringSlots nbWorkers.toNat!
      let T := target.toNat!
      let total := offered.toNat!
      let pc := max 1 piece.toNat!
      let rec goB (b : MT.Back) (left : Nat) : Nat → MT.Back
        | 0 => b
        | fuel + 1 =>
          let b' := b.call T (min pc left)
          goB b' (left - (b'.accepted - b.accepted)) fuel
      let b := goB (MT.Back.start (slots - 1)) total (total / pc + total / (max 1 T) + 8)
      ((), s!"slots={slots} bound={(slots + 1) * T} accepted={b.accepted} jobs={b.ring.next} filled={b.filled}")
  | ["decopt", fmt, ign, mbs, cap, hx] =>
      -- one-shot decoding with the decoder options in force (format, forceIgnoreChecksum, maxBlockSize)
      ((), resultLine (Frame.decompressAll (if hx == "-" then ByteArray.empty else ByteArray.ofHex hx) {} cap.toNat!
              { magicless := fmt == "1", ignoreChecksum := ign != "0", maxBlockSize := mbs.toNat! }))
  | _ => ((), "bad-op")

def main : IO Unit := do
  Driver.lineLoop (← IO.getStdin) (← IO.getStdout) () step

end Driver.Dec
