import ZstdVerif.Model.WindowUpdate
import ZstdVerif.Gen.Consts
import Driver.Util
/-! line-protocol driver for ZSTD_window_update (C07: buffer placement):
  wupd <B0> <ip:size:force,...>   the window starts as ZSTD_window_init leaves it (base = dictBase = B0, nextSrc = B0 + 2, lowLimit = dictLimit = 2);
                                  the segments are fed in order  -> per segment  c<contiguous>/<base>/<dictBase>/<nextSrc>/<lowLimit>/<dictLimit>
  (addresses are offsets into the harness's address-space reservation) -/
namespace Driver.WindowUpd
open ZstdVerif.WindowUpdate

def showStep (w : WinP) (c : Bool) : String :=
  s!"c{if c then 1 else 0}/{w.base}/{w.dictBase}/{w.nextSrc}/{w.lowLimit}/{w.dictLimit}"

def runSegs (w : WinP) (segs : List String) : Option (List String) :=
  match segs with
  | [] => some []
  | s :: rest =>
    match s.splitOn ":" with
    | [ip, n, f] =>
      match ip.toInt?, n.toNat? with
      | some ip, some n =>
        let (w', c) := update w ip n (f == "1")
        (runSegs w' rest).map (fun t => showStep w' c :: t)
      | _, _ => none
    | _ => none

def step (_ : Unit) (ws : List String) : Unit × String :=
  match ws with
  | ["wupd", b0, segs] =>
    match b0.toInt? with
    | some b0 =>
      match runSegs ⟨b0, b0, b0 + ZstdVerif.Gen.ZSTD_WINDOW_START_INDEX, ZstdVerif.Gen.ZSTD_WINDOW_START_INDEX, ZstdVerif.Gen.ZSTD_WINDOW_START_INDEX⟩ (segs.splitOn ",") with
      | some out => ((), " ".intercalate out)
      | none => ((), "bad-op")
    | none => ((), "bad-op")
  | _ => ((), "bad-op")

def main : IO Unit := do
  lineLoop (← IO.getStdin) (← IO.getStdout) () step

end Driver.WindowUpd
