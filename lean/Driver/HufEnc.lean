import ZstdVerif.Model.Huf
import ZstdVerif.Model.HufEnc
import ZstdVerif.Model.LitEnc
import Driver.Util
/-!
`zvdriver hufenc`: the encoder-side Huffman model against harness/zvh_hufenc.c.  The code LENGTHS come from the C side (as weights);
the model derives the code values, the bit stream and the 4-stream layout, and decodes its own output with the decoder model.
  codes <tableLog> <w0,w1,..>                 -> codes=val:nbBits,... weightsOK=<bool>
  enc1  <tableLog> <w0,w1,..> <hex literals>  -> stream=<hex> rt=ok|FAIL weightsOK=<bool>
  enc4  <tableLog> <w0,w1,..> <hex literals>  -> stream=<hex|refused> rt=ok|FAIL|- weightsOK=<bool>
  whdr  <tableLog> <w0,w1,..> <hex of the tree description HUF_writeCTable_wksp wrote for these weights>
        -> form=fse|direct hdr=<hex|none> rs=ok|FAIL:<..>
        the tree description of the MODEL for the weights w0 .. w(maxSymbolValue) (`LitEnc.fseWeights` / `LitEnc.directWeights` of all
        weights but the last): form=fse when the C description starts with a byte < 128: the normalised counts and the table log - the
        heuristic part (FSE_optimalTableLog, FSE_normalizeCount), not modelled - are read out of the C description by the decoder model's
        `FSE.readNCount`, everything else (HUF_compressWeights: FSE_writeNCount, FSE_buildCTable_wksp, FSE_compress_usingCTable with its two
        interleaved states; the size test and the size byte of HUF_writeCTable_wksp) is the model's; hdr=none when the model would not
        keep the FSE form.  rs = `Huf.readStats` on the model's description gives the weights, the table log and the size back.
-/
namespace Driver.HufEnc
open ZstdVerif

/-- HUF_initCStream .. HUF_closeCStream seen from the output: the fields LSB-first one after the other, then the end mark (1 on 1
bit), little-endian bytes, the last one zero padded -/
def writeFields (fields : List (Nat × Nat)) : ByteArray := Id.run do
  let mut acc := 0
  let mut nbits := 0
  let mut out := ByteArray.empty
  for (v, n) in fields ++ [(1, 1)] do
    acc := acc ||| ((v % (1 <<< n)) <<< nbits)
    nbits := nbits + n
    for _ in [0:nbits / 8] do
      out := out.push (UInt8.ofNat (acc % 256))
      acc := acc >>> 8
    nbits := nbits % 8
  if nbits > 0 then out := out.push (UInt8.ofNat acc)
  return out

def parseWeights (s : String) : Array Nat := ((s.splitOn ",").filter (· ≠ "")).toArray.map String.toNat!

def codesLine (codes : Array (Nat × Nat)) : String :=
  ",".intercalate (codes.toList.map fun (v, n) => s!"{v}:{n}")

def step (_ : Unit) (ws : List String) : Unit × String :=
  match ws with
  | ["codes", lg, wstr] =>
      let weights := parseWeights wstr
      ((), s!"codes={codesLine (HufEnc.codesOf weights lg.toNat!)} weightsOK={HufEnc.weightsOK weights lg.toNat!}")
  | ["whdr", lg, wstr, hx] =>
      let weights := parseWeights wstr
      let log := lg.toNat!
      let chdr := ByteArray.ofHex hx
      let huffWeight := weights.toList.dropLast
      let rs (h : ByteArray) : String :=
        match Huf.readStats h 0 h.size with
        | .ok st => if st.weights == weights && st.tableLog == log && st.used == h.size then "ok" else "FAIL:diff"
        | .error e => s!"FAIL:{e.cls}"
      if chdr.u8 0 < 128 then
        match FSE.readNCount chdr 1 (chdr.size - 1) 255 with
        | .ok nc =>
          match LitEnc.fseWeights nc.norm nc.tableLog huffWeight with
          | some h => ((), s!"form=fse hdr={h.toHex} rs={rs h}")
          | none => ((), "form=fse hdr=none rs=-")
        | .error e => ((), s!"form=fse hdr=none rs=FAIL:readNCount:{e.cls}")
      else
        match LitEnc.directWeights huffWeight with
        | some h => ((), s!"form=direct hdr={h.toHex} rs={rs h}")
        | none => ((), "form=direct hdr=none rs=-")
  | [op, lg, wstr, hx] =>
      let weights := parseWeights wstr
      let log := lg.toNat!
      let src := if hx == "-" then ByteArray.empty else ByteArray.ofHex hx
      let lits := src.toList.map UInt8.toNat
      let codes := HufEnc.codesOf weights log
      let t := Huf.buildTable { weights := weights, tableLog := log, used := 0 }
      let okS := s!"weightsOK={HufEnc.weightsOK weights log}"
      if op == "enc1" then
        let stream := writeFields (HufEnc.encode1 codes lits)
        let rt := match Huf.decode1 t stream 0 stream.size lits.length ByteArray.empty with
          | .ok o => if o == src then "ok" else "FAIL"
          | .error e => s!"FAIL:{e.cls}"
        ((), s!"stream={stream.toHex} rt={rt} {okS}")
      else if op == "enc4" then
        match HufEnc.compress4 writeFields codes lits with
        | none => ((), s!"stream=refused rt=- {okS}")
        | some out =>
          let rt := match Huf.decode4 t out 0 out.size lits.length ByteArray.empty with
            | .ok o => if o == src then "ok" else "FAIL"
            | .error e => s!"FAIL:{e.cls}"
          ((), s!"stream={out.toHex} rt={rt} {okS}")
      else ((), "err unknown-op")
  | _ => ((), "err unknown-op")

def main : IO Unit := do
  let stdin ← IO.getStdin
  let stdout ← IO.getStdout
  Driver.lineLoop stdin stdout () step

end Driver.HufEnc
