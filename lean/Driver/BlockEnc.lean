import ZstdVerif.Model.BlockEnc
import ZstdVerif.Model.Frame
import ZstdVerif.Model.DictEnc
import Driver.Util
/-! `zvdriver blockenc` : the writer model of frames that contain COMPRESSED blocks (Model/BlockEnc.lean, `serializeFrame2`), to be
decoded by the REAL decoder (tools/ent_block.py, harness/zvh_dec.c `dec`).

Two ops:
  `cframe <windowLog> <checksum 0|1> <blocks spec|-> <hex x|->`
     -> `<hex of serializeFrame2 a blocks x> rt=ok fse=<n> spreadOK=<b> spreadEncEqDec=<b> lit=<letters|->`
                                                               rt=ok when the decoder model (`Frame.decompressAll`, capacity x.size) gives x back,
        `rt=FAIL:DIFF` / `rt=FAIL:<error class>`                 otherwise;   `bad-op` on a malformed line
        fse = number of FSE-described tables (`f...` below) in the frame; spreadOK = `FSE.spreadOK (FSE.spreadEnc norm L) norm L` holds for
        every one of them, spreadEncEqDec = `FSE.spreadEnc norm L == FSE.spread norm L` for every one of them (the side conditions of the
        round-trip theorems; both `true` when fse=0); lit = per compressed block, in order, the type of the literals section the model
        actually WROTE (its first byte & 3): `r` raw, `e` RLE, `h` Huffman with a direct tree description, `f` Huffman with an FSE-compressed
        tree description (first byte of the description < 128), `t` treeless; `-` = no compressed block
  HArgs = ⟨windowLog, x.size, contentSizeFlag = true, 0, false, checksum != 0, false⟩ (as `args` of Driver/Serialize.lean with csf = 1).

  `cframed <windowLog> <checksum 0|1> <blocks spec|-> <hex x|-> <hex dictionary>`
     the same for a frame written WITH A DICTIONARY whose entropy tables are on offer to the first blocks (Model/DictEnc.lean,
     `serializeFrameDictTables`; theorem `Props.C08.dict_tables_roundtrip`): the dictionary bytes go through the decoder-side loader model
     (`Dict.loadD`; `bad-dict` when it refuses them); the block loop starts from the dictionary's repeat offsets (`DictEnc.dictRep`), its
     three sequence tables and its Huffman table (`DictEnc.dictStart`: a formatted dictionary; nothing for raw content), so `p` in the
     first block with sequences stands for the DICTIONARY's table, and `t` in the first block with literals is treeless on the DICTIONARY's
     Huffman table (when it has a code for every literal and the section gets smaller).  The header carries the dictionary's ID.
     -> `<hex of serializeFrameDictTables d D a blocks x> rt=ok fse=<n> spreadOK=<b> spreadEncEqDec=<b> lit=<letters|-> dict=<full|raw> dtab=<b>`
        rt=ok when `Frame.decompressAll` WITH THE LOADED DICTIONARY gives x back; dtab = the three tables of the dictionary satisfy what
        the theorem asks of a repeated table (`BlockRT.TablesOK (dictTables p)`, evaluated: normalised distribution, 5 <= log <= limit, alphabet
        within the limit, last count non-zero, the two spreading facts); `true` for a raw-content dictionary (no tables)

`<blocks spec>` = blocks separated by `;` (`-` = no block at all).  Separators, from the outside in: ` ` (op fields), `;` (blocks),
`:` (fields of a compressed block, and the three numbers of a sequence), `,` (sequences).  Per block:
  `r<n>`   raw block of the next n bytes of x
  `e<n>`   RLE block of the next n bytes, the byte is x[pos]
  `c<litmode>:<tablemodes>:<ll:ml:rawOffset,...>:<tail>`     compressed block
       litmode     `r` raw literals | `e` RLE literals | `h` Huffman literals.  `h` is REAL Huffman: the driver counts the literals, builds
                   code lengths with the textbook merge of the two lightest nodes (or, if that is deeper than 11, the balanced code
                   with lengths ceil(log2 n) / ceil(log2 n) - 1), turns them into weights (tableLog + 1 - length) and hands
                   `LitChoice.huffman` to the model.  It falls back to raw literals exactly where ZSTD_compressLiterals would not keep a
                   Huffman output either: fewer than 2 distinct literals, a literal > 128 (the direct 4-bit tree description holds at
                   most 128 weights; for the FSE-compressed description see `f`), or no gain over the raw section.
                   `f` as `h`, but the tree description is the one the whole of HUF_writeCTable_wksp writes: the weights FSE-compressed
                   (HUF_compressWeights) when that is smaller than the direct form, so that symbols above 128 can be described.  The
                   normalised counts of the weight values (FSE_normalizeCount: a heuristic, not modelled) are made by the driver
                   (`normWeights`: 1 + a proportional share, the remainder to the most frequent value; tableLog 5 below 64 weights, else
                   6) and handed to the model with `LitChoice.huffmanFse`; the driver falls back to `h` when these counts fail a side
                   condition of the round-trip theorem (`weightsFseOK`) and to raw literals when there is no gain.
                   `t` TREELESS literals, the way HUF_compress_internal works with `HUF_flags_preferRepeat`: if an earlier compressed
                   block of the frame wrote a Huffman table (`BlockEnc.nextHuf`, threaded like the repeat-offset history), that table has
                   a code for every literal of this block (HUF_validateCTable) and the section gets smaller than the raw one, the
                   driver hands `LitChoice.treeless` to the model (header type set_repeat, no tree description); otherwise it does
                   what `f` does (new table, or raw).  What was written can be read off the `lit=` field of the answer.
       tablemodes  for LL, OF, ML, either three letters (`bbb`, `rbp`, ...) or three descriptors separated by `/` (`f6,4,3,-1,0,56/b/p`):
                   `b` predefined table (set_basic) | `r` RLE table (set_rle) whose symbol is the code of the FIRST sequence of
                   the block after `storeAll` under the running repeat-offset history (`(codesOf s).ll / .of / .ml`) |
                   `f<tableLog>,<c0>,<c1>,...` a table described in the block (set_compressed): the normalised counts (-1 allowed) of the
                   symbols 0 .. number of counts - 1, handed to the model as `SeqTableChoice.fse norm tableLog` |
                   `p` the table of the previous block of the frame that had sequences (set_repeat, `SeqTableChoice.repeat`)
       sequences   `ll:ml:rawOffset` separated by `,`; ml = the real match length (>= 3, mlBase = ml - 3); the list may be empty
                   (`cr:bbb::<n>`)
       tail        number of literal bytes behind the last match
    The literals buffer of the block is rebuilt from x: from the block's start, per sequence `ll` bytes of x are literals and `ml`
    bytes are skipped, then `tail` bytes are literals.  The block stands for `parseLen lits raws` bytes of x.  The repeat-offset history
    starts at `BlockEnc.repStart` and is advanced by `(storeAll rep raws).2` behind every compressed block, as `serializeBlocks2` does.
-/
namespace Driver.BlockEnc
open ZstdVerif ZstdVerif.BlockEnc

def hexArg (s : String) : ByteArray := if s == "-" then ByteArray.empty else ByteArray.ofHex s

/-! ### Huffman weights for a literals buffer (the compressor's heuristic, an oracle for the model) -/

/-- remove one lightest node -/
def extractMin : List (Nat × List Nat) → Option ((Nat × List Nat) × List (Nat × List Nat))
  | [] => none
  | a :: rest =>
    match extractMin rest with
    | none => some (a, [])
    | some (m, rest') => if a.1 ≤ m.1 then some (a, rest) else some (m, a :: rest')

/-- code length per symbol (0 for absent ones) by merging the two lightest nodes until one is left -/
def huffmanDepths (counts : Array Nat) : Array Nat := Id.run do
  let mut nodes : List (Nat × List Nat) := ((List.range counts.size).filter (fun s => counts[s]! > 0)).map (fun s => (counts[s]!, [s]))
  let mut depths : Array Nat := Array.replicate counts.size 0
  for _ in [0:counts.size] do
    match extractMin nodes with
    | none => break
    | some (a, rest) =>
      match extractMin rest with
      | none => break
      | some (b, rest') =>
        for s in a.2 ++ b.2 do
          depths := depths.modify s (· + 1)
        nodes := (a.1 + b.1, a.2 ++ b.2) :: rest'
  return depths

/-- the balanced complete code: with n symbols and 2^L >= n > 2^(L-1), the 2^L - n most frequent ones get L-1 bits, the others L -/
def balancedDepths (counts : Array Nat) : Array Nat := Id.run do
  let present := (List.range counts.size).filter (fun s => counts[s]! > 0)
  let n := present.length
  let mut L := 0
  while (1 <<< L) < n do L := L + 1
  let sorted := (present.toArray.qsort (fun a b => counts[a]! > counts[b]! || (counts[a]! == counts[b]! && a < b))).toList
  let short := (1 <<< L) - n
  let mut depths : Array Nat := Array.replicate counts.size 0
  let mut i := 0
  for s in sorted do
    depths := depths.set! s (if i < short then L - 1 else L)
    i := i + 1
  return depths

/-- the `h` literal mode: Huffman with a fresh table when that is possible and gains something, raw literals otherwise -/
def hufChoice (lits : ByteArray) : LitChoice :=
  let counts : Array Nat := lits.foldl (fun c b => c.modify b.toNat (· + 1)) (Array.replicate 256 0)
  let present := (List.range 256).filter (fun s => counts[s]! > 0)
  match present.getLast? with
  | none => .raw
  | some maxSym =>
    if present.length < 2 || maxSym > 128 then .raw else
    let counts := counts.extract 0 (maxSym + 1)
    let d0 := huffmanDepths counts
    let depths := if d0.foldl max 0 > 11 then balancedDepths counts else d0
    let log := depths.foldl max 0
    let weights := depths.toList.map (fun d => if d = 0 then 0 else log + 1 - d)
    let c := LitChoice.huffman weights.dropLast (weights.getLastD 0) log
    if HufEnc.weightsOK weights.toArray log && (litSection c lits).size < (litSection .raw lits).size then c else .raw

/-- normalised counts for the weight values of `ws` at table log `L`: every value that occurs gets 1 + a proportional share of the rest,
the remainder goes to the most frequent one -/
def normWeights (ws : List Nat) (L : Nat) : Array Int :=
  let maxW := ws.foldl max 0
  let hist := (List.range (maxW + 1)).map (fun w => ws.count w)
  let present := (hist.filter (· > 0)).length
  let size := 1 <<< L
  let vals := hist.map (fun c => if c = 0 then 0 else 1 + (size - present) * c / ws.length)
  let rem := size - vals.foldl (· + ·) 0
  let top := hist.foldl max 0
  let idx := (hist.findIdx? (· == top)).getD 0
  ((vals.toArray.modify idx (· + rem)).map (fun (v : Nat) => (v : Int)))

/-- the side conditions of `WeightsRT.WeightsFseOK`, evaluated -/
def weightsFseOK (norm : Array Int) (L : Nat) (ws : List Nat) : Bool :=
  decide (1 ≤ L) && (List.range norm.size).all (fun s => decide (-1 ≤ norm[s]!)) &&
    ((List.range norm.size).map (FSE.cnt norm)).foldl (· + ·) 0 == 1 <<< L &&
    decide (5 ≤ L) && decide (L ≤ 6) && norm[norm.size - 1]! != 0 && decide (norm.size ≤ 13) &&
    FSE.spreadOK (FSE.spreadEnc norm L) norm L && FSE.spreadEnc norm L == FSE.spread norm L &&
    ws.all (fun w => decide (w < norm.size) && norm[w]! != 0) && (List.range norm.size).all (fun s => decide (FSE.cnt norm s < 1 <<< L))

/-- the `f` literal mode: as `hufChoice`, with the tree description of the whole of HUF_writeCTable_wksp -/
def hufChoiceFse (lits : ByteArray) : LitChoice :=
  let counts : Array Nat := lits.foldl (fun c b => c.modify b.toNat (· + 1)) (Array.replicate 256 0)
  let present := (List.range 256).filter (fun s => counts[s]! > 0)
  match present.getLast? with
  | none => .raw
  | some maxSym =>
    if present.length < 2 then .raw else
    let counts := counts.extract 0 (maxSym + 1)
    let d0 := huffmanDepths counts
    let depths := if d0.foldl max 0 > 11 then balancedDepths counts else d0
    let log := depths.foldl max 0
    let weights := depths.toList.map (fun d => if d = 0 then 0 else log + 1 - d)
    let ws := weights.dropLast
    let L := if ws.length < 64 then 5 else 6
    let norm := normWeights ws L
    let c := LitChoice.huffmanFse ws (weights.getLastD 0) log norm L
    if !(weightsFseOK norm L ws) then hufChoice lits
    else if HufEnc.weightsOK weights.toArray log && (litSection c lits).size < (litSection .raw lits).size then c else .raw

/-- the `t` literal mode: the table of an earlier block if there is one, it covers the literals and gains something; `h` otherwise -/
def treelessChoice (hp : Option HufTab) (lits : ByteArray) : LitChoice :=
  match hp with
  | some (w, _) =>
    if lits.size > 0 && (symsOf lits).all (fun s => w.getD s 0 > 0) &&
        (litSection .treeless lits hp).size < (litSection .raw lits).size then .treeless
    else hufChoiceFse lits
  | none => hufChoiceFse lits

/-- the type of the literals section the model writes for the decision: first byte & 3 -/
def litLetter (c : LitChoice) (lits : ByteArray) (hp : Option HufTab) : Char :=
  let sec := litSection c lits hp
  match sec.u8 0 &&& 3 with
  | 0 => 'r'
  | 1 => 'e'
  | 2 => if sec.u8 (LitEnc.lhSize lits.size) < 128 then 'f' else 'h'
  | _ => 't'

/-! ### the blocks spec -/

def parseSeq (s : String) : Option RawSeq :=
  match (s.splitOn ":").map String.toNat? with
  | [some ll, some ml, some off] => if ml < 3 then none else some ⟨ll, ml - 3, off⟩
  | _ => none

def parseSeqs (s : String) : Option (List RawSeq) :=
  ((s.splitOn ",").filter (· ≠ "")).mapM parseSeq

/-- the literals of a parse that starts at `pos` -/
def gatherLits (x : ByteArray) (pos : Nat) (raws : List RawSeq) (tail : Nat) : ByteArray := Id.run do
  let mut p := pos
  let mut lits := ByteArray.empty
  for q in raws do
    lits := lits ++ x.extract p (p + q.litLength)
    p := p + q.litLength + q.mlBase + 3
  return lits ++ x.extract p (p + tail)

/-- one table descriptor: `b` | `r` | `p` | `f<tableLog>,<c0>,<c1>,...` -/
def tableChoice (d : String) (sym : Nat) : Option SeqTableChoice :=
  if d == "b" then some .predefined
  else if d == "r" then some (.rle sym)
  else if d == "p" then some .repeat
  else if d.startsWith "f" then
    match (d.drop 1).toString.splitOn "," with
    | l :: cs =>
      match l.toNat?, cs.mapM String.toInt? with
      | some log, some norm => if norm.isEmpty then none else some (.fse norm.toArray log)
      | _, _ => none
    | [] => none
  else none

/-- the table-modes field: three letters, or three descriptors separated by `/` -/
def splitModes (s : String) : Option (String × String × String) :=
  if s.contains '/' then
    match s.splitOn "/" with
    | [a, b, c] => some (a, b, c)
    | _ => none
  else
    match s.toList with
    | [a, b, c] => some (String.singleton a, String.singleton b, String.singleton c)
    | _ => none

def parseCompressed (x : ByteArray) (pos : Nat) (rep : Rep.R) (hp : Option HufTab) (tok : String) : Option BlockChoice2 :=
  let fs := tok.splitOn ":"
  if fs.length < 4 then none else
  let head := fs.head!
  let modes := splitModes fs[1]!
  let tail? := fs.getLast!.toNat?
  let seqStr := ":".intercalate ((fs.drop 2).dropLast)
  match parseSeqs seqStr, tail?, modes with
  | some raws, some tail, some (mLL, mOF, mML) =>
    let lits := gatherLits x pos raws tail
    let first := ((storeAll rep raws).1.head?).map SeqEnc.codesOf |>.getD ⟨0, 0, 0⟩
    let lit? : Option LitChoice :=
      if head == "cr" then some .raw
      else if head == "ce" then (if lits.size = 0 then none else some .rle)
      else if head == "ch" then some (hufChoice lits)
      else if head == "cf" then some (hufChoiceFse lits)
      else if head == "ct" then some (treelessChoice hp lits)
      else none
    match lit?, tableChoice mLL first.ll, tableChoice mOF first.of, tableChoice mML first.ml with
    | some c, some tl, some to, some tm => some (.compressed c ⟨tl, to, tm⟩ lits raws)
    | _, _, _, _ => none
  | _, _, _ => none

def parseBlocks (x : ByteArray) (toks : List String) (rep0 : Rep.R := repStart) (hp0 : Option HufTab := none) :
    Option (List BlockChoice2) :=
  let rec go (toks : List String) (pos : Nat) (rep : Rep.R) (hp : Option HufTab) (acc : List BlockChoice2) : Option (List BlockChoice2) :=
    match toks with
    | [] => some acc.reverse
    | t :: rest =>
      if t.startsWith "c" then
        match parseCompressed x pos rep hp t with
        | some (.compressed c tb lits raws) =>
          go rest (pos + parseLen lits raws) (storeAll rep raws).2 (nextHuf hp c lits) (.compressed c tb lits raws :: acc)
        | _ => none
      else
        match (t.drop 1).toString.toNat? with
        | none => none
        | some n =>
          if t.startsWith "e" then go rest (pos + n) rep hp (.rle (UInt8.ofNat (x.u8 pos)) n :: acc)
          else if t.startsWith "r" then go rest (pos + n) rep hp (.raw n :: acc)
          else none
  go toks 0 rep0 hp0 []

/-- per compressed block the type of the literals section written, along the Huffman table `serializeBlocks2` threads -/
def litReport (bs : List BlockChoice2) (hp0 : Option HufTab := none) : String :=
  let rec go (bs : List BlockChoice2) (hp : Option HufTab) (acc : List Char) : List Char :=
    match bs with
    | [] => acc.reverse
    | .compressed c _ lits _ :: rest => go rest (nextHuf hp c lits) (litLetter c lits hp :: acc)
    | _ :: rest => go rest hp acc
  let l := go bs hp0 []
  " lit=" ++ (if l.isEmpty then "-" else String.ofList l)

/-- the FSE-described tables of a frame, as (normalised counts, table log) -/
def fseTables (bs : List BlockChoice2) : List (Array Int × Nat) :=
  bs.flatMap fun b =>
    match b with
    | .compressed _ t _ _ => [t.ll, t.of, t.ml].filterMap fun c =>
        match c with
        | .fse norm log => some (norm, log)
        | _ => none
    | _ => []

/-- the spreading side conditions of the round-trip theorems on every FSE-described table -/
def spreadReport (bs : List BlockChoice2) : String :=
  let ts := fseTables bs
  let ok := ts.all fun (norm, log) => FSE.spreadOK (FSE.spreadEnc norm log) norm log
  let eq := ts.all fun (norm, log) => FSE.spreadEnc norm log == FSE.spread norm log
  s!" fse={ts.length} spreadOK={ok} spreadEncEqDec={eq}"

/-- `BlockRT.TableOK maxSym maxLog (.fse norm L)`, evaluated -/
def tableOK (maxSym maxLog : Nat) (norm : Array Int) (L : Nat) : Bool :=
  decide (1 ≤ L) && (List.range norm.size).all (fun s => decide (-1 ≤ norm[s]!)) &&
    ((List.range norm.size).map (FSE.cnt norm)).foldl (· + ·) 0 == 1 <<< L &&
    decide (5 ≤ L) && decide (L ≤ maxLog) && decide (norm.size ≤ maxSym + 1) && norm[norm.size - 1]! != 0 &&
    FSE.spreadOK (FSE.spreadEnc norm L) norm L && FSE.spreadEnc norm L == FSE.spread norm L

/-- `BlockRT.TablesOK` of the tables a dictionary stands for (limits of ZSTD_decodeSeqHeaders: MaxLL / LLFSELog, MaxOff / OffFSELog,
MaxML / MLFSELog) -/
def dictTablesReport (pt : Option Tables) : String :=
  match pt with
  | some ⟨.fse nl ll, .fse no lo, .fse nm lm⟩ =>
    s!" dict=full dtab={tableOK Gen.MaxLL Gen.LLFSELog nl ll && tableOK Gen.MaxOff Gen.OffFSELog no lo && tableOK Gen.MaxML Gen.MLFSELog nm lm}"
  | some _ => " dict=full dtab=false"
  | none => " dict=raw dtab=true"

def report (frame x : ByteArray) (dict : Frame.Dict := {}) : String :=
  let hex := if frame.size = 0 then "-" else frame.toHex
  match Frame.decompressAll frame dict x.size {} with
  | .ok (y, _) => hex ++ (if y.data == x.data then " rt=ok" else " rt=FAIL:DIFF")
  | .error e => hex ++ " rt=FAIL:" ++ e.cls

def step (_ : Unit) (ws : List String) : Unit × String :=
  match ws with
  | ["cframe", wl, ck, spec, hx] =>
    let x := hexArg hx
    let toks := if spec == "-" then [] else (spec.splitOn ";").filter (· ≠ "")
    match wl.toNat?, ck.toNat?, parseBlocks x toks with
    | some wl, some ck, some bs =>
      let a : HeaderW.HArgs := ⟨wl, x.size, true, 0, false, ck != 0, false⟩
      ((), report (serializeFrame2 a bs x) x ++ spreadReport bs ++ litReport bs)
    | _, _, _ => ((), "bad-op")
  | ["cframed", wl, ck, spec, hx, hd] =>
    let x := hexArg hx
    let d := hexArg hd
    match Dict.loadD d with
    | .error _ => ((), "bad-dict")
    | .ok D =>
      let st := DictEnc.dictStart d
      let toks := if spec == "-" then [] else (spec.splitOn ";").filter (· ≠ "")
      match wl.toNat?, ck.toNat?, parseBlocks x toks (DictEnc.dictRep D) st.2 with
      | some wl, some ck, some bs =>
        let a : HeaderW.HArgs := ⟨wl, x.size, true, D.id, false, ck != 0, false⟩
        ((), report (DictEnc.serializeFrameDictTables d D a bs x) x D ++ spreadReport bs ++ litReport bs st.2 ++ dictTablesReport st.1)
      | _, _, _ => ((), "bad-op")
  | _ => ((), "bad-op")

def main : IO Unit := do
  lineLoop (← IO.getStdin) (← IO.getStdout) () step

end Driver.BlockEnc
