import ZstdVerif.Model.Frame
import ZstdVerif.Model.SeqApi
import ZstdVerif.Model.Dict
import Driver.Util
/-! `zvdriver seqprod` — block-level sequence producer (C17).
  prodblock <search 0|1|2 (ZSTD_c_searchForExternalRepcodes as set)> <level> <fallback 0|1> <validate 0|1> <windowSize> <dictSize> <r0.r1.r2> <srcSize> <cap> <ret|E> <off:ll:ml,...|->
        -> stored <offBase,...|-> <lastLits> <r0.r1.r2> | fallback | failed | invalid         (SeqApi.producerBlock)
  blockreps <cap> <frame-hex> [dict-hex (raw content)]
        -> ok <ty>,<regen>,<r0.r1.r2 = the DECODER's repeat-offset history after the block>,<ofValue:ll:ml:offset/...|-|*>;...   (independent decoder, Frame trace)
  merge <off:ll:ml,...|->
        -> <off:ll:ml,...|-> <literals of the trailing delimiters>                                 (SeqApi.mergeDelims / mergeDropped)
-/
namespace Driver.SeqProd
open ZstdVerif

def parseSeqs (sq : String) : List SeqApi.Seq :=
  if sq == "-" then [] else (sq.splitOn ",").filterMap (fun t => match t.splitOn ":" with
    | [a, b, c] => some ⟨a.toNat!, b.toNat!, c.toNat!⟩ | _ => none)

def parseRep (s : String) : Rep.R :=
  match s.splitOn "." with
  | [a, b, c] => ⟨a.toNat!, b.toNat!, c.toNat!⟩
  | _ => ⟨1, 4, 8⟩

def repStr (r : Rep.R) : String := s!"{r.r0}.{r.r1}.{r.r2}"

def step (_ : Unit) (ws : List String) : Unit × String :=
  match ws with
  | ["prodblock", search, level, fb, val, w, ds, rep, srcSize, cap, ret, sq] =>
      let on := SeqApi.repSearchOn search.toNat! (level.toInt?.getD 3)
      let capN := cap.toNat!
      let retN := if ret == "E" then capN + 1 else ret.toNat!
      let buf := if ret == "X" then List.replicate capN (⟨1, 0, 3⟩ : SeqApi.Seq) else parseSeqs sq
      let retN := if ret == "X" then capN else retN
      ((), match SeqApi.producerBlock on (fb == "1") (val == "1") w.toNat! ds.toNat! (parseRep rep) srcSize.toNat! capN retN buf with
        | .stored obs ll r => s!"stored {if obs.isEmpty then "-" else ",".intercalate (obs.map toString)} {ll} {repStr r}"
        | .fallback => "fallback"
        | .failed => "failed"
        | .invalid => "invalid")
  | "blockreps" :: cap :: hx :: rest =>
      let f := if hx == "-" then ByteArray.empty else ByteArray.ofHex hx
      let d : Frame.Dict := match rest with
        | [dh] => { content := if dh == "-" then ByteArray.empty else ByteArray.ofHex dh }
        | _ => {}
      ((), match Frame.decompressAll f d cap.toNat! with
        | .error e => s!"err {e.cls}"
        | .ok (_, trs) =>
          let cells := trs.toList.flatMap (fun t =>
            let (_, out) := t.blocks.toList.foldl (fun (acc : Rep.R × List String) b =>
              let (r, out) := acc
              match b.tr with
              | none => (r, out ++ [s!"{b.hdr.ty},{b.regen},{repStr r},-"])
              | some tr =>
                let r' := tr.seqs.toList.foldl (fun r q => (Rep.resolve r q.ofValue (if q.ll == 0 then 1 else 0)).2) r
                let sq := if tr.seqs.size == 0 then "-" else if tr.seqs.size > 48 then "*" else
                  "/".intercalate (tr.seqs.toList.map (fun q => s!"{q.ofValue}:{q.ll}:{q.ml}:{q.offset}"))
                (r', out ++ [s!"{b.hdr.ty},{b.regen},{repStr r'},{sq}"])) ((⟨1, 4, 8⟩ : Rep.R), [])
            out)
          "ok " ++ ";".intercalate cells)
  | ["merge", sq] =>
      let l := parseSeqs sq
      let m := SeqApi.mergeDelims l
      ((), (if m.isEmpty then "-" else ",".intercalate (m.map (fun s => s!"{s.offset}:{s.ll}:{s.ml}"))) ++ s!" {SeqApi.mergeDropped l}")
  | _ => ((), "bad-op")

def main : IO Unit := do
  Driver.lineLoop (← IO.getStdin) (← IO.getStdout) () step

end Driver.SeqProd
