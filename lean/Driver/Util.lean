namespace Driver

/-- read stdin line by line, thread a state, print one output line per input line -/
partial def lineLoop {σ : Type} (h : IO.FS.Stream) (out : IO.FS.Stream) (s : σ) (step : σ → List String → σ × String) : IO Unit := do
  let line ← h.getLine
  if line.isEmpty then
    out.flush
    return ()
  let ws := (line.trimAscii.toString.splitOn " ").filter (· ≠ "")
  if ws.isEmpty then lineLoop h out s step else
  let (s', o) := step s ws
  out.putStrLn o
  lineLoop h out s' step

def parseInt? (s : String) : Option Int := s.toInt?
def parseNat? (s : String) : Option Nat := s.toNat?

end Driver
