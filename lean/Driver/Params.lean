import ZstdVerif.Model.Params
import ZstdVerif.Model.LevelParams
import Driver.Util
namespace Driver.Params
open ZstdVerif ZstdVerif.Gen ZstdVerif.Params ZstdVerif.LevelParams

structure St where
  kind : Char := 'c'
  ctx : Ctx := fresh cparams
  /-- the context lives in caller-provided memory (`new s` = static CCtx, `new t` = static DCtx) -/
  isStatic : Bool := false
  /-- the separate ZSTD_CCtx_params object of `pset` / `papply` -/
  par : Ctx := fresh cparams

def plist (k : Char) : List PInfo := if k == 'd' then dparams else cparams

def dump (status : String) (s : St) : String :=
  status ++ " |" ++ String.join (s.ctx.vals.map (fun v => " " ++ toString v))

def errStr : Err → String
  | .outOfBound => "err:bound"
  | .stage => "err:stage"
  | .unsupported => "err:unsupported"

def indexOfId (ps : List PInfo) (id : Nat) : Option Nat := ps.findIdx? (·.id == id)

def facts (s : St) : String :=
  let v (id : Nat) : Int := match indexOfId cparams id with
    | some k => (s.ctx.vals[k]?).getD 0
    | none => 0
  if v 10 != 0 && false then "" else
  s!"fcs={v 200} checksum={v 201} dictid=0"

def cparStr (c : CPar) : String :=
  s!"{c.windowLog},{c.chainLog},{c.hashLog},{c.searchLog},{c.minMatch},{c.targetLength},{c.strategy}"

/-- `derive <entry> <level> <src> <dict>`: compression parameters an entry point that takes a RAW level derives (see harness/zvh_params.c
for the entry numbers); `chk` = ZSTD_checkCParams refuses them, `acc` = the struct-level setter's verdict on them -/
def derive (entry : Nat) (level : Int) (src dict : Nat) : String :=
  let levelSet : Int := match cparams.find? (·.id == 100) with
    | some p => (setVal p level).getD level
    | none => level
  let cp : Option CPar := match entry with
    | 0 | 1 => some (getCParamsPublic level src dict)
    | 2 => some (getCParamsInternal level src 0 .noAttachDict)
    | 3 => some (getCParamsInternal level src dict .noAttachDict)
    | 4 => some (getCParamsInternal level unknownSize 0 .noAttachDict)
    | 5 => some (getCParamsInternal level unknownSize dict .noAttachDict)
    | 6 | 7 => some (createCDictCParams level dict)
    | 8 => some (fromCCtxParams level noOverride false 0 (if src = 0 then unknownSize else src) dict .noAttachDict 0)
    | 9 => some (fromCCtxParams levelSet noOverride false 0 unknownSize 0 .noAttachDict 0)
    | 10 => some (fromCCtxParams levelSet noOverride false 0 src 0 .noAttachDict 0)
    | _ => none
  match cp with
  | none => "bad-op |"
  | some c =>
    let ok := checkCParams c
    "ok cp=" ++ cparStr c ++ " chk=" ++ (if ok then "0" else "1") ++
      (if entry ≤ 1 then " acc=" ++ (if ok then "ok" else "err:bound") else "") ++ " |"

def step (s : St) (ws : List String) : St × String :=
  match ws with
  | ["new", k] =>
      let c0 := k.front
      let c := if c0 == 's' then 'c' else if c0 == 't' then 'd' else c0
      let s' : St := { kind := c, ctx := fresh (plist c), isStatic := c0 == 's' || c0 == 't' }
      (s', dump "ok" s')
  | ["set", id, v] =>
      match id.toInt?, v.toInt? with
      | some id, some v =>
        if id < 0 then (s, dump "err:unsupported" s) else
        match indexOfId (plist s.kind) id.toNat with
        | none => (s, dump "err:unsupported" s)
        | some k =>
          -- a CCtx_params object has no stage
          let ctx := if s.kind == 'p' then { s.ctx with started := false } else s.ctx
          match (if s.isStatic then setParamStatic else setParam) (plist s.kind) (s.kind != 'd') ctx k v with
          | .ok c => let s' := { s with ctx := c }; (s', dump "ok" s')
          | .error e => (s, dump (errStr e) s)
      | _, _ => (s, "bad-op")
  | "setcparams" :: vs =>
      if s.kind != 'c' then (s, dump "bad-op" s) else
      match setCParams cparams s.ctx (vs.map (fun v => v.toInt?.getD 0)) with
      | .ok c => let s' := { s with ctx := c }; (s', dump "ok" s')
      | .error e => (s, dump (errStr e) s)
  | "setfparams" :: vs =>
      if s.kind != 'c' then (s, dump "bad-op" s) else
      match setFParams cparams s.ctx (vs.map (fun v => v.toInt?.getD 0)) with
      | .ok c => let s' := { s with ctx := c }; (s', dump "ok" s')
      | .error e => (s, dump (errStr e) s)
  | "setparams" :: vs =>
      if s.kind != 'c' then (s, dump "bad-op" s) else
      let xs := vs.map (fun v => v.toInt?.getD 0)
      match setParamsAll cparams s.ctx (xs.take 7) (xs.drop 7) with
      | .ok c => let s' := { s with ctx := c }; (s', dump "ok" s')
      | .error e => (s, dump (errStr e) s)
  | ["dwin", wl] =>
      if s.kind != 'd' then (s, dump "bad-op" s) else
      -- a frame declaring a window of 2^wl bytes, decoded by the streaming decoder with the parameters in force: refused for its window iff wl exceeds
      -- ZSTD_d_windowLogMax (100; 0 stands for the default limit 27), whatever the other parameters (output buffer mode included) say
      let lim : Int := match indexOfId dparams 100 with
        | some k => (s.ctx.vals[k]?).getD 0
        | none => 0
      let lim := if lim == 0 then 27 else lim
      let s' := { s with ctx := endFrame s.ctx }
      (s', dump (if (wl.toInt?.getD 0) > lim then "err:window" else "ok") s')
  | ["dframe", dmg, _] =>
      if s.kind != 'd' then (s, dump "bad-op" s) else
      -- a checksummed frame decoded with the parameters in force: a damaged checksum is reported unless ZSTD_d_forceIgnoreChecksum (1002) is set
      let ign : Int := match indexOfId dparams 1002 with
        | some k => (s.ctx.vals[k]?).getD 0
        | none => 0
      let s' := { s with ctx := endFrame s.ctx }
      (s', dump (if dmg != "0" && ign == 0 then "err:checksum" else "ok") s')
  | ["start"] => let s' := if s.kind == 'p' then s else { s with ctx := startFrame s.ctx }; (s', dump "ok" s')
  | ["sstart", _] =>
      if s.kind != 'c' then (s, dump "bad-op" s) else
      -- input accepted with ZSTD_e_continue (stable-input mode: its compression is deferred): the frame has begun
      let s' := { s with ctx := startFrame s.ctx }; (s', dump "ok" s')
  | ["seqframe", _, cap] =>
      if s.kind != 'c' then (s, dump "bad-op" s) else
      -- ZSTD_compressSequences: a whole frame in one call; a too-small destination fails after the frame was begun
      if cap == "1" then
        let s' := { s with ctx := startFrame s.ctx }
        (s', dump "err:other" s')
      else
        let s' := { s with ctx := wholeFrame s.ctx }
        (s', dump ("ok " ++ facts s) s')
  | ["pledge"] | ["prefix"] | ["cdict"] =>
      if s.kind != 'c' then (s, dump "bad-op" s) else
      -- ZSTD_CCtx_setPledgedSrcSize(unknown) / ZSTD_CCtx_refPrefix / ZSTD_CCtx_refCDict(NULL): init stage only
      match initStageOnly s.ctx with
      | .ok c => let s' := { s with ctx := c }; (s', dump "ok" s')
      | .error e => (s, dump (errStr e) s)
  | ["end"] => let s' := if s.kind == 'p' then s else { s with ctx := endFrame s.ctx }; (s', dump "ok" s')
  | ["reset", r] =>
      let rr := match r with | "1" => Reset.session | "2" => Reset.parameters | _ => Reset.sessionAndParameters
      let rr := if s.kind == 'p' then Reset.sessionAndParameters else rr
      match reset (plist s.kind) s.ctx rr with
      | .ok c => let s' := { s with ctx := c }; (s', dump "ok" s')
      | .error e => (s, dump (errStr e) s)
  | ["dict"] =>
      if s.kind == 'p' then (s, dump "ok" s) else
      match loadDict s.ctx with
      | .ok c => let s' := { s with ctx := c }; (s', dump "ok" s')
      | .error e => (s, dump (errStr e) s)
  | ["frame", _] =>
      if s.kind != 'c' then (s, dump "bad-op" s) else
      -- a complete frame: start, (params in force), end
      let s' := { s with ctx := endFrame (startFrame s.ctx) }
      (s', dump ("ok " ++ facts s) s')
  | ["c2", cap] =>
      if s.kind != 'c' then (s, dump "bad-op" s) else
      -- ZSTD_compress2: resets the session, compresses one frame with the parameters in force; a too-small
      -- destination fails and leaves the frame unfinished; parameters are never changed
      if cap == "1" then
        let s' := { s with ctx := startFrame s.ctx }
        (s', dump "err:other" s')
      else
        let s' := { s with ctx := endFrame s.ctx }
        (s', dump "ok" s')
  | ["pset", id, v] =>
      if s.kind != 'c' then (s, dump "bad-op" s) else
      match id.toInt?, v.toInt? with
      | some id, some v =>
        if id < 0 then (s, dump "err:unsupported" s) else
        match indexOfId cparams id.toNat with
        | none => (s, dump "err:unsupported" s)
        | some k =>
          match setParam cparams true { s.par with started := false } k v with
          | .ok c => let s' := { s with par := c }; (s', dump "ok" s')
          | .error e => (s, dump (errStr e) s)
      | _, _ => (s, "bad-op")
  | ["papply"] =>
      if s.kind != 'c' then (s, dump "bad-op" s) else
      match (if s.isStatic then applyParamsStatic cparams s.ctx s.par else applyParams s.ctx s.par) with
      | .ok c => let s' := { s with ctx := c }; (s', dump "ok" s')
      | .error e => (s, dump (errStr e) s)
  | ["applied", n] =>
      if s.kind != 'c' then (s, dump "bad-op" s) else
      -- ZSTD_compress2 of n bytes with the parameters in force (no dictionary): the compression parameters it applies
      let s' := { s with ctx := endFrame s.ctx }
      (s', dump ("ok ap=" ++ cparStr (appliedCParams s.ctx (n.toNat?.getD 0))) s')
  | ["derive", e, lv, src, dict] =>
      (s, derive (e.toNat?.getD 99) (lv.toInt?.getD 0) (src.toNat?.getD 0) (dict.toNat?.getD 0))
  | ["simple", _, _] =>
      if s.kind != 'c' then (s, dump "bad-op" s) else
      -- the simple API ignores every advanced parameter and leaves them untouched
      (s, dump "ok fcs=1 checksum=0 dictid=0" s)
  | _ => (s, dump "bad-op" s)

def main : IO Unit := do
  Driver.lineLoop (← IO.getStdin) (← IO.getStdout) ({} : St) step

end Driver.Params
