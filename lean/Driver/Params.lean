import ZstdVerif.Model.Params
import Driver.Util
namespace Driver.Params
open ZstdVerif ZstdVerif.Gen ZstdVerif.Params

structure St where
  kind : Char := 'c'
  ctx : Ctx := fresh cparams

def plist (k : Char) : List PInfo := if k == 'd' then dparams else cparams

def dump (status : String) (s : St) : String :=
  status ++ " |" ++ String.join (s.ctx.vals.map (fun v => " " ++ toString v))

def errStr : Err → String
  | .outOfBound => "err:bound"
  | .stage => "err:stage"
  | .unsupported => "err:unsupported"

def indexOfId (ps : List PInfo) (id : Nat) : Option Nat := ps.findIdx? (·.id == id)

def facts (s : St) : String :=
  let v (id : Nat) : Int := match indexOfId cparams id with
    | some k => (s.ctx.vals[k]?).getD 0
    | none => 0
  if v 10 != 0 && false then "" else
  s!"fcs={v 200} checksum={v 201} dictid=0"

def step (s : St) (ws : List String) : St × String :=
  match ws with
  | ["new", k] =>
      let c := k.front
      let s' : St := { kind := c, ctx := fresh (plist c) }
      (s', dump "ok" s')
  | ["set", id, v] =>
      match id.toInt?, v.toInt? with
      | some id, some v =>
        if id < 0 then (s, dump "err:unsupported" s) else
        match indexOfId (plist s.kind) id.toNat with
        | none => (s, dump "err:unsupported" s)
        | some k =>
          -- a CCtx_params object has no stage
          let ctx := if s.kind == 'p' then { s.ctx with started := false } else s.ctx
          match setParam (plist s.kind) (s.kind != 'd') ctx k v with
          | .ok c => let s' := { s with ctx := c }; (s', dump "ok" s')
          | .error e => (s, dump (errStr e) s)
      | _, _ => (s, "bad-op")
  | "setcparams" :: vs =>
      if s.kind != 'c' then (s, dump "bad-op" s) else
      match setCParams cparams s.ctx (vs.map (fun v => v.toInt?.getD 0)) with
      | .ok c => let s' := { s with ctx := c }; (s', dump "ok" s')
      | .error e => (s, dump (errStr e) s)
  | "setfparams" :: vs =>
      if s.kind != 'c' then (s, dump "bad-op" s) else
      match setFParams cparams s.ctx (vs.map (fun v => v.toInt?.getD 0)) with
      | .ok c => let s' := { s with ctx := c }; (s', dump "ok" s')
      | .error e => (s, dump (errStr e) s)
  | "setparams" :: vs =>
      if s.kind != 'c' then (s, dump "bad-op" s) else
      let xs := vs.map (fun v => v.toInt?.getD 0)
      match setParamsAll cparams s.ctx (xs.take 7) (xs.drop 7) with
      | .ok c => let s' := { s with ctx := c }; (s', dump "ok" s')
      | .error e => (s, dump (errStr e) s)
  | ["dframe", dmg, _] =>
      if s.kind != 'd' then (s, dump "bad-op" s) else
      -- a checksummed frame decoded with the parameters in force: a damaged checksum is reported unless ZSTD_d_forceIgnoreChecksum (1002) is set
      let ign : Int := match indexOfId dparams 1002 with
        | some k => (s.ctx.vals[k]?).getD 0
        | none => 0
      let s' := { s with ctx := endFrame s.ctx }
      (s', dump (if dmg != "0" && ign == 0 then "err:checksum" else "ok") s')
  | ["start"] => let s' := if s.kind == 'p' then s else { s with ctx := startFrame s.ctx }; (s', dump "ok" s')
  | ["end"] => let s' := if s.kind == 'p' then s else { s with ctx := endFrame s.ctx }; (s', dump "ok" s')
  | ["reset", r] =>
      let rr := match r with | "1" => Reset.session | "2" => Reset.parameters | _ => Reset.sessionAndParameters
      let rr := if s.kind == 'p' then Reset.sessionAndParameters else rr
      match reset (plist s.kind) s.ctx rr with
      | .ok c => let s' := { s with ctx := c }; (s', dump "ok" s')
      | .error e => (s, dump (errStr e) s)
  | ["dict"] =>
      if s.kind == 'p' then (s, dump "ok" s) else
      match loadDict s.ctx with
      | .ok c => let s' := { s with ctx := c }; (s', dump "ok" s')
      | .error e => (s, dump (errStr e) s)
  | ["frame", _] =>
      if s.kind != 'c' then (s, dump "bad-op" s) else
      -- a complete frame: start, (params in force), end
      let s' := { s with ctx := endFrame (startFrame s.ctx) }
      (s', dump ("ok " ++ facts s) s')
  | ["c2", cap] =>
      if s.kind != 'c' then (s, dump "bad-op" s) else
      -- ZSTD_compress2: resets the session, compresses one frame with the parameters in force; a too-small
      -- destination fails and leaves the frame unfinished; parameters are never changed
      if cap == "1" then
        let s' := { s with ctx := startFrame s.ctx }
        (s', dump "err:other" s')
      else
        let s' := { s with ctx := endFrame s.ctx }
        (s', dump "ok" s')
  | ["simple", _, _] =>
      if s.kind != 'c' then (s, dump "bad-op" s) else
      -- the simple API ignores every advanced parameter and leaves them untouched
      (s, dump "ok fcs=1 checksum=0 dictid=0" s)
  | _ => (s, dump "bad-op" s)

def main : IO Unit := do
  Driver.lineLoop (← IO.getStdin) (← IO.getStdout) ({} : St) step

end Driver.Params
