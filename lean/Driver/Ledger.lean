import ZstdVerif.Model.Ledger
import Driver.Util
/-! replays an allocator event log (a<hexaddr>:<size> f<hexaddr> x<size>) through the ledger model -/
namespace Driver.Ledger
open ZstdVerif.Ledger

def hexNat (s : String) : Option Nat :=
  s.foldl (fun acc c => acc.bind (fun n =>
    if c.isDigit then some (n * 16 + (c.toNat - '0'.toNat))
    else if 'a' ≤ c ∧ c ≤ 'f' then some (n * 16 + (c.toNat - 'a'.toNat + 10)) else none)) (some 0)

def parseEv (t : String) : Option Ev :=
  let body := (t.drop 1).toString
  match t.front with
  | 'a' => match body.splitOn ":" with
    | [a, n] => match hexNat a, n.toNat? with
      | some a, some n => some (.alloc a n)
      | _, _ => none
    | _ => none
  | 'f' => (hexNat body).map .free
  | 'x' => body.toNat?.map .fail
  | _ => none

/-- annotated log: the allocator's events plus the caller's declarations o<hexaddr> (block of an object the caller still owns) and
d<hexaddr> (the caller starts releasing it) -/
def parseOEv (t : String) : Option OEv :=
  let body := (t.drop 1).toString
  match t.front with
  | 'o' => (hexNat body).map .own
  | 'd' => (hexNat body).map .disown
  | _ => (parseEv t).map .ev

def step (_ : Unit) (ws : List String) : Unit × String :=
  let toks := ws.filter (· ≠ "-")
  match toks.mapM parseOEv with
  | none => ((), "bad-log")
  | some oevs =>
    let os := orun {} oevs
    let evs := baseLog oevs
    let s := os.base
    let leakBytes := (s.live.map (sizeOf evs)).sum
    if os.stolen.isEmpty && s.live.isEmpty && s.doubleFrees.isEmpty && s.foreignFrees.isEmpty then ((), s!"clean events={evs.length} fails={s.fails}")
    else if os.stolen.isEmpty then ((), s!"UNCLEAN leaks={s.live.length} leakBytes={leakBytes} double={s.doubleFrees.length} foreign={s.foreignFrees.length} fails={s.fails}")
    else ((), s!"UNCLEAN callerOwnedFreed={os.stolen.length} leaks={s.live.length} leakBytes={leakBytes} double={s.doubleFrees.length} foreign={s.foreignFrees.length} fails={s.fails}")

def main : IO Unit := do
  lineLoop (← IO.getStdin) (← IO.getStdout) () step

end Driver.Ledger
