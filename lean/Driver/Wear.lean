import ZstdVerif.Model.Wear
import ZstdVerif.Model.DBuf
import Driver.Util
/-! line-protocol driver for the long-lived-context memory policies (C15):
  creset <static 0|1> <size> <avail> <dur> <needed>                      -> <ok|memory_allocation> <size afterwards> <dur afterwards>
  dreset <room|-1> <inSize> <outSize> <dur> <window> <fcs|-1> <blockMax>  -> <ok|memory_allocation> <inSize> <outSize> <dur> -/
namespace Driver.Wear
open ZstdVerif ZstdVerif.Wear

def step (_ : Unit) (ws : List String) : Unit × String :=
  match ws with
  | ["creset", st, size, avail, dur, needed] =>
    match size.toNat?, avail.toNat?, dur.toNat?, needed.toNat? with
    | some size, some avail, some dur, some needed =>
      ((), match cReset (st == "1") ⟨size, avail, dur⟩ needed with
        | .keep d => s!"ok {size} {d}"
        | .resize s => s!"ok {s} 0"
        | .memory => s!"memory_allocation {size} {dur}")
    | _, _, _, _ => ((), "bad-op")
  | ["dreset", room, i, o, dur, win, fcs, bsm] =>
    match room.toInt?, i.toNat?, o.toNat?, dur.toNat?, win.toNat?, fcs.toInt?, bsm.toNat? with
    | some room, some i, some o, some dur, some win, some fcs, some bsm =>
      let f : Option Nat := if fcs < 0 then none else some fcs.toNat
      let needIn := max bsm 4
      let needOut := DBuf.decodingBufferSize (DBuf.effectiveWindow win) f bsm
      let r := dReset (if room < 0 then none else some room.toNat) ⟨i, o, dur⟩ needIn needOut
      ((), match r with
        | .keep b => s!"ok {b.inSize} {b.outSize} {b.dur}"
        | .relayout b => s!"ok {b.inSize} {b.outSize} {b.dur}"
        | .memory b => s!"memory_allocation {b.inSize} {b.outSize} {b.dur}")
    | _, _, _, _, _, _, _ => ((), "bad-op")
  | _ => ((), "bad-op")

def main : IO Unit := do
  lineLoop (← IO.getStdin) (← IO.getStdout) () step

end Driver.Wear
