import ZstdVerif.Model.CStream
import Driver.Util
/-!
`zvdriver cstream` — the deterministic model of `ZSTD_compressStream2` (Model/CStream.lean) run on the ops of harness/zvh_cstream.c:
  cs <id=val,...|-> <srcSize> <in sizes csv> <out sizes csv> <directives> <chunk sizes csv|->
The last field is the oracle: the sizes the real `ZSTD_compressContinue_public` / `ZSTD_compressEnd_public` returned, in order, as
logged by the harness.  Prints exactly what the harness prints (but for the final rt= token): per call the chunks the machine
compresses (`k<srcSize>:<cSize>` / `K<srcSize>:<cSize>`), `i<blockSize>/<inBuffSize>/<outBuffSize>/<inBuffTarget>` when the call
initialised a frame, and `consumed:produced:ret`.
-/
namespace Driver.CStream
open ZstdVerif ZstdVerif.CStream

def parseList (s : String) : Array Nat :=
  ((s.splitOn ",").filter (fun t => t ≠ "" && t ≠ "-")).toArray.map (·.toNat!)

def parseParams (s : String) : List (Nat × Nat) :=
  ((s.splitOn ",").filter (fun t => t ≠ "" && t ≠ "-")).filterMap fun kv =>
    match kv.splitOn "=" with
    | [k, v] => some (k.toNat!, v.toNat!)
    | _ => none

def evStr : Event → String
  | .chunk _ _ srcSize _ cSize last _ => s!" {if last then "K" else "k"}{srcSize}:{cSize}"
  | _ => ""

structure Run where
  s : State
  consumed : Nat := 0
  left : Nat := 0
  idle : Nat := 0
  ending : Bool := false
  endLegacy : Bool := false
  endCalls : Nat := 0
  done : Bool := false
  out : Array String := #[]

/-- the call loop of harness/zvh_cstream.c -/
def runCalls (co : Nat → Nat) (n cksum : Nat) (ic oc : Array Nat) (dirs : Array Char) : Nat → Nat → Run → Run
  | 0, _, st => st
  | fuel + 1, calls, st =>
    let isz0 := min ic[calls % ic.size]! (n - st.consumed)
    let dc00 := dirs[calls % dirs.size]!
    let dc0 := if dc00 == 'X' then (if st.consumed == n then 'x' else 'c') else dc00
    let (isz1, dc1) := if st.ending then (st.left, if st.endLegacy then 'x' else 'e')
                       else if st.consumed == n && dc0 != 'x' then (isz0, 'e') else (isz0, dc0)
    -- 'x' = ZSTD_endStream, 'y' = ZSTD_flushStream: the legacy calls offer no input
    let isz := if dc1 == 'x' || dc1 == 'y' then 0 else isz1
    let dc := if dc1 == 'E' then (if st.consumed + isz == n then 'e' else 'f') else dc1
    let dir : EndOp := if dc == 'f' || dc == 'y' then .eFlush else if dc == 'e' || dc == 'x' then .eEnd else .eContinue
    let osz := oc[calls % oc.size]!
    let (s1, c) := CStream.step co st.s isz osz dir
    let o1 := st.out.push (String.join (c.events.map evStr))
    let o2 := if c.inited then o1.push s!" i{s1.blockSize}/{s1.inBuffSize}/{s1.outBuffSize}/{s1.inBuffTarget}" else o1
    match c.ret with
    | .err => { st with s := s1, out := o2.push s!" {c.consumed}:{c.produced}:Emodel" }
    | .val r0 =>
      -- ZSTD_endStream (single thread): what is left to flush, plus the last block header and the checksum while the frame is not ended
      let r := if dc == 'x' then CStream.endStreamRet s1 r0 (cksum != 0) else r0
      let shown := if dc == 'c' then c.hint else r
      let o3 := o2.push s!" {c.consumed}:{c.produced}:{shown}"
      let wasEnd := dc == 'e' || dc == 'x'
      let ending := if wasEnd && r != 0 then true else if wasEnd && r == 0 then false else st.ending
      let endLegacy := if wasEnd && r != 0 then dc == 'x' else st.endLegacy
      let endCalls := if wasEnd && r != 0 then st.endCalls + 1 else if wasEnd then 0 else st.endCalls
      let done := wasEnd && r == 0 && st.consumed + c.consumed == n
      let noEffect := c.consumed == 0 && c.produced == 0 && !(wasEnd && r == 0)
      let idle := if noEffect then st.idle + 1 else 0
      let st1 : Run := { s := s1, consumed := st.consumed + c.consumed, left := isz - c.consumed, idle := idle, ending := ending,
                         endLegacy := endLegacy, endCalls := endCalls, done := done, out := o3 }
      if endCalls > 4 * n + 4096 then { st1 with out := o3.push " LIVELOCK" }
      else if done || idle ≥ 40 then st1 else runCalls co n cksum ic oc dirs fuel (calls + 1) st1

def cs (ps : String) (n : Nat) (ins outs dirs chunks : String) : String :=
  let params := parseParams ps
  let get (id dflt : Nat) : Nat := (params.find? (·.1 == id)).map (·.2) |>.getD dflt
  let ic := parseList ins
  let oc := parseList outs
  let dv := dirs.toList.toArray
  let cz := parseList chunks
  if ic.size == 0 || oc.size == 0 || dv.size == 0 then "cs" else
  match params.find? (·.1 == 101) with
  | none => "cs windowLog-not-set"
  | some (_, wl) =>
    let s0 := State.start wl (get 1015 0) (if get 9000 0 != 0 then some n else none)
    let co : Nat → Nat := fun i => cz[i]?.getD 0
    let r := runCalls co n (if get 201 0 != 0 then 1 else 0) ic oc dv 2000000 0 { s := s0 }
    "cs" ++ String.join r.out.toList

def step (_ : Unit) (ws : List String) : Unit × String :=
  match ws with
  | ["cs", ps, n, ins, outs, dirs, chunks] => ((), cs ps n.toNat! ins outs dirs chunks)
  | ["cs", ps, n, ins, outs, dirs] => ((), cs ps n.toNat! ins outs dirs "-")
  | _ => ((), "unknown-op")

def main : IO Unit := do
  let stdin ← IO.getStdin
  let stdout ← IO.getStdout
  Driver.lineLoop stdin stdout () step

end Driver.CStream
