import ZstdVerif.Model.Pool
import Driver.Util
namespace Driver.Pool
open ZstdVerif.Pool

structure RS where
  threads : Nat := 1
  qsize : Nat := 0
  progs : Array (List COp) := #[]
  bodies : List (Nat × List JOp) := []
  started : Bool := false
  st : St := init 1 0 []
  ring : Ring := Ring.init 1
  spurious : Nat := 0
  steps : Nat := 0

def parseCOp (t : String) : Option COp :=
  if t.startsWith "add:" then (t.drop 4).toNat?.map COp.add
  else if t.startsWith "tryadd:" then (t.drop 7).toNat?.map COp.tryAdd
  else if t == "join" then some .joinJobs
  else if t.startsWith "resize:" then (t.drop 7).toNat?.map COp.resize
  else if t == "free" then some .free
  else none

def parseJOp (t : String) : Option JOp :=
  if t.startsWith "add:" then (t.drop 4).toNat?.map JOp.add
  else if t.startsWith "tryadd:" then (t.drop 7).toNat?.map JOp.tryAdd
  else none

def bodyOf (r : RS) (j : Job) : List JOp :=
  match r.bodies.find? (·.1 == j) with
  | some (_, b) => b
  | none => []

def actStr : Act → String
  | .signalPop => "signalPop" | .bcastPop => "bcastPop" | .bcastPush => "bcastPush"
  | .waitPop => "waitPop" | .waitPush => "waitPush"

def actsStr (a : List Act) : String := if a.isEmpty then "-" else ",".intercalate (a.map actStr)

def snapshot (r : RS) : String :=
  s!"{r.ring.head} {r.ring.tail} {if r.ring.empty then 1 else 0} {r.st.busy} {r.st.limit} {r.st.ws.length} {if r.st.shutdown then 1 else 0}"

/-- keep the ring model in step with the FIFO model -/
def syncRing (old new : St) (ring : Ring) : Ring :=
  let ring := if new.accepted.length > old.accepted.length then
      match new.accepted.getLast? with | some j => ring.push j | none => ring
    else ring
  if new.started.length > old.started.length then ring.pop.2 else ring

def sigChoice (s : St) : Nat :=
  match s.ws.findIdx? (· == .waitPop false) with
  | some k => k
  | none => 0

def tid (name : String) : Option (Bool × Nat) :=   -- (isWorker, index)
  if name.startsWith "W" then (name.drop 1).toNat?.map (true, ·)
  else if name.startsWith "C" then (name.drop 1).toNat?.map (false, ·)
  else none

def ensureStarted (r : RS) : RS :=
  if r.started then r else
  { r with started := true, st := init r.threads r.qsize r.progs.toList, ring := Ring.init (r.qsize + 1) }

/-- execute the next critical section of the named thread in the model -/
def critSection (r : RS) (name : String) : RS × String :=
  match tid name with
  | none => (r, "MODEL-DISABLED unknown thread " ++ name)
  | some (true, k) =>
      let (s1, sp) := match spuriousW r.st k with | some s' => (s', 1) | none => (r.st, 0)
      match stepWorker (bodyOf r) s1 k (sigChoice s1) with
      | some (s2, acts) =>
          let r' := { r with st := s2, ring := syncRing s1 s2 r.ring, spurious := r.spurious + sp, steps := r.steps + 1 }
          (r', s!"sec {name} {actsStr acts} {snapshot r'}")
      | none => (r, s!"MODEL-DISABLED worker {k} has no enabled step (pc {repr (r.st.ws[k]?)})")
  | some (false, i) =>
      let (s1, sp) := match spuriousC r.st i with | some s' => (s', 1) | none => (r.st, 0)
      match stepClient s1 i (sigChoice s1) with
      | some (s2, acts) =>
          let r' := { r with st := s2, ring := syncRing s1 s2 r.ring, spurious := r.spurious + sp, steps := r.steps + 1 }
          (r', s!"sec {name} {actsStr acts} {snapshot r'}")
      | none => (r, s!"MODEL-DISABLED client {i} has no enabled step (pc {repr ((r.st.cs[i]?).map (·.pc))})")

def step (r : RS) (ws : List String) : RS × String :=
  match ws with
  | ["pool", t, q] => ({ r with threads := t.toNat!, qsize := q.toNat! }, s!"pool {t} {q}")
  | "client" :: ops => ({ r with progs := r.progs.push (ops.filterMap parseCOp) }, " ".intercalate ("client" :: ops))
  | "body" :: j :: ops => ({ r with bodies := r.bodies ++ [(j.toNat!, ops.filterMap parseJOp)] }, " ".intercalate ("body" :: j :: ops))
  | "sec" :: name :: _ => critSection (ensureStarted r) name
  | ["act", name, a] =>
      -- POOL_join's broadcasts outside the mutex: the freeing client's next model step must perform exactly this action
      let r := ensureStarted r
      match tid name with
      | some (false, i) =>
          match stepClient r.st i 0 with
          | some (s2, acts) => if actsStr acts == a then ({ r with st := s2, steps := r.steps + 1 }, s!"act {name} {a}") else (r, s!"MODEL-DISABLED act {a} but model does {actsStr acts}")
          | none => (r, "MODEL-DISABLED act: client has no enabled step")
      | _ => (r, "MODEL-DISABLED act by a non-client thread")
  | ["exec", name, j] =>
      let r := ensureStarted r
      match tid name with
      | some (true, k) =>
          if r.st.ws[k]? == some (.run j.toNat! (bodyOf r j.toNat!)) then (r, s!"exec {name} {j}")
          else (r, s!"MODEL-DISABLED exec {j}: worker pc is {repr (r.st.ws[k]?)}")
      | _ => (r, "MODEL-DISABLED exec by non-worker")
  | ["done", name, j] =>
      match tid name with
      | some (true, k) =>
          if r.st.ws[k]? == some (.run j.toNat! []) then (r, s!"done {name} {j}")
          else (r, s!"MODEL-DISABLED done {j}: worker pc is {repr (r.st.ws[k]?)}")
      | _ => (r, "MODEL-DISABLED done by non-worker")
  | ["tryret", name, j, _] =>
      let jn := j.toNat!
      let ok := r.st.tryOk.getLast? == some jn || (r.st.tryOk.contains jn && !r.st.tryRefused.contains jn)
      let refused := r.st.tryRefused.getLast? == some jn || (r.st.tryRefused.contains jn && !r.st.tryOk.contains jn)
      (r, s!"tryret {name} {j} {if ok && !refused then "1" else if refused && !ok then "0" else if r.st.tryOk.contains jn then "1" else "0"}")
  | ["freeret", name] =>
      let r := ensureStarted r
      match tid name with
      | some (false, i) =>
          match stepClient r.st i 0 with
          | some (s2, _) => if (s2.cs[i]?).map (·.pc) == some .done then ({ r with st := s2 }, s!"freeret {name}") else (r, "MODEL-DISABLED freeret: model client not at joining")
          | none => (r, "MODEL-DISABLED freeret: POOL_free returned but in the model not every worker has exited")
      | _ => (r, "MODEL-DISABLED freeret by non-client")
  | "monitor" :: rest =>
      -- end of trace: report the model's own final accounting
      let s := r.st
      let quiescent := s.q.isEmpty && s.busy == 0
      (r, " ".intercalate ("monitor" :: rest) ++ s!" #model accepted={s.accepted.length} started={s.started.length} finished={s.finished.length} quiescent={quiescent} spurious={r.spurious} steps={r.steps}")
  | other => (r, " ".intercalate other)

def main : IO Unit := do
  Driver.lineLoop (← IO.getStdin) (← IO.getStdout) ({} : RS) step

end Driver.Pool
