/* zvh_ddset — histories over ONE decoding context and a pool of digested dictionaries (C08 / C14 / C16):
 * the set of DDicts kept under ZSTD_d_refMultipleDDicts (raw-content members, colliding IDs, growth), what the three reset
 * directives drop, what ZSTD_sizeof_DCtx reports against a counting allocator, and what a STATIC context does with the
 * entry points that need an internal DDict.
 *
 *   home <lo> <hi>                       XXH64 of the 4-byte little-endian IDs lo..hi-1 (hex), i.e. the hash the set derives its home slot from
 *   ddh <h|z|p> <id,id,...> <op> ...     one history; answers one line, one token per op
 *        context: h = heap context on a counting allocator; z = static context in a zeroed block of exactly
 *                 ZSTD_estimateDStreamSize(128 KB); p = the same in a block filled with 0xA5 (the caller's memory is his own)
 *        pool:    dictionary k has ID ids[k]; 0 = raw content (no ID).  Conformant dictionaries share entropy tables, every one has its
 *                 own content; frame k = 3000 bytes made of pieces of dictionary k's content (even k: mixed with text, so that the frame also
 *                 leans on the dictionary's entropy tables; k = 1 mod 4: one long piece, a frame any dictionary 'decodes'), compressed with dictionary k
 *                 (raw-content frames carry a checksum: nothing else could tell a wrong dictionary)
 *        ops:     m0 m1        ZSTD_DCtx_setParameter(ZSTD_d_refMultipleDDicts, 0|1)          -> m:<class>
 *                 r<k> rn      ZSTD_DCtx_refDDict(DDict k | NULL)                             -> r:<class>
 *                 l<k> b<k>    ZSTD_DCtx_loadDictionary / _byReference                        -> l:<class> b:<class>
 *                 p<k> u<k>    ZSTD_DCtx_refPrefix / ZSTD_initDStream_usingDict               -> p:<class> u:<class>
 *                 R1 R2 R3     ZSTD_DCtx_reset(session_only | parameters | session_and_parameters) -> R:<class>
 *                 d<k>o d<k>s  decode frame k: ZSTD_decompressDCtx | ZSTD_decompressStream (1000-byte pieces); dno dns: a frame without dictionary
 *                                                                                             -> d:right | d:WRONG | d:<class>   (then reset session_only when it failed)
 *                 z            ZSTD_sizeof_DCtx and the bytes the context's allocator holds   -> z:<sizeof>/<live>  (static: z:<sizeof>/-)
 */
#include "zvh_common.h"
#define ZDICT_STATIC_LINKING_ONLY
#include "zdict.h"
#include <signal.h>
#include <unistd.h>

#define MAXD 160
#define CONTENT 4096
#define SRCN 3000

static unsigned long long rs;
static unsigned rnd(void) { rs = rs * 6364136223846793005ULL + 1442695040888963407ULL; return (unsigned)(rs >> 33); }

/* counting allocator of the context */
static size_t g_live;
static void* cnt_alloc(void* o, size_t n) { size_t* p = (size_t*)malloc(n + 16); (void)o; if (!p) return NULL; p[0] = n; g_live += n; return p + 2; }
static void cnt_free(void* o, void* a) { (void)o; if (a) { size_t* p = (size_t*)a - 2; g_live -= p[0]; free(p); } }

static unsigned char g_hdr[4096]; static size_t g_hdrSize;
static void make_header(void) {
    static unsigned char samples[16 * 600]; size_t sizes[16]; unsigned char content[CONTENT]; unsigned char buf[CONTENT + 4096]; int i; size_t j, r;
    ZDICT_params_t zp; memset(&zp, 0, sizeof zp); zp.dictID = 12345; rs = 99;
    for (i = 0; i < 16; i++) { sizes[i] = 600; for (j = 0; j < 600; j++) samples[i * 600 + j] = (rnd() % 4) ? (unsigned char)("etaoin shrdlu,.\n"[rnd() % 17]) : (unsigned char)rnd(); }
    for (j = 0; j < CONTENT; j++) content[j] = (unsigned char)rnd();
    r = ZDICT_finalizeDictionary(buf, sizeof buf, content, CONTENT, samples, sizes, 16, zp);
    if (ZDICT_isError(r) || r <= CONTENT || r - CONTENT > sizeof g_hdr) { printf("FATAL finalizeDictionary\n"); exit(4); }
    g_hdrSize = r - CONTENT; memcpy(g_hdr, buf, g_hdrSize);
}

typedef struct { unsigned id; unsigned char* dict; size_t dictSize; const unsigned char* content; ZSTD_DDict* dd; unsigned char src[SRCN]; unsigned char* frame; size_t frameSize; } ent_t;
static ent_t E[MAXD + 1]; static int nE;     /* entry nE = "no dictionary" */

static void build_entry(int k, unsigned id, int withDict) {
    ent_t* e = &E[k]; size_t j, pos = 0; ZSTD_CCtx* c = ZSTD_createCCtx(); size_t cap = ZSTD_compressBound(SRCN);
    size_t const hs = (withDict && id) ? g_hdrSize : 0;
    e->id = id; e->dictSize = hs + CONTENT; e->dict = (unsigned char*)malloc(e->dictSize); e->content = e->dict + hs;
    if (hs) { memcpy(e->dict, g_hdr, hs); e->dict[4] = (unsigned char)id; e->dict[5] = (unsigned char)(id >> 8); e->dict[6] = (unsigned char)(id >> 16); e->dict[7] = (unsigned char)(id >> 24); }
    rs = 0x9E3779B97F4A7C15ULL * (unsigned long long)(k + 1) + id;
    for (j = 0; j < CONTENT; j++) e->dict[hs + j] = (unsigned char)rnd();
    if ((k & 3) == 1) { memcpy(e->src, e->content + 500, SRCN); pos = SRCN; }   /* one long match, nothing else */
    while (pos < SRCN) { size_t len = 40 + rnd() % 260, off = rnd() % (CONTENT - 300); if (len > SRCN - pos) len = SRCN - pos;
        if ((k & 1) == 0 && rnd() % 5 == 0) { for (j = 0; j < len; j++) e->src[pos + j] = (unsigned char)("etaoin shrdlu,.\n"[rnd() % 17]); } else memcpy(e->src + pos, e->content + off, len);
        pos += len; }
    e->frame = (unsigned char*)malloc(cap);
    ZSTD_CCtx_setParameter(c, ZSTD_c_compressionLevel, 3);
    if (withDict) { if (!id) ZSTD_CCtx_setParameter(c, ZSTD_c_checksumFlag, 1);
        ZSTD_CCtx_loadDictionary_advanced(c, e->dict, e->dictSize, ZSTD_dlm_byRef, id ? ZSTD_dct_fullDict : ZSTD_dct_rawContent); }
    e->frameSize = ZSTD_compress2(c, e->frame, cap, e->src, SRCN);
    if (ZSTD_isError(e->frameSize) || (withDict && ZSTD_getDictID_fromFrame(e->frame, e->frameSize) != id)) { printf("FATAL frame %d\n", k); exit(4); }
    e->dd = withDict ? ZSTD_createDDict_advanced(e->dict, e->dictSize, ZSTD_dlm_byRef, id ? ZSTD_dct_fullDict : ZSTD_dct_rawContent, ZSTD_defaultCMem) : NULL;
    if (withDict && (!e->dd || ZSTD_getDictID_fromDDict(e->dd) != id)) { printf("FATAL ddict %d\n", k); exit(4); }
    ZSTD_freeCCtx(c);
}
static void free_entries(void) { int k; for (k = 0; k <= nE; k++) { free(E[k].dict); free(E[k].frame); ZSTD_freeDDict(E[k].dd); memset(&E[k], 0, sizeof E[k]); } }

static void on_alarm(int s) { (void)s; { static const char m[] = "TIMEOUT\n"; if (write(1, m, sizeof m - 1) < 0) {} } _exit(3); }

int main(void) {
    char* line; signal(SIGALRM, on_alarm); make_header();
    while ((line = zv_getline())) {
        char* sv = NULL; char* op = strtok_r(line, " ", &sv); if (!op) continue;
        alarm(120);
        if (!strcmp(op, "home")) {
            unsigned lo = (unsigned)strtoul(strtok_r(NULL, " ", &sv), NULL, 10), hi = (unsigned)strtoul(strtok_r(NULL, " ", &sv), NULL, 10), x;
            for (x = lo; x < hi; x++) { unsigned char le[4]; le[0] = (unsigned char)x; le[1] = (unsigned char)(x >> 8); le[2] = (unsigned char)(x >> 16); le[3] = (unsigned char)(x >> 24);
                printf("%s%llx", x == lo ? "" : " ", (unsigned long long)XXH64(le, 4, 0)); }
            printf("\n");
        } else if (!strcmp(op, "ddh")) {
            char kind = strtok_r(NULL, " ", &sv)[0]; char* ids = strtok_r(NULL, " ", &sv); char* t; char* sv2 = NULL; ZSTD_DCtx* d; void* mem = NULL; unsigned char out[SRCN + 64]; int first = 1;
            ZSTD_customMem cm; cm.customAlloc = cnt_alloc; cm.customFree = cnt_free; cm.opaque = NULL;
            nE = 0; for (t = strtok_r(ids, ",", &sv2); t && nE < MAXD; t = strtok_r(NULL, ",", &sv2)) { build_entry(nE, (unsigned)strtoul(t, NULL, 10), 1); nE++; }
            build_entry(nE, 0, 0);
            g_live = 0;
            if (kind == 'h') d = ZSTD_createDCtx_advanced(cm);
            else { size_t need = ZSTD_estimateDStreamSize((size_t)1 << 17); mem = malloc(need + 8); memset(mem, kind == 'p' ? 0xA5 : 0, need + 8); d = ZSTD_initStaticDCtx((void*)(((size_t)mem + 7) & ~(size_t)7), need); }
            if (!d) { printf("FATAL no context\n"); free_entries(); free(mem); fflush(stdout); continue; }
            for (t = strtok_r(NULL, " ", &sv); t; t = strtok_r(NULL, " ", &sv)) {
                size_t r = 0; int k = (t[1] == 'n') ? nE : atoi(t + 1);
                if (!first) putchar(' '); first = 0;
                if (strchr("rlbpud", t[0]) && (k < 0 || k > nE || (k == nE && !strchr("rd", t[0])))) { printf("bad-op"); continue; }
                switch (t[0]) {
                case 'm': r = ZSTD_DCtx_setParameter(d, ZSTD_d_refMultipleDDicts, k); printf("m:%s", zv_errclass(r)); break;
                case 'r': r = ZSTD_DCtx_refDDict(d, k == nE ? NULL : E[k].dd); printf("r:%s", zv_errclass(r)); break;
                case 'l': r = ZSTD_DCtx_loadDictionary(d, E[k].dict, E[k].dictSize); printf("l:%s", zv_errclass(r)); break;
                case 'b': r = ZSTD_DCtx_loadDictionary_byReference(d, E[k].dict, E[k].dictSize); printf("b:%s", zv_errclass(r)); break;
                case 'p': r = ZSTD_DCtx_refPrefix(d, E[k].dict, E[k].dictSize); printf("p:%s", zv_errclass(r)); break;
                case 'u': r = ZSTD_initDStream_usingDict(d, E[k].dict, E[k].dictSize); printf("u:%s", zv_errclass(r)); break;
                case 'R': r = ZSTD_DCtx_reset(d, k == 1 ? ZSTD_reset_session_only : k == 2 ? ZSTD_reset_parameters : ZSTD_reset_session_and_parameters); printf("R:%s", zv_errclass(r)); break;
                case 'z': if (kind == 'h') printf("z:%zu/%zu", ZSTD_sizeof_DCtx(d), g_live); else printf("z:%zu/-", ZSTD_sizeof_DCtx(d)); break;
                case 'd': { ent_t* e = &E[k]; size_t got = 0; char how = t[strlen(t) - 1];
                    if (how == 'o') { r = ZSTD_decompressDCtx(d, out, sizeof out, e->frame, e->frameSize); got = r; }
                    else { size_t pos = 0; int guard = 0; r = 1;
                        while (r != 0 && guard++ < 1000) { ZSTD_inBuffer ib; ZSTD_outBuffer ob; size_t isz = e->frameSize - pos; if (isz > 1000) isz = 1000;
                            ib.src = e->frame + pos; ib.size = isz; ib.pos = 0; ob.dst = out + got; ob.size = sizeof out - got; ob.pos = 0;
                            r = ZSTD_decompressStream(d, &ob, &ib); if (ZSTD_isError(r)) break; pos += ib.pos; got += ob.pos;
                            if (ib.pos == 0 && ob.pos == 0) { r = (size_t)-ZSTD_error_srcSize_wrong; break; } } }
                    if (ZSTD_isError(r)) { printf("d:%s", zv_errclass(r)); ZSTD_DCtx_reset(d, ZSTD_reset_session_only); }
                    else printf("d:%s", (got == SRCN && !memcmp(out, e->src, SRCN)) ? "right" : "WRONG");
                    break; }
                default: printf("bad-op");
                }
            }
            if (kind == 'h') { ZSTD_freeDCtx(d); if (g_live) printf(" LEAK:%zu", g_live); }
            printf("\n");
            free(mem); free_entries();
        } else printf("bad-op\n");
        fflush(stdout);
    }
    return 0;
}
