/* zvh_sparsebig — the CLI's sparse writer (programs/fileio_asyncio.c: AIO_fwriteSparse / AIO_fwriteSparseEnd) on buffer sequences with
 * HUGE zero runs (C19): the file is virtual (fwrite and the relative seek are replaced by position arithmetic), so a run of many GiB costs
 * only the scan of the zero buffer.
 *   sparsebig <item> ...     item = <hex buffer> | - (empty buffer) | z<size>x<count> (count consecutive buffers of <size> zero bytes)
 *   -> size=<file size> ops=<s<n>|w<n>,...> misplaced=<k> nzin=<a> nzout=<b>
 * ops: the seek / write calls issued, consecutive relative seeks added up (two hops of a hole are one hole);
 * misplaced: write calls whose data does not land at the offset those bytes have in the stream handed to the writer (data taken from the
 *            current buffer must land at bufferBase + (data - buffer); any other data - the explicit last zero - must be zeros at the very end);
 * nzin / nzout: non-zero bytes handed in / written (every non-zero byte must be written). */
#include <stdio.h>
#include <stdlib.h>
#include <string.h>
#include <unistd.h>
#include "platform.h"
#include "util.h"
#include "fileio_common.h"
static char* g_ops; static size_t g_opl, g_opcap;
static unsigned long long g_pos, g_size, g_pendSeek, g_base, g_total, g_misplaced, g_nzout, g_hiWrite; static int g_havePend, g_foreign;
static const unsigned char* g_buf; static size_t g_bufLen;
static void logop(char k, unsigned long long n) {
    if (g_opl + 40 > g_opcap) { g_opcap = g_opcap ? g_opcap * 2 : 4096; g_ops = (char*)realloc(g_ops, g_opcap); }
    g_opl += (size_t)snprintf(g_ops + g_opl, g_opcap - g_opl, "%s%c%llu", g_opl ? "," : "", k, n); }
static void flushSeek(void) { if (g_havePend) { logop('s', g_pendSeek); g_havePend = 0; g_pendSeek = 0; } }
static size_t zv_fwrite(const void* p, size_t sz, size_t n, FILE* f) {
    size_t const len = sz * n; size_t k; const unsigned char* d = (const unsigned char*)p; (void)f;
    flushSeek(); logop('w', (unsigned long long)len);
    if (g_foreign) g_misplaced++;                                                  /* nothing may follow the explicit last zero */
    if (g_buf && d >= g_buf && d + len <= g_buf + g_bufLen) { if (g_pos != g_base + (unsigned long long)(d - g_buf)) g_misplaced++; }
    else { for (k = 0; k < len; k++) if (d[k]) break;
           if (k != len || g_pos < g_hiWrite) g_misplaced++;                       /* foreign data: must be zeros, beyond everything written so far */
           g_foreign = 1; }
    for (k = 0; k < len; k++) g_nzout += d[k] != 0;
    g_pos += len; if (g_pos > g_size) g_size = g_pos; if (g_pos > g_hiWrite) g_hiWrite = g_pos;
    return n; }
static int zv_seek(FILE* f, long long off, int whence) { (void)f; if (whence != SEEK_CUR || off < 0) { g_misplaced++; return -1; }
    g_pendSeek += (unsigned long long)off; g_havePend = 1; g_pos += (unsigned long long)off; return 0; }
#undef LONG_SEEK
#define LONG_SEEK zv_seek
#define fwrite zv_fwrite
#include "fileio_asyncio.c"
#undef fwrite
FIO_display_prefs_t g_display_prefs = { 2, FIO_ps_auto };
/* the accumulator has whatever type the tree gives it */
typedef __typeof__(AIO_fwriteSparse((FILE*)0, (const void*)0, (size_t)0, (const FIO_prefs_t*)0, 0)) skips_t;
static int hv(int c) { return c <= '9' ? c - '0' : (c | 32) - 'a' + 10; }

int main(void) {
    char* line = NULL; size_t cap = 0; ssize_t n;
    while ((n = getline(&line, &cap, stdin)) > 0) {
        char* sv = NULL; char* tok; FIO_prefs_t prefs; FILE* f; skips_t skips = 0; unsigned long long nzin = 0;
        while (n > 0 && (line[n - 1] == '\n' || line[n - 1] == '\r')) line[--n] = 0;
        tok = strtok_r(line, " ", &sv); if (!tok || strcmp(tok, "sparsebig")) { printf("bad-op\n"); fflush(stdout); continue; }
        memset(&prefs, 0, sizeof prefs); prefs.sparseFileSupport = 2; prefs.testMode = 0;
        f = fopen("/dev/null", "wb");                                            /* never touched: both primitives are replaced */
        g_opl = 0; if (g_ops) g_ops[0] = 0; g_pos = g_size = g_pendSeek = g_base = g_total = g_misplaced = g_nzout = g_hiWrite = 0; g_havePend = 0; g_foreign = 0;
        for (tok = strtok_r(NULL, " ", &sv); tok; tok = strtok_r(NULL, " ", &sv)) {
            if (tok[0] == 'z') {
                char* x = strchr(tok, 'x'); size_t const len = (size_t)strtoull(tok + 1, NULL, 10); unsigned long long cnt = x ? strtoull(x + 1, NULL, 10) : 1, c;
                unsigned char* b = (unsigned char*)calloc(len + 8, 1);             /* malloc'ed, hence aligned on size_t */
                for (c = 0; c < cnt; c++) { g_buf = b; g_bufLen = len; g_base = g_total;
                    skips = AIO_fwriteSparse(f, b, len, &prefs, skips); g_total += len; }
                g_buf = NULL; free(b);
            } else {
                size_t len = tok[0] == '-' ? 0 : strlen(tok) / 2, k; unsigned char* b = (unsigned char*)malloc(len + 8);
                for (k = 0; k < len; k++) { b[k] = (unsigned char)(hv(tok[2 * k]) * 16 + hv(tok[2 * k + 1])); nzin += b[k] != 0; }
                g_buf = b; g_bufLen = len; g_base = g_total;
                skips = AIO_fwriteSparse(f, b, len, &prefs, skips); g_total += len; g_buf = NULL; free(b);
            } }
        AIO_fwriteSparseEnd(&prefs, f, skips); fclose(f); flushSeek();
        printf("size=%llu ops=%s misplaced=%llu nzin=%llu nzout=%llu\n", g_size, g_opl ? g_ops : "", g_misplaced, nzin, g_nzout); fflush(stdout);
    }
    return 0;
}
