/* zvh_bitw: drives the real forward bit writer of lib/common/bitstream.h (BIT_initCStream, BIT_addBits,
 * BIT_addBitsFast, BIT_flushBits, BIT_flushBitsFast, BIT_closeCStream) for the differential tie of Model/BitW.lean.
 *
 * stdin : one op per line   bitw <policy>[f] v1:n1,v2:n2,...      (field list `-` or absent = no field)
 *   policy  = BIT_flushBits is called as soon as at least <policy> bits sit in the register after an add
 *             (suffix f : BIT_flushBitsFast instead); independently of the policy the register discipline of the C
 *             callers is respected: a flush is forced before an add (and before the end mark) that would bring the
 *             register above 56 bits, so that bitPos + nbBits < 64 always holds.
 *   v:n     = value (decimal, up to 2^64-1), width 0..56.  n <= 31 : BIT_addBits(value) with the raw (possibly
 *             dirty) value; n > 31 (beyond BIT_mask) : BIT_addBitsFast with the value cleaned here.
 * stdout: the stream [dst, dst+BIT_closeCStream()) as lowercase hex, `-` when empty, `bad-op` on a malformed line.
 */
#include <stdio.h>
#include <stdlib.h>
#include <string.h>
#include "bitstream.h"

#define MAXFIELDS 4096

static void flushOne(BIT_CStream_t* bc, int fast) { if (fast) BIT_flushBitsFast(bc); else BIT_flushBits(bc); }

int main(void)
{
    char* line = NULL; size_t cap = 0; ssize_t len;
    /* 4096 fields * 7 bytes + 8 (MEM_writeLEST slack) + 8 (BIT_closeCStream wants ptr < endPtr) */
    size_t const dstCap = (size_t)MAXFIELDS * 7 + 64;
    unsigned char* const dst = (unsigned char*)malloc(dstCap);
    if (!dst) return 3;
    while ((len = getline(&line, &cap, stdin)) > 0) {
        char* save = NULL;
        char* tok = strtok_r(line, " \t\r\n", &save);
        if (!tok) continue;
        if (strcmp(tok, "bitw") != 0) { puts("bad-op"); continue; }
        char* pol = strtok_r(NULL, " \t\r\n", &save);
        if (!pol) { puts("bad-op"); continue; }
        char* endp = NULL;
        unsigned long policy = strtoul(pol, &endp, 10);
        int fast = 0;
        if (endp == pol) { puts("bad-op"); continue; }
        if (*endp == 'f') { fast = 1; endp++; }
        if (*endp != 0) { puts("bad-op"); continue; }
        char* fields = strtok_r(NULL, " \t\r\n", &save);

        BIT_CStream_t bc;
        memset(dst, 0xA5, dstCap);
        if (ERR_isError(BIT_initCStream(&bc, dst, dstCap))) { puts("bad-op"); continue; }
        int bad = 0; unsigned nFields = 0;
        if (fields && strcmp(fields, "-") != 0) {
            char* p = fields;
            while (*p) {
                char* e1 = NULL;
                unsigned long long v = strtoull(p, &e1, 10);
                if (e1 == p || *e1 != ':') { bad = 1; break; }
                char* e2 = NULL;
                unsigned long n = strtoul(e1 + 1, &e2, 10);
                if (e2 == e1 + 1 || n > 56 || ++nFields > MAXFIELDS) { bad = 1; break; }
                if (bc.bitPos + n > 56) flushOne(&bc, fast);
                if (n <= 31) BIT_addBits(&bc, (size_t)v, (unsigned)n);
                else BIT_addBitsFast(&bc, (size_t)(v & ((1ULL << n) - 1)), (unsigned)n);
                if (bc.bitPos >= policy) flushOne(&bc, fast);
                p = e2;
                if (*p == ',') p++; else if (*p) { bad = 1; break; }
            }
        }
        if (bad) { puts("bad-op"); continue; }
        if (bc.bitPos + 1 > 56) flushOne(&bc, fast);
        size_t const sz = BIT_closeCStream(&bc);
        if (sz == 0) { puts("bad-op"); continue; }   /* 0 = did not fit: cannot happen with dstCap above */
        for (size_t i = 0; i < sz; i++) printf("%02x", dst[i]);
        putchar('\n');
    }
    fflush(stdout);
    free(line); free(dst);
    return 0;
}
