/* zvh_cstream — ZSTD_compressStream2 / ZSTD_compressStream observed call by call, with every ZSTD_compressContinue_public /
 * ZSTD_compressEnd_public the buffer machine issues logged (tie of lean/ZstdVerif/Model/CStream.lean).
 * #includes zstd_compress.c (nothing in the repository is edited).  The two chunk compressors are renamed zvreal_* where they are
 * DEFINED and where anything but ZSTD_compressStream_generic calls them; the three calls inside ZSTD_compressStream_generic (the only
 * ones whose first argument is spelled `zcs`) go to logging shims.  A change of those spellings makes this file fail to compile.
 *
 *   cs <id=val,...|-> <srcSize> <seed> <in sizes csv> <out sizes csv> <directives>
 * The source (srcSize bytes) is generated from the seed.  Parameter ids are ZSTD_cParameter numbers; pseudo-id 9000=1 pledges the
 * source size before the first frame.  Call k offers in[k % ni] bytes of input (cut to what is left of the source) and
 * out[k % no] bytes of room, with directive dirs[k % nd]:
 *     c = ZSTD_compressStream (returns the input size hint)   C = ZSTD_compressStream2(e_continue)
 *     f = e_flush     e = e_end (ends the frame wherever it is; a new frame starts with the next call)
 *     E = e_end if this call offers the last bytes of the source, else e_flush
 *     x = ZSTD_endStream (legacy end: offers no input; returns its own estimate of what is left)   y = ZSTD_flushStream (no input)
 *     X = ZSTD_endStream once the whole source has been consumed, else ZSTD_compressStream
 * Once an e_end call has returned non-zero, the following calls repeat e_end with only the input that call left unconsumed, until
 * the frame is complete.  When the whole source has been consumed every call is e_end.
 * Output: "cs", then per call:  [i<blockSize>/<inBuffSize>/<outBuffSize>/<inBuffTarget>] when the call initialised a frame,
 *   k<srcSize>:<cSize> (ZSTD_compressContinue_public) / K<srcSize>:<cSize> (ZSTD_compressEnd_public) for every chunk, in order,
 *   then <consumed>:<produced>:<ret> (ret = E<class> for an error);
 * finally rt=ok|FAIL (the emitted bytes decode to the consumed source) — not part of the tie.
 * A frame whose end was requested through ZSTD_endStream is continued with ZSTD_endStream until it returns 0; more than
 * 4*srcSize+4096 consecutive end calls print LIVELOCK and stop the history (the end directive never reported completion).
 * The history ends at an error, when a frame is complete and the source exhausted, after 40 consecutive calls without any
 * effect, or after 2000000 calls. */
#include <stdio.h>
#include <stdlib.h>
#include <string.h>
#define ZSTD_STATIC_LINKING_ONLY
#include "zstd_compress_internal.h"   /* found through -I<repo>/… (tools/build.py); declares the two chunk compressors */

static size_t zv_cc_shim(ZSTD_CCtx* c, void* dst, size_t cap, const void* src, size_t n);
static size_t zv_ce_shim(ZSTD_CCtx* c, void* dst, size_t cap, const void* src, size_t n);
size_t zvreal_compressContinue_public(ZSTD_CCtx* cctx, void* dst, size_t dstCapacity, const void* src, size_t srcSize);
size_t zvreal_compressEnd_public(ZSTD_CCtx* cctx, void* dst, size_t dstCapacity, const void* src, size_t srcSize);
#define ZV_CC_ZSTD_CCtx zvreal_compressContinue_public(ZSTD_CCtx
#define ZV_CC_cctx      zvreal_compressContinue_public(cctx
#define ZV_CC_zcs       zv_cc_shim(zcs
#define ZV_CE_ZSTD_CCtx zvreal_compressEnd_public(ZSTD_CCtx
#define ZV_CE_cctx      zvreal_compressEnd_public(cctx
#define ZV_CE_zcs       zv_ce_shim(zcs
#define ZSTD_compressContinue_public(a, b, c, d, e) ZV_CC_##a, b, c, d, e)
#define ZSTD_compressEnd_public(a, b, c, d, e)      ZV_CE_##a, b, c, d, e)
#include "zstd_compress.c"
#undef ZSTD_compressContinue_public
#undef ZSTD_compressEnd_public
/* the rest of the library (zstdmt_compress.c) links against the original names */
size_t ZSTD_compressContinue_public(ZSTD_CCtx* cctx, void* dst, size_t dstCapacity, const void* src, size_t srcSize) {
    return zvreal_compressContinue_public(cctx, dst, dstCapacity, src, srcSize); }
size_t ZSTD_compressEnd_public(ZSTD_CCtx* cctx, void* dst, size_t dstCapacity, const void* src, size_t srcSize) {
    return zvreal_compressEnd_public(cctx, dst, dstCapacity, src, srcSize); }
#include "zvh_common.h"

static size_t zv_cc_shim(ZSTD_CCtx* c, void* dst, size_t cap, const void* src, size_t n) {
    size_t const r = zvreal_compressContinue_public(c, dst, cap, src, n);
    if (ZSTD_isError(r)) printf(" k%zu:E%s", n, zv_errclass(r)); else printf(" k%zu:%zu", n, r);
    return r;
}
static size_t zv_ce_shim(ZSTD_CCtx* c, void* dst, size_t cap, const void* src, size_t n) {
    size_t const r = zvreal_compressEnd_public(c, dst, cap, src, n);
    if (ZSTD_isError(r)) printf(" K%zu:E%s", n, zv_errclass(r)); else printf(" K%zu:%zu", n, r);
    return r;
}

static unsigned long long rs;
static unsigned rnd(void) { rs = rs * 6364136223846793005ULL + 1442695040888963407ULL; return (unsigned)(rs >> 33); }
/* a mix of copies, text-like runs, noise and long runs of one byte */
static void gen_data(unsigned char* p, size_t n, unsigned long long seed) {
    size_t i = 0; unsigned const style = (unsigned)(seed % 5); rs = seed * 2654435761ULL + 12345;
    while (i < n) { unsigned k = rnd() % 100; size_t len = 1 + rnd() % (style == 3 ? 5000 : 300); size_t j; if (len > n - i) len = n - i;
        if (style == 1) k = 90;                       /* incompressible: raw blocks */
        if (style == 2) k = 99;                       /* one byte repeated: rle blocks */
        if (k < 40 && i > 100) { size_t maxd = i < 300000u ? i : 300000u; size_t d = 1 + rnd() % maxd; for (j = 0; j < len; j++) p[i + j] = p[i + j - d]; }
        else if (k < 75) { for (j = 0; j < len; j++) p[i + j] = (unsigned char)("etaoin shrdlu,.\n"[rnd() % 17]); }
        else if (k < 98) { for (j = 0; j < len; j++) p[i + j] = (unsigned char)rnd(); }
        else { unsigned char b = (unsigned char)(style == 2 ? 'z' : rnd()); if (style == 2) len = n - i; for (j = 0; j < len; j++) p[i + j] = b; }
        i += len; }
}

static int parse_list(char* s, size_t* v, int max) {
    int n = 0; char* sv; char* t;
    for (t = strtok_r(s, ",", &sv); t && n < max; t = strtok_r(NULL, ",", &sv)) v[n++] = (size_t)strtoull(t, NULL, 10);
    return n;
}

int main(void) {
    char* line;
    ZSTD_CCtx* cctx = ZSTD_createCCtx();
    while ((line = zv_getline())) {
        char* op = strtok(line, " "); if (!op) continue;
        if (!strcmp(op, "cs")) {
            char* ps = strtok(NULL, " "); size_t n = (size_t)strtoull(strtok(NULL, " "), NULL, 10); unsigned long long seed = strtoull(strtok(NULL, " "), NULL, 10);
            char* ins = strtok(NULL, " "); char* outs = strtok(NULL, " "); char* dirs = strtok(NULL, " ");
            size_t ic[64], oc[64]; int ni = parse_list(ins, ic, 64), no = parse_list(outs, oc, 64), nd = dirs ? (int)strlen(dirs) : 0;
            unsigned char* in = (unsigned char*)malloc(n ? n : 1);
            size_t cap = ZSTD_compressBound(n) + (1u << 20), r = 0; unsigned char* out;
            size_t consumed = 0, produced = 0, left = 0; long calls = 0; int idle = 0, ending = 0, done = 0, grown = 0, endLegacy = 0; size_t endCalls = 0; char* save = NULL; char* kv;
            gen_data(in, n, seed);
            out = (unsigned char*)malloc(cap);
            ZSTD_CCtx_reset(cctx, ZSTD_reset_session_and_parameters);
            if (strcmp(ps, "-")) for (kv = strtok_r(ps, ",", &save); kv && !ZSTD_isError(r); kv = strtok_r(NULL, ",", &save)) { int id, val;
                if (sscanf(kv, "%d=%d", &id, &val) != 2) continue;
                if (id == 9000) { if (val) r = ZSTD_CCtx_setPledgedSrcSize(cctx, n); }
                else r = ZSTD_CCtx_setParameter(cctx, (ZSTD_cParameter)id, val); }
            printf("cs");
            if (ZSTD_isError(r)) { printf(" Eparam_%s", zv_errclass(r)); ni = 0; }
            while (calls < 2000000 && ni > 0 && no > 0 && nd > 0 && !done) {
                size_t isz = ic[calls % ni], osz = oc[calls % no]; char dc = dirs[calls % nd]; ZSTD_inBuffer ib; ZSTD_outBuffer ob; ZSTD_EndDirective dir;
                int const fresh = (cctx->streamStage == zcss_init); int wasEnd;
                if (isz > n - consumed) isz = n - consumed;
                if (dc == 'X') dc = (consumed == n) ? 'x' : 'c';
                if (ending) { isz = left; dc = endLegacy ? 'x' : 'e'; }
                else if (consumed == n && dc != 'x') dc = 'e';
                if (dc == 'x' || dc == 'y') isz = 0;
                if (dc == 'E') dc = (consumed + isz == n) ? 'e' : 'f';
                dir = (dc == 'f' || dc == 'y') ? ZSTD_e_flush : (dc == 'e' || dc == 'x') ? ZSTD_e_end : ZSTD_e_continue;
                if (produced + osz > cap) { /* flush storms: every tiny flush costs a block */
                    cap = 2 * cap + osz; out = (unsigned char*)realloc(out, cap); grown++; }
                ib.src = in + consumed; ib.size = isz; ib.pos = 0; ob.dst = out + produced; ob.size = osz; ob.pos = 0;
                r = (dc == 'c') ? ZSTD_compressStream(cctx, &ob, &ib) : (dc == 'x') ? ZSTD_endStream(cctx, &ob) : (dc == 'y') ? ZSTD_flushStream(cctx, &ob)
                  : ZSTD_compressStream2(cctx, &ob, &ib, dir); calls++;
                if (fresh) printf(" i%zu/%zu/%zu/%zu", cctx->blockSize, cctx->inBuffSize, cctx->outBuffSize, cctx->inBuffTarget);
                if (ZSTD_isError(r)) { printf(" %zu:%zu:E%s", ib.pos, ob.pos, zv_errclass(r)); break; }
                printf(" %zu:%zu:%zu", ib.pos, ob.pos, r);
                consumed += ib.pos; produced += ob.pos; left = isz - ib.pos;
                wasEnd = (dir == ZSTD_e_end);
                if (wasEnd && r != 0) { ending = 1; endLegacy = (dc == 'x'); if (++endCalls > 4 * n + 4096) { printf(" LIVELOCK"); break; } }
                if (wasEnd && r == 0) { ending = 0; endCalls = 0; if (consumed == n) done = 1; }
                if (ib.pos == 0 && ob.pos == 0 && !(wasEnd && r == 0)) { if (++idle >= 40) break; } else idle = 0;
            }
            /* the emitted bytes decode to exactly what was consumed (only meaningful when the last frame is complete) */
            if (done) { unsigned char* back = (unsigned char*)malloc(consumed ? consumed : 1); size_t d = ZSTD_decompress(back, consumed, out, produced);
                printf(" rt=%s", (!ZSTD_isError(d) && d == consumed && !memcmp(back, in, consumed)) ? "ok" : "FAIL"); free(back); }
            else printf(" rt=open");
            printf("\n");
            free(in); free(out);
        } else printf("unknown-op\n");
        fflush(stdout);
    }
    ZSTD_freeCCtx(cctx);
    return 0;
}
