/* zvh_seqenc — function-level harness for the sequences bit stream of a compressed block: ZSTD_seqToCodes (lib/compress/zstd_compress.c)
 * and ZSTD_encodeSequences (lib/compress/zstd_compress_sequences.c) over compression tables built the three ways ZSTD_buildCTable
 * builds them (set_basic: FSE_buildCTable_wksp on the predefined norms, set_rle: FSE_buildCTable_rle, set_compressed:
 * FSE_buildCTable_wksp on a given normalised distribution).  The Lean side is Driver/SeqEnc.lean over Model/SeqEnc.lean.
 *
 *   seqenc <tLL>,<tOF>,<tML> <specLL> <specOF> <specML> <litLength:mlBase:offBase,...>   -> ok <hex of the bit stream>
 *       t = b (predefined, spec `-`) | r (RLE, spec = the symbol) | c (compressed, spec = <tableLog>:<c0,c1,...> normalised counts, -1 allowed)
 *       litLength / mlBase are the FULL values (< 0x20000); at most one value of a line may exceed 0xFFFF: it is stored the way ZSTD_storeSeq
 *       stores it (low 16 bits in the seqDef, longLengthType / longLengthPos in the seqStore).
 *   `err usage` when a line is malformed, a `c` distribution is not normalised, a code has probability 0 in its table (the C encoder would read an uninitialised
 *   symbolTT entry), or two lengths are long.  The stream is produced twice, with bmi2 = 0 and bmi2 = ZSTD_cpuSupportsBmi2(): `err bmi2-differs`
 *   if the two differ. */
#define FSE_STATIC_LINKING_ONLY
#include "fse.h"
#include "bitstream.h"
#include "zstd_internal.h"
#include "zstd_compress_internal.h"
#include "zstd_compress_sequences.h"
#include "zvh_common.h"

#define MAXSYM 64
typedef struct { char type; unsigned log; unsigned maxSV; short norm[MAXSYM]; unsigned rle; FSE_CTable* ct; } table_t;

/* parse "<log>:<c0,c1,...>" */
static int parse_norm(const char* s, table_t* t) {
    char* e; const char* p; unsigned n = 0;
    t->log = (unsigned)strtoul(s, &e, 10);
    if (e == s || *e != ':') return 0;
    p = e + 1;
    while (*p) {
        long x = strtol(p, &e, 10);
        if (e == p || n >= MAXSYM) return 0;
        t->norm[n++] = (short)x; p = e;
        if (*p == ',') p++; else if (*p) return 0;
    }
    if (n == 0) return 0;
    t->maxSV = n - 1;
    return 1;
}

/* build the table; which = 0 LL, 1 OF, 2 ML.  returns 0 on a usage error */
static int build_table(table_t* t, const char* spec, int which) {
    static const unsigned maxLog[3] = { LLFSELog, OffFSELog, MLFSELog };
    static const unsigned maxSym[3] = { MaxLL, MaxOff, MaxML };
    size_t const ctU32 = FSE_CTABLE_SIZE_U32(9, MaxML);
    size_t const wkspSize = 16384;
    void* wksp; size_t r; unsigned i;
    t->ct = (FSE_CTable*)malloc(ctU32 * sizeof(U32));
    memset(t->ct, 0, ctU32 * sizeof(U32));
    if (t->type == 'r') {
        char* e; t->rle = (unsigned)strtoul(spec, &e, 10);
        if (e == spec || *e || t->rle > maxSym[which]) return 0;
        return !FSE_isError(FSE_buildCTable_rle(t->ct, (BYTE)t->rle));
    }
    if (t->type == 'b') {
        const short* dn = which == 0 ? LL_defaultNorm : which == 1 ? OF_defaultNorm : ML_defaultNorm;
        if (strcmp(spec, "-")) return 0;
        t->log = which == 0 ? LL_defaultNormLog : which == 1 ? OF_defaultNormLog : ML_defaultNormLog;
        t->maxSV = which == 0 ? MaxLL : which == 1 ? DefaultMaxOff : MaxML;
        for (i = 0; i <= t->maxSV; i++) t->norm[i] = dn[i];
    } else if (t->type == 'c') {
        if (!parse_norm(spec, t)) return 0;
        if (t->log < FSE_MIN_TABLELOG || t->log > maxLog[which] || t->maxSV > maxSym[which]) return 0;
        {   long total = 0;     /* the counts must be normalised: FSE_buildCTable_wksp trusts them */
            for (i = 0; i <= t->maxSV; i++) { if (t->norm[i] < -1) return 0; total += t->norm[i] == -1 ? 1 : t->norm[i]; }
            if (total != (1L << t->log)) return 0;
        }
    } else return 0;
    wksp = malloc(wkspSize); memset(wksp, 0, wkspSize);
    r = FSE_buildCTable_wksp(t->ct, t->norm, t->maxSV, t->log, wksp, wkspSize);
    free(wksp);
    return !FSE_isError(r);
}

static int code_ok(const table_t* t, unsigned code) {
    if (t->type == 'r') return code == t->rle;
    return code <= t->maxSV && t->norm[code] != 0;
}

int main(void) {
    char* line;
    while ((line = zv_getline())) {
        char* sv; char* op = strtok_r(line, " ", &sv); char* a[5]; int k, bad = 0;
        table_t tb[3]; seqStore_t ss; size_t nb = 0, cap, i; const char* p;
        if (!op) continue;
        for (k = 0; k < 5; k++) a[k] = strtok_r(NULL, " ", &sv);
        if (strcmp(op, "seqenc")) { printf("err unknown-op\n"); continue; }
        if (!a[4] || strlen(a[0]) != 5 || a[0][1] != ',' || a[0][3] != ',') { printf("err usage\n"); continue; }
        memset(tb, 0, sizeof(tb)); memset(&ss, 0, sizeof(ss));
        for (k = 0; k < 3; k++) { tb[k].type = a[0][2 * k]; if (!build_table(&tb[k], a[1 + k], k)) bad = 1; }
        for (p = a[4], cap = 1; *p; p++) if (*p == ',') cap++;
        ss.sequencesStart = (seqDef*)malloc(cap * sizeof(seqDef));
        ss.llCode = (BYTE*)malloc(cap); ss.mlCode = (BYTE*)malloc(cap); ss.ofCode = (BYTE*)malloc(cap);
        ss.maxNbSeq = cap; ss.longLengthType = ZSTD_llt_none;
        p = a[4];
        while (*p && !bad) {
            char* e; unsigned long ll, ml, ob;
            ll = strtoul(p, &e, 10); if (e == p || *e != ':') { bad = 1; break; } p = e + 1;
            ml = strtoul(p, &e, 10); if (e == p || *e != ':') { bad = 1; break; } p = e + 1;
            ob = strtoul(p, &e, 10); if (e == p) { bad = 1; break; } p = e;
            if (*p == ',') p++; else if (*p) { bad = 1; break; }
            if (ll >= 0x20000 || ml >= 0x20000 || ob == 0 || ob > 0xFFFFFFFFul || nb >= cap) { bad = 1; break; }
            if (ll > 0xFFFF) { if (ss.longLengthType != ZSTD_llt_none) { bad = 1; break; } ss.longLengthType = ZSTD_llt_literalLength; ss.longLengthPos = (U32)nb; }
            if (ml > 0xFFFF) { if (ss.longLengthType != ZSTD_llt_none) { bad = 1; break; } ss.longLengthType = ZSTD_llt_matchLength; ss.longLengthPos = (U32)nb; }
            ss.sequencesStart[nb].litLength = (U16)ll; ss.sequencesStart[nb].mlBase = (U16)ml; ss.sequencesStart[nb].offBase = (U32)ob;
            nb++;
        }
        if (nb == 0) bad = 1;
        ss.sequences = ss.sequencesStart + nb;
        if (!bad) {
            int const longOffsets = ZSTD_seqToCodes(&ss);
            for (i = 0; i < nb && !bad; i++)
                if (!code_ok(&tb[0], ss.llCode[i]) || !code_ok(&tb[1], ss.ofCode[i]) || !code_ok(&tb[2], ss.mlCode[i])) bad = 1;
            if (!bad) {
                size_t const dcap = nb * 16 + 64;
                BYTE* d0 = (BYTE*)malloc(dcap); BYTE* d1 = (BYTE*)malloc(dcap);
                size_t r0, r1;
                memset(d0, 0, dcap); memset(d1, 0, dcap);
                r0 = ZSTD_encodeSequences(d0, dcap, tb[2].ct, ss.mlCode, tb[1].ct, ss.ofCode, tb[0].ct, ss.llCode, ss.sequencesStart, nb, longOffsets, 0);
                r1 = ZSTD_encodeSequences(d1, dcap, tb[2].ct, ss.mlCode, tb[1].ct, ss.ofCode, tb[0].ct, ss.llCode, ss.sequencesStart, nb, longOffsets,
                                          ZSTD_cpuSupportsBmi2());
                if (ZSTD_isError(r0)) printf("err %s\n", zv_errclass(r0));
                else if (r0 != r1 || memcmp(d0, d1, r0)) printf("err bmi2-differs\n");
                else { printf("ok "); zv_puthex(d0, r0); printf("\n"); }
                free(d0); free(d1);
            }
        }
        if (bad) printf("err usage\n");
        for (k = 0; k < 3; k++) free(tb[k].ct);
        free(ss.sequencesStart); free(ss.llCode); free(ss.mlCode); free(ss.ofCode);
    }
    return 0;
}
