/* zvh_mem — memory budgets (C14) and allocation-failure enumeration (C13).
 * C14 ops:
 *   cstatic <kind cctx|cstream> <L> <l> <size> <seed> <reps>   static context of exactly ZSTD_estimateCCtxSize(L) / CStreamSize(L); reps compressions at level l
 *   cparams <kind cctx|cstream> <w,c,h,s,mm,tl,strat> <size> <seed>     estimate*_usingCParams(c) + exactly c
 *   cccp <kind cctx|cstream> <id=val,...> <size> <seed>                 estimate*_usingCCtxParams(p) + exactly p
 *   dstatic <W> <hex-frame> <in-chunks> <out-chunks>     static DStream of exactly ZSTD_estimateDStreamSize(W)
 *   dheap <windowLogMax> <hex-frame> <in-chunks> <out-chunks>   heap DStream with a counting allocator: verdict + peak live bytes + ZSTD_sizeof_DCtx
 *   dheapw <W bytes> <hex-frame> <in-chunks> <out-chunks>       same, limit set in bytes with ZSTD_DCtx_setMaxWindowSize
 *       (heap modes: a single request above ZSTD_estimateDStreamSize(limit) is recorded as bigreq=<bytes> and denied; the frame may be incomplete: 'ok' = not refused so far)
 * All static memory comes from an exact-size malloc (ASan redzones right at both ends). */
#include "zvh_common.h"
#include "zstd_decompress_internal.h"   /* to read zds->inBuffSize / outBuffSize at frame ends (C14 buffer-sizing tie) */
#include <signal.h>
#include <unistd.h>
#define ZDICT_STATIC_LINKING_ONLY
#include "zdict.h"

static unsigned long long rs;
static unsigned rnd(void) { rs = rs * 6364136223846793005ULL + 1442695040888963407ULL; return (unsigned)(rs >> 33); }
static void gen_data(unsigned char* p, size_t n, unsigned long long seed) {
    size_t i = 0; rs = seed;
    while (i < n) { unsigned k = rnd() % 100; size_t len = 1 + rnd() % 300; if (len > n - i) len = n - i;
        if (k < 40 && i > 100) { size_t maxd = i < 300000u ? i : 300000u; size_t d = 1 + rnd() % maxd; size_t j; for (j = 0; j < len; j++) p[i + j] = p[i + j - d]; }
        else if (k < 75) { size_t j; for (j = 0; j < len; j++) p[i + j] = (unsigned char)("etaoin shrdlu,.\n"[rnd() % 17]); }
        else { size_t j; for (j = 0; j < len; j++) p[i + j] = (unsigned char)rnd(); }
        i += len; }
}
static size_t parse_csv(char* s, size_t* a, size_t max) { size_t n = 0; char* sv; char* t; for (t = strtok_r(s, ",", &sv); t && n < max; t = strtok_r(NULL, ",", &sv)) a[n++] = (size_t)strtoull(t, NULL, 10); return n; }

/* ---- counting / failing allocator ---- */
typedef struct { void* p; size_t sz; int live; int freeCount; } rec_t;
static rec_t* g_recs; static size_t g_nrecs, g_caprecs; static size_t g_live, g_peak; static long g_failAt = -1, g_failAt2 = -1, g_allocCalls; static int g_foreignFree, g_doubleFree; static size_t g_reqCap, g_bigReq;
static void* cnt_alloc(void* opaque, size_t size) { void* p; (void)opaque; g_allocCalls++;
    if (g_allocCalls == g_failAt || g_allocCalls == g_failAt2) return NULL;
    if (g_reqCap && size > g_reqCap) { if (size > g_bigReq) g_bigReq = size; return NULL; }   /* beyond the documented budget: recorded, never granted */
    p = malloc(size ? size : 1); if (!p) return NULL;
    if (g_nrecs == g_caprecs) { g_caprecs = g_caprecs ? g_caprecs * 2 : 256; g_recs = (rec_t*)realloc(g_recs, g_caprecs * sizeof *g_recs); }
    g_recs[g_nrecs].p = p; g_recs[g_nrecs].sz = size; g_recs[g_nrecs].live = 1; g_recs[g_nrecs].freeCount = 0; g_nrecs++;
    g_live += size; if (g_live > g_peak) g_peak = g_live; return p; }
static void cnt_free(void* opaque, void* p) { size_t i; (void)opaque; if (!p) return;
    for (i = g_nrecs; i-- > 0; ) if (g_recs[i].p == p && g_recs[i].live) { g_recs[i].live = 0; g_recs[i].freeCount++; g_live -= g_recs[i].sz; free(p); return; }
    for (i = g_nrecs; i-- > 0; ) if (g_recs[i].p == p) { g_doubleFree++; return; }
    g_foreignFree++; }
static void cnt_reset(void) { g_nrecs = 0; g_live = g_peak = 0; g_allocCalls = 0; g_foreignFree = g_doubleFree = 0; g_failAt = g_failAt2 = -1; g_reqCap = g_bigReq = 0; }
static size_t cnt_leaks(void) { size_t i, n = 0; for (i = 0; i < g_nrecs; i++) if (g_recs[i].live) n++; return n; }
static void cnt_release_leaks(void) { size_t i; for (i = 0; i < g_nrecs; i++) if (g_recs[i].live) { free(g_recs[i].p); g_recs[i].live = 0; } }
static ZSTD_customMem const g_cmem = { cnt_alloc, cnt_free, NULL };

static void on_alarm(int s) { (void)s; { static const char m[] = "TIMEOUT\n"; if (write(1, m, sizeof m - 1) < 0) {} } _exit(3); }

static int roundtrip_ok(const unsigned char* src, size_t n, const unsigned char* c, size_t cs) {
    unsigned char* d = (unsigned char*)malloc(n ? n : 1); size_t r = ZSTD_decompress(d, n, c, cs); int ok = !ZSTD_isError(r) && r == n && !memcmp(d, src, n); free(d); return ok; }

/* compress n bytes with a (static) context: one-shot (kind cctx) or streamed in pieces (kind cstream) */
static size_t do_compress(ZSTD_CCtx* cctx, int stream, unsigned char* dst, size_t cap, const unsigned char* src, size_t n) {
    if (!stream) return ZSTD_compress2(cctx, dst, cap, src, n);
    {   size_t consumed = 0, produced = 0, r = 1; int guard = 0;
        while (guard++ < 10000000) { size_t isz = 1 + rnd() % 70000; ZSTD_inBuffer ib; ZSTD_outBuffer ob; ZSTD_EndDirective dir;
            if (isz > n - consumed) isz = n - consumed; dir = (consumed + isz == n) ? ZSTD_e_end : (rnd() % 5 == 0 ? ZSTD_e_flush : ZSTD_e_continue);
            ib.src = src + consumed; ib.size = isz; ib.pos = 0; ob.dst = dst + produced; ob.size = cap - produced; ob.pos = 0;
            r = ZSTD_compressStream2(cctx, &ob, &ib, dir); if (ZSTD_isError(r)) return r; consumed += ib.pos; produced += ob.pos;
            if (dir == ZSTD_e_end && r == 0) return produced; }
        return (size_t)-ZSTD_error_GENERIC; }
}


int main(void) {
    char* line; signal(SIGALRM, on_alarm);
    while ((line = zv_getline())) {
        char* op = strtok(line, " "); if (!op) continue;
        alarm(300);
        if (!strcmp(op, "cstatic") || !strcmp(op, "cparams") || !strcmp(op, "cccp")) {
            char* kind = strtok(NULL, " "); int stream = !strcmp(kind, "cstream"); size_t need = 0; int L = 0, l = 0, reps = 1; char* spec = NULL; ZSTD_compressionParameters cp; char pcopy[512]; size_t n; unsigned long long seed;
            memset(&cp, 0, sizeof cp);
            if (!strcmp(op, "cstatic")) { L = atoi(strtok(NULL, " ")); l = atoi(strtok(NULL, " ")); need = stream ? ZSTD_estimateCStreamSize(L) : ZSTD_estimateCCtxSize(L); }
            else if (!strcmp(op, "cparams")) { size_t v[7]; spec = strtok(NULL, " "); strncpy(pcopy, spec, sizeof pcopy - 1); pcopy[sizeof pcopy - 1] = 0; parse_csv(pcopy, v, 7);
                cp.windowLog = (unsigned)v[0]; cp.chainLog = (unsigned)v[1]; cp.hashLog = (unsigned)v[2]; cp.searchLog = (unsigned)v[3]; cp.minMatch = (unsigned)v[4]; cp.targetLength = (unsigned)v[5]; cp.strategy = (ZSTD_strategy)v[6];
                need = stream ? ZSTD_estimateCStreamSize_usingCParams(cp) : ZSTD_estimateCCtxSize_usingCParams(cp); }
            else { ZSTD_CCtx_params* p = ZSTD_createCCtxParams(); char* save = NULL; char* kv; spec = strtok(NULL, " "); strncpy(pcopy, spec, sizeof pcopy - 1); pcopy[sizeof pcopy - 1] = 0;
                for (kv = strtok_r(pcopy, ",", &save); kv; kv = strtok_r(NULL, ",", &save)) { int id, val; if (sscanf(kv, "%d=%d", &id, &val) == 2) ZSTD_CCtxParams_setParameter(p, (ZSTD_cParameter)id, val); }
                need = stream ? ZSTD_estimateCStreamSize_usingCCtxParams(p) : ZSTD_estimateCCtxSize_usingCCtxParams(p); ZSTD_freeCCtxParams(p); }
            n = (size_t)strtoull(strtok(NULL, " "), NULL, 10); seed = strtoull(strtok(NULL, " "), NULL, 10); if (!strcmp(op, "cstatic")) reps = atoi(strtok(NULL, " "));
            if (ZSTD_isError(need)) { printf("estimate-error %s\n", zv_errclass(need)); }
            else { void* mem = malloc(need + 8); void* aligned = (void*)(((size_t)mem + 7) & ~(size_t)7); ZSTD_CCtx* cctx = ZSTD_initStaticCCtx(aligned, need - (size_t)((char*)aligned - (char*)mem));
                unsigned char* src = (unsigned char*)malloc(n ? n : 1); size_t cap = ZSTD_compressBound(n) + 16; unsigned char* dst = (unsigned char*)malloc(cap); int k, bad = 0;
                if (!cctx) { printf("FAIL initStatic returned NULL for the estimated size %zu\n", need); bad = 1; }
                for (k = 0; k < reps && !bad; k++) { size_t r = 0, m = (reps > 1 && k % 3) ? 1 + (size_t)(rnd() % (unsigned)(n < 3000 ? n + 1 : 3000)) : n; if (m > n) m = n;
                    gen_data(src, m, seed + (unsigned long long)k);
                    ZSTD_CCtx_reset(cctx, ZSTD_reset_session_and_parameters);
                    if (!strcmp(op, "cstatic")) r = ZSTD_CCtx_setParameter(cctx, ZSTD_c_compressionLevel, reps > 1 ? (k % 2 ? l : (l > 1 ? l - 1 : l)) : l);
                    else if (!strcmp(op, "cparams")) r = ZSTD_CCtx_setCParams(cctx, cp);
                    else { char* save = NULL; char* kv; strncpy(pcopy, spec, sizeof pcopy - 1); for (kv = strtok_r(pcopy, ",", &save); kv && !ZSTD_isError(r); kv = strtok_r(NULL, ",", &save)) { int id, val; if (sscanf(kv, "%d=%d", &id, &val) == 2) r = ZSTD_CCtx_setParameter(cctx, (ZSTD_cParameter)id, val); } }
                    if (!ZSTD_isError(r)) r = do_compress(cctx, stream, dst, cap, src, m);
                    if (ZSTD_isError(r)) { printf("FAIL use %d of %d: %s inside a static context of the estimated size %zu (input %zu bytes)\n", k + 1, reps, ZSTD_getErrorName(r), need, m); bad = 1; }
                    else if (!roundtrip_ok(src, m, dst, r)) { printf("FAIL use %d: round trip broken\n", k + 1); bad = 1; } }
                if (!bad) printf("ok need=%zu\n", need);
                free(mem); free(src); free(dst); }
        } else if (!strcmp(op, "dstatic") || !strcmp(op, "dheap") || !strcmp(op, "dheapw") || !strcmp(op, "dstaticS") || !strcmp(op, "dheapS") || !strcmp(op, "dheapwS")) {
            /* suffix S: the same with ZSTD_d_stableOutBuffer=1 (one fixed output buffer presented to every call, as that mode requires) */
            int const stableOut = (op[strlen(op) - 1] == 'S');
            int isStatic = !strncmp(op, "dstatic", 7); int byBytes = !strncmp(op, "dheapw", 6); size_t budget = 0; size_t W = (size_t)strtoull(strtok(NULL, " "), NULL, 10); size_t n; unsigned char* in = zv_unhex(strtok(NULL, " "), &n);
            size_t ic[64], oc[64]; size_t ni = parse_csv(strtok(NULL, " "), ic, 64), no = parse_csv(strtok(NULL, " "), oc, 64);
            char bufs[400]; size_t bl = 0; size_t cap = 1 << 22, consumed = 0, produced = 0, r = 1, ii = 0, oi = 0; unsigned char* out = (unsigned char*)malloc(cap); ZSTD_DCtx* d; void* mem = NULL; size_t need = 0, szof = 0; int idle = 0, calls = 0;
            cnt_reset();
            if (isStatic) { need = ZSTD_estimateDStreamSize(W); mem = malloc(need + 8); d = ZSTD_initStaticDStream((void*)(((size_t)mem + 7) & ~(size_t)7), need); if (d) ZSTD_DCtx_setMaxWindowSize(d, W); }
            else { size_t sr; d = ZSTD_createDCtx_advanced(g_cmem); sr = byBytes ? ZSTD_DCtx_setMaxWindowSize(d, W) : ZSTD_DCtx_setParameter(d, ZSTD_d_windowLogMax, (int)W);
                if (d && ZSTD_isError(sr)) { printf("FAIL limit refused: %s\n", ZSTD_getErrorName(sr)); ZSTD_freeDCtx(d); cnt_release_leaks(); free(in); free(out); continue; }
                budget = ZSTD_estimateDStreamSize(byBytes ? W : (size_t)1 << W); g_reqCap = budget; }
            if (!d) { printf("FAIL no context\n"); free(in); free(out); free(mem); continue; }
            if (stableOut) ZSTD_DCtx_setParameter(d, ZSTD_d_stableOutBuffer, 1);
            while (calls++ < 5000000) { size_t isz = ic[ii++ % ni], osz = oc[oi++ % no]; ZSTD_inBuffer ib; ZSTD_outBuffer ob; size_t p0;
                if (isz > n - consumed) isz = n - consumed; if (osz > cap - produced) osz = cap - produced;
                ib.src = in + consumed; ib.size = isz; ib.pos = 0; ob.dst = out + produced; ob.size = osz; ob.pos = 0;
                if (stableOut) { ob.dst = out; ob.size = cap; ob.pos = produced; }
                p0 = ob.pos;
                r = ZSTD_decompressStream(d, &ob, &ib); if (ZSTD_isError(r)) break; consumed += ib.pos; produced += ob.pos - p0; ob.pos -= p0;
                if (r == 0 && (ib.pos || ob.pos) && bl < sizeof bufs - 40) bl += (size_t)snprintf(bufs + bl, sizeof bufs - bl, "%s%zu:%zu", bl ? "," : "", d->inBuffSize, d->outBuffSize);   /* a frame just ended */
                if (ib.pos == 0 && ob.pos == 0) { if (consumed == n) { if (++idle >= 2) break; } else if (++idle > 40) break; } else idle = 0; }
            szof = ZSTD_sizeof_DCtx(d);
            if (ZSTD_isError(r)) printf("err %s", zv_errclass(r)); else printf("ok %zu %016llx", produced, (unsigned long long)XXH64(out, produced, 0));
            bufs[bl] = 0; printf(" bufs=%s", bl ? bufs : "-");
            if (isStatic) printf(" need=%zu\n", need); else { printf(" peak=%zu sizeof=%zu live=%zu est=%zu", g_peak, szof, g_live, budget); if (g_bigReq) printf(" bigreq=%zu", g_bigReq); printf("\n"); }
            if (!isStatic) { ZSTD_freeDCtx(d); if (cnt_leaks()) printf("LEAK\n"); cnt_release_leaks(); }
            free(in); free(out); free(mem);
        } else if (!strcmp(op, "sdict")) {
            /* sdict <level> <dictSize> <byRef 0|1> <seed> : static CDict / DDict in blocks of exactly ZSTD_estimateCDictSize_advanced / ZSTD_estimateDDictSize, then a round trip through them */
            int level = atoi(strtok(NULL, " ")); size_t dn = (size_t)strtoull(strtok(NULL, " "), NULL, 10); int byRef = atoi(strtok(NULL, " ")); unsigned long long seed = strtoull(strtok(NULL, " "), NULL, 10);
            unsigned char* dict = (unsigned char*)malloc(dn ? dn : 1); size_t n = 20000; unsigned char* src = (unsigned char*)malloc(n); size_t cap = ZSTD_compressBound(n); unsigned char* dst = (unsigned char*)malloc(cap); unsigned char* back = (unsigned char*)malloc(n);
            ZSTD_compressionParameters cp = ZSTD_getCParams(level, 0, dn); ZSTD_dictLoadMethod_e dlm = byRef ? ZSTD_dlm_byRef : ZSTD_dlm_byCopy;
            size_t cneed = ZSTD_estimateCDictSize_advanced(dn, cp, dlm), dneed = ZSTD_estimateDDictSize(dn, dlm); void* cm = malloc(cneed + 8); void* dm = malloc(dneed + 8);
            const ZSTD_CDict* cd; const ZSTD_DDict* dd; const char* res = "ok";
            gen_data(dict, dn, seed); gen_data(src, n, seed + 7); if (dn >= 64) memcpy(src + 100, dict + dn / 2, dn / 2 < 3000 ? dn / 2 : 3000);
            cd = ZSTD_initStaticCDict((void*)(((size_t)cm + 7) & ~(size_t)7), cneed, dict, dn, dlm, ZSTD_dct_auto, cp);
            dd = ZSTD_initStaticDDict((void*)(((size_t)dm + 7) & ~(size_t)7), dneed, dict, dn, dlm, ZSTD_dct_auto);
            if (!cd) res = "FAIL initStaticCDict returned NULL in a block of the estimated size"; else if (!dd) res = "FAIL initStaticDDict returned NULL in a block of the estimated size";
            else { ZSTD_CCtx* c = ZSTD_createCCtx(); ZSTD_DCtx* d = ZSTD_createDCtx(); size_t cs = ZSTD_compress_usingCDict(c, dst, cap, src, n, cd);
                if (ZSTD_isError(cs)) res = "FAIL compress_usingCDict"; else { size_t dr = ZSTD_decompress_usingDDict(d, back, n, dst, cs, dd); if (ZSTD_isError(dr) || dr != n || memcmp(back, src, n)) res = "FAIL round trip through the static dictionaries"; }
                ZSTD_freeCCtx(c); ZSTD_freeDCtx(d); }
            printf("%s cneed=%zu dneed=%zu\n", res, cneed, dneed);
            free(dict); free(src); free(dst); free(back); free(cm); free(dm);
        } else if (!strcmp(op, "csizeof")) {
            /* csizeof <id=val,...|-> <size> <seed> <dictSize> : ZSTD_sizeof_* against the bytes live in a counting allocator */
            char* spec = strtok(NULL, " "); size_t n = (size_t)strtoull(strtok(NULL, " "), NULL, 10); unsigned long long seed = strtoull(strtok(NULL, " "), NULL, 10); size_t dn = (size_t)strtoull(strtok(NULL, " "), NULL, 10);
            unsigned char* src = (unsigned char*)malloc(n ? n : 1); unsigned char* dict = (unsigned char*)malloc(dn ? dn : 1); size_t cap = ZSTD_compressBound(n) + 16; unsigned char* dst = (unsigned char*)malloc(cap);
            ZSTD_CCtx* c; size_t r = 0; char pcopy[512]; char* save = NULL; char* kv; int level = 3;
            gen_data(src, n, seed); gen_data(dict, dn, seed + 1); cnt_reset();
            c = ZSTD_createCCtx_advanced(g_cmem); strncpy(pcopy, spec, sizeof pcopy - 1); pcopy[sizeof pcopy - 1] = 0;
            if (strcmp(spec, "-")) for (kv = strtok_r(pcopy, ",", &save); kv && !ZSTD_isError(r); kv = strtok_r(NULL, ",", &save)) { int id, val; if (sscanf(kv, "%d=%d", &id, &val) == 2) { r = ZSTD_CCtx_setParameter(c, (ZSTD_cParameter)id, val); if (id == 100) level = val; } }
            if (!ZSTD_isError(r) && dn) r = ZSTD_CCtx_loadDictionary(c, dict, dn);
            if (!ZSTD_isError(r)) r = ZSTD_compress2(c, dst, cap, src, n);
            printf("rc=%s cctx sizeof=%zu live=%zu", ZSTD_isError(r) ? zv_errclass(r) : "ok", ZSTD_sizeof_CCtx(c), g_live);
            ZSTD_freeCCtx(c); printf(" leaks=%zu", cnt_leaks()); cnt_release_leaks(); cnt_reset();
            {   ZSTD_CDict* cd = ZSTD_createCDict_advanced(dict, dn, ZSTD_dlm_byCopy, ZSTD_dct_auto, ZSTD_getCParams(level, 0, dn), g_cmem);
                printf(" cdict sizeof=%zu live=%zu", cd ? ZSTD_sizeof_CDict(cd) : 0, g_live); ZSTD_freeCDict(cd); printf(" leaks=%zu", cnt_leaks()); cnt_release_leaks(); cnt_reset(); }
            {   ZSTD_DDict* dd = ZSTD_createDDict_advanced(dict, dn, ZSTD_dlm_byCopy, ZSTD_dct_auto, g_cmem);
                printf(" ddict sizeof=%zu live=%zu", dd ? ZSTD_sizeof_DDict(dd) : 0, g_live); ZSTD_freeDDict(dd); printf(" leaks=%zu\n", cnt_leaks()); cnt_release_leaks(); cnt_reset(); }
            free(src); free(dict); free(dst);
        } else printf("bad-op\n");
        fflush(stdout);
    }
    return 0;
}
