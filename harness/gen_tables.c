/* gen_tables.c — mechanical dumper: prints, as JSON, every constant and table the Lean
 * model takes from the source.  Compiled against /repo's CURRENT tree on every run.
 * It #includes zstd_decompress_block.c to reach the static default decoding tables. */


#include <stdio.h>
#include <limits.h>
#include "zstd.h"
#include "zdict.h"
#include "zstd_internal.h"
#include "zstd_compress_internal.h"
#include "clevels.h"
#include "zstdmt_compress.h"
#include "zstd_ldm.h"
#include "../lib/decompress/zstd_decompress_block.c"   /* LL_defaultDTable &c, LL_base &c */
#include "gen_params.h"    /* generated from zstd.h: CP_LIST / DP_LIST */

#define ARR(name, fmt, cast) do { size_t i_; printf("\"" #name "\": ["); \
    for (i_ = 0; i_ < sizeof(name)/sizeof(name[0]); i_++) printf("%s" fmt, i_?",":"", (cast)name[i_]); printf("],\n"); } while (0)
#define C(name) printf("\"" #name "\": %lld,\n", (long long)(name))
#define CU(name) printf("\"" #name "\": %llu,\n", (unsigned long long)(name))

static void dtable(const char* nm, const ZSTD_seqSymbol* t, unsigned log) {
    unsigned i; const ZSTD_seqSymbol_header* h = (const ZSTD_seqSymbol_header*)t;
    printf("\"%s\": {\"fastMode\": %u, \"tableLog\": %u, \"cells\": [", nm, h->fastMode, h->tableLog);
    for (i = 1; i <= (1u << log); i++)
        printf("%s[%u,%u,%u,%u]", i > 1 ? "," : "", t[i].nextState, t[i].nbAdditionalBits, t[i].nbBits, t[i].baseValue);
    printf("]},\n");
}

int main(void) {
    printf("{\n");
    ARR(LL_bits, "%d", int); ARR(ML_bits, "%d", int); ARR(OF_bits, "%d", int);
    ARR(LL_base, "%u", unsigned); ARR(ML_base, "%u", unsigned); ARR(OF_base, "%u", unsigned);
    ARR(LL_defaultNorm, "%d", int); ARR(ML_defaultNorm, "%d", int); ARR(OF_defaultNorm, "%d", int);
    ARR(repStartValue, "%u", unsigned);
    ARR(ZSTD_fcs_fieldSize, "%u", unsigned); ARR(ZSTD_did_fieldSize, "%u", unsigned);
    dtable("LL_defaultDTable", LL_defaultDTable, LL_DEFAULTNORMLOG);
    dtable("OF_defaultDTable", OF_defaultDTable, OF_DEFAULTNORMLOG);
    dtable("ML_defaultDTable", ML_defaultDTable, ML_DEFAULTNORMLOG);
    { unsigned i; printf("\"LL_Code\": ["); for (i = 0; i < 64; i++) printf("%s%u", i?",":"", ZSTD_LLcode(i)); printf("],\n");
      printf("\"ML_Code\": ["); for (i = 0; i < 128; i++) printf("%s%u", i?",":"", ZSTD_MLcode(i)); printf("],\n");
      printf("\"LL_deltaCode\": %u,\n", ZSTD_LLcode(64) - ZSTD_highbit32(64));
      printf("\"ML_deltaCode\": %u,\n", ZSTD_MLcode(128) - ZSTD_highbit32(128)); }
    C(LL_DEFAULTNORMLOG); C(ML_DEFAULTNORMLOG); C(OF_DEFAULTNORMLOG);
    C(MaxLL); C(MaxML); C(MaxOff); C(DefaultMaxOff); C(LLFSELog); C(MLFSELog); C(OffFSELog); C(MINMATCH);
    C(ZSTD_MAGICNUMBER); C(ZSTD_MAGIC_DICTIONARY); C(ZSTD_MAGIC_SKIPPABLE_START); C(ZSTD_MAGIC_SKIPPABLE_MASK);
    C(ZSTD_BLOCKSIZE_MAX); C(ZSTD_BLOCKSIZELOG_MAX); C(ZSTD_BLOCKSIZE_MAX_MIN);
    C(ZSTD_WINDOWLOG_MAX); C(ZSTD_WINDOWLOG_MIN); C(ZSTD_WINDOWLOG_ABSOLUTEMIN); C(ZSTD_WINDOWLOG_LIMIT_DEFAULT);
    C(ZSTD_WINDOWLOG_MAX_32); C(ZSTD_WINDOWLOG_MAX_64);
    C(ZSTD_HASHLOG_MAX); C(ZSTD_HASHLOG_MIN); C(ZSTD_CHAINLOG_MAX); C(ZSTD_CHAINLOG_MIN);
    C(ZSTD_SEARCHLOG_MAX); C(ZSTD_SEARCHLOG_MIN); C(ZSTD_MINMATCH_MAX); C(ZSTD_MINMATCH_MIN);
    C(ZSTD_TARGETLENGTH_MAX); C(ZSTD_TARGETLENGTH_MIN); C(ZSTD_STRATEGY_MIN); C(ZSTD_STRATEGY_MAX);
    C(ZSTD_TARGETCBLOCKSIZE_MIN); C(ZSTD_TARGETCBLOCKSIZE_MAX);
    C(ZSTD_FRAMEHEADERSIZE_MAX); C(ZSTD_SKIPPABLEHEADERSIZE); C(ZSTD_blockHeaderSize);
    C(ZSTD_FRAMEIDSIZE); C(ZSTD_WINDOWLOG_LIMIT_DEFAULT); C(ZSTD_CLEVEL_DEFAULT); C(ZSTD_MAX_CLEVEL);
    C(MIN_CBLOCK_SIZE); C(MIN_SEQUENCES_SIZE); C(MIN_LITERALS_FOR_4_STREAMS); C(WILDCOPY_OVERLENGTH); C(WILDCOPY_VECLEN);
    C(ZSTD_LITBUFFEREXTRASIZE); C(LONGNBSEQ); C(ZSTD_REP_NUM);
    C(ZSTD_CURRENT_MAX); C(ZSTD_WINDOW_START_INDEX); C(ZSTD_CHUNKSIZE_MAX); C(ZSTD_DUBT_UNSORTED_MARK);
    CU(ZSTD_MAX_INPUT_SIZE);
    C(HUF_TABLELOG_MAX); C(HUF_TABLELOG_ABSOLUTEMAX); C(HUF_SYMBOLVALUE_MAX); C(HUF_TABLELOG_DEFAULT);
    C(FSE_MAX_TABLELOG); C(FSE_MIN_TABLELOG); C(FSE_TABLELOG_ABSOLUTE_MAX); C(FSE_MAX_SYMBOL_VALUE);
    C(ZSTDMT_NBWORKERS_MAX); C(ZSTDMT_JOBSIZE_MIN); C(ZSTDMT_JOBSIZE_MAX); C(ZSTD_OVERLAPLOG_MIN); C(ZSTD_OVERLAPLOG_MAX);
    C(ZSTD_LDM_HASHLOG_MIN); C(ZSTD_LDM_HASHLOG_MAX); C(ZSTD_LDM_MINMATCH_MIN); C(ZSTD_LDM_MINMATCH_MAX);
    C(ZSTD_LDM_BUCKETSIZELOG_MIN); C(ZSTD_LDM_BUCKETSIZELOG_MAX); C(ZSTD_LDM_HASHRATELOG_MIN); C(ZSTD_LDM_HASHRATELOG_MAX);
    C(ZSTD_SRCSIZEHINT_MIN); C(ZSTD_SRCSIZEHINT_MAX);
    C(ZDICT_DICTSIZE_MIN); C(ZDICT_CONTENTSIZE_MIN);
    printf("\"minCLevel\": %d, \"maxCLevel\": %d, \"defaultCLevel\": %d,\n", ZSTD_minCLevel(), ZSTD_maxCLevel(), ZSTD_defaultCLevel());
    /* parameter bounds + defaults (read back from a fresh context) */
    {   static const struct { const char* name; int id; } cps[] = { CP_LIST }, dps[] = { DP_LIST };
        size_t i; ZSTD_CCtx* cctx = ZSTD_createCCtx(); ZSTD_DCtx* dctx = ZSTD_createDCtx();
        printf("\"cparams\": [");
        for (i = 0; i < sizeof(cps)/sizeof(cps[0]); i++) {
            ZSTD_bounds b = ZSTD_cParam_getBounds((ZSTD_cParameter)cps[i].id); int def = 0;
            size_t r = ZSTD_CCtx_getParameter(cctx, (ZSTD_cParameter)cps[i].id, &def);
            printf("%s{\"name\":\"%s\",\"id\":%d,\"err\":%d,\"lo\":%d,\"hi\":%d,\"def\":%d,\"generr\":%d}", i?",":"", cps[i].name, cps[i].id,
                   (int)ZSTD_isError(b.error), b.lowerBound, b.upperBound, def, (int)ZSTD_isError(r));
        }
        printf("],\n\"dparams\": [");
        for (i = 0; i < sizeof(dps)/sizeof(dps[0]); i++) {
            ZSTD_bounds b = ZSTD_dParam_getBounds((ZSTD_dParameter)dps[i].id); int def = 0;
            size_t r = ZSTD_DCtx_getParameter(dctx, (ZSTD_dParameter)dps[i].id, &def);
            printf("%s{\"name\":\"%s\",\"id\":%d,\"err\":%d,\"lo\":%d,\"hi\":%d,\"def\":%d,\"generr\":%d}", i?",":"", dps[i].name, dps[i].id,
                   (int)ZSTD_isError(b.error), b.lowerBound, b.upperBound, def, (int)ZSTD_isError(r));
        }
        printf("],\n");
        ZSTD_freeCCtx(cctx); ZSTD_freeDCtx(dctx);
    }
    {   int t, l; printf("\"clevels\": [");
        for (t = 0; t < 4; t++) { printf("%s[", t?",":"");
            for (l = 0; l <= ZSTD_MAX_CLEVEL; l++) { const ZSTD_compressionParameters* c = &ZSTD_defaultCParameters[t][l];
                printf("%s[%u,%u,%u,%u,%u,%u,%u]", l?",":"", c->windowLog, c->chainLog, c->hashLog, c->searchLog, c->minMatch, c->targetLength, (unsigned)c->strategy); }
            printf("]"); }
        printf("],\n"); }
    /* parameter rows after adjustment for the four source-size tiers ZSTD_estimateCCtxSize_internal looks at (16 KB, 128 KB, 256 KB, unknown) */
    {   int t, l; unsigned long long tiers[4] = { 16 << 10, 128 << 10, 256 << 10, 0 /* unknown */ }; printf("\"adjRows\": [");
        for (t = 0; t < 4; t++) { printf("%s[", t?",":"");
            for (l = 0; l <= ZSTD_MAX_CLEVEL; l++) { ZSTD_compressionParameters const c = ZSTD_getCParams(l, tiers[t], 0);
                printf("%s[%u,%u,%u,%u,%u,%u,%u]", l?",":"", c.windowLog, c.chainLog, c.hashLog, c.searchLog, c.minMatch, c.targetLength, (unsigned)c.strategy); }
            printf("]"); }
        printf("],\n"); }
    /* ZSTD_COMPRESSBOUND on a fixed grid of boundary values */
    {   unsigned long long g[] = {0,1,2,255,256,257,2047,2048,2049,65535,65536,131071,131072,131073,262143,262144,262145,
                                  1048576,16777215,16777216,4294967295ULL,4294967296ULL,1099511627776ULL};
        size_t i; printf("\"compressBoundGrid\": [");
        for (i = 0; i < sizeof(g)/sizeof(g[0]); i++) printf("%s[%llu,%llu]", i?",":"", g[i], (unsigned long long)ZSTD_compressBound((size_t)g[i]));
        printf("],\n"); }
    /* struct sizes and constants of the workspace budget (C14) */
    printf("\"sizeof_ZSTD_CCtx\": %zu,\n", sizeof(ZSTD_CCtx)); printf("\"sizeof_blockState\": %zu,\n", sizeof(ZSTD_compressedBlockState_t));
    printf("\"sizeof_seqDef\": %zu,\n", sizeof(seqDef)); printf("\"sizeof_rawSeq\": %zu,\n", sizeof(rawSeq)); printf("\"sizeof_ldmEntry\": %zu,\n", sizeof(ldmEntry_t));
    printf("\"sizeof_ZSTD_Sequence\": %zu,\n", sizeof(ZSTD_Sequence)); printf("\"sizeof_ZSTD_match_t\": %zu,\n", sizeof(ZSTD_match_t)); printf("\"sizeof_ZSTD_optimal_t\": %zu,\n", sizeof(ZSTD_optimal_t));
    printf("\"sizeof_ZSTD_DCtx\": %zu,\n", sizeof(ZSTD_DCtx));
    C(TMP_WORKSPACE_SIZE); C(ZSTD_OPT_SIZE); C(Litbits); C(ZSTD_CWKSP_ALIGNMENT_BYTES); C(ZSTD_WORKSPACETOOLARGE_FACTOR); C(ZSTD_WORKSPACETOOLARGE_MAXDURATION);
    C(ZSTD_LDM_DEFAULT_WINDOW_LOG); C(HUF_WORKSPACE_SIZE);
    printf("\"cwksp_slack\": %zu,\n", ZSTD_cwksp_slack_space_required());
    printf("\"sizeof_size_t\": %u\n}\n", (unsigned)sizeof(size_t));
    return 0;
}
