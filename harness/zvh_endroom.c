/* zvh_endroom — C07: the bytes ZSTD_compressStream2 emits may not depend on how much output room each call offers.
 *
 *   er <id=val,...|-> <srcSize> <dataseed> <in sizes csv> <dirs> <vseed>
 *
 * One frame.  Call k offers in[k % ni] bytes (cut to what is left) with directive dirs[k % nd] (c continue, f flush, e end); the call that offers the LAST
 * bytes of the source always carries ZSTD_e_end, an 'e' before that is a flush.  Every input call is completed (same bytes, same directive) before the next
 * one, whatever the room.  Run 0 offers the whole remaining output buffer (roomy), run 1 pieces of 1..4000 bytes, run 2 pieces of 509 bytes, run 3 pieces of
 * 70000 bytes.  All four outputs must be identical and decode to the source.
 *
 * The library has one documented exception (known finding C07-end-with-input-shortcut-depends-on-output-capacity): when ZSTD_e_end meets an EMPTY internal
 * input buffer and dst has room for ZSTD_compressBound(rest), the rest is compressed straight from the caller's buffer.  To tell that exception from anything
 * else this file #includes zstd_compress.c with the ZSTD_compressEnd_public call of ZSTD_compressStream_generic (the only one whose first argument is spelled
 * `zcs`; same technique as zvh_cstream.c) routed through a shim that records, for every end-chunk compressed DIRECTLY from the caller's source buffer,
 * whether the context's internal input buffer was empty (d0) or still held earlier input of the frame (dn).
 *  -> same <bytes> d0=<n> dn=<n> | DIFF run <k> at byte <b> (roomy <x> bytes, run <k> <y> bytes) d0=<n> dn=<n> | FAIL ... | err run<k> <name>   (d0 / dn summed over the runs) */
#include <stdio.h>
#include <stdlib.h>
#include <string.h>
#define ZSTD_STATIC_LINKING_ONLY
#include "zstd_compress_internal.h"   /* found through -I<repo>/… (tools/build.py) */

static size_t zv_ce_shim(ZSTD_CCtx* c, void* dst, size_t cap, const void* src, size_t n);
size_t zvreal_compressEnd_public(ZSTD_CCtx* cctx, void* dst, size_t dstCapacity, const void* src, size_t srcSize);
#define ZV_CE_ZSTD_CCtx zvreal_compressEnd_public(ZSTD_CCtx
#define ZV_CE_cctx      zvreal_compressEnd_public(cctx
#define ZV_CE_zcs       zv_ce_shim(zcs
#define ZSTD_compressEnd_public(a, b, c, d, e)      ZV_CE_##a, b, c, d, e)
#include "zstd_compress.c"
#undef ZSTD_compressEnd_public
/* the rest of the library (zstdmt_compress.c) links against the original name */
size_t ZSTD_compressEnd_public(ZSTD_CCtx* cctx, void* dst, size_t dstCapacity, const void* src, size_t srcSize) {
    return zvreal_compressEnd_public(cctx, dst, dstCapacity, src, srcSize); }
#include "zvh_common.h"

static const unsigned char* g_src; static size_t g_n; static int g_d0, g_dn;
static size_t zv_ce_shim(ZSTD_CCtx* c, void* dst, size_t cap, const void* src, size_t n) {
    if (n > 0 && (const unsigned char*)src >= g_src && (const unsigned char*)src < g_src + g_n) { if (c->inBuffPos == 0) g_d0++; else g_dn++; }
    return zvreal_compressEnd_public(c, dst, cap, src, n);
}

static unsigned long long rs;
static unsigned rnd(void) { rs = rs * 6364136223846793005ULL + 1442695040888963407ULL; return (unsigned)(rs >> 33); }
static void gen_data(unsigned char* p, size_t n, unsigned long long seed) {
    size_t i = 0; rs = seed;
    while (i < n) { unsigned k = rnd() % 100; size_t len = 1 + rnd() % 300; if (len > n - i) len = n - i;
        if (k < 35 && i > 1000) { size_t maxd = i < 4000000u ? i : 4000000u; size_t d = 1 + rnd() % maxd; size_t j; for (j = 0; j < len; j++) p[i + j] = p[i + j - d]; }
        else if (k < 70) { size_t j; for (j = 0; j < len; j++) p[i + j] = (unsigned char)("etaoin shrdlu,.\n"[rnd() % 17]); }
        else { size_t j; for (j = 0; j < len; j++) p[i + j] = (unsigned char)rnd(); }
        i += len; }
}

int main(void) {
    char* line;
    while ((line = zv_getline())) {
        char* op = strtok(line, " "); if (!op) continue;
        if (!strcmp(op, "er")) {
            char* ps = strtok(NULL, " "); size_t n = (size_t)strtoull(strtok(NULL, " "), NULL, 10); unsigned long long dseed = strtoull(strtok(NULL, " "), NULL, 10);
            size_t ic[64]; char* ins = strtok(NULL, " "); char* dirs = strtok(NULL, " "); unsigned long long vseed = strtoull(strtok(NULL, " "), NULL, 10);
            size_t ni = 0; { char* sv; char* t; for (t = strtok_r(ins, ",", &sv); t && ni < 64; t = strtok_r(NULL, ",", &sv)) ic[ni++] = (size_t)strtoull(t, NULL, 10); }
            unsigned char* src = (unsigned char*)malloc(n + 1); size_t cap = ZSTD_compressBound(n) + 24 * n / 16 + (1 << 20); unsigned char* out[2]; unsigned char* back = (unsigned char*)malloc(n + 1);
            size_t osz[2] = { 0, 0 }; int run, nd = (int)strlen(dirs), fail = 0;
            gen_data(src, n, dseed); out[0] = (unsigned char*)malloc(cap); out[1] = (unsigned char*)malloc(cap);
            g_src = src; g_n = n; g_d0 = g_dn = 0;
            for (run = 0; run < 4 && !fail && ni > 0 && nd > 0; run++) {
                ZSTD_CCtx* cctx = ZSTD_createCCtx(); unsigned char* o = out[run ? 1 : 0]; size_t r = 0, consumed = 0, produced = 0, ii = 0; int di = 0, ended = 0, guard = 0; char* save = NULL; char* kv; char pcopy[512];
                strncpy(pcopy, ps, sizeof pcopy - 1); pcopy[sizeof pcopy - 1] = 0;
                for (kv = strtok_r(pcopy, ",", &save); kv && !ZSTD_isError(r); kv = strtok_r(NULL, ",", &save)) { int id, val; if (sscanf(kv, "%d=%d", &id, &val) == 2) r = ZSTD_CCtx_setParameter(cctx, (ZSTD_cParameter)id, val); }
                rs = vseed ^ 0x77;
                while (!ZSTD_isError(r) && !ended && guard++ < 20000000) {
                    size_t isz = ic[ii++ % ni], oc_; ZSTD_inBuffer ib; ZSTD_outBuffer ob; char dc = dirs[di++ % nd]; ZSTD_EndDirective dir;
                    if (isz > n - consumed) isz = n - consumed;
                    dir = dc == 'f' ? ZSTD_e_flush : dc == 'e' ? ZSTD_e_end : ZSTD_e_continue;
                    if (consumed + isz == n) dir = ZSTD_e_end; else if (dir == ZSTD_e_end) dir = ZSTD_e_flush;
                    ib.src = src + consumed; ib.size = isz; ib.pos = 0;
                    for (;;) { oc_ = run == 0 ? cap - produced : run == 1 ? 1 + rnd() % 4000 : run == 2 ? 509 : 70000; if (oc_ > cap - produced) oc_ = cap - produced;
                        ob.dst = o + produced; ob.size = oc_; ob.pos = 0; r = ZSTD_compressStream2(cctx, &ob, &ib, dir); produced += ob.pos; if (ZSTD_isError(r)) break;
                        if (ib.pos == ib.size && (dir == ZSTD_e_continue || r == 0)) break; if (guard++ > 20000000) break; }
                    consumed += ib.pos; if (dir == ZSTD_e_end && r == 0) ended = 1;
                }
                ZSTD_freeCCtx(cctx);
                if (ZSTD_isError(r)) { printf("err run%d %s\n", run, ZSTD_getErrorName(r)); fail = 1; break; }
                {   size_t d = ZSTD_decompress(back, n, o, produced);
                    if (ZSTD_isError(d) || d != n || memcmp(back, src, n)) { printf("FAIL run %d: the frame does not decode to the source (%s) d0=%d dn=%d\n", run, ZSTD_isError(d) ? ZSTD_getErrorName(d) : "content differs", g_d0, g_dn); fail = 1; break; } }
                if (run == 0) osz[0] = produced;
                else if (produced != osz[0] || memcmp(out[0], o, produced)) { size_t k = 0; while (k < osz[0] && k < produced && out[0][k] == o[k]) k++;
                    printf("DIFF run %d at byte %zu (roomy %zu bytes, run %d %zu bytes) d0=%d dn=%d\n", run, k, osz[0], run, produced, g_d0, g_dn); fail = 1; }
            }
            if (!fail) printf("same %zu d0=%d dn=%d\n", osz[0], g_d0, g_dn);
            free(src); free(out[0]); free(out[1]); free(back);
        } else printf("bad-op\n");
        fflush(stdout);
    }
    return 0;
}
