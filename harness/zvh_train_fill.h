/* C18: every fresh malloc block of a dictBuilder translation unit is filled with zvt_fill_byte (zvh_train.c changes it between the two runs of a
 * single-threaded operation), so that a result byte taken from memory the trainer never wrote differs between the runs (det=DIFF) instead of repeating by luck. */
#include <stdlib.h>
#include <string.h>
#include <stdio.h>
#include <time.h>
void* zvt_fill_malloc(size_t n);
#define malloc(n) zvt_fill_malloc(n)
