/* zvh_mtstorm — C02: multithreaded streaming compression, a producer running ahead of a consumer that takes (almost) nothing.
 *
 *   storm <id=val,...> <base-hex> <total> <piece> <trickle csv> <hold> <drain csv> <tail dirs> [hex]
 *
 * The input is <total> bytes expanded from the base (see expand()).  A fresh context per line (the table of job descriptors is sized when
 * the worker pool is created and never shrinks).
 * Phase 1 (withhold): ZSTD_compressStream2(e_continue) in <piece>-byte writes, output room per call taken from the trickle list (0 = no room
 *   at all, i.e. output.pos == output.size), until <hold> bytes were accepted (6 s deadline); then the same calls go on for 60 ms: `over` = bytes
 *   accepted beyond <hold> during that time.
 * Phase 2 (drain): the remaining input in <piece>-byte writes with the directives of <tail> (c / f, cycled) and the output rooms of the drain list
 *   (cycled, tiny rooms allowed); once everything is consumed, e_end with the same rooms until it returns 0.
 * Then, in the harness: ZSTD_decompress of the emitted bytes against the input (rt=), ZSTD_decompressStream on a context of its own limited to
 *   the window the frame header declares, fed in small pieces (sd=), and the header's content size (fcs=).
 * One line:  in=<xxh64 of input> n=<total> out=<bytes emitted> acc1= emit1= over= calls= rt=<ok|...> sd=<ok|...> fcs= [frame=<hex>]
 * A call that never returns: the alarm prints TIMEOUT and the process exits. */
#include "zvh_common.h"
#include <signal.h>
#include <unistd.h>
#include <time.h>

static void on_alarm(int s) { (void)s; { static const char m[] = "TIMEOUT\n"; if (write(1, m, sizeof m - 1) < 0) {} } _exit(3); }
static double now_ms(void) { struct timespec t; clock_gettime(CLOCK_MONOTONIC, &t); return t.tv_sec * 1000.0 + t.tv_nsec / 1e6; }

static unsigned char* expand(const unsigned char* base, size_t bl, size_t total) {
    unsigned char* x = (unsigned char*)malloc(total ? total : 1); size_t i;
    if (bl == 0) { memset(x, 'a', total); return x; }
    for (i = 0; i < total; i++) { size_t rep = i / bl; unsigned char b = base[i % bl]; x[i] = (i % 16 == 0) ? (unsigned char)(b + rep * 29) : b; }
    return x;
}
static int csv(char* s, size_t* v, int max) { int n = 0; char* sv; char* t; for (t = strtok_r(s, ",", &sv); t && n < max; t = strtok_r(NULL, ",", &sv)) v[n++] = (size_t)strtoull(t, NULL, 10); return n; }

int main(void) {
    char* line;
    signal(SIGALRM, on_alarm);
    while ((line = zv_getline())) {
        char* op = strtok(line, " "); if (!op) continue;
        if (!strcmp(op, "storm")) {
            char* ps = strtok(NULL, " "); size_t bl; unsigned char* base = zv_unhex(strtok(NULL, " "), &bl);
            size_t total = (size_t)strtoull(strtok(NULL, " "), NULL, 10), piece = (size_t)strtoull(strtok(NULL, " "), NULL, 10);
            char* trs = strtok(NULL, " "); size_t hold = (size_t)strtoull(strtok(NULL, " "), NULL, 10); char* drs = strtok(NULL, " "); char* tail = strtok(NULL, " "); char* wanthex = strtok(NULL, " ");
            size_t tr[64], dr[64]; int ntr = csv(trs, tr, 64), ndr = csv(drs, dr, 64), ti = 0, di = 0, qi = 0, nq = (int)strlen(tail);
            unsigned char* x = expand(base, bl, total);
            size_t cap = ZSTD_compressBound(total) + (1 << 20); unsigned char* out = (unsigned char*)malloc(cap);
            size_t consumed = 0, produced = 0, r = 0, acc1, emit1, over = 0; long calls = 0; char* save = NULL; char* kv;
            ZSTD_CCtx* cctx = ZSTD_createCCtx(); double t0, lastprog; int failed = 0, reached;
            alarm(15);
            if (piece == 0) piece = 1; if (hold > total) hold = total;
            for (kv = strtok_r(ps, ",", &save); kv && !ZSTD_isError(r); kv = strtok_r(NULL, ",", &save)) { int id, val; if (sscanf(kv, "%d=%d", &id, &val) == 2) {
                if (id == 9000) { if (val) r = ZSTD_CCtx_setPledgedSrcSize(cctx, total); } else r = ZSTD_CCtx_setParameter(cctx, (ZSTD_cParameter)id, val); } }
            /* phase 1 */
            t0 = now_ms(); lastprog = 0; reached = 0;
            while (!ZSTD_isError(r) && hold > 0) {
                size_t isz = piece, osz = tr[ti++ % ntr]; ZSTD_inBuffer ib; ZSTD_outBuffer ob; double t;
                if (isz > total - consumed) isz = total - consumed;
                if (osz > cap - produced) osz = cap - produced;
                ib.src = x + consumed; ib.size = isz; ib.pos = 0; ob.dst = out + produced; ob.size = osz; ob.pos = 0;
                r = ZSTD_compressStream2(cctx, &ob, &ib, ZSTD_e_continue); calls++;
                if (ZSTD_isError(r)) break;
                consumed += ib.pos; produced += ob.pos; t = now_ms();
                if (!reached) {
                    if (consumed >= hold) { reached = 1; lastprog = t; }        /* from here on: the probe beyond <hold> */
                    else if (t - t0 > 6000.0) break;
                }
                if (consumed == total) break;
                if (reached && t - lastprog > 60.0) break;
                if (ib.pos == 0) usleep(100);
            }
            acc1 = consumed < hold ? consumed : hold; if (consumed > hold) over = consumed - hold; emit1 = produced;
            /* phase 2 */
            while (!ZSTD_isError(r) && calls < 8000000) {
                size_t isz = piece, osz = dr[di++ % ndr]; ZSTD_inBuffer ib; ZSTD_outBuffer ob; ZSTD_EndDirective dir;
                if (isz > total - consumed) isz = total - consumed;
                if (osz > cap - produced) osz = cap - produced;
                dir = (isz == 0) ? ZSTD_e_end : (tail[qi++ % nq] == 'f' ? ZSTD_e_flush : ZSTD_e_continue);
                ib.src = x + consumed; ib.size = isz; ib.pos = 0; ob.dst = out + produced; ob.size = osz; ob.pos = 0;
                r = ZSTD_compressStream2(cctx, &ob, &ib, dir); calls++;
                if (ZSTD_isError(r)) break;
                consumed += ib.pos; produced += ob.pos;
                if (dir == ZSTD_e_end && r == 0) break;
            }
            if (ZSTD_isError(r)) { printf("err %s calls=%ld consumed=%zu produced=%zu\n", zv_errclass(r), calls, consumed, produced); failed = 1; }
            else if (calls >= 8000000) { printf("err call-budget calls=%ld consumed=%zu produced=%zu\n", calls, consumed, produced); failed = 1; }
            if (!failed) {
                unsigned char* back = (unsigned char*)malloc(total ? total : 1); char rt[64], sd[96]; long long fcs = -2; ZSTD_frameHeader h;
                size_t d = ZSTD_decompress(back, total, out, produced);
                if (ZSTD_isError(d)) sprintf(rt, "%s", zv_errclass(d)); else if (d != total) sprintf(rt, "size:%zu", d); else if (memcmp(back, x, total)) { size_t k = 0; while (back[k] == x[k]) k++; sprintf(rt, "mismatch@%zu", k); } else sprintf(rt, "ok");
                sprintf(sd, "noheader");
                if (ZSTD_getFrameHeader(&h, out, produced) == 0) {
                    ZSTD_DCtx* dctx = ZSTD_createDCtx(); size_t ip = 0, opos = 0, rr = 1; int wl = 10; long guard = 0;
                    fcs = h.frameContentSize == ZSTD_CONTENTSIZE_UNKNOWN ? -1LL : (long long)h.frameContentSize;
                    while (wl < 31 && ((unsigned long long)1 << wl) < h.windowSize) wl++;
                    ZSTD_DCtx_setParameter(dctx, ZSTD_d_windowLogMax, wl);
                    memset(back, 0, total);
                    while (ip < produced && !ZSTD_isError(rr) && guard++ < 10000000) {
                        size_t isz = produced - ip < 4093 ? produced - ip : 4093, osz = total - opos < 8191 ? total - opos : 8191; ZSTD_inBuffer ib; ZSTD_outBuffer ob;
                        ib.src = out + ip; ib.size = isz; ib.pos = 0; ob.dst = back + opos; ob.size = osz; ob.pos = 0;
                        rr = ZSTD_decompressStream(dctx, &ob, &ib); ip += ib.pos; opos += ob.pos;
                        if (!ZSTD_isError(rr) && ib.pos == 0 && ob.pos == 0) break;
                        if (!ZSTD_isError(rr) && rr == 0 && ip < produced) { sprintf(sd, "early-zero@%zu", ip); break; }
                    }
                    if (ZSTD_isError(rr)) sprintf(sd, "%s", zv_errclass(rr));
                    else if (!strncmp(sd, "early", 5)) {}
                    else if (rr != 0 || ip != produced) sprintf(sd, "incomplete:ret=%zu,in=%zu/%zu,out=%zu", rr, ip, produced, opos);
                    else if (opos != total) sprintf(sd, "size:%zu", opos);
                    else if (memcmp(back, x, total)) { size_t k = 0; while (back[k] == x[k]) k++; sprintf(sd, "mismatch@%zu", k); }
                    else sprintf(sd, "ok");
                    ZSTD_freeDCtx(dctx);
                }
                printf("in=%016llx n=%zu out=%zu acc1=%zu emit1=%zu over=%zu calls=%ld rt=%s sd=%s fcs=%lld", (unsigned long long)XXH64(x, total, 0), total, produced, acc1, emit1, over, calls, rt, sd, fcs);
                if (wanthex && !strcmp(wanthex, "hex")) { printf(" frame="); zv_puthex(out, produced); }
                printf("\n");
                free(back);
            }
            alarm(0);
            ZSTD_freeCCtx(cctx); free(x); free(out); free(base);
        } else printf("bad-op\n");
        fflush(stdout);
    }
    return 0;
}
