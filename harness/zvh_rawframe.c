/* zvh_rawframe — function-level tie of lean/ZstdVerif/Model/Serialize.lean (theorems frame_roundtrip_raw / frame_roundtrip_blocks of
 * Lemmas/FrameRT.lean) to the frame-writing code of lib/compress/zstd_compress.c.  #includes zstd_compress.c (nothing in /repo is
 * edited) and drives the static functions directly: ZSTD_writeFrameHeader, ZSTD_noCompressBlock / ZSTD_rleCompressBlock per block
 * (blocks cut like ZSTD_compress_frameChunk cuts them), and the real ZSTD_writeEpilogue on a context put in the stage the block
 * loop leaves it in (ZSTDcs_ending after a last block, ZSTDcs_ongoing for a frame without block) with the running XXH64 state.
 *   rawframe <windowLog> <contentSizeFlag> <checksum> <blockSize|0> <hex x|->      -> <hex frame> dec=<ok|class|diff>
 *   blkframe <windowLog> <contentSizeFlag> <checksum> <r<n>|e<n>,...|-> <hex x|->  -> <hex frame> dec=<ok|class|diff>
 *        (r<n> = raw block of n bytes, e<n> = RLE block of n bytes equal to the byte at the current position)
 *   dec <hex frame> <hex x|->    -> ok | diff | err <class>     (ZSTD_decompress of a frame produced elsewhere, exact capacity)
 */
#include <stdio.h>
#include <stdlib.h>
#include <string.h>
#include "zstd_compress.c"   /* found through -I<repo>/lib/compress (tools/build.py) */
#include "zvh_common.h"

static const char* dec_check(const unsigned char* f, size_t fn, const unsigned char* x, size_t n) {
    unsigned char* out = (unsigned char*)malloc(n ? n : 1); size_t r = ZSTD_decompress(out, n, f, fn); const char* res;
    if (ZSTD_isError(r)) res = zv_errclass(r); else res = (r == n && (n == 0 || !memcmp(out, x, n))) ? "ok" : "diff";
    free(out); return res;
}

int main(void) {
    char* line;
    while ((line = zv_getline()) != NULL) {
        char* op = strtok(line, " ");
        if (!op) { printf("bad-op\n"); continue; }
        if (!strcmp(op, "rawframe") || !strcmp(op, "blkframe")) {
            int const blk = !strcmp(op, "blkframe");
            unsigned wl = (unsigned)strtoul(strtok(NULL, " "), NULL, 10); int csf = atoi(strtok(NULL, " ")); int ck = atoi(strtok(NULL, " "));
            char* spec = strtok(NULL, " "); char* hx = strtok(NULL, " "); size_t n; unsigned char* x = zv_unhex(hx ? hx : "-", &n);
            size_t cap = n + 3 * (n + 64) + 64, pos, r = 0; unsigned char* dst = (unsigned char*)malloc(cap);
            ZSTD_CCtx_params prm; ZSTD_CCtx* cctx = ZSTD_createCCtx(); int anyBlock = 0, bad = 0; const unsigned char* ip = x; size_t remaining = n;
            memset(&prm, 0, sizeof prm);
            prm.cParams.windowLog = wl; prm.fParams.contentSizeFlag = csf; prm.fParams.checksumFlag = ck; prm.format = ZSTD_f_zstd1;
            pos = ZSTD_writeFrameHeader(dst, cap, &prm, n, 0);
            if (ZSTD_isError(pos)) { printf("err hdr\n"); goto done; }
            XXH64_reset(&cctx->xxhState, 0);
            if (!blk) {
                /* ZSTD_resetCCtx_internal: windowSize = MAX(1, MIN(1<<windowLog, pledged)); blockSize = MIN(maxBlockSize, windowSize) */
                U64 const pledged = csf ? (U64)n : ZSTD_CONTENTSIZE_UNKNOWN;
                size_t const windowSize = (size_t)MAX(1, MIN((U64)1 << wl, pledged));
                size_t const arg = (size_t)strtoull(spec, NULL, 10);
                size_t const blockSizeMax = arg ? arg : MIN((size_t)ZSTD_BLOCKSIZE_MAX, windowSize);
                while (remaining) {   /* ZSTD_compress_frameChunk with every block falling back to ZSTD_noCompressBlock */
                    size_t const bs = MIN(blockSizeMax, remaining); U32 const last = (U32)(bs >= remaining);
                    if (ck) XXH64_update(&cctx->xxhState, ip, bs);
                    r = ZSTD_noCompressBlock(dst + pos, cap - pos, ip, bs, last); if (ZSTD_isError(r)) { bad = 1; break; }
                    pos += r; ip += bs; remaining -= bs; anyBlock = 1;
                }
            } else if (strcmp(spec, "-")) {
                char* sv = NULL; char* tok; char* next;
                for (tok = strtok_r(spec, ",", &sv); tok; tok = next) {
                    size_t const bs = (size_t)strtoull(tok + 1, NULL, 10); U32 last;
                    next = strtok_r(NULL, ",", &sv); last = (U32)(next == NULL);
                    if (bs > remaining) { bad = 1; break; }
                    if (ck) XXH64_update(&cctx->xxhState, ip, bs);
                    if (tok[0] == 'e') r = ZSTD_rleCompressBlock(dst + pos, cap - pos, bs ? ip[0] : 0, bs, last);
                    else r = ZSTD_noCompressBlock(dst + pos, cap - pos, ip, bs, last);
                    if (ZSTD_isError(r)) { bad = 1; break; }
                    pos += r; ip += bs; remaining -= bs; anyBlock = 1;
                }
                if (remaining) bad = 1;
            }
            if (bad) { printf("err block\n"); goto done; }
            cctx->appliedParams = prm;
            cctx->stage = anyBlock ? ZSTDcs_ending : ZSTDcs_ongoing;
            r = ZSTD_writeEpilogue(cctx, dst + pos, cap - pos);
            if (ZSTD_isError(r)) { printf("err epilogue\n"); goto done; }
            pos += r;
            zv_puthex(dst, pos); printf(" dec=%s\n", dec_check(dst, pos, x, n));
        done:
            ZSTD_freeCCtx(cctx); free(dst); free(x);
        } else if (!strcmp(op, "dec")) {
            char* hf = strtok(NULL, " "); char* hx = strtok(NULL, " "); size_t fn, n; unsigned char* f = zv_unhex(hf ? hf : "-", &fn);
            unsigned char* x = zv_unhex(hx ? hx : "-", &n); const char* res = dec_check(f, fn, x, n);
            if (!strcmp(res, "ok") || !strcmp(res, "diff")) printf("%s\n", res); else printf("err %s\n", res);
            free(f); free(x);
        } else printf("bad-op\n");
        fflush(stdout);
    }
    return 0;
}
