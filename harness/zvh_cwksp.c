/* zvh_cwksp — workspace budget harness (C14).  #includes zstd_compress.c with the ZSTD_cwksp_reserve_* entry points wrapped by
 * tracing functions (the wrappers are defined AFTER zstd_cwksp.h, so the allocator itself is untouched, nothing in /repo is edited).
 *   ws <static 0|1> <stream 0|1> <misalign 0..56 step 8> <extra> <uses> <nspecs> then per spec: <id=val,...|-> <srcSize> <pledged|-1>   (use k takes spec k mod nspecs;
 *        a static context is sized by the estimate for spec 0: ZSTD_estimateC{Ctx,Stream}Size(L) when the spec is exactly 100=L, else *_usingCCtxParams;
 *        a spec containing 9998=1 is sized by ZSTD_estimateC{Ctx,Stream}Size_usingCParams on its 101..107 entries alone - the estimate never sees the other entries)
 *        -> one line per use:
 *        use <k> rc=<ok|errclass> rp=<wlog,clog,hlog,mm,strat,useRow,ldm,ldmHashLog,ldmBucketLog,ldmMinMatch,extSeq,maxBlock,static,bufIn,bufOut,pledged>
 *            lo64=<address mod 64> size=<workspace bytes> fresh=<0|1> need=<neededSpace as the code computes it> trace=<o<n> t<n> i<n> a<n> b<n> ...>
 *            oe=<objectEnd-lo> te=<tableEnd-lo> as=<allocStart-lo> failed=<allocFailed> dur=<workspaceOversizedDuration> rt=<round trip ok>
 *   est <kind cctx|cstream> <w,c,h,s,mm,tl,strat>   -> ZSTD_estimate{CCtx,CStream}Size_usingCParams
 *   estl <kind> <level>                             -> ZSTD_estimate{CCtx,CStream}Size(level)
 */
#include <stdio.h>
#include <stdlib.h>
#include <string.h>
#define ZSTD_STATIC_LINKING_ONLY
#include "zstd_compress_internal.h"   /* found through -I<repo>/… (tools/build.py), so that ZV_REPO can point at another checkout */

#define ZV_TR_MAX 256
static struct { char k; size_t n; } zv_trace[ZV_TR_MAX]; static int zv_ntrace;
static void zv_tr(char k, size_t n) { if (zv_ntrace < ZV_TR_MAX) { zv_trace[zv_ntrace].k = k; zv_trace[zv_ntrace].n = n; zv_ntrace++; } }
static void* zv_obj(ZSTD_cwksp* ws, size_t n) { zv_tr('o', n); return ZSTD_cwksp_reserve_object(ws, n); }
struct ZSTD_CCtx_s; static struct ZSTD_CCtx_s* zv_cur; static unsigned long long zv_pledgedPlusOne; static unsigned long long zv_cur_pledge(void);
static void* zv_tab(ZSTD_cwksp* ws, size_t n) { zv_tr('t', n); if (zv_cur) zv_pledgedPlusOne = zv_cur_pledge(); return ZSTD_cwksp_reserve_table(ws, n); }
static void* zv_ali(ZSTD_cwksp* ws, size_t n) { zv_tr('a', n); return ZSTD_cwksp_reserve_aligned64(ws, n); }
static void* zv_ini(ZSTD_cwksp* ws, size_t n) { zv_tr('i', n); return ZSTD_cwksp_reserve_aligned_init_once(ws, n); }
static BYTE* zv_buf(ZSTD_cwksp* ws, size_t n) { zv_tr('b', n); return ZSTD_cwksp_reserve_buffer(ws, n); }
#define ZSTD_cwksp_reserve_object zv_obj
#define ZSTD_cwksp_reserve_table zv_tab
#define ZSTD_cwksp_reserve_aligned64 zv_ali
#define ZSTD_cwksp_reserve_aligned_init_once zv_ini
#define ZSTD_cwksp_reserve_buffer zv_buf
#include "zstd_compress.c"   /* found through -I<repo>/… (tools/build.py), so that ZV_REPO can point at another checkout */
#undef ZSTD_cwksp_reserve_object
#undef ZSTD_cwksp_reserve_table
#undef ZSTD_cwksp_reserve_aligned64
#undef ZSTD_cwksp_reserve_aligned_init_once
#undef ZSTD_cwksp_reserve_buffer
#include "zvh_common.h"
static unsigned long long zv_cur_pledge(void) { return zv_cur->pledgedSrcSizePlusOne; }

static unsigned long long rs;
static unsigned rnd(void) { rs = rs * 6364136223846793005ULL + 1442695040888963407ULL; return (unsigned)(rs >> 33); }
static void gen_data(unsigned char* p, size_t n, unsigned long long seed) {
    size_t i = 0; rs = seed;
    while (i < n) { unsigned k = rnd() % 100; size_t len = 1 + rnd() % 300; if (len > n - i) len = n - i;
        if (k < 40 && i > 100) { size_t maxd = i < 300000u ? i : 300000u; size_t d = 1 + rnd() % maxd; size_t j; for (j = 0; j < len; j++) p[i + j] = p[i + j - d]; }
        else if (k < 75) { size_t j; for (j = 0; j < len; j++) p[i + j] = (unsigned char)("etaoin shrdlu,.\n"[rnd() % 17]); }
        else { size_t j; for (j = 0; j < len; j++) p[i + j] = (unsigned char)rnd(); }
        i += len; }
}
static size_t failing_producer(void* st, ZSTD_Sequence* out, size_t cap, const void* src, size_t n, const void* d, size_t dn, int lvl, size_t wsz) {
    (void)st; (void)out; (void)cap; (void)src; (void)n; (void)d; (void)dn; (void)lvl; (void)wsz; return ZSTD_SEQUENCE_PRODUCER_ERROR; }

static size_t apply_params(ZSTD_CCtx* c, const char* spec, int* wantExt) {
    char buf[600]; char* sv = NULL; char* kv; size_t r = 0; *wantExt = 0;
    if (!strcmp(spec, "-")) return 0;
    strncpy(buf, spec, sizeof buf - 1); buf[sizeof buf - 1] = 0;
    for (kv = strtok_r(buf, ",", &sv); kv && !ZSTD_isError(r); kv = strtok_r(NULL, ",", &sv)) { int id, val;
        if (sscanf(kv, "%d=%d", &id, &val) != 2) continue;
        if (id == 9999) { *wantExt = val; continue; }
        if (id == 9998) continue;   /* sizing directive, see estimate_for */
        r = ZSTD_CCtx_setParameter(c, (ZSTD_cParameter)id, val); }
    return r;
}
/* the parameter-level estimate for the same settings (what a caller sizing a static context would ask) */
static size_t estimate_for(const char* spec, int stream) {
    ZSTD_CCtx_params* p; char buf[600]; char* sv = NULL; char* kv; size_t r; int ext = 0;
    { int lvl; char tail; if (sscanf(spec, "100=%d%c", &lvl, &tail) == 1) return stream ? ZSTD_estimateCStreamSize(lvl) : ZSTD_estimateCCtxSize(lvl); }
    if (strstr(spec, "9998=1")) { ZSTD_compressionParameters cp; memset(&cp, 0, sizeof cp);
        strncpy(buf, spec, sizeof buf - 1); buf[sizeof buf - 1] = 0;
        for (kv = strtok_r(buf, ",", &sv); kv; kv = strtok_r(NULL, ",", &sv)) { int id, val; if (sscanf(kv, "%d=%d", &id, &val) != 2) continue;
            switch (id) { case 101: cp.windowLog = (unsigned)val; break; case 102: cp.hashLog = (unsigned)val; break; case 103: cp.chainLog = (unsigned)val; break; case 104: cp.searchLog = (unsigned)val; break;
                          case 105: cp.minMatch = (unsigned)val; break; case 106: cp.targetLength = (unsigned)val; break; case 107: cp.strategy = (ZSTD_strategy)val; break; default: break; } }
        return stream ? ZSTD_estimateCStreamSize_usingCParams(cp) : ZSTD_estimateCCtxSize_usingCParams(cp); }
    p = ZSTD_createCCtxParams();
    strncpy(buf, spec, sizeof buf - 1); buf[sizeof buf - 1] = 0;
    if (strcmp(spec, "-")) for (kv = strtok_r(buf, ",", &sv); kv; kv = strtok_r(NULL, ",", &sv)) { int id, val; if (sscanf(kv, "%d=%d", &id, &val) == 2) { if (id == 9999) ext = val; else ZSTD_CCtxParams_setParameter(p, (ZSTD_cParameter)id, val); } }
    if (ext) { p->extSeqProdFunc = failing_producer; p->enableMatchFinderFallback = 1; }
    r = stream ? ZSTD_estimateCStreamSize_usingCCtxParams(p) : ZSTD_estimateCCtxSize_usingCCtxParams(p);
    ZSTD_freeCCtxParams(p); return r;
}

int main(void) {
    char* line;
    while ((line = zv_getline())) {
        char* op = strtok(line, " "); if (!op) continue;
        if (!strcmp(op, "ws")) {
            int isStatic = atoi(strtok(NULL, " ")), stream = atoi(strtok(NULL, " ")), mis = atoi(strtok(NULL, " ")); long extra = atol(strtok(NULL, " ")); int uses = atoi(strtok(NULL, " ")), k;
            char* specs[16]; size_t sizes[16]; long long pledges[16]; int nspecs; ZSTD_CCtx* c = NULL; void* mem = NULL; void* lastWs = NULL; size_t lastSize = 0;
            nspecs = atoi(strtok(NULL, " ")); if (nspecs > 16) nspecs = 16;
            for (k = 0; k < nspecs; k++) { specs[k] = strtok(NULL, " "); sizes[k] = (size_t)strtoull(strtok(NULL, " "), NULL, 10); pledges[k] = atoll(strtok(NULL, " ")); }
            zv_ntrace = 0;
            if (isStatic) { size_t need = estimate_for(specs[0], stream); if (ZSTD_isError(need)) { printf("estimate-error %s\n", zv_errclass(need)); continue; }
                need = (size_t)((long)need + extra); mem = malloc(need + 128); { char* a = (char*)(((size_t)mem + 63) & ~(size_t)63) + mis; c = ZSTD_initStaticCCtx(a, need); }
                if (!c) { printf("initStatic-null need=%zu\n", need); free(mem); continue; } }
            else c = ZSTD_createCCtx();
            for (k = 0; k < uses; k++) { int ext = 0; int const q = k % nspecs; size_t n = sizes[q]; unsigned char* src = (unsigned char*)malloc(n ? n : 1); size_t cap = ZSTD_compressBound(n) + 64; unsigned char* dst = (unsigned char*)malloc(cap); size_t r, produced = 0; int rt = 0, i, fresh;
                gen_data(src, n, 77 + (unsigned long long)k * 13 + n);
                ZSTD_CCtx_reset(c, ZSTD_reset_session_and_parameters); zv_cur = c; zv_pledgedPlusOne = 0;
                r = apply_params(c, specs[q], &ext);
                if (ext && !ZSTD_isError(r)) { ZSTD_registerSequenceProducer(c, NULL, failing_producer); r = ZSTD_CCtx_setParameter(c, ZSTD_c_enableSeqProducerFallback, 1); }
                if (!ZSTD_isError(r) && pledges[q] >= 0) r = ZSTD_CCtx_setPledgedSrcSize(c, (unsigned long long)pledges[q]);
                if (!ZSTD_isError(r)) {
                    if (!stream) { r = ZSTD_compress2(c, dst, cap, src, n); if (!ZSTD_isError(r)) produced = r; }
                    else { size_t pos = 0; int guard = 0; r = 1;
                        while (guard++ < 1000000) { ZSTD_inBuffer ib; ZSTD_outBuffer ob; size_t isz = 1 + rnd() % 50000; ZSTD_EndDirective d; if (isz > n - pos) isz = n - pos; d = (pos + isz == n) ? ZSTD_e_end : ZSTD_e_continue;
                            ib.src = src + pos; ib.size = isz; ib.pos = 0; ob.dst = dst + produced; ob.size = cap - produced; ob.pos = 0;
                            r = ZSTD_compressStream2(c, &ob, &ib, d); if (ZSTD_isError(r)) break; pos += ib.pos; produced += ob.pos; if (d == ZSTD_e_end && r == 0) break; } } }
                if (!ZSTD_isError(r)) { unsigned char* back = (unsigned char*)malloc(n ? n : 1); size_t dr = ZSTD_decompress(back, n, dst, produced); rt = (!ZSTD_isError(dr) && dr == n && !memcmp(back, src, n)); free(back); }
                {   const ZSTD_CCtx_params* ap = &c->appliedParams; ZSTD_cwksp* ws = &c->workspace; U64 pl = zv_pledgedPlusOne - 1; size_t need;
                    fresh = (ws->workspace != lastWs) || (ZSTD_cwksp_sizeof(ws) != lastSize); lastWs = ws->workspace; lastSize = ZSTD_cwksp_sizeof(ws);
                    need = ZSTD_estimateCCtxSize_usingCCtxParams_internal(&ap->cParams, &ap->ldmParams, c->staticSize != 0, ap->useRowMatchFinder, c->inBuffSize, c->outBuffSize, pl, ZSTD_hasExtSeqProd(ap), ap->maxBlockSize);
                    printf("use %d rc=%s rp=%u,%u,%u,%u,%u,%d,%d,%u,%u,%u,%d,%zu,%d,%zu,%zu,%llu lo64=%zu size=%zu fresh=%d need=%zu trace=", k, ZSTD_isError(r) ? zv_errclass(r) : "ok",
                           ap->cParams.windowLog, ap->cParams.chainLog, ap->cParams.hashLog, ap->cParams.minMatch, (unsigned)ap->cParams.strategy, ap->useRowMatchFinder == ZSTD_ps_enable,
                           ap->ldmParams.enableLdm == ZSTD_ps_enable, ap->ldmParams.hashLog, ap->ldmParams.bucketSizeLog, ap->ldmParams.minMatchLength, ZSTD_hasExtSeqProd(ap), ap->maxBlockSize, c->staticSize != 0,
                           c->inBuffSize, c->outBuffSize, (unsigned long long)pl, (size_t)ws->workspace % 64, ZSTD_cwksp_sizeof(ws), fresh, need);
                    for (i = 0; i < zv_ntrace; i++) printf("%s%c%zu", i ? "," : "", zv_trace[i].k, zv_trace[i].n); if (!zv_ntrace) printf("-");
                    printf(" oe=%zu te=%zu as=%zu failed=%d dur=%d rt=%d\n", (size_t)((char*)ws->objectEnd - (char*)ws->workspace), (size_t)((char*)ws->tableEnd - (char*)ws->workspace),
                           (size_t)((char*)ws->allocStart - (char*)ws->workspace), (int)ws->allocFailed, ws->workspaceOversizedDuration, rt); }
                zv_ntrace = 0; free(src); free(dst); }
            if (isStatic) free(mem); else ZSTD_freeCCtx(c);
        } else if (!strcmp(op, "est")) {
            char* kind = strtok(NULL, " "); unsigned v[7]; ZSTD_compressionParameters cp; size_t r;
            sscanf(strtok(NULL, " "), "%u,%u,%u,%u,%u,%u,%u", &v[0], &v[1], &v[2], &v[3], &v[4], &v[5], &v[6]);
            cp.windowLog = v[0]; cp.chainLog = v[1]; cp.hashLog = v[2]; cp.searchLog = v[3]; cp.minMatch = v[4]; cp.targetLength = v[5]; cp.strategy = (ZSTD_strategy)v[6];
            r = !strcmp(kind, "cstream") ? ZSTD_estimateCStreamSize_usingCParams(cp) : ZSTD_estimateCCtxSize_usingCParams(cp);
            if (ZSTD_isError(r)) printf("err %s\n", zv_errclass(r)); else printf("%zu\n", r);
        } else if (!strcmp(op, "estl")) {
            char* kind = strtok(NULL, " "); int l = atoi(strtok(NULL, " "));
            size_t r = !strcmp(kind, "cstream") ? ZSTD_estimateCStreamSize(l) : ZSTD_estimateCCtxSize(l);
            if (ZSTD_isError(r)) printf("err %s\n", zv_errclass(r)); else printf("%zu\n", r);
        } else if (!strcmp(op, "rep")) {
            /* rep <r0> <r1> <r2> <raw> <ll0> : ZSTD_finalizeOffBase + ZSTD_updateRep */
            U32 rep[3], raw, ll0, ob; rep[0] = (U32)strtoul(strtok(NULL, " "), NULL, 10); rep[1] = (U32)strtoul(strtok(NULL, " "), NULL, 10); rep[2] = (U32)strtoul(strtok(NULL, " "), NULL, 10);
            raw = (U32)strtoul(strtok(NULL, " "), NULL, 10); ll0 = (U32)atoi(strtok(NULL, " "));
            ob = ZSTD_finalizeOffBase(raw, rep, ll0); ZSTD_updateRep(rep, ob, ll0);
            printf("%u %u %u %u\n", ob, rep[0], rep[1], rep[2]);
        } else if (!strcmp(op, "fhdr")) {
            /* fhdr <windowLog> <pledged> <contentSizeFlag> <dictID> <noDictID> <checksum> <magicless> : ZSTD_writeFrameHeader -> hex */
            ZSTD_CCtx_params prm; unsigned char buf[32]; size_t r, i; unsigned long long pledged; U32 did;
            memset(&prm, 0, sizeof prm);
            prm.cParams.windowLog = (unsigned)strtoul(strtok(NULL, " "), NULL, 10); pledged = strtoull(strtok(NULL, " "), NULL, 10);
            prm.fParams.contentSizeFlag = atoi(strtok(NULL, " ")); did = (U32)strtoul(strtok(NULL, " "), NULL, 10);
            prm.fParams.noDictIDFlag = atoi(strtok(NULL, " ")); prm.fParams.checksumFlag = atoi(strtok(NULL, " "));
            prm.format = atoi(strtok(NULL, " ")) ? ZSTD_f_zstd1_magicless : ZSTD_f_zstd1;
            r = ZSTD_writeFrameHeader(buf, sizeof buf, &prm, pledged, did);
            if (ZSTD_isError(r)) printf("err\n"); else { for (i = 0; i < r; i++) printf("%02x", buf[i]); putchar('\n'); }
        } else if (!strcmp(op, "codes")) {
            U32 ll = (U32)strtoul(strtok(NULL, " "), NULL, 10), ml = (U32)strtoul(strtok(NULL, " "), NULL, 10);
            printf("%u %u\n", ZSTD_LLcode(ll), ZSTD_MLcode(ml));
        } else printf("bad-op\n");
        fflush(stdout);
    }
    return 0;
}
