/* Huffman ENCODER side of the library, line protocol (one op per line on stdin, one canonical text line per op on stdout):
 *   ctable  <maxNbBits> <hex literals>   HIST + HUF_buildCTable_wksp               -> ok log=L msv=M codes=val:nbBits,...
 *   rctable <hex weight header>          HUF_readCTable                            -> ok log=L msv=M codes=... used=N hasZero=0|1
 *   enc1    <maxNbBits> <hex literals>   build + HUF_writeCTable_wksp + HUF_compress1X_usingCTable
 *                                                                                   -> ok log=L msv=M codes=... hdr=<hex|err> stream=<hex|refused> tight=..
 *   enc4    <maxNbBits> <hex literals>   likewise with HUF_compress4X_usingCTable
 * maxNbBits is raised to the library's own lower bound HUF_minTableLog(cardinality) = highbit(cardinality)+1 when smaller
 * (HUF_optimalTableLog never hands HUF_buildCTable_wksp less), 0 = HUF_TABLELOG_DEFAULT.
 */
#define HUF_STATIC_LINKING_ONLY
#include "zvh_common.h"
#include "mem.h"
#include "huf.h"
#include "bits.h"

static unsigned long long g_wksp[(HUF_WORKSPACE_SIZE + HUF_CTABLE_WORKSPACE_SIZE) / 8 + 64];

static void print_codes(const HUF_CElt* ct, unsigned msv)
{
    unsigned s;
    printf(" codes=");
    for (s = 0; s <= msv; s++) {
        size_t const e = ct[1 + s];
        unsigned const nb = (unsigned)(e & 0xFF);
        size_t const val = nb ? (e >> (sizeof(size_t) * 8 - nb)) : 0;
        printf("%s%zu:%u", s ? "," : "", val, nb);
    }
}

/* returns tableLog or 0 on failure (message already printed) */
static unsigned build(HUF_CElt* ct, const unsigned char* src, size_t n, unsigned maxNbBits, unsigned* msvOut)
{
    unsigned count[256]; unsigned msv = 0, card = 0, s; size_t i, r;
    memset(count, 0, sizeof(count));
    for (i = 0; i < n; i++) count[src[i]]++;
    for (s = 0; s < 256; s++) if (count[s]) { msv = s; card++; }
    if (card < 2) { printf("skip single-symbol\n"); return 0; }
    if (maxNbBits != 0 && maxNbBits < ZSTD_highbit32(card) + 1) maxNbBits = ZSTD_highbit32(card) + 1;
    memset(ct, 0, HUF_CTABLE_SIZE(255));
    r = HUF_buildCTable_wksp(ct, count, msv, maxNbBits, g_wksp, sizeof(g_wksp));
    if (HUF_isError(r)) { printf("err build %s\n", HUF_getErrorName(r)); return 0; }
    *msvOut = msv;
    return (unsigned)r;
}

int main(void)
{
    char* line;
    static HUF_CREATE_STATIC_CTABLE(ct, 255);
    while ((line = zv_getline()) != NULL) {
        char* op = strtok(line, " ");
        if (!op) continue;
        if (!strcmp(op, "ctable") || !strcmp(op, "enc1") || !strcmp(op, "enc4")) {
            int const four = !strcmp(op, "enc4"), enc = strcmp(op, "ctable") != 0;
            char* mb = strtok(NULL, " "); char* hx = strtok(NULL, " ");
            size_t n; unsigned char* src; unsigned msv = 0, log;
            if (!mb || !hx) { printf("err args\n"); continue; }
            src = zv_unhex(hx, &n);
            log = build(ct, src, n, (unsigned)atoi(mb), &msv);
            if (log) {
                printf("ok log=%u msv=%u", log, msv);
                print_codes(ct, msv);
                if (enc) {
                    unsigned char hdr[512];
                    size_t const cap = 2 * n + 4096;
                    unsigned char* dst = (unsigned char*)malloc(cap);
                    size_t const h = HUF_writeCTable_wksp(hdr, sizeof(hdr), ct, msv, log, g_wksp, sizeof(g_wksp));
                    size_t c;
                    printf(" hdr=");
                    if (HUF_isError(h)) printf("err"); else zv_puthex(hdr, h);
                    c = four ? HUF_compress4X_usingCTable(dst, cap, src, n, ct, 0) : HUF_compress1X_usingCTable(dst, cap, src, n, ct, 0);
                    printf(" stream=");
                    if (HUF_isError(c)) printf("err"); else if (c == 0) printf("refused"); else zv_puthex(dst, c);
                    /* same call into a destination just large enough: takes the careful (non "fast flush") loop */
                    if (!HUF_isError(c) && c != 0) {
                        size_t const tcap = c + (four ? 4 : 1) * (sizeof(size_t) + 1);
                        unsigned char* d2 = (unsigned char*)malloc(tcap);
                        size_t const c2 = four ? HUF_compress4X_usingCTable(d2, tcap, src, n, ct, 0) : HUF_compress1X_usingCTable(d2, tcap, src, n, ct, 0);
                        printf(" tight=%s", c2 == 0 ? "zero" : (c2 == c && !memcmp(dst, d2, c)) ? "same" : "DIFF");
                        free(d2);
                    }
                    free(dst);
                }
                printf("\n");
            }
            free(src);
        } else if (!strcmp(op, "rctable")) {
            char* hx = strtok(NULL, " ");
            size_t n; unsigned char* src; unsigned msv = 255, hasZero = 0; size_t r;
            if (!hx) { printf("err args\n"); continue; }
            src = zv_unhex(hx, &n);
            memset(ct, 0, sizeof(ct));
            r = HUF_readCTable(ct, &msv, src, n, &hasZero);
            if (HUF_isError(r)) printf("err %s\n", HUF_getErrorName(r));
            else {
                printf("ok log=%u msv=%u", (unsigned)HUF_readCTableHeader(ct).tableLog, msv);
                print_codes(ct, msv);
                printf(" used=%zu hasZero=%u\n", r, hasZero);
            }
            free(src);
        } else printf("err unknown-op\n");
        fflush(stdout);
    }
    return 0;
}
