/* zvh_train — dictionary training contract (C18).
 *   train <algo def|cover|fastcover|optcover|optfast|legacy|finalize|addent> <capacity> <k> <d> <f> <accel> <steps> <split%> <shrink> <threads> <dictID> <level>
 *         <kind text|same|tiny|empty|small|mixed|bin|off<D>|pool|zero<H>|lead<H>x<B>>:<nbSamples>:<sampleSize>:<seed> <perturb 0|1> <pseed>
 *         pool = records cut out of a pool of random 64-byte phrases (rich corpus: full-length segments); zero<H>[p<P>] = pool (of P phrases) whose first H records are all-zero
 *         bytes of exactly <sampleSize> (a blank stretch: epochs of a small k score zero there); lead<H>x<B> = text whose first H samples have exactly B bytes
 *   -> res=<ok:SIZE|zero|err:CLASS> loadC=<ok|null|-> loadD=<ok|null|-> ids=<fromDict,ZDICT,fromCDict,fromDDict> hsize=<header bytes> rt=<ok>/<tried> det=<same|DIFF|na>
 *      content=<xxh64 of the content offered (finalize)> ev=<best-holder events ; separated> dict=<hex if <= 8000 bytes else -> grow=<n> cands=<n>
 *      grow = times the optimiser's result holder took a dictionary LARGER than the one it held (its buffer had to grow), cands = candidates it took.
 * Stale memory: the two runs of a single-threaded operation get destinations pre-filled with different bytes and (zvh_train_fill.h) every fresh malloc block of
 * cover.c / fastcover.c / zdict.c filled with a different byte, so a byte of the result that the trainer never wrote shows as det=DIFF.
 *   <shrink> is <shrinkDict>[r<shrinkDictMaxRegression>] (regression 1 when not given).  Sample kind rep = every sample is a copy of one template of <sampleSize> random bytes
 *   (a corpus much smaller than the capacity whose selected content is all useful: a dictionary missing part of it compresses the samples far worse).
 *   Variant msan (MemorySanitizer, -DZVT_NO_FILL): fresh blocks and the destination are left unwritten and the operation runs once; any use of a byte nobody wrote - inside the
 *   trainer or in the returned dictionary when this harness loads / compares / prints it - ends the process with a report.
 * Excluded shape (reported, see EXCLUDED below): res=excluded:<name>.
 *   epochs <maxDictSize> <nbDmers >= 1> <k >= 1> <passes>          -> <num> <size>     (COVER_computeEpochs, vs Train.computeEpochs)
 *   ctx <fast|cover> <d> <split%> <f> <kind>:<nb>:<size>:<seed>     -> ctx res=<ok|err:CLASS|excluded> n=<d-mer count> total=<bytes> train=<bytes of the training part> nbTrain=<n> nbTest=<n>
 *         (FASTCOVER_ctx_init / COVER_ctx_init at function level, vs Train.ctxInit)
 *   dins <maxSize >= 2> <savings,...|->                             -> pos=<table->pos> items=<candidate:savings,...>   (ZDICT_insertDictItem on candidates that merge with
 *         nothing, table of exactly maxSize slots; vs Train.insertAll)
 *   sample kind seg<L>s<S>r<R>: the sample buffer is a stream of T distinct random tokens of L..L+4 bytes, each followed by S fresh random bytes, the whole token list
 *         repeated R times (T = (total - 64) / (R*(L+2+S))): T distinct recurring segments that cannot be merged - the legacy trainer's candidate table (max(10000, nbSamples,
 *         capacity/16) slots) fills up when T exceeds it.  Legacy runs end with tbl=<pos>/<entries> (used slots / slots of that table; full when equal).
 * The dictionary must fit the capacity, load on both sides, carry one non-zero ID everywhere, and every sample must round-trip with it. */
#include "zvh_common.h"
#include <pthread.h>
#include <time.h>
#include <signal.h>
#include <unistd.h>
#define ZDICT_STATIC_LINKING_ONLY
#include "zdict.h"
#include "cover.h"
size_t zvt_fast_ctx(const void* sb, const size_t* ss, unsigned nb, unsigned d, double split, unsigned f, size_t* nbDmers);
size_t zvt_cover_ctx(const void* sb, const size_t* ss, unsigned nb, unsigned d, double split, size_t* nbDmers);
void zvt_dins(unsigned maxSize, const unsigned* sv, unsigned n);
extern int zvt_watch_legacy; extern unsigned zvt_watch_nb; extern size_t zvt_watch_cap, zvt_tbl_pos, zvt_tbl_entries;

static pthread_mutex_t g_log = PTHREAD_MUTEX_INITIALIZER; static char g_ev[1 << 16]; static size_t g_evlen;
static pthread_t g_main; static int g_perturb; static __thread unsigned t_rng;
void zvt_event(const char* fmt, unsigned long long a, unsigned long long b) { char tmp[64]; int n = snprintf(tmp, sizeof tmp, fmt, a, b); pthread_mutex_lock(&g_log);
    if (g_evlen + (size_t)n + 1 < sizeof g_ev) { memcpy(g_ev + g_evlen, tmp, (size_t)n); g_evlen += (size_t)n; if (g_ev[g_evlen - 1] == '\n') g_ev[g_evlen - 1] = ';'; g_ev[g_evlen] = 0; } pthread_mutex_unlock(&g_log); }
int zvt_is_dispatcher(void) { return pthread_equal(pthread_self(), g_main); }
void zvt_perturb(void) { if (g_perturb) { struct timespec ts; if (!t_rng) t_rng = (unsigned)(size_t)pthread_self() * 2654435761u + 12345u; t_rng = t_rng * 1103515245u + 12345u; ts.tv_sec = 0; ts.tv_nsec = (long)((t_rng >> 16) & 1023) * 1000; if ((t_rng >> 27) & 1) nanosleep(&ts, NULL); } }

unsigned char zvt_fill_byte = 0x11; size_t zvt_grow, zvt_cands;
#ifdef ZVT_NO_FILL
#define ZVT_UNFILLED 1   /* no second run either: the determinism pair belongs to the filled builds */
#else
#define ZVT_UNFILLED 0
#endif
#ifdef ZVT_NO_FILL   /* MemorySanitizer build (variant msan): fresh blocks and the destination stay UNWRITTEN, so that any use of a byte the trainer never wrote is a report */
void* zvt_fill_malloc(size_t n) { return malloc(n); }
static void prefill(unsigned char* p, size_t n, unsigned a, unsigned m) { (void)p; (void)n; (void)a; (void)m; }
#else
void* zvt_fill_malloc(size_t n) { void* p = malloc(n); if (p && n) memset(p, zvt_fill_byte, n); return p; }
static void prefill(unsigned char* p, size_t n, unsigned a, unsigned m) { size_t i; for (i = 0; i < n; i++) p[i] = (unsigned char)(a + i * m); }
#endif
static unsigned long long rs;
static unsigned rnd(void) { rs = rs * 6364136223846793005ULL + 1442695040888963407ULL; return (unsigned)(rs >> 33); }
static void gen_samples(const char* kind, unsigned nb, size_t ssz, unsigned long long seed, unsigned char** buf, size_t** sizes, size_t* total) {
    size_t cap = (size_t)nb * (2 * ssz + 80) + 64, pos = 0; unsigned i; unsigned char* b = (unsigned char*)malloc(cap); size_t* sz = (size_t*)malloc((nb ? nb : 1) * sizeof *sz);
    static const char* words[] = { "alpha", "beta", "gamma", "delta", "{\"id\":", ",\"name\":\"", "\"}", "http://", ".com/", "user", "2026-09-", "error", "value=", "\n", " ", "0123" };
    unsigned H = 0, B = 0, P = nb + 16; int const isZero = !strncmp(kind, "zero", 4), isLead = !strncmp(kind, "lead", 4), isPool = isZero || !strcmp(kind, "pool"); unsigned char* pool = NULL;
    unsigned segL = 0, segS = 0, segR = 0; int const isSeg = !strncmp(kind, "seg", 3) && sscanf(kind + 3, "%us%ur%u", &segL, &segS, &segR) == 3 && segL && segR;
    rs = seed;
    if (ZVT_UNFILLED && b) memset(b, 0xBE, cap);   /* the off<D> kinds with D < 48 copy a few bytes from beyond the samples written so far: this scratch block counts as written */
    if (isZero) { unsigned pp = 0; sscanf(kind + 4, "%up%u", &H, &pp); if (pp) P = pp; }
    if (isLead) { sscanf(kind + 4, "%ux%u", &H, &B); if (B > 2 * ssz) B = (unsigned)(2 * ssz); }
    if (isPool) { size_t q; pool = (unsigned char*)malloc((size_t)P * 64); for (q = 0; q < (size_t)P * 64; q++) pool[q] = (unsigned char)rnd(); }
    for (i = 0; i < nb; i++) { size_t n = ssz, j = 0;
        if (!strcmp(kind, "empty")) n = 0; else if (!strcmp(kind, "small")) n = rnd() % 8; else if (!strcmp(kind, "mixed")) n = (rnd() % 5 == 0) ? 0 : (rnd() % 4 == 0 ? rnd() % 9 : 1 + rnd() % (unsigned)(2 * ssz + 1));
        else if (isSeg) n = ssz;
        else if (strcmp(kind, "same") && strcmp(kind, "rep")) n = ssz / 2 + rnd() % (unsigned)(ssz + 1);
        if (i < H) n = isLead ? B : ssz;
        if (isZero && i < H) memset(b + pos, 0, n);
        else if (isSeg) { }                                                   /* filled below, across the sample borders */
        else if (isPool) { while (j < n) { size_t l = 64; if (l > n - j) l = n - j; memcpy(b + pos + j, pool + (size_t)(rnd() % P) * 64, l); j += l; } }
        else if (!strcmp(kind, "rep")) { n = ssz; if (i == 0) { for (j = 0; j < n; j++) b[pos + j] = (unsigned char)rnd(); } else memcpy(b + pos, b, n); }
        else if (!strcmp(kind, "same")) { if (i == 0) { while (j < n) { const char* w = words[rnd() % 16]; size_t l = strlen(w); if (l > n - j) l = n - j; memcpy(b + pos + j, w, l); j += l; } } else memcpy(b + pos, b, n); }
        else if (!strcmp(kind, "tiny")) { for (j = 0; j < n; j++) b[pos + j] = (unsigned char)("ab"[rnd() & 1]); }
        else if (!strcmp(kind, "bin") || !strncmp(kind, "off", 3)) { for (j = 0; j < n; j++) b[pos + j] = (unsigned char)rnd(); }
        else { while (j < n) { const char* w = words[rnd() % 16]; size_t l = strlen(w); if (rnd() % 11 == 0) { b[pos + j++] = (unsigned char)('a' + rnd() % 26); continue; } if (l > n - j) l = n - j; memcpy(b + pos + j, w, l); j += l; } }
        sz[i] = n; pos += n; }
    if (isSeg) {   /* T random tokens, token t of segL + (7t mod 5) bytes (so that the segments' savings differ); the stream is token 0, token 1, .. token T-1, each followed
                    * by segS fresh random bytes, and that at least R times over */
        size_t const unit = (size_t)segL + 2 + segS, stride = (size_t)segL + 4; size_t T = (pos > 64 ? pos - 64 : 0) / (unit * segR), p2 = 0, t = 0, q; unsigned char* toks; if (T < 1) T = 1;
        toks = (unsigned char*)malloc(T * stride); for (q = 0; q < T * stride; q++) toks[q] = (unsigned char)rnd();
        while (p2 < pos) { size_t l = segL + (7 * t) % 5; if (l > pos - p2) l = pos - p2; memcpy(b + p2, toks + t * stride, l); p2 += l; for (q = 0; q < segS && p2 < pos; q++) b[p2++] = (unsigned char)rnd(); if (++t == T) t = 0; }
        free(toks); }
    if (!strncmp(kind, "off", 3)) {   /* every sample but the last ones starts with bytes found exactly D bytes before the end of the buffer (= of the content offered to finalize) */
        size_t const D = (size_t)atoi(kind + 3); size_t p2 = 0; for (i = 0; i < nb; i++) { if (D <= pos && p2 + sz[i] + D + 64 <= pos && sz[i] >= 48) memcpy(b + p2, b + pos - D, 48); p2 += sz[i]; } }
    {   /* hand the trainers a buffer of EXACTLY the samples' total size: a read past the last sample hits the sanitizer's redzone */
        unsigned char* exact = (unsigned char*)malloc(pos ? pos : 1); memcpy(exact, b, pos); free(b); b = exact; }
    free(pool); *buf = b; *sizes = sz; *total = pos;
}
static void on_alarm(int sg) { (void)sg; { static const char m[] = "res=HANG\n"; if (write(1, m, sizeof m - 1) < 0) {} } _exit(3); }

static size_t run_algo(const char* algo, void* dict, size_t cap, const unsigned char* sb, const size_t* ss, unsigned nb, size_t total,
                       unsigned k, unsigned d, unsigned f, unsigned accel, unsigned steps, double split, unsigned shrink, unsigned regression, unsigned threads, unsigned dictID, int level, unsigned long long* contentHash) {
    ZDICT_params_t zp; memset(&zp, 0, sizeof zp); zp.dictID = dictID; zp.compressionLevel = level; *contentHash = 0;
    if (!strcmp(algo, "def")) return ZDICT_trainFromBuffer(dict, cap, sb, ss, nb);
    if (!strcmp(algo, "cover") || !strcmp(algo, "optcover")) { ZDICT_cover_params_t p; memset(&p, 0, sizeof p); p.k = k; p.d = d; p.steps = steps; p.nbThreads = threads; p.splitPoint = split; p.shrinkDict = shrink; p.shrinkDictMaxRegression = regression; p.zParams = zp;
        return !strcmp(algo, "cover") ? ZDICT_trainFromBuffer_cover(dict, cap, sb, ss, nb, p) : ZDICT_optimizeTrainFromBuffer_cover(dict, cap, sb, ss, nb, &p); }
    if (!strcmp(algo, "fastcover") || !strcmp(algo, "optfast")) { ZDICT_fastCover_params_t p; memset(&p, 0, sizeof p); p.k = k; p.d = d; p.f = f; p.accel = accel; p.steps = steps; p.nbThreads = threads; p.splitPoint = split; p.shrinkDict = shrink; p.shrinkDictMaxRegression = regression; p.zParams = zp;
        return !strcmp(algo, "fastcover") ? ZDICT_trainFromBuffer_fastCover(dict, cap, sb, ss, nb, p) : ZDICT_optimizeTrainFromBuffer_fastCover(dict, cap, sb, ss, nb, &p); }
    if (!strcmp(algo, "legacy")) { ZDICT_legacy_params_t p; memset(&p, 0, sizeof p); p.selectivityLevel = k % 12; p.zParams = zp; return ZDICT_trainFromBuffer_legacy(dict, cap, sb, ss, nb, p); }
    if (!strcmp(algo, "finalize")) { size_t cn = total < (size_t)k ? total : (size_t)k; *contentHash = XXH64(sb + (total - cn), cn, 0); return ZDICT_finalizeDictionary(dict, cap, sb + (total - cn), cn, sb, ss, nb, zp); }
    /* addent: content already at the END of the buffer, as the API requires */
    {   size_t cn = total < (size_t)k ? total : (size_t)k; if (cn > cap) cn = cap; memcpy((char*)dict + cap - cn, sb, cn); return ZDICT_addEntropyTablesFromBuffer(dict, cn, cap, sb, ss, nb); }
}

/* EXCLUDED: one shape of operation is answered without calling the library, because on the unchanged tree it kills the process (a defect of the library, reported;
 * not something this check may tolerate silently: the python side counts and lists every excluded operation in the evidence):
 * the optimisers (ZDICT_optimizeTrainFromBuffer_fastCover, also reached through ZDICT_trainFromBuffer which always splits 75/25, and
 * ZDICT_optimizeTrainFromBuffer_cover) with splitPoint < 1 check the TOTAL size of all samples against max(d,8) in FASTCOVER_ctx_init / COVER_ctx_init, but count d-mers on
 * the TRAINING part only: nbDmers = trainingSize - max(d,8) + 1.  A training part of exactly max(d,8)-1 bytes gives 0 d-mers and COVER_computeEpochs divides by zero
 * (SIGFPE, cover.c:719); a smaller one wraps the count around: fastCover then reads far past the sample buffer (FASTCOVER_selectSegment), cover asks malloc for 2^64-x bytes
 * (an allocation error in production, an abort under ASan).
 * Keyed to exactly that: an optimiser, effective split < 1, the early argument checks passed (capacity >= 256, >= 5 training samples, >= 1 test sample, total size >=
 * max(d,8)), and a training part below max(d,8) bytes for a d the search visits (fastCover: only d 6 / 8 ever reach a candidate).
 * Since the repair of the tree (fix 3d7351b) these operations RUN by default and must end in an error code; ZV_C18_EXCLUDE=1 restores the exclusion (to study a tree without the repair). */
static const char* excluded_shape(const char* algo, double split, unsigned k, unsigned d, unsigned f, unsigned accel, size_t cap, unsigned nb, const size_t* ss, size_t total) {
    int const isDef = !strcmp(algo, "def"), isFast = isDef || !strcmp(algo, "optfast"), isCover = !strcmp(algo, "optcover");
    double const sp = isDef ? 0.75 : (split <= 0.0 ? (isFast ? 0.75 : 1.0) : split); unsigned nbTrain, i, dv, kMinK; size_t trainSum = 0;
    if (!getenv("ZV_C18_EXCLUDE")) return NULL;      /* the defect is repaired in the tree (fix 3d7351b): the shape runs by default; ZV_C18_EXCLUDE=1 restores the exclusion */
    if (!isFast && !isCover) return NULL;
    if (isDef) { k = 0; d = 8; f = 20; accel = 1; }
    kMinK = k ? k : 50;
    if (!(sp < 1.0) || cap < 256 || kMinK < (d ? d : 8)) return NULL;                      /* refused by the argument checks, never reaches the context */
    if (isFast && (accel > 10 || (f ? f : 20) > 31)) return NULL;                          /* refused at once / no candidate passes the parameter check */
    nbTrain = (unsigned)((double)nb * sp); if (nbTrain < 5 || nb - nbTrain < 1) return NULL;
    for (i = 0; i < nbTrain; i++) trainSum += ss[i];
    if (total >= ((size_t)1 << 32) - 1) return NULL;
    for (dv = d ? d : 6; dv <= (d ? d : 8); dv += 2) { size_t const need = dv > 8 ? dv : 8; int const candidate = kMinK <= cap && (!isFast || dv == 6 || dv == 8);
        if (total < need) return NULL;                                                       /* srcSize_wrong */
        if (trainSum + 1 == need && candidate) return "optimiser-training-part-below-max-d-8-bytes";                 /* 0 d-mers: division by zero */
        if (trainSum + 1 < need && (isCover || candidate)) return "optimiser-training-part-below-max-d-8-bytes"; }   /* d-mer count wraps around */
    return NULL;
}

int main(void) {
    char* line; signal(SIGALRM, on_alarm); g_main = pthread_self();
    while ((line = zv_getline())) {
        char* op = strtok(line, " "); if (!op) continue;
        if (!strcmp(op, "train")) {
            char* algo = strtok(NULL, " "); size_t cap = (size_t)strtoull(strtok(NULL, " "), NULL, 10); unsigned k = (unsigned)atoi(strtok(NULL, " ")), d = (unsigned)atoi(strtok(NULL, " ")), f = (unsigned)atoi(strtok(NULL, " ")), accel = (unsigned)atoi(strtok(NULL, " ")), steps = (unsigned)atoi(strtok(NULL, " "));
            double split = atoi(strtok(NULL, " ")) / 100.0; char* const shrinkSpec = strtok(NULL, " "); unsigned shrink = (unsigned)atoi(shrinkSpec), regression = strchr(shrinkSpec, 'r') ? (unsigned)strtoul(strchr(shrinkSpec, 'r') + 1, NULL, 10) : 1, threads = (unsigned)atoi(strtok(NULL, " ")), dictID = (unsigned)strtoul(strtok(NULL, " "), NULL, 10); int level = atoi(strtok(NULL, " "));
            char* spec = strtok(NULL, " "); char kind[16]; unsigned nb; size_t ssz; unsigned long long seed; unsigned char* sb; size_t* ss; size_t total; unsigned char* dict; unsigned char* dict2; size_t r, r2 = 0; unsigned long long ch = 0, ch2;
            const char* det = "na"; char evcopy[1 << 16]; size_t grow, cands, tblPos, tblEntries;
            g_perturb = atoi(strtok(NULL, " ")); t_rng = (unsigned)strtoul(strtok(NULL, " "), NULL, 10) | 1u;
            sscanf(spec, "%15[^:]:%u:%zu:%llu", kind, &nb, &ssz, &seed);
            gen_samples(kind, nb, ssz, seed, &sb, &ss, &total);
            dict = (unsigned char*)malloc(cap ? cap : 1); dict2 = (unsigned char*)malloc(cap ? cap : 1); g_evlen = 0; g_ev[0] = 0;
            prefill(dict, cap, 0xA5, 1); prefill(dict2, cap, 0x3C, 7); zvt_fill_byte = 0x11; zvt_grow = 0; zvt_cands = 0;   /* stale bytes differ between the two runs */
            if (excluded_shape(algo, split, k, d, f, accel, cap, nb, ss, total)) { printf("res=excluded:%s\n", excluded_shape(algo, split, k, d, f, accel, cap, nb, ss, total)); fflush(stdout); free(sb); free(ss); free(dict); free(dict2); continue; }
            zvt_watch_legacy = !strcmp(algo, "legacy"); zvt_watch_nb = nb; zvt_watch_cap = cap; zvt_tbl_pos = 0; zvt_tbl_entries = 0;
            alarm(240);
            r = run_algo(algo, dict, cap, sb, ss, nb, total, k, d, f, accel, steps, split, shrink, regression, threads, dictID, level, &ch);
            memcpy(evcopy, g_ev, g_evlen + 1);
            grow = zvt_grow; cands = zvt_cands; tblPos = zvt_tbl_pos; tblEntries = zvt_tbl_entries;
            if (threads <= 1 && !ZVT_UNFILLED) { void* shift = malloc(1000 + (size_t)(seed % 5000)); zvt_fill_byte = 0xEE; r2 = run_algo(algo, dict2, cap, sb, ss, nb, total, k, d, f, accel, steps, split, shrink, regression, threads, dictID, level, &ch2); free(shift);
                det = (ZDICT_isError(r) && ZDICT_isError(r2)) || (r == r2 && (ZDICT_isError(r) || !memcmp(dict, dict2, r))) ? "same" : "DIFF"; }
            alarm(0);
            if (ZDICT_isError(r)) printf("res=err:%s loadC=- loadD=- ids=0,0,0,0 hsize=0 rt=0/0 det=%s content=0 ev=%s dict=-\n", zv_errclass(r), det, evcopy[0] ? evcopy : "-");
            else if (r == 0) printf("res=zero loadC=- loadD=- ids=0,0,0,0 hsize=0 rt=0/0 det=%s content=0 ev=%s dict=-\n", det, evcopy[0] ? evcopy : "-");
            else if (r > cap) printf("res=OVERFLOW:%zu loadC=- loadD=- ids=0,0,0,0 hsize=0 rt=0/0 det=%s content=0 ev=- dict=-\n", r, det);
            else { ZSTD_CDict* cd = ZSTD_createCDict(dict, r, 3); ZSTD_DDict* dd = ZSTD_createDDict(dict, r); unsigned ok = 0, tried = 0, i; size_t pos = 0; size_t const hs = ZDICT_getDictHeaderSize(dict, r);
                if (cd && dd) { ZSTD_CCtx* c = ZSTD_createCCtx(); ZSTD_DCtx* dc = ZSTD_createDCtx(); unsigned char* o = (unsigned char*)malloc(ZSTD_compressBound(2 * ssz + 64) + 64); unsigned char* back = (unsigned char*)malloc(2 * ssz + 64);
                    for (i = 0; i < nb && tried < 60; i++) { size_t cs = ZSTD_compress_usingCDict(c, o, ZSTD_compressBound(2 * ssz + 64) + 64, sb + pos, ss[i], cd); tried++;
                        if (!ZSTD_isError(cs)) { size_t dr = ZSTD_decompress_usingDDict(dc, back, 2 * ssz + 64, o, cs, dd); if (!ZSTD_isError(dr) && dr == ss[i] && !memcmp(back, sb + pos, ss[i])) ok++; } pos += ss[i]; }
                    ZSTD_freeCCtx(c); ZSTD_freeDCtx(dc); free(o); free(back); }
                printf("res=ok:%zu loadC=%s loadD=%s ids=%u,%u,%u,%u hsize=%zu rt=%u/%u det=%s content=%llu ev=%s dict=", r, cd ? "ok" : "null", dd ? "ok" : "null", ZSTD_getDictID_fromDict(dict, r), ZDICT_getDictID(dict, r),
                       cd ? ZSTD_getDictID_fromCDict(cd) : 0, dd ? ZSTD_getDictID_fromDDict(dd) : 0, ZDICT_isError(hs) ? 0 : hs, ok, tried, det, ch, evcopy[0] ? evcopy : "-");
                if (r <= 8000) zv_puthex(dict, r); else printf("-"); printf(" grow=%zu cands=%zu", grow, cands); if (tblEntries) printf(" tbl=%zu/%zu", tblPos, tblEntries); printf("\n");
                ZSTD_freeCDict(cd); ZSTD_freeDDict(dd); }
            free(sb); free(ss); free(dict); free(dict2);
        } else if (!strcmp(op, "dins")) {
            unsigned const maxSize = (unsigned)strtoul(strtok(NULL, " "), NULL, 10); char* list = strtok(NULL, " "); unsigned n = 0, capn = 16; unsigned* sv = (unsigned*)malloc(capn * sizeof *sv); char* sp; char* t;
            if (list && strcmp(list, "-")) for (t = strtok_r(list, ",", &sp); t; t = strtok_r(NULL, ",", &sp)) { if (n == capn) { capn *= 2; sv = (unsigned*)realloc(sv, capn * sizeof *sv); } sv[n++] = (unsigned)strtoul(t, NULL, 10); }
            if (maxSize < 2) printf("undefined\n");   /* the trainer's tables have at least DICTLISTSIZE_DEFAULT slots; a one-slot table is not a defined input */
            else zvt_dins(maxSize, sv, n);
            free(sv);
        } else if (!strcmp(op, "epochs")) {
            unsigned cap = (unsigned)strtoul(strtok(NULL, " "), NULL, 10), n = (unsigned)strtoul(strtok(NULL, " "), NULL, 10), k = (unsigned)strtoul(strtok(NULL, " "), NULL, 10), passes = (unsigned)strtoul(strtok(NULL, " "), NULL, 10);
            if (n == 0 || k == 0 || passes == 0) printf("undefined\n");   /* the C function divides by zero there: not called */
            else { COVER_epoch_info_t const e = COVER_computeEpochs(cap, n, k, passes); printf("%u %u\n", e.num, e.size); }
        } else if (!strcmp(op, "ctx")) {
            char* which = strtok(NULL, " "); unsigned d = (unsigned)atoi(strtok(NULL, " ")); double split = atoi(strtok(NULL, " ")) / 100.0; unsigned f = (unsigned)atoi(strtok(NULL, " "));
            char* spec = strtok(NULL, " "); char kind[16]; unsigned nb, i, nbTrain; size_t ssz, total, trainSum = 0, n = 0, r, need = d > 8 ? d : 8; unsigned long long seed; unsigned char* sb; size_t* ss; int const isCover = !strcmp(which, "cover");
            sscanf(spec, "%15[^:]:%u:%zu:%llu", kind, &nb, &ssz, &seed);
            gen_samples(kind, nb, ssz, seed, &sb, &ss, &total);
            nbTrain = split < 1.0 ? (unsigned)((double)nb * split) : nb; for (i = 0; i < nbTrain; i++) trainSum += ss[i];
            /* EXCLUDED (same defect as excluded_shape above, at function level): COVER_ctx_init with a training part below max(d,8) - 1 bytes asks malloc for 2^64-x bytes (abort under ASan) */
            if (isCover && getenv("ZV_C18_EXCLUDE") && split < 1.0 && total >= need && total < 0xFFFFFFFFu && nbTrain >= 5 && nb - nbTrain >= 1 && trainSum + 1 < need)
                printf("ctx res=excluded n=0 total=%zu train=%zu nbTrain=%u nbTest=%u\n", total, trainSum, nbTrain, split < 1.0 ? nb - nbTrain : nb);
            else { r = isCover ? zvt_cover_ctx(sb, ss, nb, d, split, &n) : zvt_fast_ctx(sb, ss, nb, d, split, f, &n);
                if (ZDICT_isError(r)) printf("ctx res=err:%s n=0 total=%zu train=%zu nbTrain=%u nbTest=%u\n", zv_errclass(r), total, trainSum, nbTrain, split < 1.0 ? nb - nbTrain : nb);
                else printf("ctx res=ok n=%zu total=%zu train=%zu nbTrain=%u nbTest=%u\n", n, total, trainSum, nbTrain, split < 1.0 ? nb - nbTrain : nb); }
            free(sb); free(ss);
        } else printf("bad-op\n");
        fflush(stdout);
    }
    return 0;
}
