/* zvh_train — dictionary training contract (C18).
 *   train <algo def|cover|fastcover|optcover|optfast|legacy|finalize|addent> <capacity> <k> <d> <f> <accel> <steps> <split%> <shrink> <threads> <dictID> <level>
 *         <kind text|same|tiny|empty|small|mixed|bin>:<nbSamples>:<sampleSize>:<seed> <perturb 0|1> <pseed>
 *   -> res=<ok:SIZE|zero|err:CLASS> loadC=<ok|null|-> loadD=<ok|null|-> ids=<fromDict,ZDICT,fromCDict,fromDDict> hsize=<header bytes> rt=<ok>/<tried> det=<same|DIFF|na>
 *      content=<xxh64 of the content offered (finalize)> ev=<best-holder events ; separated> dict=<hex if <= 8000 bytes else ->
 * The dictionary must fit the capacity, load on both sides, carry one non-zero ID everywhere, and every sample must round-trip with it. */
#include "zvh_common.h"
#include <pthread.h>
#include <time.h>
#include <signal.h>
#include <unistd.h>
#define ZDICT_STATIC_LINKING_ONLY
#include "zdict.h"

static pthread_mutex_t g_log = PTHREAD_MUTEX_INITIALIZER; static char g_ev[1 << 16]; static size_t g_evlen;
static pthread_t g_main; static int g_perturb; static __thread unsigned t_rng;
void zvt_event(const char* fmt, unsigned long long a, unsigned long long b) { char tmp[64]; int n = snprintf(tmp, sizeof tmp, fmt, a, b); pthread_mutex_lock(&g_log);
    if (g_evlen + (size_t)n + 1 < sizeof g_ev) { memcpy(g_ev + g_evlen, tmp, (size_t)n); g_evlen += (size_t)n; if (g_ev[g_evlen - 1] == '\n') g_ev[g_evlen - 1] = ';'; g_ev[g_evlen] = 0; } pthread_mutex_unlock(&g_log); }
int zvt_is_dispatcher(void) { return pthread_equal(pthread_self(), g_main); }
void zvt_perturb(void) { if (g_perturb) { struct timespec ts; if (!t_rng) t_rng = (unsigned)(size_t)pthread_self() * 2654435761u + 12345u; t_rng = t_rng * 1103515245u + 12345u; ts.tv_sec = 0; ts.tv_nsec = (long)((t_rng >> 16) & 1023) * 1000; if ((t_rng >> 27) & 1) nanosleep(&ts, NULL); } }

static unsigned long long rs;
static unsigned rnd(void) { rs = rs * 6364136223846793005ULL + 1442695040888963407ULL; return (unsigned)(rs >> 33); }
static void gen_samples(const char* kind, unsigned nb, size_t ssz, unsigned long long seed, unsigned char** buf, size_t** sizes, size_t* total) {
    size_t cap = (size_t)nb * (2 * ssz + 80) + 64, pos = 0; unsigned i; unsigned char* b = (unsigned char*)malloc(cap); size_t* sz = (size_t*)malloc((nb ? nb : 1) * sizeof *sz);
    static const char* words[] = { "alpha", "beta", "gamma", "delta", "{\"id\":", ",\"name\":\"", "\"}", "http://", ".com/", "user", "2026-09-", "error", "value=", "\n", " ", "0123" };
    rs = seed;
    for (i = 0; i < nb; i++) { size_t n = ssz, j = 0;
        if (!strcmp(kind, "empty")) n = 0; else if (!strcmp(kind, "small")) n = rnd() % 8; else if (!strcmp(kind, "mixed")) n = (rnd() % 5 == 0) ? 0 : (rnd() % 4 == 0 ? rnd() % 9 : 1 + rnd() % (unsigned)(2 * ssz + 1));
        else if (strcmp(kind, "same")) n = ssz / 2 + rnd() % (unsigned)(ssz + 1);
        if (!strcmp(kind, "same")) { if (i == 0) { while (j < n) { const char* w = words[rnd() % 16]; size_t l = strlen(w); if (l > n - j) l = n - j; memcpy(b + pos + j, w, l); j += l; } } else memcpy(b + pos, b, n); }
        else if (!strcmp(kind, "tiny")) { for (j = 0; j < n; j++) b[pos + j] = (unsigned char)("ab"[rnd() & 1]); }
        else if (!strcmp(kind, "bin") || !strncmp(kind, "off", 3)) { for (j = 0; j < n; j++) b[pos + j] = (unsigned char)rnd(); }
        else { while (j < n) { const char* w = words[rnd() % 16]; size_t l = strlen(w); if (rnd() % 11 == 0) { b[pos + j++] = (unsigned char)('a' + rnd() % 26); continue; } if (l > n - j) l = n - j; memcpy(b + pos + j, w, l); j += l; } }
        sz[i] = n; pos += n; }
    if (!strncmp(kind, "off", 3)) {   /* every sample but the last ones starts with bytes found exactly D bytes before the end of the buffer (= of the content offered to finalize) */
        size_t const D = (size_t)atoi(kind + 3); size_t p2 = 0; for (i = 0; i < nb; i++) { if (D <= pos && p2 + sz[i] + D + 64 <= pos && sz[i] >= 48) memcpy(b + p2, b + pos - D, 48); p2 += sz[i]; } }
    {   /* hand the trainers a buffer of EXACTLY the samples' total size: a read past the last sample hits the sanitizer's redzone */
        unsigned char* exact = (unsigned char*)malloc(pos ? pos : 1); memcpy(exact, b, pos); free(b); b = exact; }
    *buf = b; *sizes = sz; *total = pos;
}
static void on_alarm(int sg) { (void)sg; { static const char m[] = "res=HANG\n"; if (write(1, m, sizeof m - 1) < 0) {} } _exit(3); }

static size_t run_algo(const char* algo, void* dict, size_t cap, const unsigned char* sb, const size_t* ss, unsigned nb, size_t total,
                       unsigned k, unsigned d, unsigned f, unsigned accel, unsigned steps, double split, unsigned shrink, unsigned threads, unsigned dictID, int level, unsigned long long* contentHash) {
    ZDICT_params_t zp; memset(&zp, 0, sizeof zp); zp.dictID = dictID; zp.compressionLevel = level; *contentHash = 0;
    if (!strcmp(algo, "def")) return ZDICT_trainFromBuffer(dict, cap, sb, ss, nb);
    if (!strcmp(algo, "cover") || !strcmp(algo, "optcover")) { ZDICT_cover_params_t p; memset(&p, 0, sizeof p); p.k = k; p.d = d; p.steps = steps; p.nbThreads = threads; p.splitPoint = split; p.shrinkDict = shrink; p.shrinkDictMaxRegression = 1; p.zParams = zp;
        return !strcmp(algo, "cover") ? ZDICT_trainFromBuffer_cover(dict, cap, sb, ss, nb, p) : ZDICT_optimizeTrainFromBuffer_cover(dict, cap, sb, ss, nb, &p); }
    if (!strcmp(algo, "fastcover") || !strcmp(algo, "optfast")) { ZDICT_fastCover_params_t p; memset(&p, 0, sizeof p); p.k = k; p.d = d; p.f = f; p.accel = accel; p.steps = steps; p.nbThreads = threads; p.splitPoint = split; p.shrinkDict = shrink; p.shrinkDictMaxRegression = 1; p.zParams = zp;
        return !strcmp(algo, "fastcover") ? ZDICT_trainFromBuffer_fastCover(dict, cap, sb, ss, nb, p) : ZDICT_optimizeTrainFromBuffer_fastCover(dict, cap, sb, ss, nb, &p); }
    if (!strcmp(algo, "legacy")) { ZDICT_legacy_params_t p; memset(&p, 0, sizeof p); p.selectivityLevel = k % 12; p.zParams = zp; return ZDICT_trainFromBuffer_legacy(dict, cap, sb, ss, nb, p); }
    if (!strcmp(algo, "finalize")) { size_t cn = total < (size_t)k ? total : (size_t)k; *contentHash = XXH64(sb + (total - cn), cn, 0); return ZDICT_finalizeDictionary(dict, cap, sb + (total - cn), cn, sb, ss, nb, zp); }
    /* addent: content already at the END of the buffer, as the API requires */
    {   size_t cn = total < (size_t)k ? total : (size_t)k; if (cn > cap) cn = cap; memcpy((char*)dict + cap - cn, sb, cn); return ZDICT_addEntropyTablesFromBuffer(dict, cn, cap, sb, ss, nb); }
}

int main(void) {
    char* line; signal(SIGALRM, on_alarm); g_main = pthread_self();
    while ((line = zv_getline())) {
        char* op = strtok(line, " "); if (!op) continue;
        if (!strcmp(op, "train")) {
            char* algo = strtok(NULL, " "); size_t cap = (size_t)strtoull(strtok(NULL, " "), NULL, 10); unsigned k = (unsigned)atoi(strtok(NULL, " ")), d = (unsigned)atoi(strtok(NULL, " ")), f = (unsigned)atoi(strtok(NULL, " ")), accel = (unsigned)atoi(strtok(NULL, " ")), steps = (unsigned)atoi(strtok(NULL, " "));
            double split = atoi(strtok(NULL, " ")) / 100.0; unsigned shrink = (unsigned)atoi(strtok(NULL, " ")), threads = (unsigned)atoi(strtok(NULL, " ")), dictID = (unsigned)strtoul(strtok(NULL, " "), NULL, 10); int level = atoi(strtok(NULL, " "));
            char* spec = strtok(NULL, " "); char kind[16]; unsigned nb; size_t ssz; unsigned long long seed; unsigned char* sb; size_t* ss; size_t total; unsigned char* dict; unsigned char* dict2; size_t r, r2 = 0; unsigned long long ch = 0, ch2;
            const char* det = "na"; char evcopy[1 << 16];
            g_perturb = atoi(strtok(NULL, " ")); t_rng = (unsigned)strtoul(strtok(NULL, " "), NULL, 10) | 1u;
            sscanf(spec, "%15[^:]:%u:%zu:%llu", kind, &nb, &ssz, &seed);
            gen_samples(kind, nb, ssz, seed, &sb, &ss, &total);
            dict = (unsigned char*)malloc(cap ? cap : 1); dict2 = (unsigned char*)malloc(cap ? cap : 1); g_evlen = 0; g_ev[0] = 0;
            alarm(240);
            r = run_algo(algo, dict, cap, sb, ss, nb, total, k, d, f, accel, steps, split, shrink, threads, dictID, level, &ch);
            memcpy(evcopy, g_ev, g_evlen + 1);
            if (threads <= 1) { void* shift = malloc(1000 + (size_t)(seed % 5000)); r2 = run_algo(algo, dict2, cap, sb, ss, nb, total, k, d, f, accel, steps, split, shrink, threads, dictID, level, &ch2); free(shift);
                det = (ZDICT_isError(r) && ZDICT_isError(r2)) || (r == r2 && (ZDICT_isError(r) || !memcmp(dict, dict2, r))) ? "same" : "DIFF"; }
            alarm(0);
            if (ZDICT_isError(r)) printf("res=err:%s loadC=- loadD=- ids=0,0,0,0 hsize=0 rt=0/0 det=%s content=0 ev=%s dict=-\n", zv_errclass(r), det, evcopy[0] ? evcopy : "-");
            else if (r == 0) printf("res=zero loadC=- loadD=- ids=0,0,0,0 hsize=0 rt=0/0 det=%s content=0 ev=%s dict=-\n", det, evcopy[0] ? evcopy : "-");
            else if (r > cap) printf("res=OVERFLOW:%zu loadC=- loadD=- ids=0,0,0,0 hsize=0 rt=0/0 det=%s content=0 ev=- dict=-\n", r, det);
            else { ZSTD_CDict* cd = ZSTD_createCDict(dict, r, 3); ZSTD_DDict* dd = ZSTD_createDDict(dict, r); unsigned ok = 0, tried = 0, i; size_t pos = 0; size_t const hs = ZDICT_getDictHeaderSize(dict, r);
                if (cd && dd) { ZSTD_CCtx* c = ZSTD_createCCtx(); ZSTD_DCtx* dc = ZSTD_createDCtx(); unsigned char* o = (unsigned char*)malloc(ZSTD_compressBound(2 * ssz + 64) + 64); unsigned char* back = (unsigned char*)malloc(2 * ssz + 64);
                    for (i = 0; i < nb && tried < 60; i++) { size_t cs = ZSTD_compress_usingCDict(c, o, ZSTD_compressBound(2 * ssz + 64) + 64, sb + pos, ss[i], cd); tried++;
                        if (!ZSTD_isError(cs)) { size_t dr = ZSTD_decompress_usingDDict(dc, back, 2 * ssz + 64, o, cs, dd); if (!ZSTD_isError(dr) && dr == ss[i] && !memcmp(back, sb + pos, ss[i])) ok++; } pos += ss[i]; }
                    ZSTD_freeCCtx(c); ZSTD_freeDCtx(dc); free(o); free(back); }
                printf("res=ok:%zu loadC=%s loadD=%s ids=%u,%u,%u,%u hsize=%zu rt=%u/%u det=%s content=%llu ev=%s dict=", r, cd ? "ok" : "null", dd ? "ok" : "null", ZSTD_getDictID_fromDict(dict, r), ZDICT_getDictID(dict, r),
                       cd ? ZSTD_getDictID_fromCDict(cd) : 0, dd ? ZSTD_getDictID_fromDDict(dd) : 0, ZDICT_isError(hs) ? 0 : hs, ok, tried, det, ch, evcopy[0] ? evcopy : "-");
                if (r <= 8000) zv_puthex(dict, r); else printf("-"); printf("\n");
                ZSTD_freeCDict(cd); ZSTD_freeDDict(dd); }
            free(sb); free(ss); free(dict); free(dict2);
        } else printf("bad-op\n");
        fflush(stdout);
    }
    return 0;
}
