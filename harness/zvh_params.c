/* zvh_params — line-protocol harness for C16 (parameter interface).
 * ops (one per line):
 *   new c|d|p            fresh CCtx / DCtx / CCtx_params object
 *   set <id> <v>         set parameter
 *   start | end          begin a frame (streamStage leaves init) / finish it
 *   reset 1|2|3          session_only / parameters / session_and_parameters
 *   dict                 load a (raw content) dictionary
 *   frame <n>            compress n bytes with compressStream2(e_end) / decode, print header facts
 *   simple <n> <level>   ZSTD_compressCCtx (simple API) and print header facts
 *   new s|t              CCtx / DCtx living in caller-provided memory (ZSTD_initStaticCCtx / ZSTD_initStaticDCtx); every other op as for c / d
 *   pset <id> <v>        (kind c/s) set a parameter of the separate ZSTD_CCtx_params object
 *   papply               (kind c/s) ZSTD_CCtx_setParametersUsingCCtxParams(cctx, that object)
 *   applied <n>          ZSTD_compress2 of n bytes with the parameters in force; status carries the compression parameters it applied
 *   derive <entry> <level> <src> <dict>   compression parameters an entry point taking a RAW level derives (independent context), entry =
 *        0 ZSTD_getCParams  1 ZSTD_getParams  2 ZSTD_compressCCtx  3 ZSTD_compress_usingDict  4 ZSTD_compressBegin  5 ZSTD_compressBegin_usingDict
 *        6 ZSTD_createCDict  7 ZSTD_createCDict_byReference  8 ZSTD_CCtxParams_init + ZSTD_getCParamsFromCCtxParams  9 ZSTD_initCStream + first flush
 *        10 ZSTD_CCtx_setParameter(compressionLevel) + ZSTD_compress2
 *        -> "ok cp=<wlog,clog,hlog,slog,mml,tlen,strat> chk=<ZSTD_checkCParams refuses> [acc=<struct setter verdict>] |"
 *   seqframe <n> <cap>   (kind c/s) a WHOLE frame of n (<= 1000) bytes through ZSTD_compressSequences (one block of literals, in the sequence format in
 *                        force); cap = 1: a destination of 1 byte (the call fails after it began the frame: the context stays mid-frame, like ZSTD_compress2)
 *   sstart <n>           (kind c/s) n more bytes offered with ZSTD_e_continue; with ZSTD_c_stableInBuffer in force when the frame was opened this is the
 *                        DEFERRED start (input reported consumed, compression not begun); the harness honours the stable-input contract for the whole
 *                        frame (same buffer, only grown; start / end / frame continue it)
 *   pledge | prefix | cdict   (kind c/s) ZSTD_CCtx_setPledgedSrcSize(unknown) / ZSTD_CCtx_refPrefix(raw content) / ZSTD_CCtx_refCDict(NULL): init stage only
 * after every op one line:  <status> | v0 v1 v2 ...   (read-back of ALL parameters, '?' when get fails) */
#include <stdio.h>
#include <stdlib.h>
#include <string.h>
#define ZSTD_DISABLE_DEPRECATE_WARNINGS
#include "zstd.h"
#include "zstd_errors.h"
#include "zstd_compress_internal.h"   /* appliedParams, ZSTD_getCParamsFromCCtxParams, ZSTD_getCParamsFromCDict (observation only) */
#include "gen_params.h"

static const struct { const char* name; int id; } cps[] = { CP_LIST }, dps[] = { DP_LIST };
#define NC (sizeof(cps)/sizeof(cps[0]))
#define ND (sizeof(dps)/sizeof(dps[0]))

static const char* cls(size_t r) {
    if (!ZSTD_isError(r)) return "ok";
    switch (ZSTD_getErrorCode(r)) {
        case ZSTD_error_parameter_outOfBound: return "err:bound";
        case ZSTD_error_stage_wrong: return "err:stage";
        case ZSTD_error_parameter_unsupported: return "err:unsupported";
        case ZSTD_error_checksum_wrong: return "err:checksum";
        case ZSTD_error_frameParameter_windowTooLarge: return "err:window";
        default: fprintf(stderr, "other: %s\n", ZSTD_getErrorName(r)); return "err:other";
    }
}

static ZSTD_CCtx* cctx; static ZSTD_DCtx* dctx; static ZSTD_CCtx_params* cpar; static char kind = 'c';
static int dstarted;
/* contexts in caller-provided memory */
#define SBUF_C ((size_t)3 << 29)   /* virtual only: large enough for a level-22 streaming session */
#define SBUF_D ((size_t)8 << 20)
static void *sbufC, *sbufD; static int cstatic, dstatic;
static unsigned char bsrc[1 << 20], bdst[(1 << 20) + (1 << 13)], bdict[1 << 18];

static void cpstr(char* out, const char* tag, ZSTD_compressionParameters c) {
    sprintf(out, "%s%u,%u,%u,%u,%u,%u,%u", tag, c.windowLog, c.chainLog, c.hashLog, c.searchLog, c.minMatch, c.targetLength, (unsigned)c.strategy);
}

static void derive(const char* line) {
    static ZSTD_CCtx* dc; int entry = -1; long level = 0; unsigned long long sz = 0, dsz = 0; size_t r = 0, acc = 0; int have = 0;
    ZSTD_compressionParameters cp; char st[256], cs[128];
    memset(&cp, 0, sizeof cp);
    if (sscanf(line, "%*s %d %ld %llu %llu", &entry, &level, &sz, &dsz) != 4) { printf("bad-op |\n"); return; }
    if (!dc) dc = ZSTD_createCCtx();
    ZSTD_CCtx_reset(dc, ZSTD_reset_session_and_parameters);
    if (entry >= 2 && entry != 8 && (sz > sizeof bsrc || dsz > sizeof bdict)) { printf("bad-op |\n"); return; }
    switch (entry) {
    case 0: cp = ZSTD_getCParams((int)level, sz, (size_t)dsz); acc = ZSTD_CCtx_setCParams(dc, cp); have = 1; break;
    case 1: { ZSTD_parameters p = ZSTD_getParams((int)level, sz, (size_t)dsz); cp = p.cParams; acc = ZSTD_CCtx_setParams(dc, p); have = 1;
              if (p.fParams.contentSizeFlag != 1 || p.fParams.checksumFlag != 0 || p.fParams.noDictIDFlag != 0) { printf("err:fparams |\n"); return; } break; }
    case 2: r = ZSTD_compressCCtx(dc, bdst, sizeof bdst, bsrc, (size_t)sz, (int)level); break;
    case 3: r = ZSTD_compress_usingDict(dc, bdst, sizeof bdst, bsrc, (size_t)sz, dsz ? bdict : NULL, (size_t)dsz, (int)level); break;
    case 4: r = ZSTD_compressBegin(dc, (int)level); break;
    case 5: r = ZSTD_compressBegin_usingDict(dc, bdict, (size_t)dsz, (int)level); break;
    case 6: case 7: { ZSTD_CDict* cd = entry == 6 ? ZSTD_createCDict(bdict, (size_t)dsz, (int)level) : ZSTD_createCDict_byReference(bdict, (size_t)dsz, (int)level);
              if (!cd) { printf("err:null |\n"); return; } cp = ZSTD_getCParamsFromCDict(cd); have = 1; ZSTD_freeCDict(cd); break; }
    case 8: { ZSTD_CCtx_params* p = ZSTD_createCCtxParams(); ZSTD_CCtxParams_init(p, (int)level);
              cp = ZSTD_getCParamsFromCCtxParams(p, sz ? sz : ZSTD_CONTENTSIZE_UNKNOWN, (size_t)dsz, ZSTD_cpm_noAttachDict); have = 1; ZSTD_freeCCtxParams(p); break; }
    case 9: r = ZSTD_initCStream(dc, (int)level);
            if (!ZSTD_isError(r)) { ZSTD_inBuffer in = { bsrc, 100, 0 }; ZSTD_outBuffer out = { bdst, sizeof bdst, 0 }; r = ZSTD_compressStream2(dc, &out, &in, ZSTD_e_flush); } break;
    case 10: r = ZSTD_CCtx_setParameter(dc, ZSTD_c_compressionLevel, (int)level);
            if (!ZSTD_isError(r)) r = ZSTD_compress2(dc, bdst, sizeof bdst, bsrc, (size_t)sz); break;
    default: printf("bad-op |\n"); return;
    }
    if (ZSTD_isError(r)) { printf("%s |\n", cls(r)); return; }
    if (!have) cp = dc->appliedParams.cParams;
    cpstr(cs, "cp=", cp);
    sprintf(st, "ok %s chk=%d", cs, (int)ZSTD_isError(ZSTD_checkCParams(cp)));
    if (entry <= 1) { strcat(st, " acc="); strcat(st, cls(acc)); }
    printf("%s |\n", st);
}
static unsigned char src[1 << 18], dst[(1 << 18) + (1 << 12)], dictbuf[4096];

/* the caller's side of a streaming compression frame: whether a frame is open (input offered, frame neither completed nor dropped by a session
 * reset), and - decided when the frame is opened, from the parameter read back - whether it is a stable-input frame: then every call of the frame
 * passes the SAME ZSTD_inBuffer, its size only growing and its pos only moved by the library (zstd.h, ZSTD_c_stableInBuffer) */
static int cs_open, cs_stable, cs_clamped; static ZSTD_inBuffer sin;
static ZSTD_inBuffer* cin(size_t n) {
    static ZSTD_inBuffer tmp;
    if (!cs_open) { int v = 0; ZSTD_CCtx_getParameter(cctx, ZSTD_c_stableInBuffer, &v); cs_stable = (v == 1); sin.src = src; sin.size = sin.pos = 0; cs_open = 1; }
    if (cs_stable) { if (sin.size + n > sizeof src) { n = sizeof src - sin.size; cs_clamped = 1; } sin.size += n; return &sin; }
    if (n > sizeof src) { n = sizeof src; cs_clamped = 1; }
    tmp.src = src; tmp.size = n; tmp.pos = 0; return &tmp;
}

static void dump(const char* status) {
    size_t i; printf("%s |", status);
    if (kind == 'd') for (i = 0; i < ND; i++) { int v; size_t r = ZSTD_DCtx_getParameter(dctx, (ZSTD_dParameter)dps[i].id, &v); if (ZSTD_isError(r)) printf(" ?"); else printf(" %d", v); }
    else for (i = 0; i < NC; i++) { int v; size_t r = (kind == 'c') ? ZSTD_CCtx_getParameter(cctx, (ZSTD_cParameter)cps[i].id, &v)
                                                                  : ZSTD_CCtxParams_getParameter(cpar, (ZSTD_cParameter)cps[i].id, &v);
        if (ZSTD_isError(r)) printf(" ?"); else printf(" %d", v); }
    printf("\n");
}

static void header_facts(const void* f, size_t fsz, int fmt, char* out) {
    ZSTD_frameHeader h; size_t r = ZSTD_getFrameHeader_advanced(&h, f, fsz, (ZSTD_format_e)fmt);
    if (r != 0) { sprintf(out, "hdr-unreadable"); return; }
    sprintf(out, "fcs=%d checksum=%d dictid=%d", h.frameContentSize != ZSTD_CONTENTSIZE_UNKNOWN, (int)h.checksumFlag, h.dictID != 0);
}

int main(void) {
    char line[256]; size_t i;
    for (i = 0; i < sizeof(src); i++) src[i] = (unsigned char)((i * 7) ^ (i >> 5));
    for (i = 0; i < sizeof(dictbuf); i++) dictbuf[i] = (unsigned char)(i * 13);
    for (i = 0; i < sizeof(bsrc); i++) bsrc[i] = (unsigned char)((i * 11) ^ (i >> 7) ^ ((i >> 13) * 5));
    for (i = 0; i < sizeof(bdict); i++) bdict[i] = (unsigned char)((i * 3) ^ (i >> 6));
    cctx = ZSTD_createCCtx(); dctx = ZSTD_createDCtx(); cpar = ZSTD_createCCtxParams();
    while (fgets(line, sizeof line, stdin)) {
        char a[32] = {0}; long x = 0, y = 0; int n = sscanf(line, "%31s %ld %ld", a, &x, &y);
        if (n < 1) continue;
        if (!strcmp(a, "new")) {
            char k = 'c'; sscanf(line, "%*s %c", &k);
            if (!cstatic) ZSTD_freeCCtx(cctx);
            if (!dstatic) ZSTD_freeDCtx(dctx);
            ZSTD_freeCCtxParams(cpar);
            cstatic = (k == 's'); dstatic = (k == 't'); kind = cstatic ? 'c' : dstatic ? 'd' : k;
            if (cstatic && !sbufC) sbufC = malloc(SBUF_C);
            if (dstatic && !sbufD) sbufD = malloc(SBUF_D);
            cctx = cstatic ? ZSTD_initStaticCCtx(sbufC, SBUF_C) : ZSTD_createCCtx();
            dctx = dstatic ? ZSTD_initStaticDCtx(sbufD, SBUF_D) : ZSTD_createDCtx();
            cpar = ZSTD_createCCtxParams();
            if (!cctx || !dctx) { printf("err:null |\n"); fflush(stdout); return 3; }
            dstarted = 0; cs_open = 0; cs_clamped = 0;
            dump("ok");
        } else if (!strcmp(a, "set")) {
            size_t r = kind == 'c' ? ZSTD_CCtx_setParameter(cctx, (ZSTD_cParameter)x, (int)y)
                     : kind == 'd' ? ZSTD_DCtx_setParameter(dctx, (ZSTD_dParameter)x, (int)y)
                                   : ZSTD_CCtxParams_setParameter(cpar, (ZSTD_cParameter)x, (int)y);
            dump(cls(r));
        } else if ((!strcmp(a, "setcparams") || !strcmp(a, "setfparams") || !strcmp(a, "setparams")) && kind == 'c') {
            /* struct-level setters: setcparams <wl cl hl sl mm tl strat> | setfparams <cs ck nodict> | setparams <7 cparams> <3 fparams> */
            long v[10] = {0}; int k = 0; char* t = strtok(line, " \n"); size_t r;
            while ((t = strtok(NULL, " \n")) && k < 10) v[k++] = atol(t);
            if (!strcmp(a, "setfparams")) { ZSTD_frameParameters fp; fp.contentSizeFlag = (int)v[0]; fp.checksumFlag = (int)v[1]; fp.noDictIDFlag = (int)v[2]; r = ZSTD_CCtx_setFParams(cctx, fp); }
            else { ZSTD_parameters p; p.cParams.windowLog = (unsigned)v[0]; p.cParams.chainLog = (unsigned)v[1]; p.cParams.hashLog = (unsigned)v[2]; p.cParams.searchLog = (unsigned)v[3];
                   p.cParams.minMatch = (unsigned)v[4]; p.cParams.targetLength = (unsigned)v[5]; p.cParams.strategy = (ZSTD_strategy)v[6];
                   p.fParams.contentSizeFlag = (int)v[7]; p.fParams.checksumFlag = (int)v[8]; p.fParams.noDictIDFlag = (int)v[9];
                   r = !strcmp(a, "setcparams") ? ZSTD_CCtx_setCParams(cctx, p.cParams) : ZSTD_CCtx_setParams(cctx, p); }
            dump(cls(r));
        } else if (!strcmp(a, "dframe") && kind == 'd') {
            /* dframe <damaged 0|1> <mode 0 stream | 1 one-shot> : decode a checksummed frame (window 1 KiB, 5000 bytes; in the format the context is set to)
             * with the parameters in force; damaged = stored checksum altered */
            static unsigned char fr[2][8192]; static size_t fsz[2]; static int built = 0; int fmt = 0; size_t r = 0; unsigned char f[8192]; size_t n;
            if (!built) { int k; for (k = 0; k < 2; k++) { ZSTD_CCtx* c = ZSTD_createCCtx(); ZSTD_CCtx_setParameter(c, ZSTD_c_checksumFlag, 1); ZSTD_CCtx_setParameter(c, ZSTD_c_windowLog, 10);
                    ZSTD_CCtx_setParameter(c, ZSTD_c_format, k); fsz[k] = ZSTD_compress2(c, fr[k], sizeof fr[k], src, 5000); ZSTD_freeCCtx(c); } built = 1; }
            ZSTD_DCtx_getParameter(dctx, ZSTD_d_format, &fmt); n = fsz[fmt != 0]; memcpy(f, fr[fmt != 0], n); if (x) f[n - 2] ^= 0x55;
            ZSTD_DCtx_reset(dctx, ZSTD_reset_session_only); dstarted = 0;
            if (y) r = ZSTD_decompressDCtx(dctx, dst, sizeof dst, f, n);
            else { ZSTD_inBuffer in = { f, 0, 0 }; ZSTD_outBuffer out = { dst, sizeof dst, 0 }; size_t fed = 0; r = 1;
                while (!ZSTD_isError(r) && r != 0 && fed < n) { size_t step = 700; if (step > n - fed) step = n - fed; in.src = f; in.size = fed + step; in.pos = fed; r = ZSTD_decompressStream(dctx, &out, &in); fed = in.pos; if (in.pos < in.size && !ZSTD_isError(r) && out.pos == out.size) break; }
                if (!ZSTD_isError(r) && (out.pos != 5000 || memcmp(dst, src, 5000))) r = (size_t)-ZSTD_error_corruption_detected; }
            if (ZSTD_isError(r)) ZSTD_DCtx_reset(dctx, ZSTD_reset_session_only);
            dump(cls(ZSTD_isError(r) ? r : 0));
        } else if (!strcmp(a, "dwin") && kind == 'd') {
            /* dwin <windowLog> : streaming decode (700-byte steps, one fixed output buffer: legal in both buffer modes) of a hand-made frame that declares a window of
             * 2^windowLog bytes and no content size (one raw block of 1000 bytes), with the parameters in force */
            unsigned char f[4096]; size_t n = 0, r = 1, fed = 0; ZSTD_inBuffer in = { f, 0, 0 }; ZSTD_outBuffer out = { dst, sizeof dst, 0 };
            f[n++] = 0x28; f[n++] = 0xB5; f[n++] = 0x2F; f[n++] = 0xFD; f[n++] = 0x00; f[n++] = (unsigned char)((x - 10) << 3);
            { unsigned const bh = (1000u << 3) | 1; f[n++] = bh & 255; f[n++] = (bh >> 8) & 255; f[n++] = (bh >> 16) & 255; }
            memcpy(f + n, src, 1000); n += 1000;
            ZSTD_DCtx_reset(dctx, ZSTD_reset_session_only); dstarted = 0;
            while (!ZSTD_isError(r) && r != 0 && fed < n) { size_t step = 700; if (step > n - fed) step = n - fed; in.src = f; in.size = fed + step; in.pos = fed; r = ZSTD_decompressStream(dctx, &out, &in); if (in.pos == fed && !ZSTD_isError(r) && r != 0 && in.size == n) break; fed = in.pos; }
            if (!ZSTD_isError(r) && (r != 0 || out.pos != 1000 || memcmp(dst, src, 1000))) r = (size_t)-ZSTD_error_corruption_detected;
            if (ZSTD_isError(r)) ZSTD_DCtx_reset(dctx, ZSTD_reset_session_only);
            dump(cls(ZSTD_isError(r) ? r : 0));
        } else if (!strcmp(a, "start")) {
            size_t r;
            if (kind == 'c') { ZSTD_inBuffer* in = cin(100); ZSTD_outBuffer out = { dst, sizeof dst, 0 };
                r = ZSTD_compressStream2(cctx, &out, in, ZSTD_e_flush); }
            else if (kind == 'd' && dstarted) r = 0;   /* already inside a frame header: feeding the magic again would be a corrupt stream */
            else if (kind == 'd') { static const unsigned char hd[2] = { 0x28, 0xB5 }; ZSTD_inBuffer in = { hd, 2, 0 }; ZSTD_outBuffer out = { dst, sizeof dst, 0 };
                int fmt = 0; ZSTD_DCtx_getParameter(dctx, ZSTD_d_format, &fmt);
                if (fmt == 1) { static const unsigned char h1[1] = { 0x20 }; in.src = h1; in.size = 1; }
                r = ZSTD_decompressStream(dctx, &out, &in); dstarted = !ZSTD_isError(r); }
            else r = 0;
            dump(cls(r));
        } else if (!strcmp(a, "end")) {
            size_t r = 0;
            if (kind == 'c') { ZSTD_inBuffer* in = cin(0); ZSTD_outBuffer out = { dst, sizeof dst, 0 };
                do { r = ZSTD_compressStream2(cctx, &out, in, ZSTD_e_end); } while (!ZSTD_isError(r) && r != 0);
                if (r == 0) cs_open = 0; }
            else if (kind == 'd') { r = ZSTD_DCtx_reset(dctx, ZSTD_reset_session_only); dstarted = 0; }
            dump(cls(r));
        } else if (!strcmp(a, "reset")) {
            size_t r = kind == 'c' ? ZSTD_CCtx_reset(cctx, (ZSTD_ResetDirective)x)
                     : kind == 'd' ? ZSTD_DCtx_reset(dctx, (ZSTD_ResetDirective)x)
                                   : ZSTD_CCtxParams_reset(cpar);
            if (kind == 'd' && x != 2 && !ZSTD_isError(r)) dstarted = 0;
            if (kind == 'c' && x != 2 && !ZSTD_isError(r)) cs_open = 0;
            dump(cls(r));
        } else if (!strcmp(a, "dict")) {
            size_t r = kind == 'c' ? ZSTD_CCtx_loadDictionary(cctx, dictbuf, sizeof dictbuf)
                     : kind == 'd' ? ZSTD_DCtx_loadDictionary(dctx, dictbuf, sizeof dictbuf) : 0;
            dump(cls(r));
        } else if (!strcmp(a, "frame") && kind == 'c') {
            ZSTD_inBuffer* in = cin((size_t)x); ZSTD_outBuffer out = { dst, sizeof dst, 0 }; size_t r; char hf[128]; int fmt = 0;
            do { r = ZSTD_compressStream2(cctx, &out, in, ZSTD_e_end); } while (!ZSTD_isError(r) && r != 0);
            if (r == 0) cs_open = 0;
            ZSTD_CCtx_getParameter(cctx, ZSTD_c_format, &fmt);
            if (ZSTD_isError(r)) dump(cls(r)); else { char st[200]; header_facts(dst, out.pos, fmt, hf); sprintf(st, "ok %s", hf); dump(st); }
        } else if (!strcmp(a, "simple") && kind == 'c') {
            size_t r = ZSTD_compressCCtx(cctx, dst, sizeof dst, src, (size_t)x, (int)y); char hf[128];
            /* the simple API leaves its source size behind as a pledge for a following streaming frame (finding recorded under C15);
             * C16 is about parameters, so drop that session state here */
            ZSTD_CCtx_reset(cctx, ZSTD_reset_session_only); cs_open = 0;
            if (ZSTD_isError(r)) dump(cls(r)); else { char st[200]; header_facts(dst, r, 0, hf); sprintf(st, "ok %s", hf); dump(st); }
        } else if (!strcmp(a, "applied") && kind == 'c') {
            /* ZSTD_compress2 of x bytes with the parameters in force: which compression parameters were applied */
            size_t r = (size_t)x > sizeof src ? (size_t)-ZSTD_error_srcSize_wrong : ZSTD_compress2(cctx, dst, sizeof dst, src, (size_t)x);
            cs_open = 0;   /* ZSTD_compress2 starts with a session reset */
            if (ZSTD_isError(r)) dump(cls(r)); else { char st[200]; cpstr(st, "ok ap=", cctx->appliedParams.cParams); dump(st); }
        } else if (!strcmp(a, "pset") && kind == 'c') {
            /* set a parameter of the separate ZSTD_CCtx_params object (the context itself is dumped: it must not move) */
            dump(cls(ZSTD_CCtxParams_setParameter(cpar, (ZSTD_cParameter)x, (int)y)));
        } else if (!strcmp(a, "papply") && kind == 'c') {
            dump(cls(ZSTD_CCtx_setParametersUsingCCtxParams(cctx, cpar)));
        } else if (!strcmp(a, "derive")) {
            derive(line);
        } else if (!strcmp(a, "c2") && kind == 'c') {
            /* ZSTD_compress2 into a destination of x bytes (x = 1: guaranteed too small) */
            size_t r = ZSTD_compress2(cctx, dst, (size_t)x, src, 3000);
            cs_open = 0;
            dump(ZSTD_isError(r) ? "err:other" : "ok");
        } else if (!strcmp(a, "sstart") && kind == 'c') {
            ZSTD_inBuffer* in = cin((size_t)x); ZSTD_outBuffer out = { dst, sizeof dst, 0 }; size_t r = 0;
            /* ZSTD_e_continue promises "some" progress only: call until the offered bytes are taken */
            do { r = ZSTD_compressStream2(cctx, &out, in, ZSTD_e_continue); } while (!ZSTD_isError(r) && in->pos < in->size && out.pos < out.size);
            if (!ZSTD_isError(r) && in->pos != in->size) r = (size_t)-ZSTD_error_GENERIC;
            dump(cs_clamped ? "bad-op" : cls(r));
        } else if (!strcmp(a, "seqframe") && kind == 'c') {
            ZSTD_Sequence sq[1]; int delim = 0, fmt = 0; size_t nb = x > 1000 ? 1000 : (size_t)x, r; char hf[128];
            memset(sq, 0, sizeof sq); sq[0].litLength = (unsigned)nb;      /* explicit delimiters: the block's last literals */
            ZSTD_CCtx_getParameter(cctx, ZSTD_c_blockDelimiters, &delim);
            r = ZSTD_compressSequences(cctx, dst, y ? 1 : sizeof dst, sq, delim == (int)ZSTD_sf_explicitBlockDelimiters ? 1 : 0, src, nb);
            cs_open = 0;
            ZSTD_CCtx_getParameter(cctx, ZSTD_c_format, &fmt);
            if (ZSTD_isError(r)) dump(y ? "err:other" : cls(r)); else { char st[200]; header_facts(dst, r, fmt, hf); sprintf(st, "ok %s", hf); dump(st); }
        } else if (!strcmp(a, "pledge") && kind == 'c') {
            dump(cls(ZSTD_CCtx_setPledgedSrcSize(cctx, ZSTD_CONTENTSIZE_UNKNOWN)));
        } else if (!strcmp(a, "prefix") && kind == 'c') {
            dump(cls(ZSTD_CCtx_refPrefix(cctx, dictbuf, 512)));
        } else if (!strcmp(a, "cdict") && kind == 'c') {
            dump(cls(ZSTD_CCtx_refCDict(cctx, NULL)));
        } else dump("bad-op");
        fflush(stdout);
    }
    return 0;
}
