/* zvh_place — C07: the emitted bytes may not depend on WHERE the caller's buffers lie relative to each other.
 * Everything lives in ONE arena, so that "adjacent" is exact (no allocator in between).  Public + static-linking-only API, nothing internal.
 *
 *   pd <supply> <api> <id=val,...|-> <dictSize> <n> <seed>
 *        one frame over (dictionary / prefix, input); the SAME calls are repeated with the two buffers placed
 *            F  dictionary low, input far above it (reference)         P  input low, dictionary far above it
 *            A  input starts exactly where the dictionary ends         B  input ends exactly where the dictionary starts
 *            G  one byte between dictionary end and input start        H  one byte between input end and dictionary start
 *            M  as F, both misaligned by odd offsets
 *        supply  x ZSTD_CCtx_refPrefix | L ZSTD_CCtx_loadDictionary_byReference | R ZSTD_createCDict_byReference(level) + ZSTD_CCtx_refCDict   (these go through <api>)
 *                b ZSTD_compressBegin_usingDict(level) + ZSTD_compressEnd | a ZSTD_compress_usingDict(level)                                    (api ignored)
 *        api     2 ZSTD_compress2 | e one ZSTD_compressStream2(e_end) call | s ZSTD_c_stableInBuffer: continue calls over a growing view of the input, then end |
 *                k buffered streaming in 1..40000-byte continue calls (the input travels through the context's own buffer)
 *        placement A is a CONTIGUOUS continuation of the dictionary by the rules of the API unless the context was told to ignore contiguity
 *        (ZSTD_c_deterministicRefPrefix, id 1012) and the dictionary content is loaded from the caller's buffer (prefix; or force-load, 1001=3);
 *        it takes part in the comparison exactly then (pseudo-parameter 9999=1: always).  The others are never contiguous and never overlap: always compared.
 *        -> same <placements compared> <bytes> | DIFF placement <p>: <a> bytes vs reference <b> bytes, first difference at <k> | FAIL ... | err <name>
 *
 *   ps <level> <wlog> <pattern> <segment lengths csv> <seed>
 *        buffer-less streaming ZSTD_compressBegin_advanced / ZSTD_compressContinue... / ZSTD_compressEnd over segments of one generated stream.
 *        pattern: one letter per segment after the first: c = placed exactly at the end of the previous segment (contiguous), n = elsewhere (new run:
 *        the previous run becomes the external dictionary, older runs are dead).  The same calls are repeated with each new run placed
 *            0  far above everything used so far           1  one byte above the end of the previous run       2  ending exactly where the previous run starts
 *            3  starting exactly at the END of the run before the previous one (dead memory; only when it cannot touch the previous run, else as 0)
 *            4  starting exactly at the START of the run before the previous one (dead memory reused; same condition)
 *        No layout ever overlaps live history (the previous run), the contiguity pattern is identical: the frames must be identical and decode to the stream.
 *        -> same 5 <bytes> | DIFF layout <k>: ... | FAIL ... | err <name> */
#include "zvh_common.h"

static unsigned long long rs;
static unsigned rnd(void) { rs = rs * 6364136223846793005ULL + 1442695040888963407ULL; return (unsigned)(rs >> 33); }

/* vocabulary text: words over a small alphabet, so that every place has many earlier candidates of different lengths */
static void gen_vocab(unsigned char* p, size_t n, unsigned long long seed) {
    unsigned char words[128][12]; int wl[128], nw = 40 + (int)(seed % 80), i; size_t pos = 0; rs = seed * 2862933555777941757ULL + 3037000493ULL;
    for (i = 0; i < nw; i++) { int k; wl[i] = 2 + (int)(rnd() % 9); for (k = 0; k < wl[i]; k++) words[i][k] = (unsigned char)('a' + rnd() % (4 + seed % 9)); }
    while (pos < n) { unsigned r = rnd() % 100; int w = (int)(rnd() % (unsigned)nw), k;
        if (r < 6) { p[pos++] = (unsigned char)rnd(); continue; }
        for (k = 0; k < wl[w] && pos < n; k++) p[pos++] = words[w][k];
        if (pos < n) p[pos++] = (r < 50) ? ' ' : (r < 60 ? '\n' : ','); }
}
/* input that lives off the dictionary: fragments of it at arbitrary offsets, a few literals, self copies */
static void gen_from(unsigned char* p, size_t n, const unsigned char* d, size_t dn, unsigned long long seed) {
    size_t i = 0; rs = seed ^ 0x9E3779B97F4A7C15ULL;
    while (i < n) { unsigned k = rnd() % 100; size_t len = 4 + rnd() % 120, j; if (len > n - i) len = n - i;
        if (k < 55 && dn > 8) { size_t off; if (len > dn) len = dn; off = rnd() % (dn - len + 1); if (rnd() % 5 == 0) off = dn - len; memcpy(p + i, d + off, len); }
        else if (k < 75 && i > 64) { size_t dist = 1 + rnd() % i; for (j = 0; j < len; j++) p[i + j] = p[i + j - dist]; }
        else { len = 1 + len % 6; if (len > n - i) len = n - i; for (j = 0; j < len; j++) p[i + j] = (unsigned char)('a' + rnd() % 20); }
        i += len; }
}
static int g_forceA;   /* pseudo-parameter 9999=1: compare placement A as well, whatever the rule above says (to reproduce the contiguity dependences the rule leaves out) */
static size_t apply(ZSTD_CCtx* c, const char* spec, int* level, int* drp, int* attach) {
    char buf[512]; char* sv = NULL; char* kv; size_t r = 0; if (!strcmp(spec, "-")) return 0; strncpy(buf, spec, sizeof buf - 1); buf[sizeof buf - 1] = 0;
    for (kv = strtok_r(buf, ",", &sv); kv && !ZSTD_isError(r); kv = strtok_r(NULL, ",", &sv)) { int id, val; if (sscanf(kv, "%d=%d", &id, &val) == 2) {
        if (id == 9999) { g_forceA = val; continue; }
        if (id == 100) *level = val; if (id == 1012) *drp = val; if (id == 1001) *attach = val; r = ZSTD_CCtx_setParameter(c, (ZSTD_cParameter)id, val); } }
    return r; }

int main(void) {
    char* line;
    while ((line = zv_getline())) {
        char* op = strtok(line, " "); if (!op) continue;
        if (!strcmp(op, "pd")) {
            char sup = strtok(NULL, " ")[0], api = strtok(NULL, " ")[0]; char* spec = strtok(NULL, " "); size_t dn = (size_t)strtoull(strtok(NULL, " "), NULL, 10), n = (size_t)strtoull(strtok(NULL, " "), NULL, 10);
            unsigned long long seed = strtoull(strtok(NULL, " "), NULL, 10);
            size_t const far = 1000003, asz = 2 * (dn + n) + 2 * far + 8192, cap = ZSTD_compressBound(n) + 512;
            unsigned char* arena = (unsigned char*)malloc(asz); unsigned char* dproto = (unsigned char*)malloc(dn + 1); unsigned char* iproto = (unsigned char*)malloc(n + 1);
            unsigned char* ref = (unsigned char*)malloc(cap); unsigned char* out = (unsigned char*)malloc(cap); unsigned char* back = (unsigned char*)malloc(n + 1);
            const char* places = "FPABGHM"; size_t refSize = 0; int pi, compared = 0, bad = 0;
            gen_vocab(dproto, dn, seed); gen_from(iproto, n, dproto, dn, seed + 1);
            for (pi = 0; places[pi] && !bad; pi++) {
                char const pl = places[pi]; unsigned char* D; unsigned char* I; ZSTD_CCtx* c = ZSTD_createCCtx(); ZSTD_CDict* cd = NULL; size_t r, cs = 0; int level = 3, drp = 0, attach = 0, comparable = 1;
                unsigned char* const base = arena + 64;
                switch (pl) {
                    case 'F': D = base; I = base + dn + far; break;
                    case 'P': I = base; D = base + n + far; break;
                    case 'A': D = base + far; I = D + dn; break;
                    case 'B': I = base + far; D = I + n; break;
                    case 'G': D = base + far; I = D + dn + 1; break;
                    case 'H': I = base + far; D = I + n + 1; break;
                    default:  D = base + 1 + seed % 61; I = D + dn + far + 2 * (seed % 31) + 1; break;
                }
                memset(arena, 0x5A, asz); memcpy(D, dproto, dn); memcpy(I, iproto, n);
                g_forceA = 0; r = apply(c, spec, &level, &drp, &attach);
                if (pl == 'A') comparable = g_forceA || drp && (sup == 'x' || ((sup == 'L' || sup == 'R') && attach == 3));
                if (!ZSTD_isError(r)) switch (sup) {
                    case 'x': r = ZSTD_CCtx_refPrefix(c, D, dn); break;
                    case 'L': r = ZSTD_CCtx_loadDictionary_byReference(c, D, dn); break;
                    case 'R': cd = ZSTD_createCDict_byReference(D, dn, level); r = cd ? ZSTD_CCtx_refCDict(c, cd) : (size_t)-ZSTD_error_memory_allocation; break;
                    default: break;
                }
                if (!ZSTD_isError(r)) {
                    if (sup == 'b') { r = ZSTD_compressBegin_usingDict(c, D, dn, level); if (!ZSTD_isError(r)) r = ZSTD_compressEnd(c, out, cap, I, n); cs = r; }
                    else if (sup == 'a') { r = ZSTD_compress_usingDict(c, out, cap, I, n, D, dn, level); cs = r; }
                    else if (api == '2') { r = ZSTD_compress2(c, out, cap, I, n); cs = r; }
                    else { size_t pos = 0, o = 0, view = 0; int guard = 0; rs = seed + 7;
                        if (api == 's') r = ZSTD_CCtx_setParameter(c, ZSTD_c_stableInBuffer, 1);
                        while (!ZSTD_isError(r) && guard++ < 100000) { ZSTD_inBuffer ib; ZSTD_outBuffer ob; ZSTD_EndDirective dir;
                            if (api == 'e') { ib.src = I; ib.size = n; ib.pos = 0; dir = ZSTD_e_end; }
                            else if (api == 's') { size_t step = 1 + rnd() % 50000; view = (view + step > n) ? n : view + step; ib.src = I; ib.size = view; ib.pos = pos; dir = view == n ? ZSTD_e_end : ZSTD_e_continue; }
                            else { size_t step = 1 + rnd() % 40000; if (step > n - pos) step = n - pos; ib.src = I + pos; ib.size = step; ib.pos = 0; dir = pos + step == n ? ZSTD_e_end : ZSTD_e_continue; }
                            ob.dst = out + o; ob.size = cap - o; ob.pos = 0; r = ZSTD_compressStream2(c, &ob, &ib, dir); o += ob.pos; if (ZSTD_isError(r)) break;
                            if (api == 's') pos = ib.pos; else if (api == 'k') pos += ib.pos;
                            if (dir == ZSTD_e_end && r == 0) { cs = o; break; } }
                    }
                }
                if (ZSTD_isError(r)) { printf("err placement %c: %s\n", pl, ZSTD_getErrorName(r)); bad = 1; }
                else {
                    ZSTD_DCtx* dc = ZSTD_createDCtx(); size_t dr = ZSTD_decompress_usingDict(dc, back, n, out, cs, dproto, dn); ZSTD_freeDCtx(dc);
                    if (ZSTD_isError(dr) || dr != n || memcmp(back, iproto, n)) { printf("FAIL placement %c: the frame does not decode to the input with the dictionary (%s)\n", pl, ZSTD_isError(dr) ? ZSTD_getErrorName(dr) : "content differs"); bad = 1; }
                    else if (pi == 0) { memcpy(ref, out, cs); refSize = cs; compared = 1; }
                    else if (comparable) { compared++;
                        if (cs != refSize || memcmp(ref, out, cs)) { size_t k = 0; while (k < cs && k < refSize && ref[k] == out[k]) k++;
                            printf("DIFF placement %c: %zu bytes vs reference placement F %zu bytes, first difference at %zu\n", pl, cs, refSize, k); bad = 1; } }
                }
                ZSTD_freeCDict(cd); ZSTD_freeCCtx(c);
            }
            if (!bad) printf("same %d %zu\n", compared, refSize);
            free(arena); free(dproto); free(iproto); free(ref); free(out); free(back);
        } else if (!strcmp(op, "ps")) {
            int level = atoi(strtok(NULL, " ")); unsigned wlog = (unsigned)atoi(strtok(NULL, " ")); char* pat = strtok(NULL, " "); char* ls = strtok(NULL, " "); unsigned long long seed = strtoull(strtok(NULL, " "), NULL, 10);
            size_t len[64], total = 0, ns = 0, i; { char* sv; char* t; for (t = strtok_r(ls, ",", &sv); t && ns < 64; t = strtok_r(NULL, ",", &sv)) { len[ns] = (size_t)strtoull(t, NULL, 10); total += len[ns++]; } }
            size_t const far = 70001, asz = 2 * (total + ns * (far + 8)) * 2 + (1 << 16), cap = ZSTD_compressBound(total) + ns * 32 + 512;
            unsigned char* arena = (unsigned char*)malloc(asz); unsigned char* stream = (unsigned char*)malloc(total + 1); unsigned char* dproto = (unsigned char*)malloc(4096);
            unsigned char* ref = (unsigned char*)malloc(cap); unsigned char* out = (unsigned char*)malloc(cap); unsigned char* back = (unsigned char*)malloc(total + 1); size_t refSize = 0; int lay, bad = 0;
            gen_vocab(dproto, 4096, seed); gen_from(stream, total, dproto, 4096, seed + 3);
            if (ns == 0 || strlen(pat) + 1 < ns) { printf("bad-op\n"); bad = 1; }
            for (lay = 0; lay < 5 && !bad; lay++) {
                ZSTD_CCtx* c = ZSTD_createCCtx(); ZSTD_parameters prm = ZSTD_getParams(level, total, 0); size_t r, o = 0, spos = 0;
                unsigned char* hi; unsigned char* p0 = NULL; unsigned char* p1 = NULL; unsigned char* q0 = NULL; unsigned char* q1 = NULL; unsigned char* cur; unsigned char* const lo = arena + 32; unsigned char* const top = arena + asz - 32;
                if (wlog) prm.cParams.windowLog = wlog; prm.fParams.contentSizeFlag = 0; prm.fParams.checksumFlag = 1;
                memset(arena, 0xA5, asz);
                r = ZSTD_compressBegin_advanced(c, NULL, 0, prm, ZSTD_CONTENTSIZE_UNKNOWN);
                cur = arena + asz / 2; hi = cur; p0 = cur;
                for (i = 0; i < ns && !ZSTD_isError(r); i++) {
                    if (i > 0 && pat[i - 1] == 'n') {
                        size_t runLen = len[i], j; unsigned char* at = NULL;
                        for (j = i + 1; j < ns && pat[j - 1] == 'c'; j++) runLen += len[j];
                        p1 = cur;      /* previous run = [p0, p1) */
                        switch (lay) {
                            case 1: at = p1 + 1; break;
                            case 2: at = p0 - runLen; break;
                            case 3: if (q1 && (q1 + runLen <= p0 || q1 >= p1)) at = q1; break;
                            case 4: if (q0 && (q0 + runLen <= p0 || q0 >= p1)) at = q0; break;
                            default: break;
                        }
                        if (at && (at < lo || at + runLen > top)) at = NULL;
                        if (!at) at = hi + far + (seed % 13);
                        if (at + runLen > top) { printf("FAIL arena too small\n"); bad = 1; break; }
                        q0 = p0; q1 = p1; p0 = at; cur = at;
                    }
                    memcpy(cur, stream + spos, len[i]);
                    r = (i + 1 == ns) ? ZSTD_compressEnd(c, out + o, cap - o, cur, len[i]) : ZSTD_compressContinue(c, out + o, cap - o, cur, len[i]);
                    if (ZSTD_isError(r)) break;
                    o += r; spos += len[i]; cur += len[i]; if (cur > hi) hi = cur;
                }
                if (bad) { ZSTD_freeCCtx(c); break; }
                if (ZSTD_isError(r)) { printf("err layout %d: %s\n", lay, ZSTD_getErrorName(r)); bad = 1; }
                else { size_t dr = ZSTD_decompress(back, total, out, o);
                    if (ZSTD_isError(dr) || dr != total || memcmp(back, stream, total)) { printf("FAIL layout %d: the frame does not decode to the stream that was fed (%s)\n", lay, ZSTD_isError(dr) ? ZSTD_getErrorName(dr) : "content differs"); bad = 1; }
                    else if (lay == 0) { memcpy(ref, out, o); refSize = o; }
                    else if (o != refSize || memcmp(ref, out, o)) { size_t k = 0; while (k < o && k < refSize && ref[k] == out[k]) k++;
                        printf("DIFF layout %d: %zu bytes vs layout 0 %zu bytes, first difference at %zu\n", lay, o, refSize, k); bad = 1; } }
                ZSTD_freeCCtx(c);
            }
            if (!bad) printf("same 5 %zu\n", refSize);
            free(arena); free(stream); free(dproto); free(ref); free(out); free(back);
        } else printf("bad-op\n");
        fflush(stdout);
    }
    return 0;
}
