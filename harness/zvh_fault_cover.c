#include "zvh_fault_redirect.h"
#include "../../repo/lib/dictBuilder/cover.c"
