/* fastcover.c with fresh malloc blocks filled (zvh_train_fill.h) */
#include "zvh_train_fill.h"
#include "fastcover.c"   /* found through -I<repo>/… (tools/build.py), so that ZV_REPO can point at another checkout */

/* function-level access for the tie of FASTCOVER_ctx_init (static): error code, or 0 with the d-mer count the build loops will use */
size_t zvt_fast_ctx(const void* sb, const size_t* ss, unsigned nb, unsigned d, double split, unsigned f, size_t* nbDmers) {
    FASTCOVER_ctx_t ctx; size_t const r = FASTCOVER_ctx_init(&ctx, sb, ss, nb, d, split, f, FASTCOVER_defaultAccelParameters[1]);
    if (!ZSTD_isError(r)) { *nbDmers = ctx.nbDmers; FASTCOVER_ctx_destroy(&ctx); } return r; }
