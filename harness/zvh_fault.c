/* zvh_fault — allocation-failure enumeration (C13).
 *   run <scenario> <k> [<k2>]   : set the scenario up with a working allocator, run its operation with the k-th (and k2-th)
 *                                 request of the operation returning NULL, reset the context, run the operation again with
 *                                 memory available, tear everything down.
 *     -> fault=<fired 0|1> allocs=<requests during the faulted operation> op=<ok|errclass|null> retry=<ok|FAIL:...|skip> log=<event log>
 *   list                        : the scenario names
 * Event log (whole life of the scenario, in allocator order): a<addr>:<size>  f<addr>  x<size> (request answered NULL),
 *   o<addr> (the caller declares the block as part of an object it still owns: thread pool / CDict / DDict / prefix buffer that a
 *   context only references)  d<addr> (the caller starts releasing it).  A free of a declared block before its d is a theft.
 * own_* scenarios print an extra field probe=<ok|FAIL:...> between op= and retry=: right after the faulted call the caller-owned objects
 * must be intact (every declared block still live, the pool's threads still there, referenced buffers unchanged) and usable through
 * a second context.
 * The Lean ledger model (zvdriver ledger) replays the log and decides leaks / double frees / foreign frees.
 * Freed blocks are quarantined until the end of the run (never recycled; poisoned under ASan), so that a second free of the same
 * block is an observable event instead of heap corruption, and a use after free is caught by the sanitizer build.
 * dictBuilder sources call malloc/free directly: they are compiled into this harness with those names redirected to the same
 * fault-injecting allocator (zvh_fault_zdict.c). */
#include "zvh_common.h"
#include <pthread.h>
#include <signal.h>
#include <unistd.h>
#include <time.h>
#define ZDICT_STATIC_LINKING_ONLY
#include "zdict.h"
#if defined(__has_feature)
#  if __has_feature(address_sanitizer)
#    include <sanitizer/asan_interface.h>
#    define ZV_POISON(p, n) __asan_poison_memory_region(p, n)
#    define ZV_UNPOISON(p, n) __asan_unpoison_memory_region(p, n)
#  endif
#endif
#ifndef ZV_POISON
#  define ZV_POISON(p, n) ((void)0)
#  define ZV_UNPOISON(p, n) ((void)0)
#endif

typedef struct { void* p; size_t sz; int live; int owned; } rec_t;
static rec_t* g_recs; static size_t g_nrecs, g_caprecs;
static char* g_log; static size_t g_loglen, g_logcap;
static long g_failAt = -1, g_failAt2 = -1, g_calls; static int g_counting, g_fired;
static pthread_mutex_t g_mx = PTHREAD_MUTEX_INITIALIZER;

static void logf_(const char* fmt, unsigned long long a, unsigned long long b) {
    char tmp[64]; int n = snprintf(tmp, sizeof tmp, fmt, a, b);
    if (g_loglen + (size_t)n + 2 > g_logcap) { g_logcap = g_logcap ? g_logcap * 2 : 4096; g_log = (char*)realloc(g_log, g_logcap); }
    memcpy(g_log + g_loglen, tmp, (size_t)n); g_loglen += (size_t)n; g_log[g_loglen] = 0;
}
/* Parking (own_pool_mt_abandon*): while g_parkFrom > 0, the g_parkFrom-th and later requests made by a thread other than the caller's (i.e. by a
 * compression job running on a pool thread) wait inside the allocator until the helper of the scenario lets them go.  This makes "a job of the
 * context is running at the moment the caller frees the context" certain whatever the load of the machine; nothing parks in the other scenarios. */
static pthread_t g_mainThr;
static volatile int g_parkFrom, g_parkSeen, g_parkedNow, g_parkRelease;
static void park_here(void) {
    if (g_parkFrom > 0 && !__atomic_load_n(&g_parkRelease, __ATOMIC_SEQ_CST) && !pthread_equal(pthread_self(), g_mainThr)) {
        int const ord = __atomic_add_fetch(&g_parkSeen, 1, __ATOMIC_SEQ_CST);
        if (ord >= g_parkFrom) { __atomic_add_fetch(&g_parkedNow, 1, __ATOMIC_SEQ_CST);
            while (!__atomic_load_n(&g_parkRelease, __ATOMIC_SEQ_CST)) usleep(500);
            __atomic_sub_fetch(&g_parkedNow, 1, __ATOMIC_SEQ_CST); } }
}
void* zv_fault_alloc(size_t size) {
    void* p;
    park_here();
    pthread_mutex_lock(&g_mx);
    if (g_counting) { g_calls++; if (g_calls == g_failAt || g_calls == g_failAt2) { g_fired++; logf_("x%llu ", size, 0); pthread_mutex_unlock(&g_mx); return NULL; } }
    p = malloc(size ? size : 1);
    if (p) { if (g_nrecs == g_caprecs) { g_caprecs = g_caprecs ? g_caprecs * 2 : 256; g_recs = (rec_t*)realloc(g_recs, g_caprecs * sizeof *g_recs); }
        g_recs[g_nrecs].p = p; g_recs[g_nrecs].sz = size; g_recs[g_nrecs].live = 1; g_recs[g_nrecs].owned = 0; g_nrecs++;
        logf_("a%llx:%llu ", (unsigned long long)(size_t)p, size); }
    pthread_mutex_unlock(&g_mx);
    return p;
}
void zv_fault_free(void* p) {
    size_t i;
    if (!p) return;
    pthread_mutex_lock(&g_mx);
    logf_("f%llx ", (unsigned long long)(size_t)p, 0);
    for (i = g_nrecs; i-- > 0; ) if (g_recs[i].p == p) { if (g_recs[i].live) { g_recs[i].live = 0; ZV_POISON(p, g_recs[i].sz); } break; }
    pthread_mutex_unlock(&g_mx);
}
void* zv_fault_calloc(size_t a, size_t b) { void* p = zv_fault_alloc(a * b); if (p) memset(p, 0, a * b); return p; }
static void* cm_alloc(void* o, size_t n) { (void)o; return zv_fault_alloc(n); }
static void cm_free(void* o, void* p) { (void)o; zv_fault_free(p); }
static ZSTD_customMem const CM = { cm_alloc, cm_free, NULL };
/* objects the caller still owns: created (single-threaded) between own_begin and own_end, declared in the log, released after disown_all */
static size_t g_ownFrom;
static void own_begin(void) { pthread_mutex_lock(&g_mx); g_ownFrom = g_nrecs; pthread_mutex_unlock(&g_mx); }
static void own_end(void) { size_t i; pthread_mutex_lock(&g_mx); for (i = g_ownFrom; i < g_nrecs; i++) if (g_recs[i].live) { g_recs[i].owned = 1; logf_("o%llx ", (unsigned long long)(size_t)g_recs[i].p, 0); } pthread_mutex_unlock(&g_mx); }
static int owned_intact(void) { size_t i; int ok = 1; pthread_mutex_lock(&g_mx); for (i = 0; i < g_nrecs; i++) if (g_recs[i].owned && !g_recs[i].live) ok = 0; pthread_mutex_unlock(&g_mx); return ok; }
static void disown_all(void) { size_t i; pthread_mutex_lock(&g_mx); for (i = 0; i < g_nrecs; i++) if (g_recs[i].owned) { g_recs[i].owned = 0; logf_("d%llx ", (unsigned long long)(size_t)g_recs[i].p, 0); } pthread_mutex_unlock(&g_mx); }
static void ledger_reset(void) { size_t i; for (i = 0; i < g_nrecs; i++) { ZV_UNPOISON(g_recs[i].p, g_recs[i].sz); free(g_recs[i].p); } g_nrecs = 0; g_loglen = 0; if (g_log) g_log[0] = 0; g_calls = 0; g_fired = 0; g_counting = 0; }

/* ---- data ---- */
static unsigned long long rs;
static unsigned rnd(void) { rs = rs * 6364136223846793005ULL + 1442695040888963407ULL; return (unsigned)(rs >> 33); }
static void gen_data(unsigned char* p, size_t n, unsigned long long seed) {
    size_t i = 0; rs = seed;
    while (i < n) { unsigned k = rnd() % 100; size_t len = 1 + rnd() % 300; if (len > n - i) len = n - i;
        if (k < 40 && i > 100) { size_t maxd = i < 300000u ? i : 300000u; size_t d = 1 + rnd() % maxd; size_t j; for (j = 0; j < len; j++) p[i + j] = p[i + j - d]; }
        else if (k < 75) { size_t j; for (j = 0; j < len; j++) p[i + j] = (unsigned char)("etaoin shrdlu,.\n"[rnd() % 17]); }
        else { size_t j; for (j = 0; j < len; j++) p[i + j] = (unsigned char)rnd(); }
        i += len; }
}
#define BIG (3u << 20)
static unsigned char *SRC, *DST, *BACK, *DICT; static size_t DSTCAP; static size_t const DICTSZ = 40000;

static int rt_ok(const unsigned char* src, size_t n, const unsigned char* c, size_t cs, const void* dict, size_t dn) {
    ZSTD_DCtx* d = ZSTD_createDCtx(); size_t r = ZSTD_decompress_usingDict(d, BACK, BIG, c, cs, dict, dn); ZSTD_freeDCtx(d);
    return !ZSTD_isError(r) && r == n && !memcmp(BACK, src, n); }

/* ---- scenario state ---- */
typedef struct { ZSTD_CCtx* c; ZSTD_DCtx* d; ZSTD_CDict* cd; ZSTD_DDict* dd; ZSTD_DDict* dds[40]; int ndds; unsigned char* frame; size_t fsz; size_t fsz2; unsigned char* frame2; size_t n2; int plain;
    /* own_* scenarios: a second context sharing the caller's objects, the caller's thread pool, the caller's buffer (referenced, never copied) and a private copy of its content */
    ZSTD_CCtx* c2; ZSTD_DCtx* d2; ZSTD_threadPool* pool; int poolLedger; int tasks0; int earlyFree; unsigned char* obuf; unsigned char* ocopy; size_t osz;
    unsigned char* mdict[40]; size_t mdictSz[40]; unsigned char* mframe[40]; size_t mfsz[40]; } S;
typedef struct { const char* name; void (*setup)(S*); size_t (*op)(S*, char* why); void (*reset)(S*); size_t (*probe)(S*, char* why); } scen_t;
static size_t alt_small(S* s, char* why);   /* after the failed call + reset: a smaller job that fits what the context already held */
#define NULLRES ((size_t)-1000)     /* constructor returned NULL */

static size_t set(ZSTD_CCtx* c, ZSTD_cParameter p, int v) { return ZSTD_CCtx_setParameter(c, p, v); }
static size_t comp_stream(ZSTD_CCtx* c, const unsigned char* src, size_t n, size_t chunk, size_t* produced) {
    size_t pos = 0, out = 0; int guard = 0;
    while (guard++ < 1000000) { ZSTD_inBuffer ib; ZSTD_outBuffer ob; size_t isz = chunk < n - pos ? chunk : n - pos; ZSTD_EndDirective dir = (pos + isz == n) ? ZSTD_e_end : ZSTD_e_continue; size_t r;
        ib.src = src + pos; ib.size = isz; ib.pos = 0; ob.dst = DST + out; ob.size = DSTCAP - out; ob.pos = 0;
        r = ZSTD_compressStream2(c, &ob, &ib, dir); if (ZSTD_isError(r)) return r; pos += ib.pos; out += ob.pos; if (dir == ZSTD_e_end && r == 0) { *produced = out; return 0; } }
    return (size_t)-ZSTD_error_GENERIC; }
static size_t dec_stream(ZSTD_DCtx* d, const unsigned char* f, size_t fs, size_t chunk, size_t* produced) {
    size_t pos = 0, out = 0; int guard = 0; size_t r = 1;
    while (guard++ < 1000000 && (pos < fs || r != 0)) { ZSTD_inBuffer ib; ZSTD_outBuffer ob; size_t isz = chunk < fs - pos ? chunk : fs - pos;
        ib.src = f + pos; ib.size = isz; ib.pos = 0; ob.dst = BACK + out; ob.size = (BIG - out) < 30000 ? BIG - out : 30000; ob.pos = 0;
        r = ZSTD_decompressStream(d, &ob, &ib); if (ZSTD_isError(r)) return r; pos += ib.pos; out += ob.pos; if (pos == fs && ib.pos == 0 && ob.pos == 0) break; }
    *produced = out; return r; }

/* -- compression contexts -- */
static void su_none(S* s) { (void)s; }
static void su_cctx(S* s) { s->c = ZSTD_createCCtx_advanced(CM); }
static void su_cctx_warm(S* s) { s->c = ZSTD_createCCtx_advanced(CM); set(s->c, ZSTD_c_compressionLevel, 1); ZSTD_compress2(s->c, DST, DSTCAP, SRC, 3000); }
static void rs_cctx(S* s) { if (s->c) ZSTD_CCtx_reset(s->c, ZSTD_reset_session_only); }
static size_t check_c(size_t r, size_t n, const void* dict, size_t dn, char* why) { if (!ZSTD_isError(r) && !rt_ok(SRC, n, DST, r, dict, dn)) { strcpy(why, "round trip"); return (size_t)-ZSTD_error_GENERIC; } return r; }
static size_t op_create_cctx(S* s, char* why) { (void)why; if (!s->c) s->c = ZSTD_createCCtx_advanced(CM); return s->c ? 0 : NULLRES; }
static size_t op_oneshot(S* s, char* why, int level, size_t n) { size_t r; if (!s->c) return NULLRES; r = set(s->c, ZSTD_c_compressionLevel, level); if (ZSTD_isError(r)) return r; return check_c(ZSTD_compress2(s->c, DST, DSTCAP, SRC, n), n, NULL, 0, why); }
static size_t op_oneshot3(S* s, char* why) { return op_oneshot(s, why, 3, 200000); }
static size_t op_oneshot_grow(S* s, char* why) { return op_oneshot(s, why, 6, 1000000); }
static size_t op_oneshot19(S* s, char* why) { return op_oneshot(s, why, 19, 150000); }
static size_t op_oneshot_ldm(S* s, char* why) { if (!s->c) return NULLRES; set(s->c, ZSTD_c_enableLongDistanceMatching, 1); set(s->c, ZSTD_c_windowLog, 21); return op_oneshot(s, why, 5, 1500000); }
static size_t op_stream(S* s, char* why) { size_t out = 0, r; if (!s->c) return NULLRES; set(s->c, ZSTD_c_compressionLevel, 5); r = comp_stream(s->c, SRC, 700000, 50000, &out); if (ZSTD_isError(r)) return r; return check_c(out, 700000, NULL, 0, why); }
static size_t op_loaddict(S* s, char* why) { size_t r; if (!s->c) return NULLRES; r = ZSTD_CCtx_loadDictionary(s->c, DICT, DICTSZ); if (ZSTD_isError(r)) return r; r = ZSTD_compress2(s->c, DST, DSTCAP, SRC, 100000); return check_c(r, 100000, DICT, DICTSZ, why); }
static size_t op_loaddict_byref(S* s, char* why) { size_t r; if (!s->c) return NULLRES; r = ZSTD_CCtx_loadDictionary_byReference(s->c, DICT, DICTSZ); if (ZSTD_isError(r)) return r; set(s->c, ZSTD_c_compressionLevel, 7); r = ZSTD_compress2(s->c, DST, DSTCAP, SRC, 100000); return check_c(r, 100000, DICT, DICTSZ, why); }
static size_t op_usingdict(S* s, char* why) { size_t r; if (!s->c) return NULLRES; r = ZSTD_compress_usingDict(s->c, DST, DSTCAP, SRC, 60000, DICT, DICTSZ, 4); return check_c(r, 60000, DICT, DICTSZ, why); }
static size_t op_cdict(S* s, char* why) { size_t r; if (!s->c) return NULLRES; if (!s->cd) s->cd = ZSTD_createCDict_advanced(DICT, DICTSZ, ZSTD_dlm_byCopy, ZSTD_dct_auto, ZSTD_getCParams(3, 0, DICTSZ), CM); if (!s->cd) return NULLRES;
    r = ZSTD_compress_usingCDict(s->c, DST, DSTCAP, SRC, 80000, s->cd); return check_c(r, 80000, DICT, DICTSZ, why); }
static size_t op_cdict_ref(S* s, char* why) { size_t r; if (!s->c) return NULLRES; if (!s->cd) s->cd = ZSTD_createCDict_advanced(DICT, DICTSZ, ZSTD_dlm_byRef, ZSTD_dct_auto, ZSTD_getCParams(9, 0, DICTSZ), CM); if (!s->cd) return NULLRES;
    r = ZSTD_CCtx_refCDict(s->c, s->cd); if (ZSTD_isError(r)) return r; r = ZSTD_compress2(s->c, DST, DSTCAP, SRC, 300000); return check_c(r, 300000, DICT, DICTSZ, why); }
static size_t op_prefix(S* s, char* why) { size_t r; if (!s->c) return NULLRES; r = ZSTD_CCtx_refPrefix(s->c, DICT, DICTSZ); if (ZSTD_isError(r)) return r; r = ZSTD_compress2(s->c, DST, DSTCAP, SRC, 50000); return check_c(r, 50000, DICT, DICTSZ, why); }
/* -- multithreaded -- */
static size_t op_mt(S* s, char* why, int workers, int ldm, int jobSize, size_t n, int stream) { size_t r, out = 0; if (!s->c) return NULLRES;
    r = set(s->c, ZSTD_c_nbWorkers, workers); if (ZSTD_isError(r)) return r; set(s->c, ZSTD_c_compressionLevel, 2); if (jobSize) set(s->c, ZSTD_c_jobSize, jobSize);
    if (ldm) { set(s->c, ZSTD_c_enableLongDistanceMatching, 1); set(s->c, ZSTD_c_windowLog, 20); } set(s->c, ZSTD_c_checksumFlag, 1);
    if (stream) { r = comp_stream(s->c, SRC, n, 200000, &out); if (ZSTD_isError(r)) return r; } else { r = ZSTD_compress2(s->c, DST, DSTCAP, SRC, n); if (ZSTD_isError(r)) return r; out = r; }
    return check_c(out, n, NULL, 0, why); }
static size_t op_mt1(S* s, char* why) { return op_mt(s, why, 1, 0, 0, 1500000, 0); }
static size_t op_mt2_ldm(S* s, char* why) { return op_mt(s, why, 2, 1, 0, 2500000, 1); }
static size_t op_mt3_stream(S* s, char* why) { return op_mt(s, why, 3, 0, 524288, 2000000, 1); }
static void su_mt_warm(S* s) { char why[64]; s->c = ZSTD_createCCtx_advanced(CM); op_mt(s, why, 2, 1, 524288, 1200000, 0); ZSTD_CCtx_reset(s->c, ZSTD_reset_session_only); }
static size_t op_mt_grow(S* s, char* why) { return op_mt(s, why, 2, 1, 1048576, 2500000, 0); }       /* job size grows: pooled buffers too small */
static size_t op_mt_more_workers(S* s, char* why) { return op_mt(s, why, 4, 0, 524288, 2500000, 1); }  /* worker count changes: pools resized */
/* -- decompression -- */
static void su_frames(S* s) { ZSTD_CCtx* c = ZSTD_createCCtx(); size_t r; s->plain = 1; ZSTD_CCtx_setParameter(c, ZSTD_c_windowLog, 17); ZSTD_CCtx_setParameter(c, ZSTD_c_checksumFlag, 1); ZSTD_CCtx_setParameter(c, ZSTD_c_contentSizeFlag, 0);
    r = ZSTD_compress2(c, DST, DSTCAP, SRC, 300000); s->frame = (unsigned char*)malloc(r); memcpy(s->frame, DST, r); s->fsz = r;
    ZSTD_CCtx_setParameter(c, ZSTD_c_windowLog, 21); r = ZSTD_compress2(c, DST, DSTCAP, SRC, 2500000); s->frame2 = (unsigned char*)malloc(r); memcpy(s->frame2, DST, r); s->fsz2 = r; s->n2 = 2500000; ZSTD_freeCCtx(c); }
static void su_dctx(S* s) { su_frames(s); s->d = ZSTD_createDCtx_advanced(CM); }
static void su_dctx_warm(S* s) { size_t out; su_frames(s); s->d = ZSTD_createDCtx_advanced(CM); dec_stream(s->d, s->frame, s->fsz, 10000, &out); }
static void rs_dctx(S* s) { if (s->d) ZSTD_DCtx_reset(s->d, ZSTD_reset_session_only); }
static size_t op_create_dctx(S* s, char* why) { (void)why; if (!s->d) s->d = ZSTD_createDCtx_advanced(CM); return s->d ? 0 : NULLRES; }
static size_t fin_d(size_t r, size_t out, size_t n, char* why) { if (ZSTD_isError(r)) return r; if (r != 0 || out != n || memcmp(BACK, SRC, n)) { strcpy(why, "decoded bytes"); return (size_t)-ZSTD_error_GENERIC; } return 0; }
static size_t op_dstream(S* s, char* why) { size_t out = 0, r; if (!s->d) return NULLRES; r = dec_stream(s->d, s->frame, s->fsz, 10000, &out); return fin_d(r, out, 300000, why); }
static size_t op_dstream_grow(S* s, char* why) { size_t out = 0, r; if (!s->d) return NULLRES; r = dec_stream(s->d, s->frame2, s->fsz2, 30000, &out); return fin_d(r, out, s->n2, why); }
static size_t op_doneshot(S* s, char* why) { size_t r; if (!s->d) return NULLRES; r = ZSTD_decompressDCtx(s->d, BACK, BIG, s->frame, s->fsz); if (ZSTD_isError(r)) return r; return fin_d(0, r, 300000, why); }
static void su_dctx_dictframe(S* s) { ZSTD_CCtx* c = ZSTD_createCCtx(); size_t r = ZSTD_compress_usingDict(c, DST, DSTCAP, SRC, 90000, DICT, DICTSZ, 3); s->frame = (unsigned char*)malloc(r); memcpy(s->frame, DST, r); s->fsz = r; ZSTD_freeCCtx(c); s->d = ZSTD_createDCtx_advanced(CM); }
static size_t op_d_loaddict(S* s, char* why) { size_t out = 0, r; if (!s->d) return NULLRES; r = ZSTD_DCtx_loadDictionary(s->d, DICT, DICTSZ); if (ZSTD_isError(r)) return r; r = dec_stream(s->d, s->frame, s->fsz, 5000, &out); return fin_d(r, out, 90000, why); }
static size_t op_d_ddict(S* s, char* why) { size_t out = 0, r; if (!s->d) return NULLRES; if (!s->dd) s->dd = ZSTD_createDDict_advanced(DICT, DICTSZ, ZSTD_dlm_byCopy, ZSTD_dct_auto, CM); if (!s->dd) return NULLRES;
    r = ZSTD_DCtx_refDDict(s->d, s->dd); if (ZSTD_isError(r)) return r; r = dec_stream(s->d, s->frame, s->fsz, 5000, &out); return fin_d(r, out, 90000, why); }
static size_t op_d_multiddict(S* s, char* why) { size_t out = 0, r = 0; int i; if (!s->d) return NULLRES; ZSTD_DCtx_setParameter(s->d, ZSTD_d_refMultipleDDicts, ZSTD_rmd_refMultipleDDicts);
    for (i = 0; i < 40 && !ZSTD_isError(r); i++) { unsigned char buf[300]; size_t n = ZDICT_finalizeDictionary(buf, sizeof buf, DICT, 200, SRC, (size_t[]){ 2000, 2000 }, 2, (ZDICT_params_t){ 0, 0, (unsigned)(1000 + i) });
        if (ZSTD_isError(n)) { memcpy(buf, DICT, 300); n = 300; }
        if (!s->dds[i]) { s->dds[i] = ZSTD_createDDict_advanced(buf, n, ZSTD_dlm_byCopy, ZSTD_dct_auto, CM); if (s->ndds < i + 1) s->ndds = i + 1; } if (!s->dds[i]) return NULLRES;
        r = ZSTD_DCtx_refDDict(s->d, s->dds[i]); }
    if (ZSTD_isError(r)) return r;
    if (!s->dd) s->dd = ZSTD_createDDict_advanced(DICT, DICTSZ, ZSTD_dlm_byRef, ZSTD_dct_auto, CM); if (!s->dd) return NULLRES;
    r = ZSTD_DCtx_refDDict(s->d, s->dd); if (ZSTD_isError(r)) return r;
    r = dec_stream(s->d, s->frame, s->fsz, 5000, &out); return fin_d(r, out, 90000, why); }
/* -- dictionary training (malloc redirected in zvh_fault_zdict.c) -- */
static size_t train(int algo, char* why) { size_t sizes[400]; size_t i, tot = 0; unsigned char* d = (unsigned char*)malloc(20000); size_t r;
    for (i = 0; i < 400; i++) { sizes[i] = 500 + (i * 37) % 900; tot += sizes[i]; }
    if (algo == 0) { ZDICT_cover_params_t p; memset(&p, 0, sizeof p); p.k = 200; p.d = 8; r = ZDICT_trainFromBuffer_cover(d, 20000, SRC, sizes, 400, p); }
    else if (algo == 1) { ZDICT_fastCover_params_t p; memset(&p, 0, sizeof p); p.k = 200; p.d = 8; p.f = 16; p.accel = 2; r = ZDICT_trainFromBuffer_fastCover(d, 20000, SRC, sizes, 400, p); }
    else if (algo == 2) { ZDICT_legacy_params_t p; memset(&p, 0, sizeof p); r = ZDICT_trainFromBuffer_legacy(d, 20000, SRC, sizes, 400, p); }
    else if (algo == 3) { ZDICT_fastCover_params_t p; memset(&p, 0, sizeof p); p.d = 8; p.f = 14; p.steps = 4; p.nbThreads = 2; p.accel = 4; r = ZDICT_optimizeTrainFromBuffer_fastCover(d, 20000, SRC, sizes, 400, &p); }
    else { ZDICT_cover_params_t p; memset(&p, 0, sizeof p); p.d = 8; p.steps = 3; p.nbThreads = 1; r = ZDICT_optimizeTrainFromBuffer_cover(d, 20000, SRC, sizes, 200, &p); }
    if (!ZDICT_isError(r)) { ZSTD_CCtx* c = ZSTD_createCCtx(); size_t cs = ZSTD_compress_usingDict(c, DST, DSTCAP, SRC, sizes[0], d, r, 3); ZSTD_freeCCtx(c);
        if (ZSTD_isError(cs) || !rt_ok(SRC, sizes[0], DST, cs, d, r)) { strcpy(why, "trained dictionary unusable"); r = (size_t)-ZSTD_error_GENERIC; } else r = 0; }
    free(d); (void)tot; return r; }
static size_t op_train_cover(S* s, char* why) { (void)s; return train(0, why); }
static size_t op_train_fastcover(S* s, char* why) { (void)s; return train(1, why); }
static size_t op_train_legacy(S* s, char* why) { (void)s; return train(2, why); }
static size_t op_opt_fastcover(S* s, char* why) { (void)s; return train(3, why); }
static size_t op_opt_cover(S* s, char* why) { (void)s; return train(4, why); }

/* -- objects the caller still owns must survive a failed call (own_*): a thread pool attached with ZSTD_CCtx_refThreadPool and shared by two
 *    contexts, a CDict / DDict that contexts only reference (also the members of the multi-DDict hash set), the buffer behind refPrefix /
 *    loadDictionary_byReference / a by-reference CDict or DDict.  The caller creates them between own_begin and own_end (their blocks are
 *    declared in the log), the faulted call runs on a context that references them, and right afterwards: every declared block is still
 *    live, the pool's threads are still there, the referenced buffer is unchanged, and a second context can use the objects. -- */
#include <dirent.h>
ZSTD_threadPool* POOL_create_advanced(size_t numThreads, size_t queueSize, ZSTD_customMem customMem);   /* lib/common/pool.h : a pool whose blocks come from the ledger's allocator */
#define GENERIC_ ((size_t)-ZSTD_error_GENERIC)
static int count_tasks(void) { DIR* d = opendir("/proc/self/task"); struct dirent* e; int n = 0; if (!d) return -1; while ((e = readdir(d))) if (e->d_name[0] != '.') n++; closedir(d); return n; }
static void own_buf(S* s) { s->osz = DICTSZ; s->obuf = (unsigned char*)zv_fault_alloc(DICTSZ); memcpy(s->obuf, DICT, DICTSZ); s->ocopy = (unsigned char*)malloc(DICTSZ); memcpy(s->ocopy, DICT, DICTSZ); }
static size_t buf_same(S* s, char* why) { if (s->obuf && memcmp(s->obuf, s->ocopy, s->osz)) { strcpy(why, "caller-buffer-modified"); return GENERIC_; } return 0; }
/* shared thread pool */
static size_t probe_pool(S* s, char* why) { size_t r; int const t = count_tasks();
    if (s->tasks0 > 0 && t != s->tasks0) { sprintf(why, "pool-threads:%d->%d", s->tasks0, t); return GENERIC_; }
    ZSTD_CCtx_reset(s->c2, ZSTD_reset_session_and_parameters); r = ZSTD_CCtx_refThreadPool(s->c2, s->pool); if (ZSTD_isError(r)) return r;
    set(s->c2, ZSTD_c_nbWorkers, 1); set(s->c2, ZSTD_c_compressionLevel, 1);
    r = ZSTD_compress2(s->c2, DST, DSTCAP, SRC + 4096, 700000); if (ZSTD_isError(r)) return r;
    if (!rt_ok(SRC + 4096, 700000, DST, r, NULL, 0)) { strcpy(why, "second-context-on-shared-pool:round-trip"); return GENERIC_; }
    return 0; }
static void su_own_pool_(S* s, int threads, int ledger, int warm) { char why[64];
    own_begin(); s->poolLedger = ledger; s->pool = ledger ? POOL_create_advanced((size_t)threads, 0, CM) : ZSTD_createThreadPool((size_t)threads); own_end();
    s->c = ZSTD_createCCtx_advanced(CM); s->c2 = ZSTD_createCCtx_advanced(CM);
    s->tasks0 = 0; probe_pool(s, why);                       /* the second context really shares the pool: it has compressed with it */
    if (warm) { ZSTD_CCtx_refThreadPool(s->c, s->pool); op_mt(s, why, 2, 0, 524288, 1200000, 0); ZSTD_CCtx_reset(s->c, ZSTD_reset_session_only); }
    s->tasks0 = count_tasks(); }
static void su_own_pool(S* s) { su_own_pool_(s, 2, 1, 0); }
static void su_own_pool_public(S* s) { su_own_pool_(s, 3, 0, 0); }
static void su_own_pool_warm(S* s) { su_own_pool_(s, 4, 1, 1); }
static size_t op_own_pool(S* s, char* why, int workers, int ldm, int jobSize, size_t n, int stream) { size_t r; if (!s->c || !s->pool) return NULLRES;
    r = ZSTD_CCtx_refThreadPool(s->c, s->pool); if (ZSTD_isError(r)) return r; return op_mt(s, why, workers, ldm, jobSize, n, stream); }
static size_t op_own_pool_mt(S* s, char* why) { return op_own_pool(s, why, 2, 0, 0, 1500000, 0); }
static size_t op_own_pool_mt_public(S* s, char* why) { return op_own_pool(s, why, 3, 1, 524288, 2000000, 1); }
static size_t op_own_pool_mt_more_workers(S* s, char* why) { return op_own_pool(s, why, 4, 0, 524288, 2500000, 1); }   /* existing mtctx on the caller's pool: pools / job table resized */
/* The caller gives a frame up and frees the context while jobs of that context are in flight on the BORROWED pool (what a caller does after any
 * mid-stream error, here also with the k-th request failing somewhere before).  The pool's threads outlive the context, so ZSTD_freeCCtx itself has to
 * wait for the jobs it posted: a job still running when it returns works on the freed job table / buffer, cctx and sequence pools / round buffer.
 * Monitors: ZSTD_freeCCtx does not return while a job of the context is parked in the allocator (probe=FAIL:context-freed-while-N-of-its-jobs-ran),
 * the ledger of the whole run is clean (a job that outlives its context allocates into pools nobody frees), the pool's blocks and threads survive,
 * a second context compresses on the pool, ASan sees no access to the quarantined blocks. */
typedef struct { int poolThreads; int workers; int ldm; int level; int jobSize; int flushFirst; int parkFrom; size_t feed; } abandon_t;
static volatile int g_inFree, g_parkStop;
static long now_ms(void) { struct timespec ts; clock_gettime(CLOCK_MONOTONIC, &ts); return (long)(ts.tv_sec * 1000 + ts.tv_nsec / 1000000); }
static void* park_helper(void* o) { long const t0 = now_ms(); long tf = -1; (void)o;
    for (;;) { usleep(2000); if (g_parkStop) break; if (g_inFree && tf < 0) tf = now_ms();
        if (tf >= 0 && now_ms() - tf >= 120) break;            /* the caller has been inside ZSTD_freeCCtx for 120 ms */
        if (now_ms() - t0 >= 3000) break; }                    /* safety: never hold a job for more than 3 s */
    __atomic_store_n(&g_parkRelease, 1, __ATOMIC_SEQ_CST); return NULL; }
static size_t op_abandon(S* s, char* why, abandon_t a) { size_t r = 0; pthread_t h; ZSTD_inBuffer ib; ZSTD_outBuffer ob; int guard, early; size_t off = 0; (void)why;
    if (!s->pool) return NULLRES;
    if (!s->c) s->c = ZSTD_createCCtx_advanced(CM);
    if (!s->c) return NULLRES;
    r = ZSTD_CCtx_refThreadPool(s->c, s->pool);
    if (!ZSTD_isError(r)) r = set(s->c, ZSTD_c_nbWorkers, a.workers);
    if (!ZSTD_isError(r)) { set(s->c, ZSTD_c_compressionLevel, a.level); set(s->c, ZSTD_c_jobSize, a.jobSize); set(s->c, ZSTD_c_checksumFlag, 1);
        if (a.ldm) { set(s->c, ZSTD_c_enableLongDistanceMatching, 1); set(s->c, ZSTD_c_windowLog, 20); } }
    if (!ZSTD_isError(r) && a.flushFirst) {        /* some jobs of the frame are already complete and flushed (doneJobID > 0) */
        ib.src = SRC; ib.size = (size_t)a.jobSize + 70000; ib.pos = 0; ob.dst = DST; ob.size = DSTCAP; ob.pos = 0;
        for (guard = 0; guard < 100000; guard++) { r = ZSTD_compressStream2(s->c, &ob, &ib, ZSTD_e_flush); if (ZSTD_isError(r) || (r == 0 && ib.pos == ib.size)) break; }
        off = ib.size; }
    g_parkSeen = 0; g_parkedNow = 0; g_parkRelease = 0; g_parkStop = 0; g_inFree = 0; g_parkFrom = a.parkFrom;
    pthread_create(&h, NULL, park_helper, NULL);
    if (!ZSTD_isError(r)) { ib.src = SRC + off; ib.size = a.feed; ib.pos = 0; ob.dst = DST; ob.size = 0; ob.pos = 0;
        for (guard = 0; guard < 64 && ib.pos < ib.size; guard++) { r = ZSTD_compressStream2(s->c, &ob, &ib, ZSTD_e_continue); if (ZSTD_isError(r)) break; } }
    if (!ZSTD_isError(r) && a.parkFrom > 0) { long const t0 = now_ms();      /* a posted job reaches the allocator within a few ms */
        while (!__atomic_load_n(&g_parkedNow, __ATOMIC_SEQ_CST) && now_ms() - t0 < 400) usleep(500); }
    /* whatever happened so far, the caller abandons the frame and releases the context */
    g_inFree = 1;
    ZSTD_freeCCtx(s->c); s->c = NULL;
    early = __atomic_load_n(&g_parkedNow, __ATOMIC_SEQ_CST);
    pthread_join(h, NULL);
    { long const t0 = now_ms(); while (__atomic_load_n(&g_parkedNow, __ATOMIC_SEQ_CST) && now_ms() - t0 < 2000) usleep(500); }
    if (early) { usleep(60000); s->earlyFree = early; }       /* let the outliving job run on: the sanitizer build sees what it touches */
    g_parkFrom = 0; g_inFree = 0;
    return ZSTD_isError(r) ? r : 0; }
static size_t probe_pool_abandon(S* s, char* why) { if (s->earlyFree) { sprintf(why, "context-freed-while-%d-of-its-jobs-ran", s->earlyFree); return GENERIC_; } return probe_pool(s, why); }
static void su_own_pool_abandon(S* s) { su_own_pool_(s, 2, 1, 0); }
static void su_own_pool_abandon_public(S* s) { su_own_pool_(s, 3, 0, 0); }
static void su_own_pool_abandon_warm(S* s) { su_own_pool_(s, 4, 1, 1); }
static size_t op_own_pool_mt_abandon(S* s, char* why) { abandon_t const a = { 2, 2, 0, 1, 524288, 0, 1, 524288 + 300000 }; return op_abandon(s, why, a); }                 /* job 0 has not allocated anything yet */
static size_t op_own_pool_mt_abandon_ldm(S* s, char* why) { abandon_t const a = { 3, 3, 1, 3, 1048576, 0, 2, 2 * 1048576 + 300000 }; return op_abandon(s, why, a); }       /* two jobs posted, one past its first request; pool not visible to the ledger */
static size_t op_own_pool_mt_abandon_flushed(S* s, char* why) { abandon_t const a = { 2, 1, 0, 1, 524288, 1, 1, 524288 + 100000 }; return op_abandon(s, why, a); }         /* earlier jobs of the frame complete and flushed */
static size_t op_own_pool_mt_abandon_warm(S* s, char* why) { abandon_t const a = { 4, 3, 0, 5, 524288, 0, 3, 3 * 524288 + 100000 }; return op_abandon(s, why, a); }         /* the context had compressed on the pool before; three jobs */
/* referenced CDict (by reference on the caller's buffer) */
static void su_own_cdict_(S* s, int warm) { own_begin(); own_buf(s); s->cd = ZSTD_createCDict_advanced(s->obuf, s->osz, ZSTD_dlm_byRef, ZSTD_dct_auto, ZSTD_getCParams(3, 0, DICTSZ), CM); own_end();
    if (warm) su_cctx_warm(s); else su_cctx(s); s->c2 = ZSTD_createCCtx_advanced(CM); }
static void su_own_cdict(S* s) { su_own_cdict_(s, 0); }
static void su_own_cdict_warm(S* s) { su_own_cdict_(s, 1); }
static size_t probe_cdict(S* s, char* why) { size_t r = buf_same(s, why); if (ZSTD_isError(r)) return r;
    r = ZSTD_compress_usingCDict(s->c2, DST, DSTCAP, SRC + 8192, 80000, s->cd); if (ZSTD_isError(r)) return r;
    if (!rt_ok(SRC + 8192, 80000, DST, r, DICT, DICTSZ)) { strcpy(why, "second-context-on-referenced-cdict:round-trip"); return GENERIC_; } return 0; }
static size_t op_own_cdict_mt(S* s, char* why) { size_t r; if (!s->c || !s->cd) return NULLRES; r = ZSTD_CCtx_refCDict(s->c, s->cd); if (ZSTD_isError(r)) return r;
    r = set(s->c, ZSTD_c_nbWorkers, 1); if (ZSTD_isError(r)) return r; set(s->c, ZSTD_c_checksumFlag, 1); r = ZSTD_compress2(s->c, DST, DSTCAP, SRC, 1200000); return check_c(r, 1200000, DICT, DICTSZ, why); }
static size_t op_own_cdict_grow(S* s, char* why) { size_t r; if (!s->c || !s->cd) return NULLRES; r = ZSTD_CCtx_refCDict(s->c, s->cd); if (ZSTD_isError(r)) return r;
    r = ZSTD_compress2(s->c, DST, DSTCAP, SRC, 1000000); return check_c(r, 1000000, DICT, DICTSZ, why); }
/* referenced prefix / dictionary loaded by reference */
static void su_own_prefix_(S* s, int warm) { own_begin(); own_buf(s); own_end(); if (warm) su_cctx_warm(s); else su_cctx(s); s->c2 = ZSTD_createCCtx_advanced(CM); }
static void su_own_prefix(S* s) { su_own_prefix_(s, 0); }
static void su_own_prefix_warm(S* s) { su_own_prefix_(s, 1); }
static size_t probe_prefix(S* s, char* why) { size_t r = buf_same(s, why); if (ZSTD_isError(r)) return r;
    ZSTD_CCtx_reset(s->c2, ZSTD_reset_session_and_parameters); r = ZSTD_CCtx_refPrefix(s->c2, s->obuf, s->osz); if (ZSTD_isError(r)) return r;
    r = ZSTD_compress2(s->c2, DST, DSTCAP, SRC + 8192, 50000); if (ZSTD_isError(r)) return r;
    if (!rt_ok(SRC + 8192, 50000, DST, r, DICT, DICTSZ)) { strcpy(why, "second-context-on-referenced-prefix:round-trip"); return GENERIC_; } return 0; }
static size_t op_own_prefix_mt(S* s, char* why) { size_t r; if (!s->c || !s->obuf) return NULLRES; r = ZSTD_CCtx_refPrefix(s->c, s->obuf, s->osz); if (ZSTD_isError(r)) return r;
    r = set(s->c, ZSTD_c_nbWorkers, 1); if (ZSTD_isError(r)) return r; set(s->c, ZSTD_c_compressionLevel, 3); r = ZSTD_compress2(s->c, DST, DSTCAP, SRC, 1200000); return check_c(r, 1200000, DICT, DICTSZ, why); }
static size_t op_own_prefix_grow(S* s, char* why) { size_t r; if (!s->c || !s->obuf) return NULLRES; r = ZSTD_CCtx_refPrefix(s->c, s->obuf, s->osz); if (ZSTD_isError(r)) return r;
    set(s->c, ZSTD_c_compressionLevel, 6); r = ZSTD_compress2(s->c, DST, DSTCAP, SRC, 1000000); return check_c(r, 1000000, DICT, DICTSZ, why); }
static size_t op_own_dictref_mt(S* s, char* why) { size_t r; if (!s->c || !s->obuf) return NULLRES; r = ZSTD_CCtx_loadDictionary_byReference(s->c, s->obuf, s->osz); if (ZSTD_isError(r)) return r;
    r = set(s->c, ZSTD_c_nbWorkers, 2); if (ZSTD_isError(r)) return r; set(s->c, ZSTD_c_compressionLevel, 2); r = ZSTD_compress2(s->c, DST, DSTCAP, SRC, 1500000); return check_c(r, 1500000, DICT, DICTSZ, why); }
/* referenced DDict (by reference on the caller's buffer), prefix on the decoding side */
static void su_own_dframe(S* s) { ZSTD_CCtx* c = ZSTD_createCCtx(); size_t r = ZSTD_compress_usingDict(c, DST, DSTCAP, SRC, 90000, DICT, DICTSZ, 3); s->frame = (unsigned char*)malloc(r); memcpy(s->frame, DST, r); s->fsz = r; ZSTD_freeCCtx(c); }
static void su_own_ddict(S* s) { su_own_dframe(s); own_begin(); own_buf(s); s->dd = ZSTD_createDDict_advanced(s->obuf, s->osz, ZSTD_dlm_byRef, ZSTD_dct_auto, CM); own_end();
    s->d = ZSTD_createDCtx_advanced(CM); s->d2 = ZSTD_createDCtx_advanced(CM); }
static void su_own_dprefix(S* s) { su_own_dframe(s); own_begin(); own_buf(s); own_end(); s->d = ZSTD_createDCtx_advanced(CM); s->d2 = ZSTD_createDCtx_advanced(CM); }
static size_t probe_ddict(S* s, char* why) { size_t r = buf_same(s, why); if (ZSTD_isError(r)) return r;
    r = s->dd ? ZSTD_decompress_usingDDict(s->d2, BACK, BIG, s->frame, s->fsz, s->dd) : ZSTD_decompress_usingDict(s->d2, BACK, BIG, s->frame, s->fsz, s->obuf, s->osz); if (ZSTD_isError(r)) return r;
    if (r != 90000 || memcmp(BACK, SRC, 90000)) { strcpy(why, "second-context-on-referenced-dictionary:decoded-bytes"); return GENERIC_; } return 0; }
static size_t op_own_ddict(S* s, char* why) { size_t out = 0, r; if (!s->d || !s->dd) return NULLRES; r = ZSTD_DCtx_refDDict(s->d, s->dd); if (ZSTD_isError(r)) return r;
    r = dec_stream(s->d, s->frame, s->fsz, 5000, &out); return fin_d(r, out, 90000, why); }
static size_t op_own_dprefix(S* s, char* why) { size_t out = 0, r; if (!s->d || !s->obuf) return NULLRES; r = ZSTD_DCtx_refPrefix(s->d, s->obuf, s->osz); if (ZSTD_isError(r)) return r;
    r = dec_stream(s->d, s->frame, s->fsz, 5000, &out); return fin_d(r, out, 90000, why); }
/* 40 DDicts of the caller in the multi-DDict hash set of a context: the set is created and grows twice DURING the operation (the DDicts exist
 * before it), then frames naming dictionaries inserted before / at / after each growth are decoded */
#define NMD 40
static void su_own_ddicts(S* s) { ZSTD_CCtx* c = ZSTD_createCCtx(); int i;
    for (i = 0; i < NMD; i++) { unsigned char* buf = (unsigned char*)malloc(1000); size_t sizes[2] = { 2000, 2000 }; ZDICT_params_t zp; size_t n, r; memset(&zp, 0, sizeof zp); zp.dictID = (unsigned)(1000 + i);
        n = ZDICT_finalizeDictionary(buf, 1000, DICT + 64 * i, 600, SRC, sizes, 2, zp); if (ZDICT_isError(n) || ZSTD_getDictID_fromDict(buf, n) != (unsigned)(1000 + i)) n = 0;
        s->mdict[i] = buf; s->mdictSz[i] = n;
        r = ZSTD_compress_usingDict(c, DST, DSTCAP, SRC + 5000 * i, 20000, buf, n, 3); if (ZSTD_isError(r)) r = 0; s->mframe[i] = (unsigned char*)malloc(r + 1); memcpy(s->mframe[i], DST, r); s->mfsz[i] = r; }
    ZSTD_freeCCtx(c);
    own_begin(); for (i = 0; i < NMD; i++) s->dds[i] = s->mdictSz[i] ? ZSTD_createDDict_advanced(s->mdict[i], s->mdictSz[i], ZSTD_dlm_byCopy, ZSTD_dct_auto, CM) : NULL; s->ndds = NMD; own_end();
    s->d = ZSTD_createDCtx_advanced(CM); s->d2 = ZSTD_createDCtx_advanced(CM); }
static size_t md_ref_all(ZSTD_DCtx* d, S* s) { int i; size_t r = ZSTD_DCtx_setParameter(d, ZSTD_d_refMultipleDDicts, ZSTD_rmd_refMultipleDDicts); if (ZSTD_isError(r)) return r;
    for (i = 0; i < NMD; i++) { if (!s->dds[i]) return GENERIC_; r = ZSTD_DCtx_refDDict(d, s->dds[i]); if (ZSTD_isError(r)) return r; } return 0; }
static size_t md_decode(ZSTD_DCtx* d, S* s, int i, int stream, char* why) { size_t r, out = 0;
    if (stream) { r = dec_stream(d, s->mframe[i], s->mfsz[i], 3000, &out); if (ZSTD_isError(r)) return r; if (r != 0) out = 0; }
    else { r = ZSTD_decompressDCtx(d, BACK, BIG, s->mframe[i], s->mfsz[i]); if (ZSTD_isError(r)) return r; out = r; }
    if (out != 20000 || memcmp(BACK, SRC + 5000 * i, 20000)) { sprintf(why, "multi-ddict-frame-%d:decoded-bytes", i); return GENERIC_; } return 0; }
static size_t op_own_ddicts(S* s, char* why) { static int const pick[] = { 0, 5, 15, 16, 17, 31, 32, 33, 39 }; size_t r, j; if (!s->d) return NULLRES;
    r = md_ref_all(s->d, s); if (ZSTD_isError(r)) return r;
    for (j = 0; j < sizeof pick / sizeof pick[0]; j++) { r = md_decode(s->d, s, pick[j], (int)(j & 1), why); if (ZSTD_isError(r)) return r; }
    return 0; }
static size_t probe_ddicts(S* s, char* why) { size_t r = md_ref_all(s->d2, s); if (ZSTD_isError(r)) return r; r = md_decode(s->d2, s, 3, 0, why); if (ZSTD_isError(r)) return r; r = md_decode(s->d2, s, 38, 1, why);
    ZSTD_DCtx_reset(s->d2, ZSTD_reset_session_and_parameters); return r; }

static size_t alt_small(S* s, char* why) {
    if (s->c) { size_t r; ZSTD_CCtx_reset(s->c, ZSTD_reset_session_and_parameters); r = set(s->c, ZSTD_c_compressionLevel, 1); if (ZSTD_isError(r)) return r; r = ZSTD_compress2(s->c, DST, DSTCAP, SRC, 3000);
        if (ZSTD_isError(r)) return r; if (!rt_ok(SRC, 3000, DST, r, NULL, 0)) { strcpy(why, "small job after failure: round trip"); return (size_t)-ZSTD_error_GENERIC; } }
    if (s->d && s->frame && s->fsz && s->plain) { size_t out = 0; size_t r; unsigned char head[4]; memcpy(head, s->frame, 4);
        /* only plain frames (no dictionary): the first warm-up frame of the decoding scenarios */
        if (ZSTD_getDictID_fromFrame(s->frame, s->fsz) == 0) { ZSTD_DCtx_reset(s->d, ZSTD_reset_session_only); r = dec_stream(s->d, s->frame, s->fsz, 10000, &out); if (ZSTD_isError(r)) return r;
            if (r != 0 || memcmp(BACK, SRC, out < 1000 ? out : 1000)) { strcpy(why, "small frame after failure: decoded bytes"); return (size_t)-ZSTD_error_GENERIC; } } }
    return 0; }
static scen_t const SCEN[] = {
    { "create_cctx", su_none, op_create_cctx, rs_cctx }, { "oneshot3", su_cctx, op_oneshot3, rs_cctx }, { "oneshot_grow", su_cctx_warm, op_oneshot_grow, rs_cctx },
    { "oneshot19", su_cctx, op_oneshot19, rs_cctx }, { "oneshot_ldm", su_cctx_warm, op_oneshot_ldm, rs_cctx }, { "stream", su_cctx, op_stream, rs_cctx }, { "stream_grow", su_cctx_warm, op_stream, rs_cctx },
    { "loaddict", su_cctx, op_loaddict, rs_cctx }, { "loaddict_byref", su_cctx_warm, op_loaddict_byref, rs_cctx }, { "usingdict", su_cctx, op_usingdict, rs_cctx },
    { "cdict", su_cctx, op_cdict, rs_cctx }, { "cdict_ref", su_cctx_warm, op_cdict_ref, rs_cctx }, { "prefix", su_cctx, op_prefix, rs_cctx },
    { "mt1", su_cctx, op_mt1, rs_cctx }, { "mt2_ldm", su_cctx, op_mt2_ldm, rs_cctx }, { "mt3_stream", su_cctx_warm, op_mt3_stream, rs_cctx }, { "mt_grow", su_mt_warm, op_mt_grow, rs_cctx }, { "mt_more_workers", su_mt_warm, op_mt_more_workers, rs_cctx },
    { "create_dctx", su_none, op_create_dctx, rs_dctx }, { "dstream", su_dctx, op_dstream, rs_dctx }, { "dstream_grow", su_dctx_warm, op_dstream_grow, rs_dctx }, { "doneshot", su_dctx, op_doneshot, rs_dctx },
    { "d_loaddict", su_dctx_dictframe, op_d_loaddict, rs_dctx }, { "d_ddict", su_dctx_dictframe, op_d_ddict, rs_dctx }, { "d_multiddict", su_dctx_dictframe, op_d_multiddict, rs_dctx },
    { "train_cover", su_none, op_train_cover, su_none }, { "train_fastcover", su_none, op_train_fastcover, su_none }, { "train_legacy", su_none, op_train_legacy, su_none },
    { "opt_fastcover", su_none, op_opt_fastcover, su_none }, { "opt_cover", su_none, op_opt_cover, su_none },
    /* objects the caller still owns must survive a failed call */
    { "own_pool_mt", su_own_pool, op_own_pool_mt, rs_cctx, probe_pool }, { "own_pool_mt_public", su_own_pool_public, op_own_pool_mt_public, rs_cctx, probe_pool },
    { "own_pool_mt_more_workers", su_own_pool_warm, op_own_pool_mt_more_workers, rs_cctx, probe_pool },
    { "own_pool_mt_abandon", su_own_pool_abandon, op_own_pool_mt_abandon, rs_cctx, probe_pool_abandon }, { "own_pool_mt_abandon_ldm", su_own_pool_abandon_public, op_own_pool_mt_abandon_ldm, rs_cctx, probe_pool_abandon },
    { "own_pool_mt_abandon_flushed", su_own_pool_abandon, op_own_pool_mt_abandon_flushed, rs_cctx, probe_pool_abandon }, { "own_pool_mt_abandon_warm", su_own_pool_abandon_warm, op_own_pool_mt_abandon_warm, rs_cctx, probe_pool_abandon },
    { "own_cdict_mt", su_own_cdict, op_own_cdict_mt, rs_cctx, probe_cdict }, { "own_cdict_grow", su_own_cdict_warm, op_own_cdict_grow, rs_cctx, probe_cdict },
    { "own_prefix_mt", su_own_prefix, op_own_prefix_mt, rs_cctx, probe_prefix }, { "own_prefix_grow", su_own_prefix_warm, op_own_prefix_grow, rs_cctx, probe_prefix },
    { "own_dictref_mt", su_own_prefix, op_own_dictref_mt, rs_cctx, probe_prefix },
    { "own_ddict", su_own_ddict, op_own_ddict, rs_dctx, probe_ddict }, { "own_dprefix", su_own_dprefix, op_own_dprefix, rs_dctx, probe_ddict },
    { "own_ddicts_multi_grow", su_own_ddicts, op_own_ddicts, rs_dctx, probe_ddicts },
};
static void on_alarm(int sg) { (void)sg; { static const char m[] = "TIMEOUT\n"; if (write(1, m, sizeof m - 1) < 0) {} } _exit(3); }

int main(void) {
    char* line; size_t i; signal(SIGALRM, on_alarm); g_mainThr = pthread_self();
    SRC = (unsigned char*)malloc(BIG); BACK = (unsigned char*)malloc(BIG); DSTCAP = ZSTD_compressBound(BIG); DST = (unsigned char*)malloc(DSTCAP); DICT = (unsigned char*)malloc(DICTSZ);
    gen_data(SRC, BIG, 4242); memcpy(DICT, SRC + 1000000, DICTSZ);
    while ((line = zv_getline())) {
        char* op = strtok(line, " "); if (!op) continue;
        if (!strcmp(op, "list")) { for (i = 0; i < sizeof SCEN / sizeof SCEN[0]; i++) printf("%s%s", i ? " " : "", SCEN[i].name); printf("\n"); }
        else if (!strcmp(op, "run")) { char* nm = strtok(NULL, " "); long k = atol(strtok(NULL, " ")); char* k2s = strtok(NULL, " "); long k2 = k2s ? atol(k2s) : -1; scen_t const* sc = NULL; S s; char why[64]; size_t r, r2 = 0; long allocs; int fired; int j; int dead = 0;
            for (i = 0; i < sizeof SCEN / sizeof SCEN[0]; i++) if (!strcmp(SCEN[i].name, nm)) sc = &SCEN[i];
            if (!sc) { printf("bad-scenario\n"); fflush(stdout); continue; }
            alarm(240); memset(&s, 0, sizeof s); why[0] = 0; ledger_reset();
            sc->setup(&s);
            g_failAt = k > 0 ? k : -1; g_failAt2 = k2 > 0 ? k2 : -1; g_calls = 0; g_counting = 1;
            r = sc->op(&s, why);
            g_counting = 0; allocs = g_calls; fired = g_fired;
            printf("fault=%d allocs=%ld op=%s%s%s ", fired, allocs, r == NULLRES ? "null" : (ZSTD_isError(r) ? zv_errclass(r) : "ok"), why[0] ? ":" : "", why);
            why[0] = 0;
            /* objects the caller still owns: intact right after the faulted call, and usable through a second context.  Once the library
             * has handed one of their blocks back the harness stops touching them (anything further would be a use after free): the
             * event log already holds the theft for the ledger. */
            if (sc->probe) { if (!owned_intact()) { dead = 1; printf("probe=FAIL:caller-owned-block-freed-by-the-library "); }
                else { size_t const rp = sc->probe(&s, why); if (ZSTD_isError(rp)) { printf("probe=FAIL:%s:%s ", zv_errclass(rp), why); if (!strncmp(why, "pool-threads", 12)) dead = 1; } else printf("probe=ok "); why[0] = 0; } }
            if (dead) printf("retry2=FAIL:skipped:caller-owned-object-destroyed ");
            else {
            /* a context that has just failed must still answer its size query */
            if (s.c) (void)ZSTD_sizeof_CCtx(s.c); if (s.d) (void)ZSTD_sizeof_DCtx(s.d);
            sc->reset(&s);
            {   size_t const ra = alt_small(&s, why); if (ZSTD_isError(ra)) { printf("retry=FAIL:alt:%s%s ", zv_errclass(ra), why); why[0] = 0; } sc->reset(&s); }
            r2 = sc->op(&s, why);
            printf("retry2=%s%s%s ", r2 == NULLRES ? "FAIL:null" : (ZSTD_isError(r2) ? "FAIL:" : "ok"), (r2 != NULLRES && ZSTD_isError(r2)) ? zv_errclass(r2) : "", why[0] ? why : "");
            if (sc->probe && !owned_intact()) dead = 1;
            }
            ZSTD_freeCCtx(s.c); ZSTD_freeDCtx(s.d); ZSTD_freeCCtx(s.c2); ZSTD_freeDCtx(s.d2);
            /* the caller releases its own objects (not those the library has already destroyed) */
            if (!dead) { disown_all(); ZSTD_freeThreadPool(s.pool); zv_fault_free(s.obuf);
            ZSTD_freeCDict(s.cd); ZSTD_freeDDict(s.dd); for (j = 0; j < s.ndds; j++) ZSTD_freeDDict(s.dds[j]); }
            free(s.frame); free(s.frame2); free(s.ocopy); for (j = 0; j < 40; j++) { free(s.mdict[j]); free(s.mframe[j]); }
            printf("log=%s\n", g_loglen ? g_log : "-");
            ledger_reset(); alarm(0);
        } else printf("bad-op\n");
        fflush(stdout);
    }
    return 0;
}
