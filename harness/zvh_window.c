/* zvh_window — function-level harness for the 32-bit index rebasing (C15) and long-history wear tests (C15 / C07).
 * It #includes zstd_compress.c to reach the static ZSTD_reduceTable_internal; window functions are MEM_STATIC inlines.
 *   corr <lowLimit> <dictLimit> <nbCorr> <cycleLog> <maxDist> <curr>   -> correction newCurrent lowLimit dictLimit nbCorr
 *   need <lowLimit> <dictLimit> <nbCorr> <cycleLog> <maxDist> <loadedDictEnd> <currStart> <currEnd>  -> 0|1 (this build's FREQUENTLY setting) freq=<0|1>
 *   reduce <preserveMark> <reducer> <v,v,...>   -> reduced values
 *   wear <frames> <frameSize> <level> <wlog> <ldm> <seed> [id=val,...]  : frames of generated data through ONE reused CCtx; each compared with a fresh
 *        context's output and round-tripped -> ok frames=<n> bytes=<total> | FAIL ... */
#include <stdio.h>
#include <stdlib.h>
#include <string.h>
#include <sys/mman.h>
#include "zstd_compress.c"   /* found through -I<repo>/… (tools/build.py), so that ZV_REPO can point at another checkout */
#include "zvh_common.h"

static unsigned long long rs;
static unsigned rnd(void) { rs = rs * 6364136223846793005ULL + 1442695040888963407ULL; return (unsigned)(rs >> 33); }
static void gen_data(unsigned char* p, size_t n, unsigned long long seed, int repetitive) {
    size_t i = 0; rs = seed;
    while (i < n) { unsigned k = rnd() % 100; size_t len = 1 + rnd() % 300; if (len > n - i) len = n - i;
        if (k < 35 && i > 1000) { size_t maxd = i < (repetitive ? 4000000u : 60000u) ? i : (repetitive ? 4000000u : 60000u); size_t d = 1 + rnd() % maxd; size_t j; for (j = 0; j < len; j++) p[i + j] = p[i + j - d]; }
        else if (k < 70) { size_t j; for (j = 0; j < len; j++) p[i + j] = (unsigned char)("etaoin shrdlu,.\n"[rnd() % 17]); }
        else { size_t j; for (j = 0; j < len; j++) p[i + j] = (unsigned char)rnd(); }
        i += len; }
}

/* a large random block repeated with sparse one-byte mutations: very long matches at long distances everywhere */
static void gen_block(unsigned char* p, size_t n, unsigned long long seed) {
    size_t const blk = 200000 + (size_t)(seed % 150000); size_t i; rs = seed;
    for (i = 0; i < n && i < blk; i++) p[i] = (unsigned char)rnd();
    for (; i < n; i++) p[i] = p[i - blk];
    for (i = blk; i < n; i += 2000 + rnd() % 6000) p[i] ^= (unsigned char)(1 + rnd() % 255);
}

int main(void) {
    char* line; BYTE* map = (BYTE*)mmap(NULL, (size_t)9 << 30, PROT_NONE, MAP_PRIVATE | MAP_ANONYMOUS | MAP_NORESERVE, -1, 0);
    if (map == MAP_FAILED) { printf("mmap failed\n"); return 1; }
    while ((line = zv_getline())) {
        char* op = strtok(line, " "); if (!op) continue;
        if (!strcmp(op, "corr")) {
            ZSTD_window_t w; U32 cyc, maxDist, curr, corr; memset(&w, 0, sizeof w);
            w.lowLimit = (U32)strtoul(strtok(NULL, " "), NULL, 10); w.dictLimit = (U32)strtoul(strtok(NULL, " "), NULL, 10); w.nbOverflowCorrections = (U32)strtoul(strtok(NULL, " "), NULL, 10);
            cyc = (U32)strtoul(strtok(NULL, " "), NULL, 10); maxDist = (U32)strtoul(strtok(NULL, " "), NULL, 10); curr = (U32)strtoul(strtok(NULL, " "), NULL, 10);
            w.base = map; w.dictBase = map;
            corr = ZSTD_window_correctOverflow(&w, cyc, maxDist, map + curr);
            printf("%u %u %u %u %u\n", corr, (U32)((map + curr) - w.base), w.lowLimit, w.dictLimit, w.nbOverflowCorrections);
        } else if (!strcmp(op, "need")) {
            ZSTD_window_t w; U32 cyc, maxDist, lde, cs, ce; memset(&w, 0, sizeof w);
            w.lowLimit = (U32)strtoul(strtok(NULL, " "), NULL, 10); w.dictLimit = (U32)strtoul(strtok(NULL, " "), NULL, 10); w.nbOverflowCorrections = (U32)strtoul(strtok(NULL, " "), NULL, 10);
            cyc = (U32)strtoul(strtok(NULL, " "), NULL, 10); maxDist = (U32)strtoul(strtok(NULL, " "), NULL, 10); lde = (U32)strtoul(strtok(NULL, " "), NULL, 10);
            cs = (U32)strtoul(strtok(NULL, " "), NULL, 10); ce = (U32)strtoul(strtok(NULL, " "), NULL, 10); w.base = map; w.dictBase = map;
            printf("%u freq=%d\n", ZSTD_window_needOverflowCorrection(w, cyc, maxDist, lde, map + cs, map + ce), ZSTD_WINDOW_OVERFLOW_CORRECT_FREQUENTLY);
        } else if (!strcmp(op, "reduce")) {
            int pm = atoi(strtok(NULL, " ")); U32 red = (U32)strtoul(strtok(NULL, " "), NULL, 10); char* vs = strtok(NULL, " "); U32 t[64]; int n = 0, i; char* sv; char* tk;
            memset(t, 0, sizeof t);
            for (tk = strtok_r(vs, ",", &sv); tk && n < 64; tk = strtok_r(NULL, ",", &sv)) t[n++] = (U32)strtoul(tk, NULL, 10);
            ZSTD_reduceTable_internal(t, 64, red, pm);
            for (i = 0; i < n; i++) printf("%s%u", i ? "," : "", t[i]); printf("\n");
        } else if (!strcmp(op, "wear")) {
            int frames = atoi(strtok(NULL, " ")); size_t fsz = (size_t)strtoull(strtok(NULL, " "), NULL, 10); int level = atoi(strtok(NULL, " ")), wlog = atoi(strtok(NULL, " ")), ldm = atoi(strtok(NULL, " "));
            unsigned long long seed = strtoull(strtok(NULL, " "), NULL, 10); int f, bad = 0; unsigned long long total = 0;
            char* extra = strtok(NULL, " ");   /* optional: id=val,... advanced parameters set on both contexts after level / windowLog */
            unsigned char* src = (unsigned char*)malloc(fsz + 1); size_t cap = ZSTD_compressBound(fsz); unsigned char* a = (unsigned char*)malloc(cap); unsigned char* b = (unsigned char*)malloc(cap); unsigned char* d = (unsigned char*)malloc(fsz + 1);
            ZSTD_CCtx* reused = ZSTD_createCCtx(); ZSTD_DCtx* dctx = ZSTD_createDCtx();
            for (f = 0; f < frames && !bad; f++) {
                size_t n = fsz - (size_t)(f * 7919 % 1000), ca, cb; ZSTD_CCtx* fresh = ZSTD_createCCtx(); int lv = level ? level : 1 + f % 4; ZSTD_CCtx* cc[2]; int k;
                gen_data(src, n, seed + (unsigned long long)f, ldm);
                cc[0] = reused; cc[1] = fresh;
                for (k = 0; k < 2; k++) { ZSTD_CCtx_setParameter(cc[k], ZSTD_c_compressionLevel, lv); if (wlog) ZSTD_CCtx_setParameter(cc[k], ZSTD_c_windowLog, wlog);
                    ZSTD_CCtx_setParameter(cc[k], ZSTD_c_enableLongDistanceMatching, ldm ? ZSTD_ps_enable : ZSTD_ps_disable); ZSTD_CCtx_setParameter(cc[k], ZSTD_c_checksumFlag, 1);
                    if (extra && extra[0] != '-') { char pc[256]; char* sv = NULL; char* kv; strncpy(pc, extra, sizeof pc - 1); pc[sizeof pc - 1] = 0;
                        for (kv = strtok_r(pc, ",", &sv); kv; kv = strtok_r(NULL, ",", &sv)) { int id, val; if (sscanf(kv, "%d=%d", &id, &val) == 2) ZSTD_CCtx_setParameter(cc[k], (ZSTD_cParameter)id, val); } } }
                ca = ZSTD_compress2(reused, a, cap, src, n); cb = ZSTD_compress2(fresh, b, cap, src, n);
                if (ZSTD_isError(ca) || ZSTD_isError(cb)) { printf("FAIL frame %d: compression error %s / %s\n", f, ZSTD_getErrorName(ca), ZSTD_getErrorName(cb)); bad = 1; }
                else if (ca != cb || memcmp(a, b, ca)) { printf("FAIL frame %d (level %d): reused context output (%zu bytes) differs from fresh context output (%zu bytes) after %llu bytes through the context\n", f, lv, ca, cb, total); bad = 1; }
                else { size_t r = ZSTD_decompressDCtx(dctx, d, n, a, ca); if (ZSTD_isError(r) || r != n || memcmp(d, src, n)) { printf("FAIL frame %d: round trip broken (%s) after %llu bytes through the context\n", f, ZSTD_isError(r) ? ZSTD_getErrorName(r) : "content differs", total); bad = 1; } }
                total += n; ZSTD_freeCCtx(fresh);
            }
            if (!bad) printf("ok frames=%d bytes=%llu\n", frames, total);
            ZSTD_freeCCtx(reused); ZSTD_freeDCtx(dctx); free(src); free(a); free(b); free(d);
        } else if (!strcmp(op, "ring")) {
            /* ring <level> <wlog> <ringSize> <blockSize> <nblocks> <recordSize> <seed> : buffer-less compression (ZSTD_compressBegin_advanced / Continue / End)
             * from a caller-owned input ring SMALLER than the window that wraps several times; records carry a tag that depends on the ring position
             * only (same bytes at the same ring position lap after lap) and a fresh payload. The frame must decode to the stream that was fed. */
            int level = atoi(strtok(NULL, " ")); unsigned wlog = (unsigned)atoi(strtok(NULL, " ")); size_t ringSize = (size_t)strtoull(strtok(NULL, " "), NULL, 10), blk = (size_t)strtoull(strtok(NULL, " "), NULL, 10);
            size_t nb = (size_t)strtoull(strtok(NULL, " "), NULL, 10), rec = (size_t)strtoull(strtok(NULL, " "), NULL, 10); unsigned long long seed = strtoull(strtok(NULL, " "), NULL, 10);
            unsigned char* ring = (unsigned char*)malloc(ringSize); unsigned char* all = (unsigned char*)malloc(nb * blk + 1); size_t cap = ZSTD_compressBound(nb * blk) + nb * 64 + 1024, pos = 0, total = 0, op_ = 0, b, r;
            unsigned char* out = (unsigned char*)malloc(cap); unsigned char* back = (unsigned char*)malloc(nb * blk + 1); ZSTD_CCtx* c = ZSTD_createCCtx(); ZSTD_parameters prm = ZSTD_getParams(level, 0, 0);
            prm.cParams.windowLog = wlog; prm.fParams.contentSizeFlag = 0; rs = seed;
            r = ZSTD_compressBegin_advanced(c, NULL, 0, prm, ZSTD_CONTENTSIZE_UNKNOWN);
            for (b = 0; b < nb && !ZSTD_isError(r); b++) {
                size_t i;
                if (pos + blk > ringSize) pos = 0;
                for (i = 0; i < blk; i++) { size_t const rp = pos + i, inrec = rp % rec; unsigned char v;
                    if (inrec < 8) v = (unsigned char)(((rp / rec) * 2654435761u) >> (8 * (inrec & 3)));       /* tag: function of the ring position only */
                    else v = (unsigned char)rnd();
                    ring[rp] = v; }
                memcpy(all + total, ring + pos, blk);
                r = ZSTD_compressContinue(c, out + op_, cap - op_, ring + pos, blk); if (ZSTD_isError(r)) break;
                op_ += r; total += blk; pos += blk;
            }
            if (!ZSTD_isError(r)) { r = ZSTD_compressEnd(c, out + op_, cap - op_, NULL, 0); if (!ZSTD_isError(r)) op_ += r; }
            if (ZSTD_isError(r)) printf("FAIL compress: %s\n", ZSTD_getErrorName(r));
            else { size_t d = ZSTD_decompress(back, total + 1, out, op_);
                if (ZSTD_isError(d)) printf("FAIL decode: %s\n", ZSTD_getErrorName(d));
                else if (d != total || memcmp(back, all, total)) { size_t k = 0; while (k < d && k < total && back[k] == all[k]) k++; printf("FAIL round trip differs at byte %zu of %zu (ring %zu, block %zu)\n", k, total, ringSize, blk); }
                else printf("ok bytes=%zu compressed=%zu\n", total, op_); }
            ZSTD_freeCCtx(c); free(ring); free(all); free(out); free(back);
        } else if (!strcmp(op, "det")) {
            /* det <variant> <id=val,...|-> <size> <dataseed> <in-chunks csv> <dirs> <dictsize> <vseed>
             * reference = fresh heap context, roomy output; variant in:
             *   hist (random prior frames incl. failed + aborted operations and resets), poison (prior frame, then match tables overwritten with
             *   in-window garbage before a session reset), static (ZSTD_initStaticCCtx), align (misaligned src/dst), outcap (tiny varying output
             *   capacities), w<k> (nbWorkers=k compared with nbWorkers=1) */
            char* variant = strtok(NULL, " "); char* ps = strtok(NULL, " "); size_t n = (size_t)strtoull(strtok(NULL, " "), NULL, 10); unsigned long long dseed = strtoull(strtok(NULL, " "), NULL, 10);
            size_t ic[64]; char* ins = strtok(NULL, " "); char* dirs = strtok(NULL, " "); size_t dsz = (size_t)strtoull(strtok(NULL, " "), NULL, 10); unsigned long long vseed = strtoull(strtok(NULL, " "), NULL, 10);
            size_t ni = 0; { char* sv; char* t; for (t = strtok_r(ins, ",", &sv); t && ni < 64; t = strtok_r(NULL, ",", &sv)) ic[ni++] = (size_t)strtoull(t, NULL, 10); }
            unsigned char* srcbuf = (unsigned char*)malloc(n + 128 + dsz); unsigned char* src; unsigned char* dict; size_t cap = ZSTD_compressBound(n) + 24 * n / 16 + (1 << 20);
            unsigned char* out[2]; size_t osz[2] = { 0, 0 }; int run, nd = (int)strlen(dirs), fail = 0; void* staticMem = NULL;
            int soff = !strcmp(variant, "align") ? 1 + (int)(vseed % 63) : 0;
            src = srcbuf + soff; if (variant[0] == 'w' && (dseed & 1)) gen_block(src, n, dseed); else gen_data(src, n, dseed, 1); dict = src + n + 16; if (dsz) gen_data(dict, dsz, dseed + 99, 0);
            out[0] = (unsigned char*)malloc(cap + 64); out[1] = (unsigned char*)malloc(cap + 64);
            for (run = 0; run < 2 && !fail; run++) {
                ZSTD_CCtx* cctx; size_t r = 0, consumed = 0, produced = 0, ii = 0; int di = 0, ended = 0, guard = 0; char* save = NULL; char* kv; char pcopy[512]; int workers = 0;
                unsigned char* o = out[run] + ((run == 1 && !strcmp(variant, "align")) ? 1 + (int)((vseed >> 8) % 31) : 0);
                if (run == 1 && !strcmp(variant, "static")) {
                    ZSTD_CCtx_params* cp = ZSTD_createCCtxParams(); size_t need; strncpy(pcopy, ps, sizeof pcopy - 1); pcopy[sizeof pcopy - 1] = 0;
                    for (kv = strtok_r(pcopy, ",", &save); kv; kv = strtok_r(NULL, ",", &save)) { int id, val; if (sscanf(kv, "%d=%d", &id, &val) == 2) ZSTD_CCtxParams_setParameter(cp, (ZSTD_cParameter)id, val); }
                    need = ZSTD_estimateCStreamSize_usingCCtxParams(cp); ZSTD_freeCCtxParams(cp);
                    if (ZSTD_isError(need)) { printf("skip static-estimate-error\n"); fail = 2; break; }
                    staticMem = malloc(need + 64); cctx = ZSTD_initStaticCCtx((void*)(((size_t)staticMem + 63) & ~(size_t)63), need);
                    if (!cctx) { printf("skip static-init-null\n"); fail = 2; break; }
                } else cctx = ZSTD_createCCtx();
                if (run == 1 && !strcmp(variant, "histso")) {
                    /* same parameters throughout: prior operations (failed one-shot calls, aborted streams, completed frames), then
                     * ZSTD_CCtx_reset(session_only) - parameters are kept by design, nothing else may be */
                    int k, nprev = 1 + (int)(vseed % 3); rs = vseed;
                    strncpy(pcopy, ps, sizeof pcopy - 1); pcopy[sizeof pcopy - 1] = 0; save = NULL;
                    for (kv = strtok_r(pcopy, ",", &save); kv; kv = strtok_r(NULL, ",", &save)) { int id, val; if (sscanf(kv, "%d=%d", &id, &val) == 2) ZSTD_CCtx_setParameter(cctx, (ZSTD_cParameter)id, val); }
                    for (k = 0; k < nprev; k++) {
                        size_t pn = 1000 + rnd() % 300000; unsigned char* pd = (unsigned char*)malloc(pn); unsigned kind = rnd() % 3; unsigned long long keep = rs; size_t pc = ZSTD_compressBound(pn); unsigned char* po = (unsigned char*)malloc(pc);
                        gen_data(pd, pn, vseed + 11 * (unsigned)k, 0); rs = keep;
                        if (kind == 0) { ZSTD_compress2(cctx, po, pc / 4 > 8 ? 8 + rnd() % (pc / 4) : 1, pd, pn); }               /* failed operation: destination too small */
                        else if (kind == 1) { ZSTD_inBuffer ib = { pd, pn / 2, 0 }; ZSTD_outBuffer ob = { po, pc, 0 }; ZSTD_compressStream2(cctx, &ob, &ib, ZSTD_e_continue); }   /* aborted stream */
                        else ZSTD_compress2(cctx, po, pc, pd, pn);
                        ZSTD_CCtx_reset(cctx, ZSTD_reset_session_only);
                        free(pd); free(po);
                    }
                }
                if (run == 1 && (!strcmp(variant, "hist") || !strcmp(variant, "histnr") || !strcmp(variant, "poison"))) {
                    int const noreset = !strcmp(variant, "histnr");   /* only COMPLETED frames before, and no session reset afterwards */
                    /* prior history on this context */
                    int k, nprev = !strcmp(variant, "poison") ? 1 : 1 + (int)(vseed % 4); rs = vseed;
                    for (k = 0; k < nprev; k++) {
                        size_t pn = 1000 + rnd() % 300000; unsigned char* pd = (unsigned char*)malloc(pn); unsigned kind = noreset ? 2 + rnd() % 3 : rnd() % 5; unsigned long long keep = rs; size_t pc = ZSTD_compressBound(pn); unsigned char* po = (unsigned char*)malloc(pc);
                        gen_data(pd, pn, vseed + 7 * (unsigned)k, 0); rs = keep;
                        ZSTD_CCtx_reset(cctx, noreset ? ZSTD_reset_parameters : ZSTD_reset_session_and_parameters);
                        ZSTD_CCtx_setParameter(cctx, ZSTD_c_compressionLevel, (int)(rnd() % 19) + 1);
                        if (rnd() % 3 == 0) ZSTD_CCtx_setParameter(cctx, ZSTD_c_windowLog, 10 + (int)(rnd() % 10));
                        if (rnd() % 4 == 0) ZSTD_CCtx_loadDictionary(cctx, pd, pn / 3);
                        if (kind == 0) { ZSTD_compress2(cctx, po, pc / 4, pd, pn); }                                /* failed operation: destination too small */
                        else if (kind == 1) { ZSTD_inBuffer ib = { pd, pn / 2, 0 }; ZSTD_outBuffer ob = { po, pc, 0 }; ZSTD_compressStream2(cctx, &ob, &ib, ZSTD_e_continue); }   /* aborted stream */
                        else if (kind == 2) ZSTD_compressCCtx(cctx, po, pc, pd, pn, (int)(rnd() % 12) + 1);                 /* simple API */
                        else ZSTD_compress2(cctx, po, pc, pd, pn);
                        free(pd); free(po);
                    }
                    if (!strcmp(variant, "poison")) {
                        /* overwrite every match table with indices that are valid for the window of the finished frame: stale entries must be unreachable after reset */
                        ZSTD_matchState_t* ms = &cctx->blockState.matchState; U32 hi = (U32)(ms->window.nextSrc - ms->window.base); size_t t;
                        size_t hS = (size_t)1 << cctx->appliedParams.cParams.hashLog, cS = (size_t)1 << cctx->appliedParams.cParams.chainLog, h3 = ms->hashLog3 ? (size_t)1 << ms->hashLog3 : 0;
                        rs = vseed ^ 0x5555;
                        if (ms->hashTable) for (t = 0; t < hS; t++) ms->hashTable[t] = hi ? rnd() % hi : 0;
                        if (ms->chainTable && ZSTD_allocateChainTable(cctx->appliedParams.cParams.strategy, cctx->appliedParams.useRowMatchFinder, 0)) for (t = 0; t < cS; t++) ms->chainTable[t] = hi ? rnd() % hi : 0;
                        if (ms->hashTable3) for (t = 0; t < h3; t++) ms->hashTable3[t] = hi ? rnd() % hi : 0;
                    }
                    ZSTD_CCtx_reset(cctx, noreset ? ZSTD_reset_parameters : ZSTD_reset_session_and_parameters);
                }
                strncpy(pcopy, ps, sizeof pcopy - 1); pcopy[sizeof pcopy - 1] = 0; save = NULL;
                for (kv = strtok_r(pcopy, ",", &save); kv && !ZSTD_isError(r); kv = strtok_r(NULL, ",", &save)) { int id, val; if (sscanf(kv, "%d=%d", &id, &val) == 2) { if (id == 400) workers = val; r = ZSTD_CCtx_setParameter(cctx, (ZSTD_cParameter)id, val); } }
                if (variant[0] == 'w') { int k = atoi(variant + 1); r = ZSTD_CCtx_setParameter(cctx, ZSTD_c_nbWorkers, run == 0 ? 1 : k); (void)workers; }
                if (dsz && !ZSTD_isError(r)) r = ZSTD_CCtx_loadDictionary(cctx, dict, dsz);
                rs = vseed ^ 0x77;
                while (!ZSTD_isError(r) && !ended && guard++ < 20000000) {
                    size_t isz = ic[ii++ % ni], oc_ = (run == 1 && !strncmp(variant, "outcap", 6)) ? 1 + rnd() % 4000 : cap - produced; ZSTD_inBuffer ib; ZSTD_outBuffer ob; char dc = dirs[di++ % nd]; ZSTD_EndDirective dir;
                    if (isz > n - consumed) isz = n - consumed; if (oc_ > cap - produced) oc_ = cap - produced;
                    dir = dc == 'f' ? ZSTD_e_flush : dc == 'e' ? ZSTD_e_end : ZSTD_e_continue;
                    if (!strcmp(variant, "outcapE")) {        /* the last input bytes travel with ZSTD_e_end (direct-to-dst shortcut possible) */
                        if (consumed + isz == n && (dir == ZSTD_e_continue || isz == 0)) dir = ZSTD_e_end;
                        if (dir == ZSTD_e_end && consumed + isz < n) dir = ZSTD_e_flush;
                    } else {                                  /* input is delivered with continue / flush only; the frame is ended by a separate call without input */
                        if (isz > 0 && dir == ZSTD_e_end) dir = ZSTD_e_flush;
                        if (isz == 0) dir = ZSTD_e_end;
                    }
                    ib.src = src + consumed; ib.size = isz; ib.pos = 0;
                    /* the SAME input call must be completed (same bytes, same directive) whatever the output room: drain until it is */
                    for (;;) { ob.dst = o + produced; ob.size = oc_; ob.pos = 0; r = ZSTD_compressStream2(cctx, &ob, &ib, dir); produced += ob.pos; if (ZSTD_isError(r)) break;
                        if (ib.pos == ib.size && (dir == ZSTD_e_continue || r == 0)) break; if (run == 1 && !strncmp(variant, "outcap", 6)) oc_ = 1 + rnd() % 4000; if (oc_ > cap - produced) oc_ = cap - produced; if (guard++ > 20000000) break; }
                    consumed += ib.pos; if (dir == ZSTD_e_end && r == 0) ended = 1;
                }
                if (ZSTD_isError(r)) { printf("err run%d %s\n", run, ZSTD_getErrorName(r)); fail = 1; }
                osz[run] = produced; if (o != out[run]) memmove(out[run], o, produced);
                if (!(run == 1 && !strcmp(variant, "static"))) ZSTD_freeCCtx(cctx);
            }
            if (!fail) { if (osz[0] == osz[1] && !memcmp(out[0], out[1], osz[0])) printf("same %zu\n", osz[0]);
                else { size_t k = 0; while (k < osz[0] && k < osz[1] && out[0][k] == out[1][k]) k++; printf("DIFF at byte %zu (fresh %zu bytes, variant %zu bytes)\n", k, osz[0], osz[1]); } }
            free(srcbuf); free(out[0]); free(out[1]); free(staticMem);
        } else if (!strcmp(op, "wupd")) {
            /* wupd <B0> <ip:size:force,...> : ZSTD_window_update fed with segments at the given offsets of the address-space reservation (nothing is dereferenced);
             * the window starts as ZSTD_window_init leaves it -> per segment c<contiguous>/<base>/<dictBase>/<nextSrc>/<lowLimit>/<dictLimit> (tie: Model/WindowUpdate.lean) */
            long long b0 = strtoll(strtok(NULL, " "), NULL, 10); char* segs = strtok(NULL, " "); ZSTD_window_t w; char* sv = NULL; char* t; int first = 1;
            memset(&w, 0, sizeof w); w.base = map + b0; w.dictBase = map + b0; w.dictLimit = ZSTD_WINDOW_START_INDEX; w.lowLimit = ZSTD_WINDOW_START_INDEX; w.nextSrc = w.base + ZSTD_WINDOW_START_INDEX;
            for (t = segs ? strtok_r(segs, ",", &sv) : NULL; t; t = strtok_r(NULL, ",", &sv)) { long long ip; unsigned long long n; int force; U32 c;
                if (sscanf(t, "%lld:%llu:%d", &ip, &n, &force) != 3) { printf("%sbad-seg", first ? "" : " "); break; }
                c = ZSTD_window_update(&w, map + ip, (size_t)n, force);
                printf("%sc%u/%lld/%lld/%lld/%u/%u", first ? "" : " ", c, (long long)(w.base - map), (long long)(w.dictBase - map), (long long)(w.nextSrc - map), w.lowLimit, w.dictLimit); first = 0; }
            printf("\n");
        } else printf("bad-op\n");
        fflush(stdout);
    }
    return 0;
}
