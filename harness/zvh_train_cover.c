/* cover.c with the ZSTD_pthread_* primitives interposed: logs the protocol of the optimisers' shared result holder (COVER_best_t).
 * Every mutex initialised inside this translation unit is a COVER_best_t mutex (cover.c has no other). */
#include <stdio.h>
#include <stdlib.h>
#include <string.h>
#include <pthread.h>
#include <time.h>
#include "threading.h"
int zvt_lock(pthread_mutex_t* m); int zvt_unlock(pthread_mutex_t* m); int zvt_wait(pthread_cond_t* c, pthread_mutex_t* m); int zvt_minit(pthread_mutex_t* m);
#undef ZSTD_pthread_mutex_lock
#undef ZSTD_pthread_mutex_unlock
#undef ZSTD_pthread_cond_wait
#undef ZSTD_pthread_mutex_init
#define ZSTD_pthread_mutex_lock(a) zvt_lock(a)
#define ZSTD_pthread_mutex_unlock(a) zvt_unlock(a)
#define ZSTD_pthread_cond_wait(a, b) zvt_wait((a), (b))
#define ZSTD_pthread_mutex_init(a, b) zvt_minit(a)
#include "zvh_train_fill.h"
#include "cover.c"   /* found through -I<repo>/… (tools/build.py), so that ZV_REPO can point at another checkout */

extern void zvt_event(const char* fmt, unsigned long long a, unsigned long long b);
extern int zvt_is_dispatcher(void); extern void zvt_perturb(void);
static pthread_mutex_t* g_bm; static size_t g_seenLive; extern size_t zvt_grow, zvt_cands; static void* g_heldDict; static size_t g_heldSize, g_heldCsize;
int zvt_minit(pthread_mutex_t* m) { g_bm = m; g_seenLive = 0; g_heldDict = NULL; g_heldSize = 0; g_heldCsize = (size_t)-1; zvt_event("best-init\n", 0, 0); return pthread_mutex_init(m, NULL); }
int zvt_lock(pthread_mutex_t* m) { zvt_perturb(); return pthread_mutex_lock(m); }
static void snap(pthread_mutex_t* m, int waitReturn) {
    if (m == g_bm) { COVER_best_t* b = (COVER_best_t*)((char*)m - offsetof(COVER_best_t, mutex)); size_t const live = b->liveJobs;
        if (live == g_seenLive + 1) zvt_event(zvt_is_dispatcher() ? "dispatch\n" : "start-by-worker\n", 0, 0);
        else if (live + 1 == g_seenLive) { zvt_event("finish %llu\n", (unsigned long long)b->compressedSize, 0);
            /* coverage of the holder's buffer management (not part of the event trace): a candidate was taken (buffer or size changed) / it was larger than the one held */
            if (b->dict && b->compressedSize != g_heldCsize) { zvt_cands++; if (g_heldDict && b->dictSize > g_heldSize) zvt_grow++; }
            g_heldDict = b->dict; g_heldSize = b->dictSize; g_heldCsize = b->compressedSize; }
        else if (live != g_seenLive) zvt_event("jump %llu %llu\n", g_seenLive, live);
        if (waitReturn) zvt_event(live == 0 ? "waitret\n" : "waitret-live %llu\n", live, 0);
        g_seenLive = live; } }
/* COVER_best_wait is the only place that unlocks without having changed the counter while the dispatcher holds the mutex */
int zvt_unlock(pthread_mutex_t* m) { int const isWait = (m == g_bm) && zvt_is_dispatcher() && ((COVER_best_t*)((char*)m - offsetof(COVER_best_t, mutex)))->liveJobs == g_seenLive; snap(m, isWait); return pthread_mutex_unlock(m); }
int zvt_wait(pthread_cond_t* c, pthread_mutex_t* m) { int r = pthread_cond_wait(c, m); if (m == g_bm) { COVER_best_t* b = (COVER_best_t*)((char*)m - offsetof(COVER_best_t, mutex)); (void)b; } return r; }

/* function-level access for the tie of COVER_ctx_init (static): error code, or 0 with the d-mer count (suffixSize) the build loops will use */
size_t zvt_cover_ctx(const void* sb, const size_t* ss, unsigned nb, unsigned d, double split, size_t* nbDmers) {
    COVER_ctx_t ctx; size_t const r = COVER_ctx_init(&ctx, sb, ss, nb, d, split);
    if (!ZSTD_isError(r)) { *nbDmers = ctx.suffixSize; COVER_ctx_destroy(&ctx); } return r; }
