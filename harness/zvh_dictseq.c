/* zvh_dictseq — C08: SEVERAL frames with one digested dictionary through ONE compression context (the "histories" quantifier of the property), the dictionary's
 * tables built from EXPLICIT compression parameters (so that the dictionary can be longer than its own chain / binary-tree table) or from a level.
 *
 *   ds <dictSize> <r|z> <wlog,clog,hlog,slog,mml,tlen,strat | L<level>> <supply> <attach 0..3> <ctx> <decode d|u> <frame sizes csv> <seed>
 *
 * dictionary : vocabulary text over a small alphabet (many places share long prefixes: the searches go deep), r raw content | z wrapped by ZDICT_finalizeDictionary
 * supply     : A ZSTD_createCDict_advanced(cParams) + ZSTD_compress_usingCDict          B same CDict + ZSTD_CCtx_refCDict + ZSTD_compress2
 *              S same CDict + refCDict + ZSTD_compressStream2 (continue, then end: source size unknown)
 *              G same CDict + ZSTD_compressBegin_usingCDict + ZSTD_compressEnd
 *              P ZSTD_createCDict_advanced2(CCtx_params carrying the cParams) + refCDict + compress2
 *              M the cParams set on the context + ZSTD_CCtx_loadDictionary + compress2   N same, ZSTD_CCtx_loadDictionary_byReference + compressStream2 (size unknown)
 * attach     : ZSTD_c_forceAttachDict 0 default | 1 attach | 2 copy | 3 load  (set on the context for B S P M N; A and G take the library's own choice)
 * ctx        : R one context for all frames, nothing in between | F a fresh context per frame (control) | s ZSTD_CCtx_reset(session_only) between frames |
 *              p ZSTD_CCtx_reset(session_and_parameters) between frames, parameters and dictionary set again | i a frame WITHOUT dictionary (level 1, other data)
 *              between two frames, then parameters / dictionary set again
 * every frame is decoded with the same dictionary (d ZSTD_decompress_usingDDict | u ZSTD_decompress_usingDict) and compared with its input.
 *  -> ok frames=<k> in=<bytes> out=<bytes> | FAIL frame <f> ... | cerr frame <f> <class> */
#include "zvh_common.h"
#define ZDICT_STATIC_LINKING_ONLY
#include "zdict.h"

static unsigned long long rs;
static unsigned rnd(void) { rs = rs * 6364136223846793005ULL + 1442695040888963407ULL; return (unsigned)(rs >> 33); }

static unsigned char words[96][12]; static unsigned wlen[96]; static unsigned nwords;
static void gen_words(unsigned long long seed) { unsigned w, k, alpha; rs = seed * 0x9E3779B97F4A7C15ULL + 12345; nwords = 16 + rnd() % 80; alpha = 2 + rnd() % 6;
    for (w = 0; w < nwords; w++) { wlen[w] = 2 + rnd() % 9; for (k = 0; k < wlen[w]; k++) words[w][k] = (unsigned char)('a' + rnd() % alpha); } }
static void gen_text(unsigned char* dst, size_t size, int sep) { size_t p = 0;
    while (p < size) { unsigned const w = rnd() % nwords; unsigned l = wlen[w]; if (p + l > size) l = (unsigned)(size - p); memcpy(dst + p, words[w], l); p += l; if (sep && p < size && rnd() % 3 == 0) dst[p++] = ' '; } }
/* frame input: the same vocabulary in another order, fragments of the dictionary (long matches), a few literals */
static void gen_input(unsigned char* dst, size_t n, const unsigned char* d, size_t dn, int sep) { size_t p = 0;
    while (p < n) { unsigned k = rnd() % 100; size_t len = 16 + rnd() % 400; if (len > n - p) len = n - p;
        if (k < 30 && dn > 32) { size_t off; if (len > dn) len = dn; off = rnd() % (dn - len + 1); memcpy(dst + p, d + off, len); }
        else if (k < 34) { size_t j; len = 1 + len % 5; if (len > n - p) len = n - p; for (j = 0; j < len; j++) dst[p + j] = (unsigned char)rnd(); }
        else gen_text(dst + p, len, sep);
        p += len; } }

static size_t set_cparams(ZSTD_CCtx* c, ZSTD_compressionParameters cp) { size_t r = ZSTD_CCtx_setParameter(c, ZSTD_c_windowLog, (int)cp.windowLog);
    if (!ZSTD_isError(r)) r = ZSTD_CCtx_setParameter(c, ZSTD_c_chainLog, (int)cp.chainLog); if (!ZSTD_isError(r)) r = ZSTD_CCtx_setParameter(c, ZSTD_c_hashLog, (int)cp.hashLog);
    if (!ZSTD_isError(r)) r = ZSTD_CCtx_setParameter(c, ZSTD_c_searchLog, (int)cp.searchLog); if (!ZSTD_isError(r)) r = ZSTD_CCtx_setParameter(c, ZSTD_c_minMatch, (int)cp.minMatch);
    if (!ZSTD_isError(r)) r = ZSTD_CCtx_setParameter(c, ZSTD_c_targetLength, (int)cp.targetLength); if (!ZSTD_isError(r)) r = ZSTD_CCtx_setParameter(c, ZSTD_c_strategy, (int)cp.strategy); return r; }

int main(void) {
    char* line;
    while ((line = zv_getline())) {
        char* op = strtok(line, " "); if (!op) continue;
        if (!strcmp(op, "ds")) {
            size_t dcn = (size_t)strtoull(strtok(NULL, " "), NULL, 10); char kind = strtok(NULL, " ")[0]; char* cps = strtok(NULL, " "); char sup = strtok(NULL, " ")[0]; int attach = atoi(strtok(NULL, " "));
            char ctxk = strtok(NULL, " ")[0], dm = strtok(NULL, " ")[0]; char* szs = strtok(NULL, " "); unsigned long long seed = strtoull(strtok(NULL, " "), NULL, 10);
            size_t fs[32], nf = 0, maxn = 1, f, dn = dcn; { char* sv; char* t; for (t = strtok_r(szs, ",", &sv); t && nf < 32; t = strtok_r(NULL, ",", &sv)) { fs[nf] = (size_t)strtoull(t, NULL, 10); if (fs[nf] > maxn) maxn = fs[nf]; nf++; } }
            ZSTD_compressionParameters cp; int level = 0, sep; unsigned char* content = (unsigned char*)malloc(dcn + 1); unsigned char* d; ZSTD_CDict* cd = NULL; ZSTD_DDict* dd = NULL; ZSTD_DCtx* dc = ZSTD_createDCtx();
            ZSTD_CCtx* c = NULL; size_t cap = ZSTD_compressBound(maxn) + 256; unsigned char* dst = (unsigned char*)malloc(cap); unsigned char* back = (unsigned char*)malloc(maxn); size_t tin = 0, tout = 0; int bad = 0;
            gen_words(seed); sep = (int)(seed & 1); gen_text(content, dcn, sep);
            if (cps[0] == 'L') { level = atoi(cps + 1); cp = ZSTD_getCParams(level, 0, dcn); }
            else { unsigned v[7] = { 17, 7, 10, 7, 4, 48, 7 }; sscanf(cps, "%u,%u,%u,%u,%u,%u,%u", &v[0], &v[1], &v[2], &v[3], &v[4], &v[5], &v[6]);
                cp.windowLog = v[0]; cp.chainLog = v[1]; cp.hashLog = v[2]; cp.searchLog = v[3]; cp.minMatch = v[4]; cp.targetLength = v[5]; cp.strategy = (ZSTD_strategy)v[6]; }
            if (kind == 'z') { enum { NS = 24, SS = 2000 }; unsigned char* samples = (unsigned char*)malloc(NS * SS); size_t sizes[NS]; unsigned i; ZDICT_params_t zp; size_t ds; unsigned char* db = (unsigned char*)malloc(dcn + 8192);
                for (i = 0; i < NS; i++) { sizes[i] = SS; gen_input(samples + i * SS, SS, content, dcn, sep); }
                memset(&zp, 0, sizeof zp); zp.dictID = 40000 + (unsigned)(seed % 100000);
                ds = ZDICT_finalizeDictionary(db, dcn + 8192, content, dcn, samples, sizes, NS, zp); free(samples);
                if (ZDICT_isError(ds)) { free(db); d = (unsigned char*)malloc(dcn + 1); memcpy(d, content, dcn); } else { d = (unsigned char*)malloc(ds); memcpy(d, db, ds); dn = ds; free(db); } }
            else { d = (unsigned char*)malloc(dcn + 1); memcpy(d, content, dcn); }
            if (strchr("ABSG", sup)) cd = ZSTD_createCDict_advanced(d, dn, ZSTD_dlm_byCopy, ZSTD_dct_auto, cp, ZSTD_defaultCMem);
            else if (sup == 'P') { ZSTD_CCtx_params* pp = ZSTD_createCCtxParams(); ZSTD_CCtxParams_init(pp, level ? level : 3);
                if (!level) { ZSTD_CCtxParams_setParameter(pp, ZSTD_c_windowLog, (int)cp.windowLog); ZSTD_CCtxParams_setParameter(pp, ZSTD_c_chainLog, (int)cp.chainLog); ZSTD_CCtxParams_setParameter(pp, ZSTD_c_hashLog, (int)cp.hashLog);
                    ZSTD_CCtxParams_setParameter(pp, ZSTD_c_searchLog, (int)cp.searchLog); ZSTD_CCtxParams_setParameter(pp, ZSTD_c_minMatch, (int)cp.minMatch); ZSTD_CCtxParams_setParameter(pp, ZSTD_c_targetLength, (int)cp.targetLength);
                    ZSTD_CCtxParams_setParameter(pp, ZSTD_c_strategy, (int)cp.strategy); }
                cd = ZSTD_createCDict_advanced2(d, dn, ZSTD_dlm_byRef, ZSTD_dct_auto, pp, ZSTD_defaultCMem); ZSTD_freeCCtxParams(pp); }
            if (strchr("ABSGP", sup) && !cd) { printf("cerr frame 0 cdict-null\n"); bad = 1; }
            dd = ZSTD_createDDict(d, dn);
            for (f = 0; f < nf && !bad; f++) {
                size_t const n = fs[f]; unsigned char* src = (unsigned char*)malloc(n ? n : 1); size_t r = 0, cs = 0; int const setup = (f == 0 || ctxk == 'F' || ctxk == 'p' || ctxk == 'i');
                gen_input(src, n, content, dcn, sep);          /* exact-size allocation: the sanitizer sees any read past the input */
                if (f == 0 || ctxk == 'F') { ZSTD_freeCCtx(c); c = ZSTD_createCCtx(); }
                else if (ctxk == 's') ZSTD_CCtx_reset(c, ZSTD_reset_session_only);
                else if (ctxk == 'p') ZSTD_CCtx_reset(c, ZSTD_reset_session_and_parameters);
                else if (ctxk == 'i') { size_t on = 1000 + rnd() % 60000; unsigned char* o = (unsigned char*)malloc(on); size_t oc = ZSTD_compressBound(on); unsigned char* ob = (unsigned char*)malloc(oc); size_t j; for (j = 0; j < on; j++) o[j] = (unsigned char)("etaoin shrdlu"[rnd() % 13]);
                    ZSTD_CCtx_reset(c, ZSTD_reset_session_and_parameters); ZSTD_CCtx_setParameter(c, ZSTD_c_compressionLevel, 1); ZSTD_compress2(c, ob, oc, o, on); ZSTD_CCtx_reset(c, ZSTD_reset_session_and_parameters); free(o); free(ob); }
                if (setup && strchr("BSPMN", sup)) {
                    if (attach) r = ZSTD_CCtx_setParameter(c, ZSTD_c_forceAttachDict, attach);
                    if (!ZSTD_isError(r) && strchr("MN", sup)) { r = level ? ZSTD_CCtx_setParameter(c, ZSTD_c_compressionLevel, level) : set_cparams(c, cp);
                        if (!ZSTD_isError(r)) r = sup == 'M' ? ZSTD_CCtx_loadDictionary(c, d, dn) : ZSTD_CCtx_loadDictionary_byReference(c, d, dn); }
                    else if (!ZSTD_isError(r)) r = ZSTD_CCtx_refCDict(c, cd);
                }
                if (!ZSTD_isError(r)) switch (sup) {
                    case 'A': r = ZSTD_compress_usingCDict(c, dst, cap, src, n, cd); cs = r; break;
                    case 'G': r = ZSTD_compressBegin_usingCDict(c, cd); if (!ZSTD_isError(r)) r = ZSTD_compressEnd(c, dst, cap, src, n); cs = r; break;
                    case 'S': case 'N': { ZSTD_inBuffer in; ZSTD_outBuffer out; in.src = src; in.size = n; in.pos = 0; out.dst = dst; out.size = cap; out.pos = 0;
                        r = ZSTD_compressStream2(c, &out, &in, ZSTD_e_continue); if (!ZSTD_isError(r)) r = ZSTD_compressStream2(c, &out, &in, ZSTD_e_end);
                        if (!ZSTD_isError(r) && r != 0) r = (size_t)-ZSTD_error_dstSize_tooSmall; cs = out.pos; break; }
                    default: r = ZSTD_compress2(c, dst, cap, src, n); cs = r; break;
                }
                if (ZSTD_isError(r)) { printf("cerr frame %zu %s\n", f, zv_errclass(r)); bad = 1; }
                else { size_t dr; memset(back, 0, n);
                    dr = dm == 'd' ? ZSTD_decompress_usingDDict(dc, back, n, dst, cs, dd) : ZSTD_decompress_usingDict(dc, back, n, dst, cs, d, dn);
                    if (ZSTD_isError(dr)) { printf("FAIL frame %zu of %zu (%zu bytes): the frame does not decode with the dictionary: %s\n", f, nf, n, zv_errclass(dr)); bad = 1; }
                    else if (dr != n || memcmp(back, src, n)) { size_t k = 0; while (k < dr && k < n && back[k] == src[k]) k++; printf("FAIL frame %zu of %zu (%zu bytes): decoded %zu bytes, first difference at %zu\n", f, nf, n, dr, k); bad = 1; }
                    tin += n; tout += cs; }
                free(src);
            }
            if (!bad) printf("ok frames=%zu in=%zu out=%zu\n", nf, tin, tout);
            ZSTD_freeCCtx(c); ZSTD_freeCDict(cd); ZSTD_freeDDict(dd); ZSTD_freeDCtx(dc); free(content); free(d); free(dst); free(back);
        } else printf("bad-op\n");
        fflush(stdout);
    }
    return 0;
}
