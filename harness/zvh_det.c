/* zvh_det — C07 paired executions around DICTIONARIES and around the OPTIMAL PARSER's scratch memory.
 * It #includes zstd_compress.c (as zvh_window.c does) so that the match tables and the optimal parser's scratch tables of a context can be
 * overwritten between two frames: whatever a finished frame left there must be unreachable for the next one.
 *
 *   px <ctx> <hist> <supply> <api> <id=val,...|-> <dictSize>:<r|z> <gen>:<size> <chunk> <seed>
 *
 * reference run = fresh heap context (default allocator), no history.  variant run = the same frame (same parameters, same dictionary supplied the
 * same way, same calls) on a context described by <ctx> and <hist>; the two frames are byte-compared.
 *   ctx    <variant> or <reference>/<variant> (reference defaults to h; it never has a history), each one of
 *          h            heap context, default allocator
 *          pXX          heap context through ZSTD_customMem whose malloc fills every block with byte 0xXX (also used for a 'C' CDict)
 *          sXX          ZSTD_initStaticCCtx over a caller buffer pre-filled with byte 0xXX
 *   hist   letters, executed in order on the variant context before the compared frame ('-' = none):
 *          a  completed frame: same parameters, same dictionary supply, other input of the same size (no workspace resize: table indices continue)
 *          h  as a, input of 50..100% of the size                                            b  as a, no dictionary
 *          g  as a, input twice as large                                                     c  ZSTD_compressCCtx at a random level (heap only)
 *          d  other level + other dictionary through ZSTD_CCtx_loadDictionary (heap only)    f  failed frame (destination too small)
 *          s  aborted stream (half the input, no end)                                        r  ZSTD_CCtx_reset(session_only)
 *          T  match tables (hash / chain / 3-byte hash) overwritten with random indices that were valid for the finished frame
 *          O  optimal-parser scratch (price table, match table, frequency tables) overwritten with garbage
 *          last letter R: ZSTD_CCtx_reset(session_and_parameters) before the compared frame; P: ZSTD_CCtx_reset(parameters) only
 *   supply n none | c ZSTD_createCDict(level)+refCDict | C ZSTD_createCDict_advanced2(same parameters)+refCDict | l loadDictionary |
 *          L loadDictionary_byReference | x refPrefix            (these six go through <api>)
 *          u ZSTD_compress_usingCDict | U ZSTD_compress_usingCDict_advanced (checksum) | d ZSTD_compress_usingDict |
 *          i ZSTD_initCStream_usingCDict + pledged size | B ZSTD_compressBegin_usingCDict_advanced(pledged) + ZSTD_compressEnd   (api ignored)
 *          K a second context is prepared with ZSTD_compressBegin_usingDict(level) (size unknown), ZSTD_copyCCtx(ctx, prepared, size), ZSTD_compressEnd(ctx) |
 *          J the same, prepared with ZSTD_compressBegin_advanced(ZSTD_getParams(level, size, dictSize), size)                      (api ignored)
 *            the PREPARED context is fresh in the reference run; in the variant run with a history it has compressed two other frames before (so both the
 *            destination of the copy and its source have a past: everything a later frame looks at must come over with the copy)
 *   api    2 ZSTD_compress2 | p compressStream2, pledged size, <chunk>-byte continue calls | k same without pledge (size unknown) |
 *          e one compressStream2(e_end) call carrying the whole input
 *   dict   content generated from the seed; r = raw content, z = ZDICT_finalizeDictionary (entropy tables + ID)
 *   gen    df  fragments of the dictionary at arbitrary offsets, a few literals in between, some self-copies
 *          sm  many short matches (3..10 bytes) separated by one or two literals, small alphabet
 *          rec table of small fixed-size records with low-cardinality columns and a counter column (binary-like)
 *          mix generic mixture (copies / letter soup / noise)
 * -> same <bytes> | DIFF at byte <k> (fresh <a> bytes, variant <b> bytes) | err run<r> <name> | skip <why> */
#include <stdio.h>
#include <stdlib.h>
#include <string.h>
#include "zstd_compress.c"   /* found through -I<repo>/… (tools/build.py), so that ZV_REPO can point at another checkout */
#include "zdict.h"
#include "zvh_common.h"

static unsigned long long rs;
static unsigned rnd(void) { rs = rs * 6364136223846793005ULL + 1442695040888963407ULL; return (unsigned)(rs >> 33); }

static void gen_mix(unsigned char* p, size_t n, unsigned long long seed) {
    size_t i = 0; rs = seed;
    while (i < n) { unsigned k = rnd() % 100; size_t len = 1 + rnd() % 300, j; if (len > n - i) len = n - i;
        if (k < 35 && i > 1000) { size_t maxd = i < 60000u ? i : 60000u; size_t d = 1 + rnd() % maxd; for (j = 0; j < len; j++) p[i + j] = p[i + j - d]; }
        else if (k < 70) { for (j = 0; j < len; j++) p[i + j] = (unsigned char)("etaoin shrdlu,.\n"[rnd() % 17]); }
        else { for (j = 0; j < len; j++) p[i + j] = (unsigned char)rnd(); }
        i += len; }
}
/* many short matches separated by one or two literals */
static void gen_short(unsigned char* p, size_t n, unsigned long long seed) {
    size_t i = 0; unsigned const s = (unsigned)(seed % 1000003);
    int const alpha = 3 + (int)(s % 22), minc = 3 + (int)((s / 3) % 3), spanc = 1 + (int)((s / 11) % 6), lits = 1 + (int)((s / 7) % 2);
    size_t const maxoff = ((s / 5) % 3) == 0 ? (size_t)-1 : ((s / 5) % 3) == 1 ? 4096 : 65535; unsigned char const base = ((s / 13) % 2) ? 'a' : (unsigned char)((s / 17) % 200);
    rs = seed * 2654435761ULL + 12345;
    while (i < 256 && i < n) p[i++] = (unsigned char)(base + rnd() % alpha);
    while (i < n) { size_t const lim = i < maxoff ? i : maxoff; size_t const off = 1 + rnd() % lim; int const len = minc + (int)(rnd() % spanc); int j;
        for (j = 0; j < len && i < n; j++) { p[i] = p[i - off]; i++; }
        for (j = 0; j < lits && i < n; j++) p[i++] = (unsigned char)(base + rnd() % alpha); }
}
/* table of small fixed-size records: low-cardinality columns of 1..4 bytes, one counter column, a rare noise byte */
static void gen_records(unsigned char* p, size_t n, unsigned long long seed) {
    unsigned char voc[12][48][4]; int w[12], vs[12], ncol = 0, rec = 0, cnt, c, v; size_t i = 0; unsigned counter;
    int const target = 6 + (int)(seed % 19); rs = seed * 0x9E3779B97F4A7C15ULL + 7;
    while (rec < target && ncol < 12) { w[ncol] = 1 + (int)(rnd() % 4); if (w[ncol] > target - rec) w[ncol] = target - rec; vs[ncol] = 2 + (int)(rnd() % 46); rec += w[ncol]; ncol++; }
    for (c = 0; c < ncol; c++) for (v = 0; v < vs[c]; v++) { int k; for (k = 0; k < 4; k++) voc[c][v][k] = (unsigned char)((rnd() % 3) ? rnd() % 16 : rnd()); }
    cnt = (int)(rnd() % (unsigned)ncol); counter = rnd();
    while (i < n) {
        for (c = 0; c < ncol && i < n; c++) { int k; unsigned a = rnd() % (unsigned)vs[c], b = rnd() % (unsigned)vs[c]; unsigned const pick = a < b ? a : b;
            for (k = 0; k < w[c] && i < n; k++) p[i++] = (c == cnt) ? (unsigned char)(counter >> (8 * k)) : voc[c][pick][k]; }
        counter += 1 + (rnd() % 8 == 0);
        if (rnd() % 23 == 0 && i > 0) p[i - 1] = (unsigned char)rnd();
    }
}
/* fragments of the dictionary (arbitrary start offsets), a few literals, some self-copies */
static void gen_dictfrag(unsigned char* p, size_t n, const unsigned char* dict, size_t dsz, unsigned long long seed) {
    size_t i = 0; rs = seed ^ 0xD1C7F4A6ULL;
    while (i < n) { unsigned const k = rnd() % 100; size_t len, j;
        if (k < 70 && dsz >= 64) { size_t const off = rnd() % (dsz - 8); len = 5 + rnd() % 60; if (len > dsz - off) len = dsz - off; if (len > n - i) len = n - i; memcpy(p + i, dict + off, len); i += len; }
        else if (k < 85 && i > 100) { size_t const maxd = i < 30000 ? i : 30000, d = 1 + rnd() % maxd; len = 4 + rnd() % 40; if (len > n - i) len = n - i; for (j = 0; j < len; j++) p[i + j] = p[i + j - d]; i += len; }
        else { len = 1 + rnd() % 6; if (len > n - i) len = n - i; for (j = 0; j < len; j++) p[i + j] = (unsigned char)rnd(); i += len; } }
}
static void gen_any(const char* g, unsigned char* p, size_t n, const unsigned char* dict, size_t dsz, unsigned long long seed) {
    if (!strcmp(g, "df")) gen_dictfrag(p, n, dict, dsz, seed); else if (!strcmp(g, "sm")) gen_short(p, n, seed); else if (!strcmp(g, "rec")) gen_records(p, n, seed); else gen_mix(p, n, seed);
}

static void* poison_alloc(void* opaque, size_t size) { void* const p = malloc(size); if (p) memset(p, *(int*)opaque, size); return p; }
static void poison_free(void* opaque, void* address) { (void)opaque; free(address); }

typedef struct { const char* ps; int level; char supply, api; const unsigned char* dict; size_t dsz; size_t chunk; ZSTD_customMem cmem; } Setup;

static size_t set_params(ZSTD_CCtx* c, const char* ps) {
    char pcopy[512]; char* save = NULL; char* kv; size_t r = 0; strncpy(pcopy, ps, sizeof pcopy - 1); pcopy[sizeof pcopy - 1] = 0;
    for (kv = strtok_r(pcopy, ",", &save); kv && !ZSTD_isError(r); kv = strtok_r(NULL, ",", &save)) { int id, val; if (sscanf(kv, "%d=%d", &id, &val) == 2) r = ZSTD_CCtx_setParameter(c, (ZSTD_cParameter)id, val); }
    return r;
}
static void fill_cctxparams(ZSTD_CCtx_params* cp, const char* ps) {
    char pcopy[512]; char* save = NULL; char* kv; strncpy(pcopy, ps, sizeof pcopy - 1); pcopy[sizeof pcopy - 1] = 0;
    for (kv = strtok_r(pcopy, ",", &save); kv; kv = strtok_r(NULL, ",", &save)) { int id, val; if (sscanf(kv, "%d=%d", &id, &val) == 2) ZSTD_CCtxParams_setParameter(cp, (ZSTD_cParameter)id, val); }
}

static int g_prepared_has_history;   /* supply K / J: the prepared context of ZSTD_copyCCtx has compressed other frames before (variant run with a history) */

/* one frame: parameters, dictionary supply, calls. The context is expected in the init stage (fresh or reset by the caller). */
static size_t do_frame(ZSTD_CCtx* c, const Setup* s, char supply, void* dst, size_t cap, const unsigned char* x, size_t n, size_t* produced) {
    size_t r = 0, pos = 0, spins = 0; ZSTD_CDict* cd = NULL; *produced = 0;
    if (supply == 'K' || supply == 'J') {
        ZSTD_CCtx* const prep = ZSTD_createCCtx(); if (!prep) return ERROR(memory_allocation);
        if (g_prepared_has_history) { size_t const yn = n / 2 + 1000; unsigned char* const y = (unsigned char*)malloc(yn); void* const t = malloc(ZSTD_compressBound(yn)); size_t k;
            for (k = 0; k < yn; k++) y[k] = (unsigned char)(x[(k * 7) % n] ^ (k >> 9));
            ZSTD_compressCCtx(prep, t, ZSTD_compressBound(yn), y, yn, s->level); ZSTD_compressCCtx(prep, t, ZSTD_compressBound(yn), y, yn / 3, s->level); free(y); free(t); }
        if (supply == 'K') r = ZSTD_compressBegin_usingDict(prep, s->dict, s->dsz, s->level);
        else r = ZSTD_compressBegin_advanced(prep, s->dict, s->dsz, ZSTD_getParams(s->level, n, s->dsz), n);
        if (!ZSTD_isError(r)) r = ZSTD_copyCCtx(c, prep, n);
        if (!ZSTD_isError(r)) r = ZSTD_compressEnd(c, dst, cap, x, n);
        ZSTD_freeCCtx(prep); if (!ZSTD_isError(r)) *produced = r; return r;
    }
    if (supply == 'u' || supply == 'U' || supply == 'd' || supply == 'B' || supply == 'i') {
        if (supply == 'd') { r = ZSTD_compress_usingDict(c, dst, cap, x, n, s->dict, s->dsz, s->level); if (!ZSTD_isError(r)) *produced = r; return r; }
        cd = ZSTD_createCDict(s->dict, s->dsz, s->level); if (!cd) return ERROR(memory_allocation);
        if (supply == 'u') r = ZSTD_compress_usingCDict(c, dst, cap, x, n, cd);
        else if (supply == 'U') { ZSTD_frameParameters fp; fp.contentSizeFlag = 1; fp.checksumFlag = 1; fp.noDictIDFlag = 0; r = ZSTD_compress_usingCDict_advanced(c, dst, cap, x, n, cd, fp); }
        else if (supply == 'B') { ZSTD_frameParameters fp; fp.contentSizeFlag = 1; fp.checksumFlag = 0; fp.noDictIDFlag = 0;
            r = ZSTD_compressBegin_usingCDict_advanced(c, cd, fp, n); if (!ZSTD_isError(r)) r = ZSTD_compressEnd(c, dst, cap, x, n); }
        else { r = ZSTD_initCStream_usingCDict(c, cd); if (!ZSTD_isError(r)) r = ZSTD_CCtx_setPledgedSrcSize(c, n);
            while (!ZSTD_isError(r)) { size_t const isz = n - pos < s->chunk ? n - pos : s->chunk; ZSTD_inBuffer ib; ZSTD_outBuffer ob; ib.src = x + pos; ib.size = isz; ib.pos = 0; ob.dst = (char*)dst + *produced; ob.size = cap - *produced; ob.pos = 0;
                r = ZSTD_compressStream2(c, &ob, &ib, isz ? ZSTD_e_continue : ZSTD_e_end); pos += ib.pos; *produced += ob.pos; if (!isz && r == 0) break; if (!ZSTD_isError(r) && *produced >= cap) { r = ERROR(dstSize_tooSmall); break; } if (++spins > 100000000) { r = ERROR(GENERIC); break; } }
            ZSTD_freeCDict(cd); return ZSTD_isError(r) ? r : *produced; }
        ZSTD_freeCDict(cd); if (!ZSTD_isError(r)) *produced = r; return r;
    }
    r = set_params(c, s->ps); if (ZSTD_isError(r)) return r;
    if (supply == 'c') { cd = ZSTD_createCDict(s->dict, s->dsz, s->level); if (!cd) return ERROR(memory_allocation); r = ZSTD_CCtx_refCDict(c, cd); }
    else if (supply == 'C') { ZSTD_CCtx_params* const cp = ZSTD_createCCtxParams(); fill_cctxparams(cp, s->ps);
        cd = ZSTD_createCDict_advanced2(s->dict, s->dsz, ZSTD_dlm_byCopy, ZSTD_dct_auto, cp, s->cmem); ZSTD_freeCCtxParams(cp); if (!cd) return ERROR(memory_allocation); r = ZSTD_CCtx_refCDict(c, cd); }
    else if (supply == 'l') r = ZSTD_CCtx_loadDictionary(c, s->dict, s->dsz);
    else if (supply == 'L') r = ZSTD_CCtx_loadDictionary_byReference(c, s->dict, s->dsz);
    else if (supply == 'x') r = ZSTD_CCtx_refPrefix(c, s->dict, s->dsz);
    if (!ZSTD_isError(r)) {
        if (s->api == '2') { r = ZSTD_compress2(c, dst, cap, x, n); if (!ZSTD_isError(r)) *produced = r; }
        else if (s->api == 'e') { ZSTD_inBuffer ib; ZSTD_outBuffer ob; ib.src = x; ib.size = n; ib.pos = 0; ob.dst = dst; ob.size = cap; ob.pos = 0; r = ZSTD_compressStream2(c, &ob, &ib, ZSTD_e_end); *produced = ob.pos; if (!ZSTD_isError(r) && r != 0) r = ERROR(dstSize_tooSmall); }
        else { if (s->api == 'p') r = ZSTD_CCtx_setPledgedSrcSize(c, n);
            while (!ZSTD_isError(r)) { size_t const isz = n - pos < s->chunk ? n - pos : s->chunk; ZSTD_inBuffer ib; ZSTD_outBuffer ob; ib.src = x + pos; ib.size = isz; ib.pos = 0; ob.dst = (char*)dst + *produced; ob.size = cap - *produced; ob.pos = 0;
                r = ZSTD_compressStream2(c, &ob, &ib, isz ? ZSTD_e_continue : ZSTD_e_end); pos += ib.pos; *produced += ob.pos; if (!isz && r == 0) break; if (!ZSTD_isError(r) && *produced >= cap) { r = ERROR(dstSize_tooSmall); break; } if (++spins > 100000000) { r = ERROR(GENERIC); break; } } }
    }
    if (cd) ZSTD_freeCDict(cd);
    return ZSTD_isError(r) ? r : *produced;
}

static void poison_match_tables(ZSTD_CCtx* cctx, unsigned long long seed) {
    ZSTD_matchState_t* const ms = &cctx->blockState.matchState; U32 const hi = ms->window.base ? (U32)(ms->window.nextSrc - ms->window.base) : 0; size_t t;
    size_t const hS = (size_t)1 << cctx->appliedParams.cParams.hashLog, cS = (size_t)1 << cctx->appliedParams.cParams.chainLog, h3 = ms->hashLog3 ? (size_t)1 << ms->hashLog3 : 0;
    if (!cctx->initialized || !hi) return;
    rs = seed ^ 0x5555;
    if (ms->hashTable && ZSTD_cwksp_owns_buffer(&cctx->workspace, ms->hashTable)) for (t = 0; t < hS; t++) ms->hashTable[t] = rnd() % hi;
    if (ms->chainTable && ZSTD_cwksp_owns_buffer(&cctx->workspace, ms->chainTable) && ZSTD_allocateChainTable(cctx->appliedParams.cParams.strategy, cctx->appliedParams.useRowMatchFinder, 0)) for (t = 0; t < cS; t++) ms->chainTable[t] = rnd() % hi;
    if (ms->hashTable3 && h3 && ZSTD_cwksp_owns_buffer(&cctx->workspace, ms->hashTable3)) for (t = 0; t < h3; t++) ms->hashTable3[t] = rnd() % hi;
}
static void garbage(void* p, size_t bytes, unsigned mode) {
    U32* const w = (U32*)p; size_t const n = bytes / 4; size_t t;
    for (t = 0; t < n; t++) w[t] = mode == 0 ? 0u : mode == 1 ? 0xFFFFFFFFu : mode == 2 ? rnd() % 4096 : mode == 3 ? ((U32)rnd() << 1) ^ rnd() : 0x80000000u | rnd();
}
static void poison_opt_tables(ZSTD_CCtx* cctx, unsigned long long seed) {
    ZSTD_matchState_t* const ms = &cctx->blockState.matchState; unsigned mode;
    if (!cctx->initialized || cctx->appliedParams.cParams.strategy < ZSTD_btopt || !ms->opt.priceTable) return;
    if (!ZSTD_cwksp_owns_buffer(&cctx->workspace, ms->opt.priceTable) || !ZSTD_cwksp_owns_buffer(&cctx->workspace, ms->opt.matchTable) || !ZSTD_cwksp_owns_buffer(&cctx->workspace, ms->opt.litFreq)) return;
    rs = seed ^ 0x0F70F7; mode = (unsigned)(seed % 5);
    garbage(ms->opt.priceTable, ZSTD_OPT_SIZE * sizeof(ZSTD_optimal_t), mode);
    garbage(ms->opt.matchTable, ZSTD_OPT_SIZE * sizeof(ZSTD_match_t), mode);
    garbage(ms->opt.litFreq, (1 << Litbits) * sizeof(unsigned), mode); garbage(ms->opt.litLengthFreq, (MaxLL + 1) * sizeof(unsigned), mode);
    garbage(ms->opt.matchLengthFreq, (MaxML + 1) * sizeof(unsigned), mode); garbage(ms->opt.offCodeFreq, (MaxOff + 1) * sizeof(unsigned), mode);
}

int main(void) {
    char* line;
    while ((line = zv_getline())) {
        char* op = strtok(line, " "); if (!op) continue;
        if (!strcmp(op, "px")) {
            char* ctxk = strtok(NULL, " "); char* hist = strtok(NULL, " "); char* sup = strtok(NULL, " "); char* api = strtok(NULL, " "); char* ps = strtok(NULL, " ");
            char* dspec = strtok(NULL, " "); char* gspec = strtok(NULL, " "); size_t chunk = (size_t)strtoull(strtok(NULL, " "), NULL, 10); unsigned long long seed = strtoull(strtok(NULL, " "), NULL, 10);
            size_t dcontent = (size_t)strtoull(dspec, NULL, 10); char const dkind = strchr(dspec, ':') ? strchr(dspec, ':')[1] : 'r';
            char gname[8]; size_t n; size_t dsz = dcontent; unsigned char* dictbuf; unsigned char* dict; unsigned char* x; unsigned char* y; unsigned char* out[2]; unsigned char* scratch; size_t osz[2] = { 0, 0 }, cap; int run, fail = 0, fillbyte = 0;
            void* staticMem = NULL; const char* refk = "h"; Setup s; int level = 3; size_t nh = strlen(hist);
            { char* col = strchr(gspec, ':'); size_t gl = col ? (size_t)(col - gspec) : strlen(gspec); if (gl > 7) gl = 7; memcpy(gname, gspec, gl); gname[gl] = 0; n = col ? (size_t)strtoull(col + 1, NULL, 10) : 10000; }
            { const char* q = strstr(ps, "100="); if (q && (q == ps || q[-1] == ',')) level = atoi(q + 4); }
            if (chunk == 0) chunk = 65536;
            dictbuf = (unsigned char*)malloc(dcontent + 4096 + 64); dict = dictbuf; x = (unsigned char*)malloc(n + 64); y = (unsigned char*)malloc(2 * n + 64);
            if (dcontent) gen_mix(dictbuf + 4096, dcontent, seed + 99);
            gen_any(gname, x, n, dictbuf + 4096, dcontent, seed);
            if (dcontent) { dict = dictbuf + 4096;
                if (dkind == 'z') { size_t sizes[8]; int k; ZDICT_params_t zp; size_t r; unsigned char* fin = (unsigned char*)malloc(dcontent + 4096 + 64); memset(&zp, 0, sizeof zp); zp.compressionLevel = level;
                    for (k = 0; k < 8; k++) sizes[k] = n / 8;
                    r = n >= 64 ? ZDICT_finalizeDictionary(fin, dcontent + 4096, dictbuf + 4096, dcontent, x, sizes, 8, zp) : (size_t)-1;
                    if (!ZDICT_isError(r) && r <= dcontent + 4096) { memcpy(dictbuf, fin, r); dict = dictbuf; dsz = r; }
                    free(fin); } }
            cap = ZSTD_compressBound(2 * n) + 1024; out[0] = (unsigned char*)malloc(cap); out[1] = (unsigned char*)malloc(cap); scratch = (unsigned char*)malloc(cap);
            memset(&s, 0, sizeof s); s.ps = ps; s.level = level; s.supply = sup[0]; s.api = api[0]; s.dict = dict; s.dsz = dsz; s.chunk = chunk;
            { char* sl = strchr(ctxk, '/'); if (sl) { *sl = 0; refk = ctxk; ctxk = sl + 1; } }
            for (run = 0; run < 2 && !fail; run++) {
                ZSTD_CCtx* cctx; size_t r; int isStatic = 0;
                const char* const ck = run == 0 ? refk : ctxk; int const fillbyte_ = ck[0] != 'h' ? (int)strtol(ck + 1, NULL, 16) : 0;
                fillbyte = fillbyte_; memset(&s.cmem, 0, sizeof s.cmem);
                if (ck[0] == 'p') { s.cmem.customAlloc = poison_alloc; s.cmem.customFree = poison_free; s.cmem.opaque = &fillbyte; cctx = ZSTD_createCCtx_advanced(s.cmem); }
                else if (ck[0] == 's') {
                    ZSTD_CCtx_params* const cp = ZSTD_createCCtxParams(); size_t need, need2; fill_cctxparams(cp, ps); need = ZSTD_estimateCStreamSize_usingCCtxParams(cp);
                    /* room for the window to grow over the dictionary / for the twice-as-large history frame when the parameters carry a source size hint */
                    if (!ZSTD_isError(ZSTD_CCtxParams_setParameter(cp, ZSTD_c_srcSizeHint, (int)(4 * n + 2 * dsz + 1024)))) { need2 = ZSTD_estimateCStreamSize_usingCCtxParams(cp); if (!ZSTD_isError(need2) && !ZSTD_isError(need) && need2 > need) need = need2; }
                    ZSTD_freeCCtxParams(cp);
                    if (strchr("lL", s.supply) || strchr(hist, 'c') || strchr(hist, 'd')) { printf("skip static-context-cannot-allocate-a-local-dictionary\n"); fail = 2; break; }
                    if (ZSTD_isError(need)) { printf("skip static-estimate-error\n"); fail = 2; break; }
                    if (strchr("uUdBiKJ", s.supply)) { need2 = ZSTD_estimateCStreamSize(level); if (!ZSTD_isError(need2) && need2 > need) need = need2; }
                    need += 1 << 20; staticMem = malloc(need + 64); memset(staticMem, fillbyte, need + 64);
                    cctx = ZSTD_initStaticCCtx((void*)(((size_t)staticMem + 63) & ~(size_t)63), need); isStatic = 1;
                    if (!cctx) { printf("skip static-init-null\n"); fail = 2; break; }
                } else cctx = ZSTD_createCCtx();
                g_prepared_has_history = 0;
                if (run == 1 && nh && hist[0] != '-') {
                    size_t k; int advanced = strchr("nclLCx", s.supply) != NULL;
                    for (k = 0; k < nh; k++) { char const h = hist[k]; size_t yn = n / 2 + (size_t)((seed >> 3) + 7919 * k) % (n / 2 + 1), prod;
                        if (h == 'a' || h == 'b' || h == 'g' || h == 'h') { if (h == 'g') yn = 2 * n; else if (h != 'h') yn = n; gen_any(gname, y, yn, dictbuf + 4096, dcontent, seed + 1000 + k);
                            if (advanced) { ZSTD_CCtx_reset(cctx, ZSTD_reset_session_and_parameters); do_frame(cctx, &s, h == 'b' ? 'n' : s.supply, scratch, cap, y, yn, &prod); }
                            else if (h == 'b') ZSTD_compressCCtx(cctx, scratch, cap, y, yn, level);
                            else do_frame(cctx, &s, s.supply, scratch, cap, y, yn, &prod); }
                        else if (h == 'c') { gen_mix(y, yn, seed + 2000 + k); rs = seed + k; ZSTD_compressCCtx(cctx, scratch, cap, y, yn, 1 + (int)(rnd() % 19)); }
                        else if (h == 'd') { gen_mix(y, yn, seed + 3000 + k); rs = seed + k; ZSTD_CCtx_reset(cctx, ZSTD_reset_session_and_parameters); ZSTD_CCtx_setParameter(cctx, ZSTD_c_compressionLevel, 1 + (int)(rnd() % 19));
                            ZSTD_CCtx_loadDictionary(cctx, y, yn / 3); ZSTD_compress2(cctx, scratch, cap, y, yn); }
                        else if (h == 'f') { gen_any(gname, y, yn, dictbuf + 4096, dcontent, seed + 4000 + k);
                            if (advanced) { ZSTD_CCtx_reset(cctx, ZSTD_reset_session_and_parameters); do_frame(cctx, &s, s.supply, scratch, 12 + yn / 64, y, yn, &prod); } else ZSTD_compressCCtx(cctx, scratch, 12 + yn / 64, y, yn, level); }
                        else if (h == 's') { Setup s2 = s; gen_any(gname, y, yn, dictbuf + 4096, dcontent, seed + 5000 + k); s2.api = 'k';
                            ZSTD_CCtx_reset(cctx, ZSTD_reset_session_and_parameters); set_params(cctx, ps); if (s.supply == 'l' || s.supply == 'L') ZSTD_CCtx_loadDictionary(cctx, dict, dsz); else if (s.supply == 'x') ZSTD_CCtx_refPrefix(cctx, dict, dsz);
                            { ZSTD_inBuffer ib; ZSTD_outBuffer ob; ib.src = y; ib.size = yn / 2; ib.pos = 0; ob.dst = scratch; ob.size = cap; ob.pos = 0; ZSTD_compressStream2(cctx, &ob, &ib, ZSTD_e_continue); } (void)s2; }
                        else if (h == 'r') ZSTD_CCtx_reset(cctx, ZSTD_reset_session_only);
                        else if (h == 'T') poison_match_tables(cctx, seed + k);
                        else if (h == 'O') poison_opt_tables(cctx, seed + k);
                        else if (h == 'R') ZSTD_CCtx_reset(cctx, ZSTD_reset_session_and_parameters);
                        else if (h == 'P') { if (ZSTD_isError(ZSTD_CCtx_reset(cctx, ZSTD_reset_parameters))) ZSTD_CCtx_reset(cctx, ZSTD_reset_session_and_parameters); }
                    }
                }
                g_prepared_has_history = (run == 1 && nh && hist[0] != '-');
                r = do_frame(cctx, &s, s.supply, out[run], cap, x, n, &osz[run]);
                if (ZSTD_isError(r)) { printf("err run%d %s\n", run, ZSTD_getErrorName(r)); fail = 1; }
                if (!isStatic) ZSTD_freeCCtx(cctx); else { free(staticMem); staticMem = NULL; }
            }
            if (!fail) { if (osz[0] == osz[1] && !memcmp(out[0], out[1], osz[0])) printf("same %zu\n", osz[0]);
                else { size_t k = 0; while (k < osz[0] && k < osz[1] && out[0][k] == out[1][k]) k++; printf("DIFF at byte %zu (fresh %zu bytes, variant %zu bytes)\n", k, osz[0], osz[1]); } }
            free(dictbuf); free(x); free(y); free(out[0]); free(out[1]); free(scratch); free(staticMem);
        } else printf("bad-op\n");
        fflush(stdout);
    }
    return 0;
}
