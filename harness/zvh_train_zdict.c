/* zdict.c with fresh malloc blocks filled (zvh_train_fill.h) */
#include "zvh_train_fill.h"
#include "zdict.c"   /* found through -I<repo>/… (tools/build.py), so that ZV_REPO can point at another checkout */
