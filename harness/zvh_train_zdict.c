/* zdict.c with fresh malloc blocks filled (zvh_train_fill.h).
 * Legacy trainer (C18): the table of candidate segments (dictItem table, ZDICT_insertDictItem) is
 *   (a) watched during ZDICT_trainFromBuffer_legacy runs: the block whose size is the table's (zvt_watch_* set by zvh_train.c) is remembered and its slot 0
 *       (table->pos = used slots, slot 0 included) is sampled at every later free() of this translation unit: zvt_tbl_pos / zvt_tbl_entries tell whether a run
 *       really FILLED its table (pos == entries) - coverage, printed as tbl=<pos>/<entries>;
 *   (b) driven at function level (zvt_dins): candidates that merge with nothing inserted into a table of exactly maxSize slots (a malloc block of exactly that size:
 *       a write to slot maxSize is a sanitizer report), answer compared with Train.insertAll. */
#include "zvh_train_fill.h"
void* zvt_zdict_malloc(size_t n); void zvt_zdict_free(void* p);
#undef malloc
#define malloc(n) zvt_zdict_malloc(n)
#define free(p) zvt_zdict_free(p)
#include "zdict.c"   /* found through -I<repo>/… (tools/build.py), so that ZV_REPO can point at another checkout */
#undef malloc
#undef free

int zvt_watch_legacy; unsigned zvt_watch_nb; size_t zvt_watch_cap; size_t zvt_tbl_pos, zvt_tbl_entries; static void* g_tbl;
void* zvt_zdict_malloc(size_t n) {
    void* const p = zvt_fill_malloc(n);
    if (zvt_watch_legacy && !g_tbl && p && n == (size_t)MAX(MAX(DICTLISTSIZE_DEFAULT, zvt_watch_nb), (U32)(zvt_watch_cap / 16)) * sizeof(dictItem)) { g_tbl = p; zvt_tbl_entries = n / sizeof(dictItem); zvt_tbl_pos = 0; }
    return p;
}
void zvt_zdict_free(void* p) {
    if (g_tbl) { if (p == g_tbl) g_tbl = NULL; else { size_t const used = ((const dictItem*)g_tbl)->pos; if (used > zvt_tbl_pos) zvt_tbl_pos = used; } }
    free(p);
}

/* n candidates with savings sv[0..n) inserted in this order into a fresh table of maxSize (>= 2) slots.  Candidate i sits at position 32*i + 16 of a buffer in
 * which no two of them overlap, touch, or contain one another (ZDICT_tryMerge finds nothing: the 8 bytes at a candidate's start begin with FF, the 8 bytes one
 * further with 00), length 8 + i % 9.  Prints table->pos and the used slots in rank order as <candidate>:<savings>. */
void zvt_dins(unsigned maxSize, const unsigned* sv, unsigned n) {
    dictItem* const table = (dictItem*)malloc((size_t)maxSize * sizeof(dictItem)); size_t const bsz = (size_t)n * 32 + 96; unsigned char* const buf = (unsigned char*)calloc(1, bsz); unsigned i;
    for (i = 0; i < n; i++) { unsigned char* q = buf + 32 * (size_t)i + 16; q[0] = 0xFF; q[1] = 0; q[2] = (unsigned char)i; q[3] = (unsigned char)(i >> 8); q[4] = (unsigned char)(i >> 16); }
    ZDICT_initDictItem(table);
    for (i = 0; i < n; i++) { dictItem e; e.pos = 32 * i + 16; e.length = 8 + i % 9; e.savings = sv[i]; ZDICT_insertDictItem(table, maxSize, e, buf); }
    printf("pos=%u items=", (unsigned)table->pos);
    if (table->pos <= 1) printf("-");
    for (i = 1; i < table->pos && i < maxSize; i++) printf("%s%u:%u", i > 1 ? "," : "", (unsigned)((table[i].pos - 16) / 32), (unsigned)table[i].savings);
    printf("\n"); free(table); free(buf);
}
