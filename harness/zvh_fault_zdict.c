#include "zvh_fault_redirect.h"
#include "zdict.c"   /* found through -I<repo>/… (tools/build.py), so that ZV_REPO can point at another checkout */
