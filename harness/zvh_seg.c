/* zvh_seg — compression entry points that work DIRECTLY on the caller's memory, with the memory layout of the source under control
 * (used by C01 and C05).  The byte in front of every source buffer and of the dictionary buffer is chosen by the caller of the harness
 * (match finders must never look at it), and the input of the begin / continue / end interface is laid out as separate heap blocks, one contiguous block,
 * a ring buffer, or one buffer that is overwritten by every segment.
 *
 *   pre <api> <id=val,...|-> <prebyte> <chunks csv> <hex-src> [dict-hex]
 *        the source is stored at offset 1 of a heap block whose byte 0 is <prebyte>.
 *        api: c2 simple cctx adv udict ucdict   single-call entry points (chunks ignored)
 *             ss   ZSTD_compressStream2 with ZSTD_c_stableInBuffer, input size growing by the chunk list (cycled), ended with e_end
 *             sb   ZSTD_compressStream2 (buffered), fed by the chunk list (cycled), ended with e_end
 *        -> <hex frame> | err <class>
 *
 *   seg <begin> <id=val,...|-> <layout> <prebyte> <endmode> <seglens csv> <hex-src> [dict-hex]
 *        begin : plain     ZSTD_compressBegin(level)
 *                udict     ZSTD_compressBegin_usingDict(dict, level)
 *                cdict     ZSTD_createCDict(dict, level) + ZSTD_compressBegin_usingCDict
 *                cdictref  ZSTD_createCDict_byReference(dict, level) + ZSTD_compressBegin_usingCDict   (the dictionary content stays in the caller's block)
 *                adv       ZSTD_compressBegin_advanced(dict, ZSTD_getParams(level, unknown, dictSize) overridden by ids 101..107, 200, 201; pledged = total when 9000=1)
 *                cdictadv  ZSTD_createCDict_advanced (same compression parameters; dictionary referenced instead of copied when 9001=1) + ZSTD_compressBegin_usingCDict_advanced (pledged = total when 9000=1)
 *        layout: s         every segment in its own heap block (offset 1, byte 0 = <prebyte>); all blocks stay allocated
 *                c         one heap block holding the whole source (offset 1, byte 0 = <prebyte>)
 *                r<size>   ring buffer of <size> bytes: a segment that does not fit behind the previous one starts again at the beginning
 *                          (segments longer than the ring are cut to the ring size)
 *                o         every segment is copied to the beginning of one and the same buffer (as large as the longest segment)
 *        endmode: 0 the last segment is handed to ZSTD_compressEnd ; 1 every segment goes through ZSTD_compressContinue, then ZSTD_compressEnd(NULL, 0)
 *        seglens : lengths of the segments (the list is cycled until the source is used up; a length 0 is a call without input)
 *        -> <hex frame> segs=<n> | err <class> at=<segment index> */
#define ZSTD_DISABLE_DEPRECATE_WARNINGS 1
#include "zvh_common.h"
#include <signal.h>
#include <unistd.h>
static void on_alarm(int s) { (void)s; { static const char m[] = "TIMEOUT\n"; if (write(1, m, sizeof m - 1) < 0) {} } _exit(3); }

static size_t parse_csv(char* s, size_t* v, size_t max) {
    size_t n = 0; char* sv = NULL; char* t;
    for (t = strtok_r(s, ",", &sv); t && n < max; t = strtok_r(NULL, ",", &sv)) v[n++] = (size_t)strtoull(t, NULL, 10);
    return n;
}

/* dictionary bytes stored at offset 1 of a heap block whose byte 0 is <pb> (returns the block; the dictionary starts at block + 1) */
static unsigned char* dict_block(const char* dh, int pb, size_t* dn) {
    unsigned char* d0 = zv_unhex(dh, dn); unsigned char* b = (unsigned char*)malloc(*dn + 1);
    b[0] = (unsigned char)pb; memcpy(b + 1, d0, *dn); free(d0); return b;
}

/* applies the id=val list to the context; remembers the ones the begin-variants need as plain numbers */
typedef struct { int level, wlog, hlog, clog, slog, mml, tlen, strat, cks, nofcs, pledge, byref; } seg_params;
static size_t apply_params(ZSTD_CCtx* cctx, char* ps, seg_params* sp) {
    size_t r = 0; char* save = NULL; char* kv;
    memset(sp, 0, sizeof *sp); sp->level = 3;
    for (kv = strtok_r(ps, ",", &save); kv && !ZSTD_isError(r); kv = strtok_r(NULL, ",", &save)) {
        int id, val; if (sscanf(kv, "%d=%d", &id, &val) != 2) continue;
        switch (id) { case 100: sp->level = val; break; case 101: sp->wlog = val; break; case 102: sp->hlog = val; break; case 103: sp->clog = val; break;
            case 104: sp->slog = val; break; case 105: sp->mml = val; break; case 106: sp->tlen = val; break; case 107: sp->strat = val; break;
            case 201: sp->cks = val; break; case 200: sp->nofcs = !val; break; case 9000: sp->pledge = val; continue; case 9001: sp->byref = val; continue; default: break; }
        r = ZSTD_CCtx_setParameter(cctx, (ZSTD_cParameter)id, val);
    }
    return r;
}
static ZSTD_parameters seg_getParams(const seg_params* sp, unsigned long long srcSize, size_t dn) {
    ZSTD_parameters p = ZSTD_getParams(sp->level, srcSize, dn);
    if (sp->wlog) p.cParams.windowLog = (unsigned)sp->wlog;
    if (sp->hlog) p.cParams.hashLog = (unsigned)sp->hlog;
    if (sp->clog) p.cParams.chainLog = (unsigned)sp->clog;
    if (sp->slog) p.cParams.searchLog = (unsigned)sp->slog;
    if (sp->mml) p.cParams.minMatch = (unsigned)sp->mml;
    if (sp->tlen) p.cParams.targetLength = (unsigned)sp->tlen;
    if (sp->strat) p.cParams.strategy = (ZSTD_strategy)sp->strat;
    p.fParams.checksumFlag = sp->cks; p.fParams.contentSizeFlag = !sp->nofcs; p.fParams.noDictIDFlag = 0;
    return p;
}

int main(void) {
    char* line; ZSTD_CCtx* cctx = ZSTD_createCCtx();
    signal(SIGALRM, on_alarm);
    while ((line = zv_getline())) {
        char* op = strtok(line, " "); if (!op) continue;
        alarm(120);
        if (!strcmp(op, "pre")) {
            char* api = strtok(NULL, " "); char* ps = strtok(NULL, " "); int pb = atoi(strtok(NULL, " ")); char* cs = strtok(NULL, " ");
            size_t n, dn = 0; unsigned char* in0 = zv_unhex(strtok(NULL, " "), &n); char* dh = strtok(NULL, " "); unsigned char* dblk = dh ? dict_block(dh, pb, &dn) : NULL; unsigned char* d = dblk ? dblk + 1 : NULL;
            unsigned char* blk = (unsigned char*)malloc(n + 1); unsigned char* in = blk + 1; size_t ch[64]; size_t nc = parse_csv(cs, ch, 64);
            size_t cap = ZSTD_compressBound(n) + 24 * n + 4096; unsigned char* out = (unsigned char*)malloc(cap); size_t r; seg_params sp;
            blk[0] = (unsigned char)pb; memcpy(in, in0, n); free(in0); if (!nc) { ch[0] = n ? n : 1; nc = 1; }
            ZSTD_CCtx_reset(cctx, ZSTD_reset_session_and_parameters);
            r = apply_params(cctx, ps, &sp);
            if (!ZSTD_isError(r)) {
                if (!strcmp(api, "c2")) { if (d) r = ZSTD_CCtx_loadDictionary(cctx, d, dn); if (!ZSTD_isError(r)) r = ZSTD_compress2(cctx, out, cap, in, n); }
                else if (!strcmp(api, "simple")) r = ZSTD_compress(out, cap, in, n, sp.level);
                else if (!strcmp(api, "cctx")) r = ZSTD_compressCCtx(cctx, out, cap, in, n, sp.level);
                else if (!strcmp(api, "adv")) { ZSTD_parameters p = seg_getParams(&sp, n, dn); r = ZSTD_compress_advanced(cctx, out, cap, in, n, d, dn, p); }
                else if (!strcmp(api, "udict")) r = ZSTD_compress_usingDict(cctx, out, cap, in, n, d, dn, sp.level);
                else if (!strcmp(api, "ucdict")) { ZSTD_CDict* cd = ZSTD_createCDict(d, dn, sp.level); r = cd ? ZSTD_compress_usingCDict(cctx, out, cap, in, n, cd) : (size_t)-1; ZSTD_freeCDict(cd); }
                else if (!strcmp(api, "ss") || !strcmp(api, "sb")) {
                    int stable = api[1] == 's'; size_t fed = 0, k = 0; ZSTD_outBuffer ob = { out, cap, 0 }; int guard = 0;
                    if (d) r = ZSTD_CCtx_loadDictionary(cctx, d, dn);
                    if (stable && !ZSTD_isError(r)) r = ZSTD_CCtx_setParameter(cctx, ZSTD_c_stableInBuffer, 1);
                    while (!ZSTD_isError(r) && guard++ < 4000000) {
                        size_t c = ch[k++ % nc]; ZSTD_inBuffer ib; int last; if (c > n - fed) c = n - fed; last = (fed + c == n);
                        if (stable) { ib.src = in; ib.size = fed + c; ib.pos = fed; } else { ib.src = in + fed; ib.size = c; ib.pos = 0; }
                        do { r = ZSTD_compressStream2(cctx, &ob, &ib, last ? ZSTD_e_end : ZSTD_e_continue); } while (!ZSTD_isError(r) && (last ? r != 0 : ib.pos < ib.size) && guard++ < 4000000);
                        fed += c; if (last) break;
                    }
                    if (!ZSTD_isError(r)) r = ob.pos;
                }
                else r = (size_t)-1;
            }
            if (ZSTD_isError(r)) printf("err %s\n", zv_errclass(r)); else { zv_puthex(out, r); putchar('\n'); }
            ZSTD_CCtx_reset(cctx, ZSTD_reset_session_and_parameters);
            free(blk); free(out); free(dblk);
        } else if (!strcmp(op, "seg")) {
            char* begin = strtok(NULL, " "); char* ps = strtok(NULL, " "); char* layout = strtok(NULL, " "); int pb = atoi(strtok(NULL, " ")); int endmode = atoi(strtok(NULL, " "));
            char* ls = strtok(NULL, " "); size_t n, dn = 0; unsigned char* in = zv_unhex(strtok(NULL, " "), &n); char* dh = strtok(NULL, " "); unsigned char* dblk = dh ? dict_block(dh, pb, &dn) : NULL; unsigned char* d = dblk ? dblk + 1 : NULL;
            size_t lens[256]; size_t nl = parse_csv(ls, lens, 256); size_t ring = layout[0] == 'r' ? (size_t)strtoull(layout + 1, NULL, 10) : 0;
            size_t nsegmax = 0, maxlen = 0; size_t* sl; size_t nseg = 0, used = 0, k, r = 0, pos = 0; seg_params sp; ZSTD_CDict* cd = NULL;
            unsigned char** blocks; unsigned char* whole = NULL; unsigned char* out; size_t cap; int failedAt = -1; size_t rp = 0;
            if (!nl) { lens[0] = n; nl = 1; }
            if (layout[0] == 'r' && ring < 1) ring = 1;
            /* the concrete segment list: the length list is cycled until the source is used up (zero lengths are kept as calls without input; a list of zeros only cannot advance) */
            { size_t any = 0; for (k = 0; k < nl; k++) any |= lens[k]; if (!any) lens[0] = n ? n : 1; }
            nsegmax = 16; sl = (size_t*)malloc(nsegmax * sizeof *sl);
            for (k = 0; used < n || nseg == 0; k++) { size_t l = lens[k % nl]; if (l > n - used) l = n - used; if (ring && l > ring) l = ring;
                if (nseg == nsegmax) { nsegmax *= 2; sl = (size_t*)realloc(sl, nsegmax * sizeof *sl); }
                sl[nseg++] = l; used += l; if (l > maxlen) maxlen = l; if (nseg > 200000) break; }
            blocks = (unsigned char**)calloc(nseg + 1, sizeof *blocks);
            if (layout[0] == 'c') { whole = (unsigned char*)malloc(n + 1); whole[0] = (unsigned char)pb; memcpy(whole + 1, in, n); }
            else if (layout[0] == 'r') { whole = (unsigned char*)malloc(ring + 1); whole[0] = (unsigned char)pb; }
            else if (layout[0] == 'o') { whole = (unsigned char*)malloc(maxlen + 1); whole[0] = (unsigned char)pb; }
            cap = ZSTD_compressBound(n) + 32 * nseg + 4096; out = (unsigned char*)malloc(cap);
            ZSTD_CCtx_reset(cctx, ZSTD_reset_session_and_parameters);
            r = apply_params(cctx, ps, &sp);
            if (!ZSTD_isError(r)) {
                unsigned long long const pledged = sp.pledge ? (unsigned long long)used : ZSTD_CONTENTSIZE_UNKNOWN;
                if (!strcmp(begin, "plain")) r = ZSTD_compressBegin(cctx, sp.level);
                else if (!strcmp(begin, "udict")) r = ZSTD_compressBegin_usingDict(cctx, d, dn, sp.level);
                else if (!strcmp(begin, "cdict")) { cd = ZSTD_createCDict(d, dn, sp.level); r = cd ? ZSTD_compressBegin_usingCDict(cctx, cd) : (size_t)-ZSTD_error_memory_allocation; }
                else if (!strcmp(begin, "cdictref")) { cd = ZSTD_createCDict_byReference(d, dn, sp.level); r = cd ? ZSTD_compressBegin_usingCDict(cctx, cd) : (size_t)-ZSTD_error_memory_allocation; }
                else if (!strcmp(begin, "adv")) { ZSTD_parameters p = seg_getParams(&sp, pledged, dn); r = ZSTD_checkCParams(p.cParams); if (!ZSTD_isError(r)) r = ZSTD_compressBegin_advanced(cctx, d, dn, p, pledged); }
                else if (!strcmp(begin, "cdictadv")) { ZSTD_parameters p = seg_getParams(&sp, pledged, dn); ZSTD_customMem cm = { NULL, NULL, NULL };
                    r = ZSTD_checkCParams(p.cParams);
                    if (!ZSTD_isError(r)) { cd = ZSTD_createCDict_advanced(d, dn, sp.byref ? ZSTD_dlm_byRef : ZSTD_dlm_byCopy, ZSTD_dct_auto, p.cParams, cm);
                        r = cd ? ZSTD_compressBegin_usingCDict_advanced(cctx, cd, p.fParams, pledged) : (size_t)-ZSTD_error_memory_allocation; } }
                else r = (size_t)-1;
            }
            used = 0;
            for (k = 0; k < nseg && !ZSTD_isError(r); k++) {
                size_t l = sl[k]; const unsigned char* src; size_t c; int last = (k == nseg - 1) && endmode == 0;
                if (layout[0] == 's') { blocks[k] = (unsigned char*)malloc(l + 1); blocks[k][0] = (unsigned char)pb; memcpy(blocks[k] + 1, in + used, l); src = blocks[k] + 1; }
                else if (layout[0] == 'c') src = whole + 1 + used;
                else if (layout[0] == 'r') { if (rp + l > ring) rp = 0; memcpy(whole + 1 + rp, in + used, l); src = whole + 1 + rp; rp += l; }
                else { memcpy(whole + 1, in + used, l); src = whole + 1; }
                c = last ? ZSTD_compressEnd(cctx, out + pos, cap - pos, src, l) : ZSTD_compressContinue(cctx, out + pos, cap - pos, src, l);
                if (ZSTD_isError(c)) { r = c; failedAt = (int)k; break; }
                pos += c; used += l;
            }
            if (!ZSTD_isError(r) && endmode != 0) { size_t c = ZSTD_compressEnd(cctx, out + pos, cap - pos, NULL, 0); if (ZSTD_isError(c)) { r = c; failedAt = (int)nseg; } else pos += c; }
            if (ZSTD_isError(r)) printf("err %s at=%d\n", zv_errclass(r), failedAt); else { zv_puthex(out, pos); printf(" segs=%zu\n", nseg); }
            ZSTD_CCtx_reset(cctx, ZSTD_reset_session_and_parameters);
            for (k = 0; k < nseg; k++) free(blocks[k]);
            free(blocks); free(whole); free(out); free(sl); free(in); free(dblk); ZSTD_freeCDict(cd);
        } else printf("bad-op\n");
        fflush(stdout);
    }
    ZSTD_freeCCtx(cctx);
    return 0;
}
