/* zvh_dict — dictionary loading on both sides and dictionary round trips over supply modes (C08).
 *   load <hexdict>  -> C=<ok|null> D=<ok|null> idDict=<n> idC=<n> idD=<n> loadC=<errclass of load+compress> loadD=<errclass>
 *   rt <hexdict> <cmode u|c|r|l|p> <attach 0..3> <dds 0|1> <id=val,...|-> <dmode u|d|l|r|p|m> <seed> <size> <nOther>
 *        cmode: b CDict + ZSTD_compressBegin_usingCDict / compressContinue / compressEnd over segments living in separate allocations (first segment 1..7 bytes half of the time),
 *               R CDict created as ZSTD_dct_rawContent (whatever the bytes look like) + refCDict + compress2  -> must be decoded as raw content (dmode p),
 *               u compress_usingDict, c CDict(byCopy)+compress_usingCDict, r CDict(byRef)+refCDict+compress2, l loadDictionary+compress2 (streamed), p refPrefix+compress2
 *        dmode: u decompress_usingDict, d DDict+decompress_usingDDict, l DCtx_loadDictionary+decompressStream, r refDDict+decompressDCtx, p refPrefix, m multi-DDict table with nOther other DDicts
 *        -> ok fid=<dictID in frame> n=<size> in=<xxh64 of input> wrong=<errclass when decoded with the same dictionary under another ID|-> frame=<hex>
 *         | cerr <class> | derr <class> | MISMATCH ...
 *   rts <the nine rt fields> <shape> <firstchunk>   same round trip on a SHAPED input (<size> is ignored: the shape gives it).  shape = segments joined by '/':
 *        H<n> (no bytes) the dictionary's first n bytes are its header, not content | N<len> incompressible bytes | Z<len> one repeated byte | T<len> letters | G<len> the rt mix | C<len>:<lo>-<hi>x<cnt>[:<lo>-<hi>x<cnt>...] incompressible
 *        bytes holding cnt copies (600..3000 bytes each) per group of what lies lo..hi bytes back in (dictionary ++ input so far), clamped to what exists.
 *        firstchunk > 0: in the streamed mode l the first call consumes exactly that many bytes and flushes (a tiny first block).
 *   mkdict <contentSize> <seed> <dictID> <level>  -> hex of a ZDICT_finalizeDictionary dictionary (content = <contentSize> letters / bytes) | err <name>
 */
#include "zvh_common.h"
#define ZDICT_STATIC_LINKING_ONLY
#include "zdict.h"

static unsigned long long rs;
static unsigned rnd(void) { rs = rs * 6364136223846793005ULL + 1442695040888963407ULL; return (unsigned)(rs >> 33); }
/* input that uses the dictionary: copies from the dictionary (biased to its start and end), copies from itself, text, noise */
static void gen_input(unsigned char* p, size_t n, const unsigned char* d, size_t dn, unsigned long long seed) {
    size_t i = 0; rs = seed;
    while (i < n) { unsigned k = rnd() % 100; size_t len = 3 + rnd() % 200; size_t j; if (len > n - i) len = n - i;
        if (k < 45 && dn > 16) { size_t off; unsigned w = rnd() % 4; if (len > dn) len = dn;
            off = w == 0 ? rnd() % (1 + (dn - len < 64 ? dn - len : 64)) : (w == 1 ? dn - len - rnd() % (1 + (dn - len < 64 ? dn - len : 64)) : rnd() % (dn - len + 1));
            memcpy(p + i, d + off, len); }
        else if (k < 65 && i > 50) { size_t dist = 1 + rnd() % (i < 200000 ? i : 200000); for (j = 0; j < len; j++) p[i + j] = p[i + j - dist]; }
        else if (k < 90) { for (j = 0; j < len; j++) p[i + j] = (unsigned char)("etaoin shrdlu,.\n"[rnd() % 17]); }
        else { for (j = 0; j < len; j++) p[i + j] = (unsigned char)rnd(); }
        i += len; }
}
/* shaped input (rts): see the header comment.  Returns the total size (0 on a malformed shape); fills p when it is not NULL. */
static size_t gen_shaped(unsigned char* p, const char* shape, const unsigned char* d, size_t dn, unsigned long long seed) {
    size_t i = 0, hdr = 0; const char* s = shape; rs = seed ^ 0x5DEECE66DULL;
    while (*s) { char k = *s++; char* e; size_t len = (size_t)strtoull(s, &e, 10), j; if (e == s) return 0; s = e;
        if (k == 'H') { hdr = len < dn ? len : dn; len = 0; }   /* the first hdr bytes of the dictionary are not content: copies never reach into them */
        else if (k == 'C') { /* groups */
            size_t lo[8], hi[8], cnt[8], ng = 0, total = 0, g, slot, q = 0;
            while (*s == ':' && ng < 8) { s++; lo[ng] = (size_t)strtoull(s, &e, 10); if (*e != '-') return 0; s = e + 1; hi[ng] = (size_t)strtoull(s, &e, 10); if (*e != 'x') return 0; s = e + 1; cnt[ng] = (size_t)strtoull(s, &e, 10); s = e; total += cnt[ng]; ng++; }
            if (p) { for (j = 0; j < len; j++) p[i + j] = (unsigned char)rnd();
                slot = total ? len / total : 0;
                for (g = 0; total && slot > 700; g = (g + 1) % ng) { size_t cl, at, dist, avail, b; if (!cnt[g]) { size_t z = 0; for (b = 0; b < ng; b++) z += cnt[b]; if (!z) break; continue; } cnt[g]--;
                    cl = 600 + rnd() % 2400; if (cl > slot - 64) cl = slot - 64; at = i + q * slot + 32 + rnd() % (slot - cl - 32); q++;
                    dist = lo[g] + (hi[g] > lo[g] ? rnd() % (hi[g] - lo[g] + 1) : 0); avail = at + dn - hdr; if (dist > avail) dist = avail - (avail > 8192 ? rnd() % 4096 : 0); if (dist < cl) dist = cl;   /* source ends before the copy starts: no overlap */
                    if (dist > avail) continue;
                    for (b = 0; b < cl; b++) p[at + b] = (at + b >= dist) ? p[at + b - dist] : d[dn - (dist - at - b)]; } }
        } else if (p) {
            if (k == 'N') for (j = 0; j < len; j++) p[i + j] = (unsigned char)rnd();
            else if (k == 'Z') { unsigned char c = (unsigned char)rnd(); for (j = 0; j < len; j++) p[i + j] = c; }
            else if (k == 'T') for (j = 0; j < len; j++) p[i + j] = (unsigned char)("etaoin shrdlu,.\n"[rnd() % 17]);
            else if (k == 'G') { unsigned long long keep = rs; gen_input(p + i, len, d, dn, rs); rs = keep + len; }
            else return 0;
        } else if (!strchr("NZTGH", k)) return 0;
        i += len; if (*s == '/') s++; else if (*s) return 0; }
    return i;
}
static size_t apply(ZSTD_CCtx* c, const char* spec) { char buf[512]; char* sv = NULL; char* kv; size_t r = 0; if (!strcmp(spec, "-")) return 0; strncpy(buf, spec, sizeof buf - 1); buf[sizeof buf - 1] = 0;
    for (kv = strtok_r(buf, ",", &sv); kv && !ZSTD_isError(r); kv = strtok_r(NULL, ",", &sv)) { int id, val; if (sscanf(kv, "%d=%d", &id, &val) == 2) r = ZSTD_CCtx_setParameter(c, (ZSTD_cParameter)id, val); } return r; }
static size_t dstream(ZSTD_DCtx* d, unsigned char* out, size_t cap, const unsigned char* f, size_t fs) {
    size_t pos = 0, op = 0, r = 1; int guard = 0;
    while (guard++ < 1000000) { ZSTD_inBuffer ib; ZSTD_outBuffer ob; size_t isz = 1 + rnd() % 5000; if (isz > fs - pos) isz = fs - pos; ib.src = f + pos; ib.size = isz; ib.pos = 0; ob.dst = out + op; ob.size = (cap - op) < 7000 ? cap - op : 7000; ob.pos = 0;
        r = ZSTD_decompressStream(d, &ob, &ib); if (ZSTD_isError(r)) return r; pos += ib.pos; op += ob.pos; if (r == 0 && pos == fs) return op; if (ib.pos == 0 && ob.pos == 0 && pos == fs) break; }
    return (size_t)-ZSTD_error_srcSize_wrong; }

int main(void) {
    char* line;
    while ((line = zv_getline())) {
        char* op = strtok(line, " "); if (!op) continue;
        if (!strcmp(op, "load")) {
            size_t dn; unsigned char* d = zv_unhex(strtok(NULL, " "), &dn); ZSTD_CCtx* c = ZSTD_createCCtx(); ZSTD_DCtx* dc = ZSTD_createDCtx();
            ZSTD_CDict* cd = ZSTD_createCDict(d, dn, 3); ZSTD_DDict* dd = ZSTD_createDDict(d, dn);
            size_t rc = ZSTD_CCtx_loadDictionary(c, d, dn), rd; unsigned char o[256];
            if (!ZSTD_isError(rc)) rc = ZSTD_compress2(c, o, sizeof o, "abcabcabcabcabcabc", 18);
            rd = ZSTD_DCtx_loadDictionary(dc, d, dn);
            printf("C=%s D=%s idDict=%u idC=%u idD=%u loadC=%s loadD=%s\n", cd ? "ok" : "null", dd ? "ok" : "null", ZSTD_getDictID_fromDict(d, dn), cd ? ZSTD_getDictID_fromCDict(cd) : 0, dd ? ZSTD_getDictID_fromDDict(dd) : 0,
                   zv_errclass(rc), zv_errclass(rd));
            ZSTD_freeCDict(cd); ZSTD_freeDDict(dd); ZSTD_freeCCtx(c); ZSTD_freeDCtx(dc); free(d);
        } else if (!strcmp(op, "rt") || !strcmp(op, "rts")) {
            int const shaped = (op[2] == 's');
            size_t dn; unsigned char* d = zv_unhex(strtok(NULL, " "), &dn); char cm = strtok(NULL, " ")[0]; int attach = atoi(strtok(NULL, " ")), dds = atoi(strtok(NULL, " ")); char* spec = strtok(NULL, " "); char dm = strtok(NULL, " ")[0];
            unsigned long long seed = strtoull(strtok(NULL, " "), NULL, 10); size_t n = (size_t)strtoull(strtok(NULL, " "), NULL, 10); int nOther = atoi(strtok(NULL, " "));
            const char* shape = shaped ? strtok(NULL, " ") : NULL; size_t fchunk = shaped ? (size_t)strtoull(strtok(NULL, " "), NULL, 10) : 0;
            if (shaped) { n = gen_shaped(NULL, shape, d, dn, seed); if (!n || n > (64u << 20)) { printf("bad-shape\n"); free(d); fflush(stdout); continue; } }
            unsigned char* src = (unsigned char*)malloc(n ? n : 1); size_t cap = ZSTD_compressBound(n) + 64; unsigned char* dst = (unsigned char*)malloc(cap); unsigned char* back = (unsigned char*)malloc(n ? n : 1);
            ZSTD_CCtx* c = ZSTD_createCCtx(); ZSTD_DCtx* dc = ZSTD_createDCtx(); ZSTD_CDict* cd = NULL; ZSTD_DDict* dd = NULL; size_t r = 0, cs = 0; int level = 3; ZSTD_DDict* others[64]; int no = 0, i;
            {   const char* lp = strstr(spec, "100="); if (lp == spec || (lp && lp[-1] == ',')) level = atoi(lp + 4); }
            if (shaped) gen_shaped(src, shape, d, dn, seed); else gen_input(src, n, d, dn, seed);
            /* ---- compression ---- */
            r = apply(c, spec);
            if (!ZSTD_isError(r) && attach) r = ZSTD_CCtx_setParameter(c, ZSTD_c_forceAttachDict, attach);
            if (!ZSTD_isError(r) && dds && cm != 'u') r = ZSTD_CCtx_setParameter(c, ZSTD_c_enableDedicatedDictSearch, 1);
            if (!ZSTD_isError(r)) switch (cm) {
                case 'u': r = ZSTD_compress_usingDict(c, dst, cap, src, n, d, dn, level); break;
                case 'c': { ZSTD_CCtx_params* pp = ZSTD_createCCtxParams(); ZSTD_CCtxParams_init(pp, level); if (dds) ZSTD_CCtxParams_setParameter(pp, ZSTD_c_enableDedicatedDictSearch, 1);
                            cd = ZSTD_createCDict_advanced2(d, dn, ZSTD_dlm_byCopy, ZSTD_dct_auto, pp, ZSTD_defaultCMem); ZSTD_freeCCtxParams(pp);
                            r = cd ? ZSTD_compress_usingCDict(c, dst, cap, src, n, cd) : (size_t)-ZSTD_error_dictionary_corrupted; break; }
                case 'r': { ZSTD_CCtx_params* pp = ZSTD_createCCtxParams(); ZSTD_CCtxParams_init(pp, level); if (dds) ZSTD_CCtxParams_setParameter(pp, ZSTD_c_enableDedicatedDictSearch, 1);
                            cd = ZSTD_createCDict_advanced2(d, dn, ZSTD_dlm_byRef, ZSTD_dct_auto, pp, ZSTD_defaultCMem); ZSTD_freeCCtxParams(pp);
                            r = cd ? ZSTD_CCtx_refCDict(c, cd) : (size_t)-ZSTD_error_dictionary_corrupted; if (!ZSTD_isError(r)) r = ZSTD_compress2(c, dst, cap, src, n); break; }
                case 'l': { r = ZSTD_CCtx_loadDictionary(c, d, dn);
                            if (!ZSTD_isError(r)) { size_t pos = 0, out = 0; int guard = 0; r = 1;
                                while (guard++ < 1000000) { ZSTD_inBuffer ib; ZSTD_outBuffer ob; size_t isz = (fchunk && pos == 0) ? fchunk : 1 + rnd() % 40000; ZSTD_EndDirective dir; if (isz > n - pos) isz = n - pos; dir = pos + isz == n ? ZSTD_e_end : ((fchunk && pos == 0) ? ZSTD_e_flush : (rnd() % 4 ? ZSTD_e_continue : ZSTD_e_flush));
                                    ib.src = src + pos; ib.size = isz; ib.pos = 0; ob.dst = dst + out; ob.size = cap - out; ob.pos = 0; r = ZSTD_compressStream2(c, &ob, &ib, dir); if (ZSTD_isError(r)) break; pos += ib.pos; out += ob.pos; if (dir == ZSTD_e_end && r == 0) { r = out; break; } } }
                            break; }
                case 'R': { ZSTD_CCtx_params* pp = ZSTD_createCCtxParams(); ZSTD_CCtxParams_init(pp, level);
                            cd = ZSTD_createCDict_advanced2(d, dn, ZSTD_dlm_byCopy, ZSTD_dct_rawContent, pp, ZSTD_defaultCMem); ZSTD_freeCCtxParams(pp);
                            r = cd ? ZSTD_CCtx_refCDict(c, cd) : (size_t)-ZSTD_error_dictionary_corrupted; if (!ZSTD_isError(r)) r = ZSTD_compress2(c, dst, cap, src, n); break; }
                case 'b': { size_t pos = 0, out = 0; int first = 1; cd = ZSTD_createCDict(d, dn, level); r = cd ? ZSTD_compressBegin_usingCDict(c, cd) : (size_t)-ZSTD_error_dictionary_corrupted;
                            while (!ZSTD_isError(r)) { size_t seg = first ? (fchunk ? fchunk : (rnd() & 1) ? 1 + rnd() % 7 : 1 + rnd() % 3000) : 1 + rnd() % 60000; unsigned char* piece; int last; size_t bmax = ZSTD_getBlockSize(c); first = 0;
                                if (seg > n - pos) seg = n - pos; last = (pos + seg == n);
                                piece = (unsigned char*)malloc(seg + 1); memcpy(piece, src + pos, seg);        /* its own allocation: not adjacent to the previous segment */
                                r = last ? ZSTD_compressEnd(c, dst + out, cap - out, piece, seg) : ZSTD_compressContinue(c, dst + out, cap - out, piece, seg); (void)bmax;
                                /* the segments must stay readable while the frame is in progress (they are the window): released after the frame */
                                if (no < 64) others[no] = NULL; { static unsigned char* keep[4096]; static int nk; if (nk < 4096) keep[nk++] = piece; if (last) { int q; for (q = 0; q < nk; q++) free(keep[q]); nk = 0; } }
                                if (ZSTD_isError(r)) break; out += r; pos += seg; if (last) { r = out; break; } }
                            break; }
                default: r = ZSTD_CCtx_refPrefix(c, d, dn); if (!ZSTD_isError(r)) r = ZSTD_compress2(c, dst, cap, src, n); break;
            }
            if (ZSTD_isError(r)) { printf("cerr %s\n", zv_errclass(r)); goto done; }
            cs = r;
            /* ---- decompression ---- */
            switch (dm) {
                case 'u': r = ZSTD_decompress_usingDict(dc, back, n, dst, cs, d, dn); break;
                case 'd': dd = ZSTD_createDDict(d, dn); r = dd ? ZSTD_decompress_usingDDict(dc, back, n, dst, cs, dd) : (size_t)-ZSTD_error_dictionary_corrupted; break;
                case 'l': r = ZSTD_DCtx_loadDictionary(dc, d, dn); if (!ZSTD_isError(r)) r = dstream(dc, back, n, dst, cs); break;
                case 'r': dd = ZSTD_createDDict_advanced(d, dn, ZSTD_dlm_byRef, ZSTD_dct_auto, ZSTD_defaultCMem); r = dd ? ZSTD_DCtx_refDDict(dc, dd) : (size_t)-ZSTD_error_dictionary_corrupted; if (!ZSTD_isError(r)) r = ZSTD_decompressDCtx(dc, back, n, dst, cs); break;
                case 'p': r = ZSTD_DCtx_refPrefix(dc, d, dn); if (!ZSTD_isError(r)) r = ZSTD_decompressDCtx(dc, back, n, dst, cs); break;
                default: {  /* multi-DDict table: ours goes in at a random position among nOther others */
                    static unsigned char samples[4096]; size_t ssz[8]; int at = nOther ? (int)(rnd() % (unsigned)(nOther + 1)) : 0; unsigned myid = ZSTD_getDictID_fromDict(d, dn);
                    for (i = 0; i < 4096; i++) samples[i] = (unsigned char)("the quick brown fox "[i % 20] + (i / 256)); for (i = 0; i < 8; i++) ssz[i] = 512;
                    ZSTD_DCtx_setParameter(dc, ZSTD_d_refMultipleDDicts, ZSTD_rmd_refMultipleDDicts); dd = ZSTD_createDDict(d, dn); r = dd ? 0 : (size_t)-ZSTD_error_dictionary_corrupted;
                    for (i = 0; i <= nOther && i < 64 && !ZSTD_isError(r); i++) {
                        if (i == at) r = ZSTD_DCtx_refDDict(dc, dd);
                        if (i < nOther && !ZSTD_isError(r)) { unsigned char db[1500]; ZDICT_params_t zp; size_t ds; memset(&zp, 0, sizeof zp); zp.dictID = 70000u + (unsigned)(seed % 1000) * 64u + (unsigned)i; if (zp.dictID == myid) zp.dictID += 4096;
                            ds = ZDICT_finalizeDictionary(db, sizeof db, samples + 16 * (i % 8), 700, samples, ssz, 8, zp); if (ZDICT_isError(ds)) continue;
                            others[no] = ZSTD_createDDict(db, ds); if (others[no]) { r = ZSTD_DCtx_refDDict(dc, others[no]); no++; } } }
                    if (!ZSTD_isError(r)) r = (rnd() & 1) ? ZSTD_decompressDCtx(dc, back, n, dst, cs) : dstream(dc, back, n, dst, cs);
                    break; }
            }
            if (ZSTD_isError(r)) { printf("derr %s fid=%u csize=%zu frame=", zv_errclass(r), ZSTD_getDictID_fromFrame(dst, cs), cs); zv_puthex(dst, cs < 200000 ? cs : 200000); printf("\n"); goto done; }
            if (r != n || memcmp(back, src, n)) { printf("MISMATCH decoded %zu of %zu bytes, first difference at %zu\n", r, n, ({ size_t k = 0; while (k < r && k < n && back[k] == src[k]) k++; k; })); goto done; }
            {   /* the same dictionary offered under another ID must be refused when the frame names an ID */
                const char* wrong = "-"; unsigned fid = ZSTD_getDictID_fromFrame(dst, cs);
                if (dn >= 8 && ZSTD_getDictID_fromDict(d, dn) != 0) { unsigned char* d2 = (unsigned char*)malloc(dn); ZSTD_DCtx* d3 = ZSTD_createDCtx(); size_t r2; memcpy(d2, d, dn); d2[4] ^= 0x5A;
                    r2 = ZSTD_decompress_usingDict(d3, back, n, dst, cs, d2, dn); wrong = ZSTD_isError(r2) ? zv_errclass(r2) : "ACCEPTED"; ZSTD_freeDCtx(d3); free(d2); }
                printf("ok fid=%u n=%zu in=%016llx wrong=%s frame=", fid, n, (unsigned long long)XXH64(src, n, 0), wrong); if (shaped && cs > 200000) putchar('-'); else zv_puthex(dst, cs); printf("\n"); }
        done:
            for (i = 0; i < no; i++) ZSTD_freeDDict(others[i]);
            ZSTD_freeCDict(cd); ZSTD_freeDDict(dd); ZSTD_freeCCtx(c); ZSTD_freeDCtx(dc); free(d); free(src); free(dst); free(back);
        } else if (!strcmp(op, "mkdict")) {
            size_t cn = (size_t)strtoull(strtok(NULL, " "), NULL, 10); unsigned long long seed = strtoull(strtok(NULL, " "), NULL, 10); unsigned id = (unsigned)strtoul(strtok(NULL, " "), NULL, 10); int lvl = atoi(strtok(NULL, " "));
            enum { NS = 40, SS = 3000 }; unsigned char* content = (unsigned char*)malloc(cn + 1); unsigned char* samples = (unsigned char*)malloc(NS * SS); unsigned char* db = (unsigned char*)malloc(cn + 8192); size_t sizes[NS]; size_t i, ds; ZDICT_params_t zp; int letters;
            rs = seed; letters = (int)(rnd() & 1);
            for (i = 0; i < cn; i++) content[i] = letters ? (unsigned char)("abcdefghijklmnopqrstuvwxyz ,.\n"[rnd() % 30]) : (unsigned char)rnd();
            for (i = 0; i < NS; i++) { unsigned char* sp = samples + i * SS; size_t pos = 0; sizes[i] = SS;
                while (pos < SS) { size_t len = 8 + rnd() % 40, from = cn > 64 ? rnd() % (cn - 64) : 0, k; for (k = 0; k < 24 && pos < SS; k++) sp[pos++] = (unsigned char)("etaoin shrdlu"[rnd() % 13]); for (k = 0; k < len && pos < SS && from + k < cn; k++) sp[pos++] = content[from + k]; } }
            memset(&zp, 0, sizeof zp); zp.compressionLevel = lvl; zp.dictID = id;
            ds = ZDICT_finalizeDictionary(db, cn + 8192, content, cn, samples, sizes, NS, zp);
            if (ZDICT_isError(ds)) printf("err %s\n", ZDICT_getErrorName(ds)); else { zv_puthex(db, ds); printf("\n"); }
            free(content); free(samples); free(db);
        } else printf("bad-op\n");
        fflush(stdout);
    }
    return 0;
}
