/* zvh_dict — dictionary loading on both sides and dictionary round trips over supply modes (C08).
 *   load <hexdict>  -> C=<ok|null> D=<ok|null> idDict=<n> idC=<n> idD=<n> loadC=<errclass of load+compress> loadD=<errclass>
 *   rt <hexdict> <cmode u|c|r|l|p> <attach 0..3> <dds 0|1> <id=val,...|-> <dmode u|d|l|r|p|m> <seed> <size> <nOther>
 *        cmode: b CDict + ZSTD_compressBegin_usingCDict / compressContinue / compressEnd over segments living in separate allocations (first segment 1..7 bytes half of the time),
 *               R CDict created as ZSTD_dct_rawContent (whatever the bytes look like) + refCDict + compress2  -> must be decoded as raw content (dmode p),
 *               u compress_usingDict, c CDict(byCopy)+compress_usingCDict, r CDict(byRef)+refCDict+compress2, l loadDictionary+compress2 (streamed), p refPrefix+compress2
 *        dmode: u decompress_usingDict, d DDict+decompress_usingDDict, l DCtx_loadDictionary+decompressStream, r refDDict+decompressDCtx, p refPrefix, m multi-DDict table with nOther other DDicts
 *        -> ok fid=<dictID in frame> n=<size> in=<xxh64 of input> wrong=<errclass when decoded with the same dictionary under another ID|-> frame=<hex>
 *         | cerr <class> | derr <class> | MISMATCH ...
 */
#include "zvh_common.h"
#define ZDICT_STATIC_LINKING_ONLY
#include "zdict.h"

static unsigned long long rs;
static unsigned rnd(void) { rs = rs * 6364136223846793005ULL + 1442695040888963407ULL; return (unsigned)(rs >> 33); }
/* input that uses the dictionary: copies from the dictionary (biased to its start and end), copies from itself, text, noise */
static void gen_input(unsigned char* p, size_t n, const unsigned char* d, size_t dn, unsigned long long seed) {
    size_t i = 0; rs = seed;
    while (i < n) { unsigned k = rnd() % 100; size_t len = 3 + rnd() % 200; size_t j; if (len > n - i) len = n - i;
        if (k < 45 && dn > 16) { size_t off; unsigned w = rnd() % 4; if (len > dn) len = dn;
            off = w == 0 ? rnd() % (1 + (dn - len < 64 ? dn - len : 64)) : (w == 1 ? dn - len - rnd() % (1 + (dn - len < 64 ? dn - len : 64)) : rnd() % (dn - len + 1));
            memcpy(p + i, d + off, len); }
        else if (k < 65 && i > 50) { size_t dist = 1 + rnd() % (i < 200000 ? i : 200000); for (j = 0; j < len; j++) p[i + j] = p[i + j - dist]; }
        else if (k < 90) { for (j = 0; j < len; j++) p[i + j] = (unsigned char)("etaoin shrdlu,.\n"[rnd() % 17]); }
        else { for (j = 0; j < len; j++) p[i + j] = (unsigned char)rnd(); }
        i += len; }
}
static size_t apply(ZSTD_CCtx* c, const char* spec) { char buf[512]; char* sv = NULL; char* kv; size_t r = 0; if (!strcmp(spec, "-")) return 0; strncpy(buf, spec, sizeof buf - 1); buf[sizeof buf - 1] = 0;
    for (kv = strtok_r(buf, ",", &sv); kv && !ZSTD_isError(r); kv = strtok_r(NULL, ",", &sv)) { int id, val; if (sscanf(kv, "%d=%d", &id, &val) == 2) r = ZSTD_CCtx_setParameter(c, (ZSTD_cParameter)id, val); } return r; }
static size_t dstream(ZSTD_DCtx* d, unsigned char* out, size_t cap, const unsigned char* f, size_t fs) {
    size_t pos = 0, op = 0, r = 1; int guard = 0;
    while (guard++ < 1000000) { ZSTD_inBuffer ib; ZSTD_outBuffer ob; size_t isz = 1 + rnd() % 5000; if (isz > fs - pos) isz = fs - pos; ib.src = f + pos; ib.size = isz; ib.pos = 0; ob.dst = out + op; ob.size = (cap - op) < 7000 ? cap - op : 7000; ob.pos = 0;
        r = ZSTD_decompressStream(d, &ob, &ib); if (ZSTD_isError(r)) return r; pos += ib.pos; op += ob.pos; if (r == 0 && pos == fs) return op; if (ib.pos == 0 && ob.pos == 0 && pos == fs) break; }
    return (size_t)-ZSTD_error_srcSize_wrong; }

int main(void) {
    char* line;
    while ((line = zv_getline())) {
        char* op = strtok(line, " "); if (!op) continue;
        if (!strcmp(op, "load")) {
            size_t dn; unsigned char* d = zv_unhex(strtok(NULL, " "), &dn); ZSTD_CCtx* c = ZSTD_createCCtx(); ZSTD_DCtx* dc = ZSTD_createDCtx();
            ZSTD_CDict* cd = ZSTD_createCDict(d, dn, 3); ZSTD_DDict* dd = ZSTD_createDDict(d, dn);
            size_t rc = ZSTD_CCtx_loadDictionary(c, d, dn), rd; unsigned char o[256];
            if (!ZSTD_isError(rc)) rc = ZSTD_compress2(c, o, sizeof o, "abcabcabcabcabcabc", 18);
            rd = ZSTD_DCtx_loadDictionary(dc, d, dn);
            printf("C=%s D=%s idDict=%u idC=%u idD=%u loadC=%s loadD=%s\n", cd ? "ok" : "null", dd ? "ok" : "null", ZSTD_getDictID_fromDict(d, dn), cd ? ZSTD_getDictID_fromCDict(cd) : 0, dd ? ZSTD_getDictID_fromDDict(dd) : 0,
                   zv_errclass(rc), zv_errclass(rd));
            ZSTD_freeCDict(cd); ZSTD_freeDDict(dd); ZSTD_freeCCtx(c); ZSTD_freeDCtx(dc); free(d);
        } else if (!strcmp(op, "rt")) {
            size_t dn; unsigned char* d = zv_unhex(strtok(NULL, " "), &dn); char cm = strtok(NULL, " ")[0]; int attach = atoi(strtok(NULL, " ")), dds = atoi(strtok(NULL, " ")); char* spec = strtok(NULL, " "); char dm = strtok(NULL, " ")[0];
            unsigned long long seed = strtoull(strtok(NULL, " "), NULL, 10); size_t n = (size_t)strtoull(strtok(NULL, " "), NULL, 10); int nOther = atoi(strtok(NULL, " "));
            unsigned char* src = (unsigned char*)malloc(n ? n : 1); size_t cap = ZSTD_compressBound(n) + 64; unsigned char* dst = (unsigned char*)malloc(cap); unsigned char* back = (unsigned char*)malloc(n ? n : 1);
            ZSTD_CCtx* c = ZSTD_createCCtx(); ZSTD_DCtx* dc = ZSTD_createDCtx(); ZSTD_CDict* cd = NULL; ZSTD_DDict* dd = NULL; size_t r = 0, cs = 0; int level = 3; ZSTD_DDict* others[64]; int no = 0, i;
            {   const char* lp = strstr(spec, "100="); if (lp == spec || (lp && lp[-1] == ',')) level = atoi(lp + 4); }
            gen_input(src, n, d, dn, seed);
            /* ---- compression ---- */
            r = apply(c, spec);
            if (!ZSTD_isError(r) && attach) r = ZSTD_CCtx_setParameter(c, ZSTD_c_forceAttachDict, attach);
            if (!ZSTD_isError(r) && dds && cm != 'u') r = ZSTD_CCtx_setParameter(c, ZSTD_c_enableDedicatedDictSearch, 1);
            if (!ZSTD_isError(r)) switch (cm) {
                case 'u': r = ZSTD_compress_usingDict(c, dst, cap, src, n, d, dn, level); break;
                case 'c': { ZSTD_CCtx_params* pp = ZSTD_createCCtxParams(); ZSTD_CCtxParams_init(pp, level); if (dds) ZSTD_CCtxParams_setParameter(pp, ZSTD_c_enableDedicatedDictSearch, 1);
                            cd = ZSTD_createCDict_advanced2(d, dn, ZSTD_dlm_byCopy, ZSTD_dct_auto, pp, ZSTD_defaultCMem); ZSTD_freeCCtxParams(pp);
                            r = cd ? ZSTD_compress_usingCDict(c, dst, cap, src, n, cd) : (size_t)-ZSTD_error_dictionary_corrupted; break; }
                case 'r': { ZSTD_CCtx_params* pp = ZSTD_createCCtxParams(); ZSTD_CCtxParams_init(pp, level); if (dds) ZSTD_CCtxParams_setParameter(pp, ZSTD_c_enableDedicatedDictSearch, 1);
                            cd = ZSTD_createCDict_advanced2(d, dn, ZSTD_dlm_byRef, ZSTD_dct_auto, pp, ZSTD_defaultCMem); ZSTD_freeCCtxParams(pp);
                            r = cd ? ZSTD_CCtx_refCDict(c, cd) : (size_t)-ZSTD_error_dictionary_corrupted; if (!ZSTD_isError(r)) r = ZSTD_compress2(c, dst, cap, src, n); break; }
                case 'l': { r = ZSTD_CCtx_loadDictionary(c, d, dn);
                            if (!ZSTD_isError(r)) { size_t pos = 0, out = 0; int guard = 0; r = 1;
                                while (guard++ < 1000000) { ZSTD_inBuffer ib; ZSTD_outBuffer ob; size_t isz = 1 + rnd() % 40000; ZSTD_EndDirective dir; if (isz > n - pos) isz = n - pos; dir = pos + isz == n ? ZSTD_e_end : (rnd() % 4 ? ZSTD_e_continue : ZSTD_e_flush);
                                    ib.src = src + pos; ib.size = isz; ib.pos = 0; ob.dst = dst + out; ob.size = cap - out; ob.pos = 0; r = ZSTD_compressStream2(c, &ob, &ib, dir); if (ZSTD_isError(r)) break; pos += ib.pos; out += ob.pos; if (dir == ZSTD_e_end && r == 0) { r = out; break; } } }
                            break; }
                case 'R': { ZSTD_CCtx_params* pp = ZSTD_createCCtxParams(); ZSTD_CCtxParams_init(pp, level);
                            cd = ZSTD_createCDict_advanced2(d, dn, ZSTD_dlm_byCopy, ZSTD_dct_rawContent, pp, ZSTD_defaultCMem); ZSTD_freeCCtxParams(pp);
                            r = cd ? ZSTD_CCtx_refCDict(c, cd) : (size_t)-ZSTD_error_dictionary_corrupted; if (!ZSTD_isError(r)) r = ZSTD_compress2(c, dst, cap, src, n); break; }
                case 'b': { size_t pos = 0, out = 0; int first = 1; cd = ZSTD_createCDict(d, dn, level); r = cd ? ZSTD_compressBegin_usingCDict(c, cd) : (size_t)-ZSTD_error_dictionary_corrupted;
                            while (!ZSTD_isError(r)) { size_t seg = first ? ((rnd() & 1) ? 1 + rnd() % 7 : 1 + rnd() % 3000) : 1 + rnd() % 60000; unsigned char* piece; int last; size_t bmax = ZSTD_getBlockSize(c); first = 0;
                                if (seg > n - pos) seg = n - pos; last = (pos + seg == n);
                                piece = (unsigned char*)malloc(seg + 1); memcpy(piece, src + pos, seg);        /* its own allocation: not adjacent to the previous segment */
                                r = last ? ZSTD_compressEnd(c, dst + out, cap - out, piece, seg) : ZSTD_compressContinue(c, dst + out, cap - out, piece, seg); (void)bmax;
                                /* the segments must stay readable while the frame is in progress (they are the window): released after the frame */
                                if (no < 64) others[no] = NULL; { static unsigned char* keep[4096]; static int nk; if (nk < 4096) keep[nk++] = piece; if (last) { int q; for (q = 0; q < nk; q++) free(keep[q]); nk = 0; } }
                                if (ZSTD_isError(r)) break; out += r; pos += seg; if (last) { r = out; break; } }
                            break; }
                default: r = ZSTD_CCtx_refPrefix(c, d, dn); if (!ZSTD_isError(r)) r = ZSTD_compress2(c, dst, cap, src, n); break;
            }
            if (ZSTD_isError(r)) { printf("cerr %s\n", zv_errclass(r)); goto done; }
            cs = r;
            /* ---- decompression ---- */
            switch (dm) {
                case 'u': r = ZSTD_decompress_usingDict(dc, back, n, dst, cs, d, dn); break;
                case 'd': dd = ZSTD_createDDict(d, dn); r = dd ? ZSTD_decompress_usingDDict(dc, back, n, dst, cs, dd) : (size_t)-ZSTD_error_dictionary_corrupted; break;
                case 'l': r = ZSTD_DCtx_loadDictionary(dc, d, dn); if (!ZSTD_isError(r)) r = dstream(dc, back, n, dst, cs); break;
                case 'r': dd = ZSTD_createDDict_advanced(d, dn, ZSTD_dlm_byRef, ZSTD_dct_auto, ZSTD_defaultCMem); r = dd ? ZSTD_DCtx_refDDict(dc, dd) : (size_t)-ZSTD_error_dictionary_corrupted; if (!ZSTD_isError(r)) r = ZSTD_decompressDCtx(dc, back, n, dst, cs); break;
                case 'p': r = ZSTD_DCtx_refPrefix(dc, d, dn); if (!ZSTD_isError(r)) r = ZSTD_decompressDCtx(dc, back, n, dst, cs); break;
                default: {  /* multi-DDict table: ours goes in at a random position among nOther others */
                    static unsigned char samples[4096]; size_t ssz[8]; int at = nOther ? (int)(rnd() % (unsigned)(nOther + 1)) : 0; unsigned myid = ZSTD_getDictID_fromDict(d, dn);
                    for (i = 0; i < 4096; i++) samples[i] = (unsigned char)("the quick brown fox "[i % 20] + (i / 256)); for (i = 0; i < 8; i++) ssz[i] = 512;
                    ZSTD_DCtx_setParameter(dc, ZSTD_d_refMultipleDDicts, ZSTD_rmd_refMultipleDDicts); dd = ZSTD_createDDict(d, dn); r = dd ? 0 : (size_t)-ZSTD_error_dictionary_corrupted;
                    for (i = 0; i <= nOther && i < 64 && !ZSTD_isError(r); i++) {
                        if (i == at) r = ZSTD_DCtx_refDDict(dc, dd);
                        if (i < nOther && !ZSTD_isError(r)) { unsigned char db[1500]; ZDICT_params_t zp; size_t ds; memset(&zp, 0, sizeof zp); zp.dictID = 70000u + (unsigned)(seed % 1000) * 64u + (unsigned)i; if (zp.dictID == myid) zp.dictID += 4096;
                            ds = ZDICT_finalizeDictionary(db, sizeof db, samples + 16 * (i % 8), 700, samples, ssz, 8, zp); if (ZDICT_isError(ds)) continue;
                            others[no] = ZSTD_createDDict(db, ds); if (others[no]) { r = ZSTD_DCtx_refDDict(dc, others[no]); no++; } } }
                    if (!ZSTD_isError(r)) r = (rnd() & 1) ? ZSTD_decompressDCtx(dc, back, n, dst, cs) : dstream(dc, back, n, dst, cs);
                    break; }
            }
            if (ZSTD_isError(r)) { printf("derr %s fid=%u csize=%zu frame=", zv_errclass(r), ZSTD_getDictID_fromFrame(dst, cs), cs); zv_puthex(dst, cs < 200000 ? cs : 200000); printf("\n"); goto done; }
            if (r != n || memcmp(back, src, n)) { printf("MISMATCH decoded %zu of %zu bytes, first difference at %zu\n", r, n, ({ size_t k = 0; while (k < r && k < n && back[k] == src[k]) k++; k; })); goto done; }
            {   /* the same dictionary offered under another ID must be refused when the frame names an ID */
                const char* wrong = "-"; unsigned fid = ZSTD_getDictID_fromFrame(dst, cs);
                if (dn >= 8 && ZSTD_getDictID_fromDict(d, dn) != 0) { unsigned char* d2 = (unsigned char*)malloc(dn); ZSTD_DCtx* d3 = ZSTD_createDCtx(); size_t r2; memcpy(d2, d, dn); d2[4] ^= 0x5A;
                    r2 = ZSTD_decompress_usingDict(d3, back, n, dst, cs, d2, dn); wrong = ZSTD_isError(r2) ? zv_errclass(r2) : "ACCEPTED"; ZSTD_freeDCtx(d3); free(d2); }
                printf("ok fid=%u n=%zu in=%016llx wrong=%s frame=", fid, n, (unsigned long long)XXH64(src, n, 0), wrong); zv_puthex(dst, cs); printf("\n"); }
        done:
            for (i = 0; i < no; i++) ZSTD_freeDDict(others[i]);
            ZSTD_freeCDict(cd); ZSTD_freeDDict(dd); ZSTD_freeCCtx(c); ZSTD_freeDCtx(dc); free(d); free(src); free(dst); free(back);
        } else printf("bad-op\n");
        fflush(stdout);
    }
    return 0;
}
