#include "zvh_fault_redirect.h"
#include "../../repo/lib/dictBuilder/divsufsort.c"
