/* redirects the C allocator of a dictBuilder translation unit to the fault-injecting allocator of zvh_fault.c */
#include <stdlib.h>
#include <string.h>
#include <stdio.h>
#include <time.h>
void* zv_fault_alloc(size_t size); void zv_fault_free(void* p); void* zv_fault_calloc(size_t a, size_t b);
#define malloc(n) zv_fault_alloc(n)
#define calloc(a, b) zv_fault_calloc(a, b)
#define free(p) zv_fault_free(p)
