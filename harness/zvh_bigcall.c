/* zvh_bigcall — ONE call that hands the frame compressor more bytes than the 32-bit index range can address (C15): the window has to be rebased
 * INSIDE the call, block after block, however the bytes are handed over.
 *
 *   bigcall <api> <level> <wlog> <ldm> <periodKiB> <shiftBytes> <startKiB> <splitKiB> <totalBytes> <roomKiB> <seed>
 *        The source is VIRTUAL: one memfd of `period` bytes (raised to 16 windows if smaller) mapped back to back as often as needed, read from `shift` bytes
 *        into the first copy: `total` readable bytes (3.4 .. 9+ GiB) at the cost of one period of memory.  The period is generated for the window in force:
 *        copies from less than half a window back (matches the compressor should find, which keeps it fast), copies from 1.5 .. 12 windows back (bytes the
 *        match finder has seen, indexed, and must no longer use: an index that survived a missed / wrong rebase turns them into offsets beyond the window)
 *        and noise.  The period seam itself is such a far repeat.
 *        api (how the bytes reach ZSTD_compress_frameChunk):
 *          compress2   ZSTD_compress2 on the whole source                         cctx       ZSTD_compressCCtx (level alone: wlog ignored, window of the level)
 *          stream_end  ZSTD_compressStream2(ZSTD_e_end), fresh frame, output room >= ZSTD_compressBound: one internal call
 *          stableout   the same with ZSTD_c_stableOutBuffer (the short cut is taken whatever the room)
 *          stablein    ZSTD_c_stableInBuffer, ZSTD_e_end repeated with output rooms of roomKiB: the compressor reads the caller's buffer block by block
 *          begin_end   ZSTD_compressBegin_advanced + ZSTD_compressEnd(whole source)
 *          cont        ZSTD_compressBegin_advanced + ZSTD_compressContinue(first splitKiB) + ZSTD_compressEnd(rest): two huge chunks, the second starts at a high index
 *        startKiB > 0: the context first compresses a frame of startKiB bytes of the same source with the same calls, so the big call starts from the index that frame
 *        left (contexts keep their index from frame to frame while the parameters stay the same).
 *        The frame is decoded by ZSTD_decompressStream through output rooms of roomKiB (the decoder keeps a window of history, not the whole output) and compared room by
 *        room with the source, which is never materialised.
 *        -> ok idx0=<window index at the start of the big call> wlog=<window log in force> strat=<strategy in force> cyc=<cycleLog> corr=<rebases during the big call> after=<index after it>
 *              size=<frame bytes> hash=<xxh64 of the frame> cms=<ms spent compressing> dms=<ms spent decoding and comparing> bytes=<bytes through the context>
 *         | skip <why: the machine cannot map the source / output>      | FAIL ...
 */
#define _GNU_SOURCE
#include <stdio.h>
#include <stdlib.h>
#include <string.h>
#include <unistd.h>
#include <sys/mman.h>
#include <time.h>
#include "zstd_compress.c"   /* to READ the window index and the number of rebases; found through -I<repo>/lib/compress */
#include "zvh_common.h"

static unsigned long long rs;
static unsigned rnd(void) { rs = rs * 6364136223846793005ULL + 1442695040888963407ULL; return (unsigned)(rs >> 33); }
static size_t rnd64(size_t n) { return (size_t)((((unsigned long long)rnd() << 31) ^ rnd()) % n); }

/* one period: near copies (< window / 2 back), far copies (1.5 .. 12 windows back), noise */
static void fill(unsigned char* p, size_t size, size_t W) {
    size_t pos = 0, j; size_t const half = W / 2, nearMax = half < 8192 ? half : 8192;
    while (pos < size) {
        unsigned const k = rnd() % 16; size_t len, d;
        if (pos < 64 || k < 2) { len = 4 + rnd() % 40; if (len > size - pos) len = size - pos; for (j = 0; j < len; j++) p[pos + j] = (unsigned char)rnd(); pos += len; continue; }
        if (k < 4 && pos > W + W / 2 + 600) {   /* far copy */
            size_t const lo = W + W / 2, hi = pos < 12 * W ? pos : 12 * W;
            len = 16 + rnd() % 150; d = lo + rnd64(hi - lo + 1); if (d < len) d = len;
        } else {                                /* near copy */
            size_t const hi = pos < half ? pos : half;
            len = 16 + rnd64(nearMax); d = 1 + rnd64(hi); if (d < len) len = d < 8 ? 8 : d; if (d < len) d = len <= pos ? len : pos;
        }
        if (len > size - pos) len = size - pos;
        if (d > pos) d = pos;
        for (j = 0; j < len; j++) p[pos + j] = p[pos + j - d];
        pos += len;
    }
}

enum { A_COMPRESS2, A_CCTX, A_STREAM_END, A_STABLEOUT, A_STABLEIN, A_BEGIN_END, A_CONT };
typedef struct { int api, level, wlog, ldm, checksum; size_t room, split; } cfg_t;
#define TRY(e) do { size_t const r_ = (e); if (ZSTD_isError(r_)) return r_; } while (0)

static size_t setp(ZSTD_CCtx* c, const cfg_t* g) {
    TRY(ZSTD_CCtx_reset(c, ZSTD_reset_session_and_parameters));
    TRY(ZSTD_CCtx_setParameter(c, ZSTD_c_compressionLevel, g->level));
    TRY(ZSTD_CCtx_setParameter(c, ZSTD_c_windowLog, g->wlog));
    TRY(ZSTD_CCtx_setParameter(c, ZSTD_c_checksumFlag, g->checksum));
    if (g->ldm) TRY(ZSTD_CCtx_setParameter(c, ZSTD_c_enableLongDistanceMatching, 1));
    return 0;
}
static ZSTD_parameters advp(const cfg_t* g, size_t n) {
    ZSTD_parameters p = ZSTD_getParams(g->level, n, 0); p.cParams.windowLog = (unsigned)g->wlog;
    p.fParams.contentSizeFlag = 1; p.fParams.checksumFlag = g->checksum; return p;
}
static size_t frame(ZSTD_CCtx* c, const cfg_t* g, void* dst, size_t cap, const void* src, size_t n) {
    switch (g->api) {
    case A_COMPRESS2: TRY(setp(c, g)); return ZSTD_compress2(c, dst, cap, src, n);
    case A_CCTX: return ZSTD_compressCCtx(c, dst, cap, src, n, g->level);
    case A_STREAM_END: case A_STABLEOUT: {
        ZSTD_inBuffer in = { src, n, 0 }; ZSTD_outBuffer out = { dst, cap, 0 }; size_t r;
        TRY(setp(c, g)); if (g->api == A_STABLEOUT) TRY(ZSTD_CCtx_setParameter(c, ZSTD_c_stableOutBuffer, 1));
        r = ZSTD_compressStream2(c, &out, &in, ZSTD_e_end); if (ZSTD_isError(r)) return r;
        if (r != 0 || in.pos != n) return ERROR(GENERIC);      /* with this much room the frame is finished by the first call */
        return out.pos; }
    case A_STABLEIN: {
        ZSTD_inBuffer in = { src, n, 0 }; ZSTD_outBuffer out = { dst, 0, 0 }; size_t r = 1; unsigned long long guard = 0;
        TRY(setp(c, g)); TRY(ZSTD_CCtx_setParameter(c, ZSTD_c_stableInBuffer, 1)); TRY(ZSTD_CCtx_setPledgedSrcSize(c, n));
        while (r != 0) {
            out.size = out.pos + g->room > cap ? cap : out.pos + g->room;
            r = ZSTD_compressStream2(c, &out, &in, ZSTD_e_end); if (ZSTD_isError(r)) return r;
            if (out.size == cap && out.pos == cap && r != 0) return ERROR(dstSize_tooSmall);
            if (++guard > ((unsigned long long)1 << 40)) return ERROR(GENERIC);
        }
        return out.pos; }
    case A_BEGIN_END: TRY(ZSTD_compressBegin_advanced(c, NULL, 0, advp(g, n), n)); return ZSTD_compressEnd(c, dst, cap, src, n);
    default: {
        size_t const k = g->split < n ? g->split : n / 2; size_t a, b;
        TRY(ZSTD_compressBegin_advanced(c, NULL, 0, advp(g, n), n));
        a = ZSTD_compressContinue(c, dst, cap, src, k); if (ZSTD_isError(a)) return a;
        b = ZSTD_compressEnd(c, (char*)dst + a, cap - a, (const char*)src + k, n - k); if (ZSTD_isError(b)) return b;
        return a + b; }
    }
}
static double now(void) { struct timespec t; clock_gettime(CLOCK_MONOTONIC, &t); return (double)t.tv_sec + 1e-9 * (double)t.tv_nsec; }
static unsigned long long widx(const ZSTD_CCtx* c) { const ZSTD_window_t* w = &c->blockState.matchState.window; return (unsigned long long)(w->nextSrc - w->base); }

static void op_bigcall(void) {
    const char* api = strtok(NULL, " "); cfg_t g; size_t period, shift, start, total, W, span, nmaps, cap, cSize, k; unsigned long long seed, idx0; unsigned corr0, corr1;
    unsigned char *area, *src, *dst, *room; int fd; double t0, t1; ZSTD_CCtx* c; ZSTD_DCtx* d; long const pg = sysconf(_SC_PAGESIZE);
    g.level = atoi(strtok(NULL, " ")); g.wlog = atoi(strtok(NULL, " ")); g.ldm = atoi(strtok(NULL, " "));
    period = (size_t)strtoull(strtok(NULL, " "), NULL, 10) << 10; shift = (size_t)strtoull(strtok(NULL, " "), NULL, 10); start = (size_t)strtoull(strtok(NULL, " "), NULL, 10) << 10;
    g.split = (size_t)strtoull(strtok(NULL, " "), NULL, 10) << 10; total = (size_t)strtoull(strtok(NULL, " "), NULL, 10); g.room = (size_t)strtoull(strtok(NULL, " "), NULL, 10) << 10;
    seed = strtoull(strtok(NULL, " "), NULL, 10); g.checksum = (int)(seed & 1);
    g.api = !strcmp(api, "compress2") ? A_COMPRESS2 : !strcmp(api, "cctx") ? A_CCTX : !strcmp(api, "stream_end") ? A_STREAM_END : !strcmp(api, "stableout") ? A_STABLEOUT :
            !strcmp(api, "stablein") ? A_STABLEIN : !strcmp(api, "begin_end") ? A_BEGIN_END : !strcmp(api, "cont") ? A_CONT : -1;
    if (g.api == A_CCTX) g.wlog = (int)ZSTD_getCParams(g.level, total, 0).windowLog;
    if (g.api < 0 || g.wlog < ZSTD_WINDOWLOG_MIN || g.wlog > 24 || total < (1 << 20) || total > ((size_t)24 << 30) || g.room < 1024 || start > ((size_t)4 << 30) || period < (1 << 16)) { printf("bad-op\n"); return; }
    W = (size_t)1 << g.wlog;
    if (period < 16 * W) period = 16 * W;
    period = (period + (size_t)pg - 1) / (size_t)pg * (size_t)pg; shift %= period;
    fd = memfd_create("zvh_bigcall", 0);
    if (fd < 0 || ftruncate(fd, (off_t)period) != 0) { printf("skip memfd of %zu bytes not available\n", period); return; }
    {   unsigned char* const one = (unsigned char*)mmap(NULL, period, PROT_READ | PROT_WRITE, MAP_SHARED, fd, 0);
        if (one == MAP_FAILED) { printf("skip cannot map one period\n"); return; }
        rs = seed * 2862933555777941757ULL + 3037000493ULL; fill(one, period, W); munmap(one, period); }
    span = shift + (start > total ? start : total); nmaps = (span + period - 1) / period;
    area = (unsigned char*)mmap(NULL, nmaps * period + 2 * (size_t)pg, PROT_NONE, MAP_PRIVATE | MAP_ANONYMOUS | MAP_NORESERVE, -1, 0);   /* one guard page at each end */
    if (area == MAP_FAILED) { printf("skip cannot reserve %zu bytes of address space for the source\n", nmaps * period); return; }
    for (k = 0; k < nmaps; k++)
        if (mmap(area + (size_t)pg + k * period, period, PROT_READ, MAP_SHARED | MAP_FIXED, fd, 0) == MAP_FAILED) { printf("skip cannot map copy %zu of the period\n", k); return; }
    src = area + (size_t)pg + shift;
    cap = ZSTD_compressBound(start > total ? start : total) + 64;
    dst = (unsigned char*)mmap(NULL, cap, PROT_READ | PROT_WRITE, MAP_PRIVATE | MAP_ANONYMOUS | MAP_NORESERVE, -1, 0);    /* touched only as far as the frame reaches */
    if (dst == MAP_FAILED) { printf("skip cannot reserve %zu bytes of address space for the frame\n", cap); return; }
    room = (unsigned char*)malloc(g.room); c = ZSTD_createCCtx(); d = ZSTD_createDCtx();
    if (!room || !c || !d) { printf("FAIL setup: memory\n"); return; }
    if (start) {
        size_t const r = frame(c, &g, dst, cap, src, start);
        if (ZSTD_isError(r)) { printf("FAIL warm-up frame of %zu bytes: %s\n", start, ZSTD_getErrorName(r)); return; }
    }
    idx0 = start ? widx(c) : ZSTD_WINDOW_START_INDEX; corr0 = c->blockState.matchState.window.nbOverflowCorrections;
    t0 = now(); cSize = frame(c, &g, dst, cap, src, total); t1 = now();
    if (ZSTD_isError(cSize)) { printf("FAIL %s of %zu bytes in one piece (level %d windowLog %d, index %llu at the start): %s\n", api, total, g.level, g.wlog, idx0, ZSTD_getErrorName(cSize)); return; }
    corr1 = c->blockState.matchState.window.nbOverflowCorrections;
    if (start == 0) corr0 = 0;     /* the context was created for this call */
    {   ZSTD_inBuffer in = { dst, cSize, 0 }; size_t produced = 0, ret = 1;
        ZSTD_DCtx_setParameter(d, ZSTD_d_windowLogMax, g.wlog < ZSTD_WINDOWLOG_ABSOLUTEMIN ? ZSTD_WINDOWLOG_ABSOLUTEMIN : g.wlog);
        while (ret != 0) {
            ZSTD_outBuffer out = { room, g.room, 0 };
            ret = ZSTD_decompressStream(d, &out, &in);
            if (ZSTD_isError(ret)) {
                printf("FAIL the frame of ONE %s call over %zu bytes (level %d windowLog %d ldm %d, index %llu at the start, %u rebase(s) inside the call) stops decoding after %zu regenerated bytes (0x%zx): %s\n",
                       api, total, g.level, g.wlog, g.ldm, idx0, corr1 - corr0, produced, produced, ZSTD_getErrorName(ret)); return; }
            if (produced + out.pos > total) { printf("FAIL the frame of one %s call over %zu bytes regenerates more than that\n", api, total); return; }
            if (memcmp(room, src + produced, out.pos) != 0) {
                size_t q = 0; while (room[q] == src[produced + q]) q++;
                printf("FAIL the frame of ONE %s call over %zu bytes (level %d windowLog %d ldm %d, index %llu at the start, %u rebase(s) inside the call) regenerates a wrong byte at offset %zu (0x%zx)\n",
                       api, total, g.level, g.wlog, g.ldm, idx0, corr1 - corr0, produced + q, produced + q); return; }
            produced += out.pos;
            if (out.pos == 0 && in.pos == in.size && ret != 0) { printf("FAIL the frame of one %s call over %zu bytes ends after %zu regenerated bytes\n", api, total, produced); return; }
        }
        if (produced != total || in.pos != cSize) { printf("FAIL the frame of one %s call over %zu bytes regenerates %zu bytes (%zu of %zu frame bytes read)\n", api, total, produced, in.pos, cSize); return; }
    }
    printf("ok idx0=%llu wlog=%d strat=%d cyc=%u corr=%u after=%llu size=%zu hash=%016llx cms=%d dms=%d bytes=%llu\n", idx0, g.wlog, (int)c->appliedParams.cParams.strategy,
           ZSTD_cycleLog(c->appliedParams.cParams.chainLog, c->appliedParams.cParams.strategy), corr1 - corr0, widx(c), cSize, (unsigned long long)XXH64(dst, cSize, 0), (int)((t1 - t0) * 1000), (int)((now() - t1) * 1000), (unsigned long long)start + total);
    ZSTD_freeCCtx(c); ZSTD_freeDCtx(d); free(room); munmap(dst, cap); munmap(area, nmaps * period + 2 * (size_t)pg); close(fd);
}

int main(void) {
    char* line;
    while ((line = zv_getline())) {
        char* op = strtok(line, " "); if (!op) continue;
        if (!strcmp(op, "bigcall")) op_bigcall(); else printf("bad-op\n");
        fflush(stdout);
    }
    return 0;
}
