/* zvh_fseenc — function-level harness for the FSE encoder side (lib/compress/fse_compress.c, lib/common/fse.h) and the FSE decoding
 * table (lib/common/fse_decompress.c); the Lean side is Driver/FSEEnc.lean over Model/FSEEnc.lean and Model/FSE.lean.
 *   ctable <tableLog> <c0,c1,...>            -> ok log=<tableLog> st=<tableU16[0..tableSize)> tt=<deltaNbBits:deltaFindState,...>   (deltaFindState `-` when the count is 0)
 *   dtable <tableLog> <c0,c1,...>            -> ok cells=<symbol:nbBits:newState,...>
 *   enc <tableLog> <c0,c1,...> <s0,s1,...>   -> ok <hex of the bit stream>   (one table driven as ZSTD_encodeSequences drives each of its tables, no extra bits)
 *   wksp <tableLog> <c0,c1,...>              -> ok wkspSize=<FSE_BUILD_CTABLE_WORKSPACE_SIZE> overrun=<bytes FSE_buildCTable_wksp wrote beyond it>   (C side only)
 *   ncount <tableLog> <c0,c1,...>            -> ok <hex of the table description>   FSE_writeNCount(buffer, NCOUNT_ROOM (>= FSE_NCountWriteBound), counts,
 *                                               maxSymbolValue = number of counts - 1, tableLog); the Lean side is Model/NCountW.lean
 *   rncount <maxSV> <hex|->                  -> ok log=<tableLog> norm=<c0,...,c_maxSVout> used=<bytes read>   FSE_readNCount on exactly those bytes
 *                                               (hbSize = number of bytes, *maxSVPtr = maxSV, normalizedCounter = short[maxSV + 1]); FSE_readNCount_bmi2
 *                                               with bmi2 = 1 must agree (else `err bmi2-differs`)
 * counts are normalised counts (-1 allowed), maxSymbolValue = number of counts - 1.  `err <class>` on an error code (the class names of
 * zvh_common.h, plus `maxSymbolValue_tooSmall`). */
#define FSE_STATIC_LINKING_ONLY
#include "fse.h"
#include "bitstream.h"
#include "zvh_common.h"
#include "zstd_internal.h"              /* LL_base, LL_bits, OF_base, OF_bits, ML_base, ML_bits */
#include "zstd_decompress_internal.h"   /* ZSTD_seqSymbol, ZSTD_BUILD_FSE_TABLE_WKSP_SIZE */
#include "zstd_decompress_block.h"      /* ZSTD_buildFSETable */

/* parse a comma-separated list of integers into a malloc'd array */
static long* parse_list(const char* s, size_t* n) {
    size_t cap = 1, k = 0; const char* p; long* v;
    for (p = s; *p; p++) if (*p == ',') cap++;
    v = (long*)malloc(cap * sizeof(long));
    p = s;
    while (*p) {
        char* e; long x = strtol(p, &e, 10);
        if (e == p) break;
        v[k++] = x; p = e;
        if (*p == ',') p++;
    }
    *n = k; return v;
}

/* zv_errclass plus the one error code of FSE_readNCount it does not name */
static const char* fse_errclass(size_t r) {
    return ZSTD_getErrorCode(r) == ZSTD_error_maxSymbolValue_tooSmall ? "maxSymbolValue_tooSmall" : zv_errclass(r);
}

/* rncount <maxSV> <hex> */
static void op_rncount(const char* a1, const char* a2) {
    unsigned const maxSV = (unsigned)strtoul(a1, NULL, 10);
    size_t n = 0, r[2]; unsigned char* src; short* norm[2]; unsigned msv[2], tl[2]; int b;
    if (maxSV > 255) { printf("err usage\n"); return; }
    src = zv_unhex(a2, &n);
    for (b = 0; b < 2; b++) {
        norm[b] = (short*)malloc((maxSV + 1) * sizeof(short));
        memset(norm[b], 0x55, (maxSV + 1) * sizeof(short));
        msv[b] = maxSV; tl[b] = 0;
        r[b] = FSE_readNCount_bmi2(norm[b], &msv[b], &tl[b], src, n, b);
    }
    if (FSE_isError(r[0]) != FSE_isError(r[1]) || (FSE_isError(r[0]) && ZSTD_getErrorCode(r[0]) != ZSTD_getErrorCode(r[1]))) printf("err bmi2-differs\n");
    else if (FSE_isError(r[0])) printf("err %s\n", fse_errclass(r[0]));
    else if (r[0] != r[1] || msv[0] != msv[1] || tl[0] != tl[1] || msv[0] > maxSV || memcmp(norm[0], norm[1], (msv[0] + 1) * sizeof(short))) printf("err bmi2-differs\n");
    else {
        unsigned u;
        printf("ok log=%u norm=", tl[0]);
        for (u = 0; u <= msv[0]; u++) printf("%s%d", u ? "," : "", (int)norm[0][u]);
        printf(" used=%zu\n", r[0]);
    }
    free(norm[0]); free(norm[1]); free(src);
}

/* allocate and build the CTable of (norm, maxSV, tableLog); returns NULL and sets *err on an error code.
 * The workspace size handed to FSE_buildCTable_wksp is exactly FSE_BUILD_CTABLE_WORKSPACE_SIZE(maxSV, tableLog).  That macro rounds
 * (maxSymbolValue + 2) / 2 down: for an odd maxSymbolValue and no -1 count (the 8-bytes-at-a-time spreading branch) the last
 * MEM_write64 into spread[] ends 1 or 2 bytes beyond that size (count of the last symbol = 1 mod 8, or = 0).  The allocation therefore
 * carries WKSP_SLACK guard bytes behind the declared size so that the table tie is not disturbed; *overrun = number of guard bytes
 * written (what the `wksp` op reports). */
#define WKSP_SLACK 16
#define NCOUNT_ROOM 1024     /* FSE_NCountWriteBound(255, 15) = 486, FSE_NCOUNTBOUND = 512 */
static FSE_CTable* build_ctable(const short* norm, unsigned maxSV, unsigned tableLog, size_t* err, size_t* overrun) {
    size_t const ctU32 = FSE_CTABLE_SIZE_U32(tableLog, maxSV);
    size_t const wkspSize = FSE_BUILD_CTABLE_WORKSPACE_SIZE(maxSV, tableLog);
    FSE_CTable* ct = (FSE_CTable*)malloc(ctU32 * sizeof(U32));
    BYTE* wksp = (BYTE*)malloc(wkspSize + WKSP_SLACK);    /* malloc: aligned for any type */
    BYTE const guard = (BYTE)~maxSV;                      /* the bytes written last into spread[] are (BYTE)maxSV */
    size_t r, k, over = 0;
    memset(ct, 0, ctU32 * sizeof(U32));
    memset(wksp, 0, wkspSize);
    memset(wksp + wkspSize, guard, WKSP_SLACK);
    r = FSE_buildCTable_wksp(ct, norm, maxSV, tableLog, wksp, wkspSize);
    for (k = 0; k < WKSP_SLACK; k++) if (wksp[wkspSize + k] != guard) over = k + 1;
    free(wksp);
    *err = r; if (overrun) *overrun = over;
    if (FSE_isError(r)) { free(ct); return NULL; }
    return ct;
}

int main(void) {
    char* line;
    while ((line = zv_getline())) {
        char* sv; char* op = strtok_r(line, " ", &sv); char* a1; char* a2; char* a3;
        size_t nc = 0, i; long* cl; short* norm; unsigned tableLog, maxSV;
        if (!op) continue;
        a1 = strtok_r(NULL, " ", &sv); a2 = strtok_r(NULL, " ", &sv); a3 = strtok_r(NULL, " ", &sv);
        if (!a1 || !a2) { printf("err usage\n"); continue; }
        if (!strcmp(op, "rncount")) { op_rncount(a1, a2); continue; }
        tableLog = (unsigned)strtoul(a1, NULL, 10);
        cl = parse_list(a2, &nc);
        if (nc == 0 || nc > 256 || tableLog < 1 || tableLog > 15) { printf("err usage\n"); free(cl); continue; }
        norm = (short*)malloc(nc * sizeof(short));
        for (i = 0; i < nc; i++) norm[i] = (short)cl[i];
        free(cl);
        maxSV = (unsigned)nc - 1;
        if (!strcmp(op, "ctable")) {
            size_t err; FSE_CTable* ct = build_ctable(norm, maxSV, tableLog, &err, NULL);
            if (!ct) printf("err %s\n", zv_errclass(err));
            else {
                U32 const tableSize = 1u << tableLog;
                const U16* tableU16 = ((const U16*)ct) + 2;
                const FSE_symbolCompressionTransform* symbolTT =
                    (const FSE_symbolCompressionTransform*)(((const U32*)ct) + 1 + (tableLog ? tableSize >> 1 : 1));
                U32 u;
                printf("ok log=%u st=", (unsigned)tableU16[-2]);
                for (u = 0; u < tableSize; u++) printf("%s%u", u ? "," : "", (unsigned)tableU16[u]);
                printf(" tt=");
                for (u = 0; u <= maxSV; u++) {
                    if (norm[u] == 0) printf("%s%u:-", u ? "," : "", (unsigned)symbolTT[u].deltaNbBits);
                    else printf("%s%u:%d", u ? "," : "", (unsigned)symbolTT[u].deltaNbBits, symbolTT[u].deltaFindState);
                }
                printf("\n");
                free(ct);
            }
        } else if (!strcmp(op, "wksp")) {
            size_t err, over; FSE_CTable* ct = build_ctable(norm, maxSV, tableLog, &err, &over);
            if (!ct) printf("err %s\n", zv_errclass(err));
            else { printf("ok wkspSize=%zu overrun=%zu\n", (size_t)FSE_BUILD_CTABLE_WORKSPACE_SIZE(maxSV, tableLog), over); free(ct); }
        } else if (!strcmp(op, "ncount")) {
            /* a buffer of at least FSE_NCountWriteBound bytes: FSE_writeNCount takes the writeIsSafe path (no capacity checks) */
            BYTE* dst = (BYTE*)malloc(NCOUNT_ROOM); size_t r;
            memset(dst, 0, NCOUNT_ROOM);
            if (NCOUNT_ROOM < FSE_NCountWriteBound(maxSV, tableLog)) printf("err usage\n");
            else {
                r = FSE_writeNCount(dst, NCOUNT_ROOM, norm, maxSV, tableLog);
                if (FSE_isError(r)) printf("err %s\n", fse_errclass(r));
                else { printf("ok "); zv_puthex(dst, r); printf("\n"); }
            }
            free(dst);
        } else if (!strcmp(op, "dtable")) {
            size_t const dtU32 = FSE_DTABLE_SIZE_U32(tableLog);
            size_t const wkspSize = FSE_BUILD_DTABLE_WKSP_SIZE(tableLog, maxSV);
            FSE_DTable* dt = (FSE_DTable*)malloc(dtU32 * sizeof(U32));
            void* wksp = malloc(wkspSize);
            size_t r;
            memset(dt, 0, dtU32 * sizeof(U32)); memset(wksp, 0, wkspSize);
            r = FSE_buildDTable_wksp(dt, norm, maxSV, tableLog, wksp, wkspSize);
            if (FSE_isError(r)) printf("err %s\n", zv_errclass(r));
            else {
                const FSE_decode_t* cells = (const FSE_decode_t*)(dt + 1);
                U32 const tableSize = 1u << tableLog; U32 u;
                printf("ok cells=");
                for (u = 0; u < tableSize; u++)
                    printf("%s%u:%u:%u", u ? "," : "", (unsigned)cells[u].symbol, (unsigned)cells[u].nbBits, (unsigned)cells[u].newState);
                printf("\n");
            }
            free(wksp); free(dt);
        } else if (!strcmp(op, "seqtable")) {
            /* seqtable <tableLog> <c0,c1,...> (alphabet chosen by the number of counts: <= 29 offsets... no: by the 3rd token) : handled below */
            printf("err usage\n");
        } else if (!strcmp(op, "seqtableLL") || !strcmp(op, "seqtableOF") || !strcmp(op, "seqtableML")) {
            /* the decoder's sequence-table builder ZSTD_buildFSETable (zstd_decompress_block.c), both BMI2 settings must agree: ok cells=<nextState:nbAddBits:nbBits:baseValue,...> */
            const U32* base = op[8] == 'L' ? LL_base : op[8] == 'O' ? OF_base : ML_base;
            const U8* bits = op[8] == 'L' ? LL_bits : op[8] == 'O' ? OF_bits : ML_bits;
            unsigned const maxAlpha = op[8] == 'L' ? MaxLL : op[8] == 'O' ? MaxOff : MaxML;
            if (maxSV > maxAlpha || tableLog > 9) { printf("err usage\n"); }
            else {
                U32 const tableSize = 1u << tableLog; U32 u; int b, same = 1;
                ZSTD_seqSymbol* dt[2]; U32 wksp[ZSTD_BUILD_FSE_TABLE_WKSP_SIZE_U32 + 8];
                for (b = 0; b < 2; b++) { dt[b] = (ZSTD_seqSymbol*)calloc(tableSize + 1, sizeof(ZSTD_seqSymbol)); memset(wksp, 0, sizeof wksp);
                    ZSTD_buildFSETable(dt[b], norm, maxSV, base, bits, tableLog, wksp, sizeof wksp, b); }
                for (u = 1; u <= tableSize; u++) if (memcmp(&dt[0][u], &dt[1][u], sizeof(ZSTD_seqSymbol))) same = 0;
                if (!same) printf("err bmi2-differs\n");
                else { printf("ok cells=");
                    for (u = 1; u <= tableSize; u++) printf("%s%u:%u:%u:%u", u > 1 ? "," : "", (unsigned)dt[0][u].nextState, (unsigned)dt[0][u].nbAdditionalBits, (unsigned)dt[0][u].nbBits, (unsigned)dt[0][u].baseValue);
                    printf("\n"); }
                free(dt[0]); free(dt[1]);
            }
        } else if (!strcmp(op, "enc")) {
            size_t n = 0, err; long* syms = a3 ? parse_list(a3, &n) : NULL; int bad = (n == 0);
            for (i = 0; i < n && !bad; i++) if (syms[i] < 0 || (size_t)syms[i] >= nc || norm[syms[i]] == 0) bad = 1;
            if (bad) printf("err usage\n");
            else {
                FSE_CTable* ct = build_ctable(norm, maxSV, tableLog, &err, NULL);
                if (!ct) printf("err %s\n", zv_errclass(err));
                else {
                    size_t const cap = n * 2 + 64; BYTE* dst = (BYTE*)malloc(cap);
                    BIT_CStream_t bitC; FSE_CState_t st; size_t k, size;
                    memset(dst, 0, cap);
                    if (ERR_isError(BIT_initCStream(&bitC, dst, cap))) printf("err initCStream\n");
                    else {
                        FSE_initCState2(&st, ct, (U32)syms[n - 1]);
                        for (k = n - 2; k < n; k--) {     /* intentional underflow for the last value */
                            FSE_encodeSymbol(&bitC, &st, (U32)syms[k]);
                            BIT_flushBits(&bitC);
                        }
                        FSE_flushCState(&bitC, &st);
                        size = BIT_closeCStream(&bitC);
                        if (size == 0) printf("err\n");
                        else { printf("ok "); zv_puthex(dst, size); printf("\n"); }
                    }
                    free(dst); free(ct);
                }
            }
            free(syms);
        } else printf("err unknown-op\n");
        free(norm);
    }
    return 0;
}
