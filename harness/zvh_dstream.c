/* zvh_dstream — ZSTD_decompressStream observed call by call (tie of lean/ZstdVerif/Model/DStream.lean).
 *   ds <cap> <hex stream> <in sizes csv> <out sizes csv> [limit] [windowLogMax]
 * A fresh context decodes the stream; call k is offered in[k % ni] bytes of input (a size `h` = the previous return value, 5 at the
 * start and after a completed frame; input a call left unconsumed is offered again first) and out[k % no] bytes of room, both cut
 * to what is left (only the first <limit> bytes of the stream are ever offered; <cap> = total output room).
 * For EVERY call prints " consumed:produced:ret" with ret = E<class> or the numeric return value.
 * The history ends at an error, after 20 consecutive calls that neither consumed nor produced, or after 3000000 calls. */
#include "zvh_common.h"
#include <signal.h>
#include <unistd.h>
static void on_alarm(int s) { (void)s; { static const char m[] = "TIMEOUT\n"; if (write(1, m, sizeof m - 1) < 0) {} } _exit(3); }

#define HINT ((size_t)-1)
static int parse_list(char* s, size_t* v, int max) {
    int n = 0; char* sv; char* t;
    for (t = strtok_r(s, ",", &sv); t && n < max; t = strtok_r(NULL, ",", &sv)) v[n++] = (t[0] == 'h') ? HINT : (size_t)strtoull(t, NULL, 10);
    return n;
}

int main(void) {
    char* line;
    signal(SIGALRM, on_alarm);
    while ((line = zv_getline())) {
        char* op = strtok(line, " "); if (!op) continue;
        alarm(120);
        if (!strcmp(op, "ds")) {
            size_t cap = (size_t)strtoull(strtok(NULL, " "), NULL, 10), n; unsigned char* in = zv_unhex(strtok(NULL, " "), &n);
            char* ins = strtok(NULL, " "); char* outs = strtok(NULL, " "); char* lim = strtok(NULL, " "); char* wl = lim ? strtok(NULL, " ") : NULL;
            size_t limit = lim ? (size_t)strtoull(lim, NULL, 10) : n;
            size_t ic[64], oc[64]; int ni = parse_list(ins, ic, 64), no = parse_list(outs, oc, 64);
            unsigned char* out = (unsigned char*)malloc(cap ? cap : 1); size_t consumed = 0, produced = 0, r = 5, left = 0; long calls = 0; int idle = 0;
            ZSTD_DCtx* dctx = ZSTD_createDCtx();
            if (limit > n) limit = n;
            if (wl) ZSTD_DCtx_setParameter(dctx, ZSTD_d_windowLogMax, atoi(wl));
            printf("ds");
            while (calls < 3000000 && ni > 0 && no > 0) {
                size_t isz = ic[calls % ni], osz = oc[calls % no]; ZSTD_inBuffer ib; ZSTD_outBuffer ob;
                if (isz == HINT) isz = left ? left : (r ? r : 5);
                if (isz > limit - consumed) isz = limit - consumed;
                if (osz > cap - produced) osz = cap - produced;
                ib.src = in + consumed; ib.size = isz; ib.pos = 0; ob.dst = out + produced; ob.size = osz; ob.pos = 0;
                r = ZSTD_decompressStream(dctx, &ob, &ib); calls++;
                if (ZSTD_isError(r)) { printf(" %zu:%zu:E%s", ib.pos, ob.pos, zv_errclass(r)); break; }
                printf(" %zu:%zu:%zu", ib.pos, ob.pos, r);
                consumed += ib.pos; produced += ob.pos; left = isz - ib.pos;
                if (ib.pos == 0 && ob.pos == 0) { if (++idle >= 20) break; } else idle = 0;
            }
            printf("\n");
            ZSTD_freeDCtx(dctx); free(in); free(out);
        } else printf("unknown-op\n");
        fflush(stdout);
    }
    return 0;
}
