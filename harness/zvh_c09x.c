/* zvh_c09x — C09: pledged-size call histories (with worker threads and flushes) and decoder-parameter histories on one ZSTD_DCtx.
 *
 *   pledgeh <pledged|-1> <calls csv: c<n> | f<n> | e<n>> <nbWorkers> <jobSize|0> <nofcs 0|1> <api 0|1|2>
 *       api 0: ZSTD_CCtx_setPledgedSrcSize + ZSTD_compressStream2(continue / flush / end), every call repeated until its input is consumed
 *              (and, for flush / end, until it returns 0);
 *       api 1: ZSTD_initCStream_srcSize(pledged) + ZSTD_compressStream / ZSTD_flushStream / ZSTD_endStream (input of an f / e call goes
 *              through ZSTD_compressStream first);  api 2: ZSTD_CCtx_setPledgedSrcSize + the same legacy calls.
 *       A history whose last call is not an `e` gets a final end call without input.  Source = the first sum(n) bytes of a fixed pattern.
 *       a<n> as last call: ONE end call with no output room at all, then the frame is abandoned ("abandoned fed=<n>"); the next line resets the context.
 *       -> "ok fed=<n> fcs=<header content size|-1> len=<frame bytes> dec=<ok | error class | size:<n> | mismatch>"  |  "err <class> at=<call> fed=<n>"
 *
 *   ids <csv>                      decompression parameter ids read back after every d-op
 *   frame <slot> <hex>             store a frame (slots 0..31)
 *   new                            fresh ZSTD_DCtx
 *   set <id> <v>                   ZSTD_DCtx_setParameter
 *   reset <1|2|3>                  ZSTD_DCtx_reset(session_only | parameters | session_and_parameters)
 *   probe <slot> <o|s|m> <cap> <chunk>   decode the stored frame with the context as it is: o = ZSTD_decompressDCtx; s = ZSTD_decompressStream, input in
 *                                  <chunk>-byte pieces, the SAME output buffer (dst, cap) with its running pos on every call; m = the same with a moving
 *                                  output buffer (dst + produced, remaining room, pos 0).  After a failed probe: ZSTD_DCtx_reset(session_only).
 *   every d-op answers "<status> | v0 v1 ..." (status of a probe: "ok <size> <xxh64>" or "err <class>") */
#include "zvh_common.h"
#include <signal.h>
#include <unistd.h>

static void on_alarm(int s) { (void)s; { static const char m[] = "TIMEOUT\n"; if (write(1, m, sizeof m - 1) < 0) {} } _exit(3); }

static ZSTD_DCtx* dctx; static int ids[32], nids;
static unsigned char* fr[32]; static size_t frn[32];

static const char* pcls(size_t r) {
    if (!ZSTD_isError(r)) return "ok";
    switch (ZSTD_getErrorCode(r)) {
        case ZSTD_error_parameter_outOfBound: return "err:bound";
        case ZSTD_error_stage_wrong: return "err:stage";
        case ZSTD_error_parameter_unsupported: return "err:unsupported";
        default: return "err:other";
    }
}
static void dump(const char* status) {
    int i; printf("%s |", status);
    for (i = 0; i < nids; i++) { int v; size_t r = ZSTD_DCtx_getParameter(dctx, (ZSTD_dParameter)ids[i], &v); if (ZSTD_isError(r)) printf(" ?"); else printf(" %d", v); }
    printf("\n");
}

int main(void) {
    char* line; ZSTD_CCtx* cctx = ZSTD_createCCtx(); dctx = ZSTD_createDCtx();
    signal(SIGALRM, on_alarm);
    while ((line = zv_getline())) {
        char* op = strtok(line, " "); if (!op) continue;
        alarm(60);
        if (!strcmp(op, "pledgeh")) {
            long long pl = atoll(strtok(NULL, " ")); char* cs = strtok(NULL, " "); int workers = atoi(strtok(NULL, " ")); int jobSize = atoi(strtok(NULL, " "));
            int nofcs = atoi(strtok(NULL, " ")); int api = atoi(strtok(NULL, " "));
            char dirs[64]; size_t ch[64]; int nc = 0, k; char* sv; char* t; size_t total = 0, i, cap, fed = 0, r = 0; unsigned char* src; unsigned char* out; ZSTD_outBuffer ob; int failedAt = -1, ended = 0, abandoned = 0;
            if (strcmp(cs, "-")) for (t = strtok_r(cs, ",", &sv); t && nc < 63; t = strtok_r(NULL, ",", &sv)) { dirs[nc] = t[0]; ch[nc] = (size_t)strtoull(t + 1, NULL, 10); total += ch[nc]; nc++; }
            if (nc == 0 || (dirs[nc - 1] != 'e' && dirs[nc - 1] != 'a')) { dirs[nc] = 'e'; ch[nc] = 0; nc++; }
            src = (unsigned char*)malloc(total + 1); cap = ZSTD_compressBound(total) + 65536 + 64 * (size_t)nc; out = (unsigned char*)malloc(cap);
            for (i = 0; i < total; i++) src[i] = (unsigned char)(i * 31 + (i >> 7) + ((i >> 13) * 5));
            ZSTD_CCtx_reset(cctx, ZSTD_reset_session_and_parameters);
            ZSTD_CCtx_setParameter(cctx, ZSTD_c_compressionLevel, 1);
            if (workers) { ZSTD_CCtx_setParameter(cctx, ZSTD_c_nbWorkers, workers); if (jobSize) ZSTD_CCtx_setParameter(cctx, ZSTD_c_jobSize, jobSize); }
            if (nofcs) ZSTD_CCtx_setParameter(cctx, ZSTD_c_contentSizeFlag, 0);
            if (api == 1) r = ZSTD_initCStream_srcSize(cctx, 1, pl >= 0 ? (unsigned long long)pl : ZSTD_CONTENTSIZE_UNKNOWN);
            else if (pl >= 0) r = ZSTD_CCtx_setPledgedSrcSize(cctx, (unsigned long long)pl);
            ob.dst = out; ob.size = cap; ob.pos = 0;
            for (k = 0; k < nc && !ZSTD_isError(r) && !ended; k++) {
                ZSTD_inBuffer ib; char d = dirs[k]; ib.src = src + fed; ib.size = ch[k]; ib.pos = 0;
                if (d == 'a') {   /* ONE end call that is given no output room (with worker threads: the last job is posted and runs), then the frame is abandoned */
                    ZSTD_outBuffer none; none.dst = out; none.size = ob.pos; none.pos = ob.pos;
                    r = ZSTD_compressStream2(cctx, &none, &ib, ZSTD_e_end); fed += ib.pos;
                    if (ZSTD_isError(r)) failedAt = k; else abandoned = 1;
                    break;
                }
                if (api == 0) {
                    ZSTD_EndDirective dir = d == 'e' ? ZSTD_e_end : d == 'f' ? ZSTD_e_flush : ZSTD_e_continue; int guard = 0;
                    do { r = ZSTD_compressStream2(cctx, &ob, &ib, dir); } while (!ZSTD_isError(r) && (ib.pos < ib.size || (dir != ZSTD_e_continue && r != 0)) && guard++ < 1000000);
                } else {
                    int guard = 0;
                    while (!ZSTD_isError(r) && ib.pos < ib.size && guard++ < 1000000) r = ZSTD_compressStream(cctx, &ob, &ib);
                    if (!ZSTD_isError(r) && d == 'f') do { r = ZSTD_flushStream(cctx, &ob); } while (!ZSTD_isError(r) && r != 0 && guard++ < 1000000);
                    if (!ZSTD_isError(r) && d == 'e') do { r = ZSTD_endStream(cctx, &ob); } while (!ZSTD_isError(r) && r != 0 && guard++ < 1000000);
                }
                fed += ib.pos; if (ZSTD_isError(r)) failedAt = k; else if (d == 'e') ended = 1;
            }
            if (ZSTD_isError(r)) printf("err %s at=%d fed=%zu\n", zv_errclass(r), failedAt, fed);
            else if (abandoned) printf("abandoned fed=%zu\n", fed);
            else { ZSTD_frameHeader h; unsigned char* back = (unsigned char*)malloc(total + 1); size_t d; char dv[48];
                memset(&h, 0, sizeof h); ZSTD_getFrameHeader(&h, out, ob.pos);
                d = ZSTD_decompress(back, total + 1, out, ob.pos);
                if (ZSTD_isError(d)) sprintf(dv, "%s", zv_errclass(d)); else if (d != fed) sprintf(dv, "size:%zu", d); else if (memcmp(back, src, fed)) sprintf(dv, "mismatch"); else sprintf(dv, "ok");
                printf("ok fed=%zu fcs=%lld len=%zu dec=%s\n", fed, h.frameContentSize == ZSTD_CONTENTSIZE_UNKNOWN ? -1LL : (long long)h.frameContentSize, ob.pos, dv); free(back); }
            free(src); free(out);
        } else if (!strcmp(op, "ids")) {
            char* cs = strtok(NULL, " "); char* sv; char* t; nids = 0;
            for (t = strtok_r(cs, ",", &sv); t && nids < 32; t = strtok_r(NULL, ",", &sv)) ids[nids++] = atoi(t);
            printf("ok\n");
        } else if (!strcmp(op, "frame")) {
            int slot = atoi(strtok(NULL, " ")) & 31; free(fr[slot]); fr[slot] = zv_unhex(strtok(NULL, " "), &frn[slot]); printf("ok\n");
        } else if (!strcmp(op, "new")) {
            ZSTD_freeDCtx(dctx); dctx = ZSTD_createDCtx(); dump("ok");
        } else if (!strcmp(op, "set")) {
            int id = atoi(strtok(NULL, " ")); int v = atoi(strtok(NULL, " ")); dump(pcls(ZSTD_DCtx_setParameter(dctx, (ZSTD_dParameter)id, v)));
        } else if (!strcmp(op, "reset")) {
            int k = atoi(strtok(NULL, " ")); dump(pcls(ZSTD_DCtx_reset(dctx, (ZSTD_ResetDirective)k)));
        } else if (!strcmp(op, "probe")) {
            int slot = atoi(strtok(NULL, " ")) & 31; char mode = strtok(NULL, " ")[0]; size_t cap = (size_t)strtoull(strtok(NULL, " "), NULL, 10); size_t chunk = (size_t)strtoull(strtok(NULL, " "), NULL, 10);
            const unsigned char* f = fr[slot]; size_t n = frn[slot]; unsigned char* out = (unsigned char*)malloc(cap ? cap : 1); size_t r; char st[96];
            if (!f) { f = (const unsigned char*)""; n = 0; }
            if (chunk == 0) chunk = 1;
            if (mode == 'o') r = ZSTD_decompressDCtx(dctx, out, cap, f, n);
            else { size_t pos = 0, produced = 0; long guard = 0; r = 1;
                while (!ZSTD_isError(r) && guard++ < 4000000) {
                    size_t isz = n - pos < chunk ? n - pos : chunk; unsigned char* piece = (unsigned char*)malloc(isz ? isz : 1); ZSTD_inBuffer ib; ZSTD_outBuffer ob; size_t before;
                    memcpy(piece, f + pos, isz); ib.src = piece; ib.size = isz; ib.pos = 0;      /* exact-size copies: nothing readable beyond the piece */
                    if (mode == 'm') { ob.dst = out + produced; ob.size = cap - produced; ob.pos = 0; before = 0; } else { ob.dst = out; ob.size = cap; ob.pos = produced; before = produced; }
                    r = ZSTD_decompressStream(dctx, &ob, &ib); free(piece);
                    if (ZSTD_isError(r)) break;
                    pos += ib.pos; produced += ob.pos - before;
                    if (r == 0 && pos == n) break;
                    if (ib.pos == 0 && ob.pos == before) { r = (size_t)-ZSTD_error_srcSize_wrong; break; }    /* stuck: input exhausted in mid-frame, or no room */
                }
                if (!ZSTD_isError(r)) r = produced;
            }
            if (ZSTD_isError(r)) { sprintf(st, "err %s", zv_errclass(r)); ZSTD_DCtx_reset(dctx, ZSTD_reset_session_only); }
            else sprintf(st, "ok %zu %016llx", r, (unsigned long long)XXH64(out, r, 0));
            dump(st); free(out);
        } else printf("bad-op\n");
        fflush(stdout);
    }
    return 0;
}
