/* zvh_mt — runs streaming compression with worker threads on the REAL zstdmt_compress.c + pool.c (both #included below with the
 * ZSTD_pthread_* primitives interposed) and prints the protocol events in the order their critical sections really happened,
 * in the vocabulary of the Lean LTS (Model/MTProto.lean):
 *     frame <mask>        a frame starts on the context (job ring of mask+1 slots)
 *     post <srcSize> <ck> / unpost            caller prepared job nextJobID and offered it to the pool / the pool had no room
 *     inline <cSize> <ck>                     caller wrote the last empty block itself (no worker)
 *     serial <j> <wake>   worker of job j left the serial section        (serial.nextJobID j -> j+1, read under serial.mutex; wake: 1 signal, 2 broadcast)
 *     prod <j> <consumed> <cSize>  /  fail <j>     worker published progress / an error (read under the job mutex, before unlocking)
 *     cksum / flush <bytes> / retire          caller: frame checksum appended to the last job, bytes handed out, job retired
 *     abort               the frame was abandoned (session reset or error): the ring is emptied
 *     end <ok|FAIL ...> frames=<n> in=<bytes> out=<bytes>
 * op:  mt <workers> <id=val,...|-> <size> <seed> <in-chunks csv> <out-caps csv> <perturb 0..6> <pseed> <abortAfterCalls|-1> <midLevel|0> <frames> [<id=val,... for odd frames>]
 * op:  mtf <workers> <id=val,...|-> <size> <seed> <in-chunks csv> <out-caps csv> <perturb 0..6> <pseed> <who> <nth> <sticky 0|1> <faultFrame 0|1> <delayJob|-1> <delayUs> <flushEvery|0>
 *      allocation faults: the context is created with a ZSTD_customMem allocator; in frame <faultFrame> of three the request number <nth> (from 0) of the
 *      class <who> (A any thread, W worker threads, C the caller, J<j> the worker running job j) is answered NULL (sticky: and every request after it, until the
 *      call has returned); every <flushEvery>-th call asks for a flush.  Schedule hook: the worker of job <delayJob> is held where it asks for its serial turn until a failed job has left through
 *      ZSTDMT_serialState_ensureFinished (<delayUs> microseconds at most) and a job that did not fail has then had a serial turn (a quarter of that at most).
 *      The faulted frame must end with an error or decode to the input; the two frames after it (session reset, then parameter reset) must decode to the input;
 *      every request must have been handed back after ZSTD_freeCCtx.  The protocol trace is cut (`abort`) at the instant the fault fires; in addition
 *          efin <j> <before> <after>    the worker of the FAILED job j went through ZSTDMT_serialState_ensureFinished: serial.nextJobID at lock / at unlock
 *      end <ok|FAIL ...> frames=<n> in= out= fault=<0|1> res=<ok|error name of the faulted frame> allocs=<all>/<workers>/<caller>
 * op:  mth <workers> <id=val,...|-> <seed> <hrel> <where 0|1> <holdMaxUs> <in-chunks csv> <out-caps csv> <perturb> <pseed> <T> <R> <y per-mille> <extraSections>
 *      a worker is HELD (nothing is refused) while the caller goes on until it has to wrap the round input buffer.  Geometry read from the context after its
 *      initialisation: S = section size, P = overlap, K = whole sections the round buffer holds (the input of section K needs the wrap).  The worker of job
 *      h = K - workers + <hrel> is parked where it asks for its serial turn (where 0) or, inside its serial turn, where it is about to publish the window of the
 *      long-distance matcher (where 1), until the caller waits for that window (ZSTDMT_waitForLdmComplete), or has consumed K+1 sections, or <holdMaxUs>.
 *      Input: incompressible bytes; the job that takes the next long-distance-matching turn after the release (h + where) contains, at y/1000 of its first half,
 *      [last T bytes of section K-1][R bytes copied from offset P] (a match found at offset P extends backwards into the bytes the wrap relocates) and, half a
 *      section further, [last T bytes of section K][R bytes copied from offset P+S] (same for the first section loaded after the wrap).
 *      One frame; must decode to the input (one-pass decoder and streaming decoder limited to the declared window).  The flag the parked worker polls is
 *      read / written with relaxed atomics only: it orders nothing, so ThreadSanitizer sees the caller's writes and the worker's reads as the library orders them.
 *      end <ok|FAIL ...> frames=<n> in= out= hold=<h> where= rel=<none|ldmwait|fed|timeout> K= S= P=
 * perturb (5 = jobs reach the serial section in reversed order within each group of three): 0 none, 1 random yields / sleeps before every primitive, 2 worker W0 is slow, 3 the caller is slow, 4 the serial section is slow. */
#define _GNU_SOURCE
#include <stdio.h>
#include <stdlib.h>
#include <string.h>
#include <stdarg.h>
#include <stddef.h>
#include <unistd.h>
#include <signal.h>
#include <pthread.h>
#define ZSTD_STATIC_LINKING_ONLY
#include "threading.h"

static int zv_lock(pthread_mutex_t* m);
static int zv_unlock(pthread_mutex_t* m);
static int zv_wait(pthread_cond_t* c, pthread_mutex_t* m);
static int zv_create(pthread_t* t, const void* attr, void* (*fn)(void*), void* arg);
static int zv_signal(pthread_cond_t* c);
static int zv_broadcast(pthread_cond_t* c);
#undef ZSTD_pthread_cond_signal
#undef ZSTD_pthread_cond_broadcast
#define ZSTD_pthread_cond_signal(a) zv_signal(a)
#define ZSTD_pthread_cond_broadcast(a) zv_broadcast(a)
#undef ZSTD_pthread_mutex_lock
#undef ZSTD_pthread_mutex_unlock
#undef ZSTD_pthread_cond_wait
#undef ZSTD_pthread_create
#define ZSTD_pthread_mutex_lock(a) zv_lock(a)
#define ZSTD_pthread_mutex_unlock(a) zv_unlock(a)
#define ZSTD_pthread_cond_wait(a, b) zv_wait((a), (b))
#define ZSTD_pthread_create(a, b, c, d) zv_create((a), (b), (c), (d))
#include "pool.c"   /* found through -I<repo>/… (tools/build.py), so that ZV_REPO can point at another checkout */
static int zv_tryAdd(POOL_ctx* ctx, POOL_function fn, void* arg);
#define POOL_tryAdd(c, f, a) zv_tryAdd((c), (f), (a))
#include "zstdmt_compress.c"   /* found through -I<repo>/… (tools/build.py), so that ZV_REPO can point at another checkout */
#undef POOL_tryAdd
#include "zvh_common.h"

/* ---- log ---- */
static pthread_mutex_t g_log = PTHREAD_MUTEX_INITIALIZER;
static char* g_buf; static size_t g_len, g_cap;
static int g_cut;      /* op mtf: an allocation fault has fired in this frame: protocol events are no longer logged (read / written under g_log) */
static void ev(const char* fmt, ...) { va_list ap; char tmp[128]; int n; va_start(ap, fmt); n = vsnprintf(tmp, sizeof tmp, fmt, ap); va_end(ap);
    pthread_mutex_lock(&g_log); if (g_cut && strncmp(tmp, "efin ", 5)) { pthread_mutex_unlock(&g_log); return; } if (g_len + (size_t)n + 1 > g_cap) { g_cap = (g_cap + (size_t)n + 1) * 2; g_buf = (char*)realloc(g_buf, g_cap); } memcpy(g_buf + g_len, tmp, (size_t)n); g_len += (size_t)n; g_buf[g_len] = 0; pthread_mutex_unlock(&g_log); }

static __thread int t_worker = -1;       /* -1 = caller */
static __thread unsigned t_jobID;        /* job the worker is running */
static __thread int t_stall;             /* this job is the first one loaded after the round buffer wrapped (its prefix sits at the start of the buffer) */
static __thread int t_serialWake;        /* 0 none, 1 signal, 2 broadcast on the serial condition since the serial mutex was taken */
static __thread unsigned t_rng;
static __thread void* t_job;             /* description of the job the worker is running (NULL outside a job) */
static __thread unsigned t_serialAtLock; /* serial.nextJobID when this thread took the serial mutex */
static __thread long t_jobAllocs;        /* allocator requests made by this worker since its job started */
static int g_perturb; static unsigned g_pseed = 1; static int g_nworkers;
static ZSTD_CCtx* g_cctx; static void frame_start(ZSTD_CCtx* c);
static ZSTDMT_CCtx* g_mt; static serialState_t* g_serial; static unsigned g_serialSeen;
#define RING 64
static ZSTDMT_jobDescription* g_job[RING];          /* posted job descriptions by jobID % RING */
/* caller-side bookkeeping for deriving flush / retire */
static unsigned g_cDone, g_cNext; static size_t g_cFlushed; static unsigned long long g_cProduced; static int g_ckPending[RING]; static int g_inFrame;

/* op mtf, schedule hook: the worker of job g_dJob is held where it asks for its serial turn until a FAILED job has gone through
 * ZSTDMT_serialState_ensureFinished (g_efinDone), for g_dUs microseconds at most: an older job that has not had its turn when a younger one bails out */
static int g_patient; static int g_dJob = -1; static unsigned g_dUs; static int g_efinDone; static __thread int t_held;
static void nap(unsigned us);
static int g_turnAfterEfin;    /* a job that did not fail went through the serial section after a failed one had left */
static void hold_turn(void) { unsigned waited = 0; t_held = 1; while (!__atomic_load_n(&g_efinDone, __ATOMIC_ACQUIRE) && waited < g_dUs) { nap(200); waited += 200; }
    /* then let a younger job take its turn first (a quarter of the limit at most): the held job finds the counter beyond its own id */
    if (__atomic_load_n(&g_efinDone, __ATOMIC_ACQUIRE)) { waited = 0; while (!__atomic_load_n(&g_turnAfterEfin, __ATOMIC_ACQUIRE) && waited < g_dUs / 4) { nap(200); waited += 200; } } }
/* op mth: the worker of job g_dJob is held (where 0: before it asks for the serial mutex; where 1: inside its serial turn, before it publishes the window of the
 * long-distance matcher) until the caller waits on serial.ldmWindowCond, or has consumed g_hFedLimit bytes, or g_dUs microseconds.  Relaxed atomics: no ordering. */
static int g_holdWrap, g_hWhere, g_callerLdmWait, g_hRel, g_jobsEnded; static __thread int t_pre; static unsigned long long g_fed, g_hFedLimit;
static void hold_wrap(void) { unsigned waited = 0; int why = 3; t_held = 1;
    while (waited < g_dUs) { if (__atomic_load_n(&g_callerLdmWait, __ATOMIC_RELAXED)) { why = 1; break; } if (__atomic_load_n(&g_fed, __ATOMIC_RELAXED) >= g_hFedLimit) { why = 2; break; } nap(500); waited += 500; }
    nap(2000); __atomic_store_n(&g_hRel, why, __ATOMIC_RELAXED); }
static void nap(unsigned us) { struct timespec ts; ts.tv_sec = us / 1000000; ts.tv_nsec = (long)(us % 1000000) * 1000; nanosleep(&ts, NULL); }
static void perturb(int where, pthread_mutex_t* m) {   /* where: 0 before lock, 1 before unlock */
    serialState_t* const sr = __atomic_load_n(&g_serial, __ATOMIC_ACQUIRE);
    if (g_holdWrap) { int const dj = (where == 0 && t_worker >= 0 && t_job && !t_held && sr) ? __atomic_load_n(&g_dJob, __ATOMIC_ACQUIRE) : -1;   /* set once, before the first byte of input is handed over */
        if (dj >= 0 && t_jobID == (unsigned)dj) {
            /* where 1 keeps the serial mutex while parked, and every job takes that mutex once more when it ends: the older jobs are let to end first */
            if (g_hWhere && m == &sr->mutex && !t_pre) { unsigned waited = 0; t_pre = 1; while (__atomic_load_n(&g_jobsEnded, __ATOMIC_RELAXED) < dj && waited < g_dUs) { nap(500); waited += 500; } }
            else if (m == (g_hWhere ? &sr->ldmWindowMutex : &sr->mutex)) hold_wrap(); } }
    else
    if (g_dJob >= 0 && where == 0 && t_worker >= 0 && t_job && !t_held && t_jobID == (unsigned)g_dJob && sr && m == &sr->mutex && !ZSTD_isError(((ZSTDMT_jobDescription*)t_job)->cSize)) hold_turn();
    if (g_perturb == 1) { t_rng = t_rng * 1103515245u + 12345u; switch ((t_rng >> 16) & 7) { case 0: sched_yield(); break; case 1: nap((t_rng >> 20) & 255); break; case 2: nap(((t_rng >> 20) & 15) * 100); break; default: break; } }
    else if (g_perturb == 2) { if (t_worker == 0 && where == 1) nap(3000); }
    else if (g_perturb == 3) { if (t_worker < 0 && where == 0) nap(1500); }
    else if (g_perturb == 4) { if (sr && m == &sr->mutex && where == 1) nap(2500); }
    /* 5: jobs reach the serial section in the order 2,1,0 / 5,4,3 / ... : several jobs wait on the serial condition when their predecessor leaves */
    /* 6: the worker of the first job loaded after each wrap of the round buffer stalls for 0.4 s after its serial section, outside any lock: the later jobs finish, the caller laps the buffer meanwhile */
    /* (preset 6 sleeps in zv_unlock, after the serial mutex has been released) */
    else if (g_perturb == 5) { if (t_worker >= 0 && sr && m == &sr->mutex && where == 0) nap(t_jobID % 3 == 0 ? 9000 : (t_jobID % 3 == 1 ? 4000 : 0)); }
}
/* caller: derive cksum / flush / retire from the change of its private counters since the last look */
static void caller_sync(void) {
    ZSTDMT_CCtx* mt = g_mt;
#ifdef ZV_NOTRACE      /* ThreadSanitizer build: no event bookkeeping (it reads shared fields without the library's locks) */
    return;
#endif
    if (!mt || !g_inFrame || __atomic_load_n(&g_cut, __ATOMIC_ACQUIRE)) return;
    while (g_cDone < mt->doneJobID) {   /* job g_cDone was retired: everything it had was flushed */
        unsigned long long const total = mt->produced - g_cProduced;     /* its final cSize (checksum included) */
        if (mt->doneJobID - g_cDone > 1) { ev("sync-gap %u %u\n", g_cDone, mt->doneJobID); }
        if (g_ckPending[g_cDone % RING]) { ev("cksum\n"); g_ckPending[g_cDone % RING] = 0; }
        if (total > g_cFlushed) ev("flush %llu\n", total - g_cFlushed);
        ev("retire\n"); g_cDone++; g_cFlushed = 0; g_cProduced = mt->produced;
    }
    if (g_cDone < mt->nextJobID) { ZSTDMT_jobDescription* j = &mt->jobs[g_cDone & mt->jobIDMask];
        if (g_ckPending[g_cDone % RING] && !j->frameChecksumNeeded && j->dstFlushed > 0) { /* appended, not yet retired */ }
        if (j->jobID == g_cDone || 1) { size_t const f = j->dstFlushed; if (f > g_cFlushed && g_cDone < g_cNext) {
                if (g_ckPending[g_cDone % RING] && !j->frameChecksumNeeded) { ev("cksum\n"); g_ckPending[g_cDone % RING] = 0; }
                ev("flush %zu\n", f - g_cFlushed); g_cFlushed = f; } } }
    /* a job created without the pool: the last empty block */
    while (g_cNext < mt->nextJobID) { ZSTDMT_jobDescription* j = &mt->jobs[g_cNext & mt->jobIDMask]; ev("inline %zu %u\n", j->cSize, j->frameChecksumNeeded); g_ckPending[g_cNext % RING] = (int)j->frameChecksumNeeded; g_cNext++; }
}
static POOL_function g_realJob;
#define SERIAL() __atomic_load_n(&g_serial, __ATOMIC_ACQUIRE)
static void zv_jobfn(void* arg) { POOL_function f = __atomic_load_n(&g_realJob, __ATOMIC_ACQUIRE); ZSTDMT_jobDescription* job = (ZSTDMT_jobDescription*)arg;
    ZSTDMT_CCtx* mt = (ZSTDMT_CCtx*)((char*)job->serial - offsetof(ZSTDMT_CCtx, serial));
    t_jobID = job->jobID; t_stall = (job->jobID > 0 && job->prefix.size > 0 && job->prefix.start == (const void*)mt->roundBuff.buffer) ? 1 : 0; t_job = job; t_jobAllocs = 0; t_held = 0; t_pre = 0; f(arg); t_job = NULL; __atomic_fetch_add(&g_jobsEnded, 1, __ATOMIC_RELAXED); }
static int zv_signal(pthread_cond_t* c) { serialState_t* sr = SERIAL(); if (sr && c == &sr->cond && t_serialWake < 1) t_serialWake = 1; return pthread_cond_signal(c); }
static int zv_broadcast(pthread_cond_t* c) { serialState_t* sr = SERIAL(); if (sr && c == &sr->cond) t_serialWake = 2; return pthread_cond_broadcast(c); }
static int zv_tryAdd(POOL_ctx* ctx, POOL_function fn, void* arg) {
    ZSTDMT_jobDescription* job = (ZSTDMT_jobDescription*)arg; int r;
    __atomic_store_n(&g_realJob, fn, __ATOMIC_RELEASE); __atomic_store_n(&g_serial, job->serial, __ATOMIC_RELEASE);
    /* op mtf: the caller offers a job once a worker can take it (the previous job has been picked up), whatever the load of the machine: jobs overlap */
    if (g_patient) { int k; for (k = 0; k < 400; k++) { int full; pthread_mutex_lock(&ctx->queueMutex); full = isQueueFull(ctx); pthread_mutex_unlock(&ctx->queueMutex); if (!full) break; nap(500); } }
#ifdef ZV_NOTRACE
    return POOL_tryAdd(ctx, zv_jobfn, arg);
#endif
    if (g_perturb == 6) { int k; for (k = 0; k < 60; k++) { int full; pthread_mutex_lock(&ctx->queueMutex); full = isQueueFull(ctx); pthread_mutex_unlock(&ctx->queueMutex); if (!full) break; nap(1000); } }     /* patient caller: posts once a worker is idle instead of blocking on the oldest job */
    if (!g_inFrame && job->jobID == 0) frame_start(g_cctx);      /* every frame starts by posting job 0 */
    caller_sync();
    g_job[job->jobID % RING] = job; g_ckPending[job->jobID % RING] = (int)job->frameChecksumNeeded;
    ev("post %zu %u\n", job->src.size, job->frameChecksumNeeded); g_cNext = job->jobID + 1;
    r = POOL_tryAdd(ctx, zv_jobfn, arg);
    if (!r) { ev("unpost\n"); g_cNext = job->jobID; }
    return r;
}
static ZSTDMT_jobDescription* job_of_mutex(pthread_mutex_t* m) { int k; for (k = 0; k < RING; k++) if (g_job[k] && &g_job[k]->job_mutex == m) return g_job[k]; return NULL; }
static int zv_lock(pthread_mutex_t* m) { int r; perturb(0, m); r = pthread_mutex_lock(m);
#ifndef ZV_NOTRACE
    if (t_worker >= 0) { serialState_t* const sr = SERIAL(); if (sr && m == &sr->mutex) t_serialAtLock = sr->nextJobID; }
    if (t_worker < 0 && g_mt && job_of_mutex(m)) caller_sync();
#endif
    return r; }
static void on_release(pthread_mutex_t* m) {
#ifdef ZV_NOTRACE
    (void)m; return;
#endif
    if (t_worker >= 0) {
        ZSTDMT_jobDescription* j = job_of_mutex(m);
        if (j) { if (ZSTD_isError(j->cSize)) ev("fail %u\n", j->jobID); else ev("prod %u %zu %zu\n", j->jobID, j->consumed, j->cSize); }
        else if (g_serial && m == &g_serial->mutex) { unsigned const v = g_serial->nextJobID; if (v == g_serialSeen + 1) ev("serial %u %d\n", g_serialSeen, t_serialWake); g_serialSeen = v; t_serialWake = 0;
            /* a job that has reported an error only takes this mutex in ZSTDMT_serialState_ensureFinished (the worker is the only writer of an error code into its cSize) */
            if (t_job && ZSTD_isError(((ZSTDMT_jobDescription*)t_job)->cSize)) ev("efin %u %u %u\n", ((ZSTDMT_jobDescription*)t_job)->jobID, t_serialAtLock, v); }
    }
}
static int zv_unlock(pthread_mutex_t* m) { int r; serialState_t* const sr = __atomic_load_n(&g_serial, __ATOMIC_ACQUIRE); perturb(1, m); on_release(m);
    { int const ser = t_worker >= 0 && t_job && sr && m == &sr->mutex; int const efin = ser && ZSTD_isError(((ZSTDMT_jobDescription*)t_job)->cSize); r = pthread_mutex_unlock(m);
      if (efin) __atomic_store_n(&g_efinDone, 1, __ATOMIC_RELEASE); else if (ser && __atomic_load_n(&g_efinDone, __ATOMIC_ACQUIRE)) __atomic_store_n(&g_turnAfterEfin, 1, __ATOMIC_RELEASE); }
    if (g_perturb == 6 && t_stall == 1 && sr && m == &sr->mutex) { t_stall = 0; nap(400000); }      /* serial turn over, compression of the job not started yet */
    return r; }
static int zv_wait(pthread_cond_t* c, pthread_mutex_t* m) { int r; on_release(m);
    if (g_holdWrap && t_worker < 0) { serialState_t* const sr = SERIAL(); if (sr && c == &sr->ldmWindowCond) __atomic_store_n(&g_callerLdmWait, 1, __ATOMIC_RELAXED); }     /* the caller is about to sleep in ZSTDMT_waitForLdmComplete */
    r = pthread_cond_wait(c, m);
#ifndef ZV_NOTRACE
    if (t_worker < 0 && g_mt && job_of_mutex(m)) caller_sync();
#endif
    return r; }
typedef struct { void* (*fn)(void*); void* arg; int idx; } wstart_t;
static void* wstart(void* o) { wstart_t w = *(wstart_t*)o; free(o); t_worker = w.idx; t_rng = g_pseed * 7919u + (unsigned)w.idx * 104729u + 17; return w.fn(w.arg); }
static int zv_create(pthread_t* t, const void* attr, void* (*fn)(void*), void* arg) { wstart_t* w = (wstart_t*)malloc(sizeof *w); (void)attr; w->fn = fn; w->arg = arg; w->idx = g_nworkers++; return pthread_create(t, NULL, wstart, w); }

/* ---- allocation faults (op mtf): ZSTD_customMem allocator that answers NULL on request, counts live blocks, and doubles as a schedule hook ---- */
static int g_fWho = -1;               /* -1 no fault; 0 any thread; 1 worker threads; 2 the caller; 3 the worker running job g_fJob */
static unsigned g_fJob; static long g_fNth; static int g_fSticky, g_fArmed, g_fFired;
static long g_nAll, g_nWorker, g_nCaller, g_live;
static void fault_fire(void) { pthread_mutex_lock(&g_log);
    if (!g_fFired) { static const char a[] = "abort\n"; if (g_len + sizeof a > g_cap) { g_cap = (g_cap + sizeof a) * 2; g_buf = (char*)realloc(g_buf, g_cap); } memcpy(g_buf + g_len, a, sizeof a); g_len += sizeof a - 1; }
    __atomic_store_n(&g_cut, 1, __ATOMIC_RELEASE); __atomic_store_n(&g_fFired, 1, __ATOMIC_RELEASE); pthread_mutex_unlock(&g_log); }
static void* zv_malloc(void* opaque, size_t size) { void* p; (void)opaque;
    if (__atomic_load_n(&g_fArmed, __ATOMIC_ACQUIRE)) { long idx = -1; long const a = __atomic_fetch_add(&g_nAll, 1, __ATOMIC_SEQ_CST);
        if (t_worker >= 0) { long const w = __atomic_fetch_add(&g_nWorker, 1, __ATOMIC_SEQ_CST); long const k = t_jobAllocs++;
            if (g_perturb == 1) { t_rng = t_rng * 1103515245u + 12345u; if (((t_rng >> 16) & 3) == 0) nap((t_rng >> 20) & 2047); }
            if (g_fWho == 1) idx = w; else if (g_fWho == 3 && t_job && t_jobID == g_fJob) idx = k;
        } else { long const c = __atomic_fetch_add(&g_nCaller, 1, __ATOMIC_SEQ_CST); if (g_fWho == 2) idx = c; }
        if (g_fWho == 0) idx = a;
        if ((idx >= 0 && idx == g_fNth) || (g_fSticky && __atomic_load_n(&g_fFired, __ATOMIC_ACQUIRE))) { fault_fire(); return NULL; } }
    p = malloc(size); if (p) __atomic_fetch_add(&g_live, 1, __ATOMIC_SEQ_CST); return p; }
static void zv_free(void* opaque, void* p) { (void)opaque; if (p) __atomic_fetch_sub(&g_live, 1, __ATOMIC_SEQ_CST); free(p); }
#define FIRED() __atomic_load_n(&g_fFired, __ATOMIC_ACQUIRE)
#define LIVE() __atomic_load_n(&g_live, __ATOMIC_SEQ_CST)
static int roundtrip(const unsigned char* src, size_t n, const unsigned char* dst, size_t out, unsigned char* back) {
    size_t const dr = ZSTD_decompress(back, n, dst, out); return !(ZSTD_isError(dr) || dr != n || memcmp(back, src, n)); }

/* streaming decoder limited to exactly the window the frame header declares, small pieces; 0 = fine, else message in msg */
static int roundtrip_declared(const unsigned char* src, size_t n, const unsigned char* dst, size_t out, unsigned char* back, char* msg, size_t msgCap) {
    ZSTD_frameHeader fh; if (out <= 18 || ZSTD_getFrameHeader(&fh, dst, out) != 0 || fh.windowSize < 1024 || fh.windowSize > (1u << 27)) return 0;
    {   ZSTD_DCtx* d = ZSTD_createDCtx(); size_t ipos = 0, opos = 0, r = 1; int guard = 0, bad;
        ZSTD_DCtx_setMaxWindowSize(d, (size_t)fh.windowSize);
        while (ipos < out && !ZSTD_isError(r) && guard++ < 10000000) { ZSTD_inBuffer ib; ZSTD_outBuffer ob; size_t const chunk = out - ipos < 60000 ? out - ipos : 60000;
            ib.src = dst + ipos; ib.size = chunk; ib.pos = 0; ob.dst = back + opos; ob.size = (n - opos) < 50000 ? (n - opos) : 50000; ob.pos = 0;
            r = ZSTD_decompressStream(d, &ob, &ib); ipos += ib.pos; opos += ob.pos; if (!ZSTD_isError(r) && ib.pos == 0 && ob.pos == 0) break; }
        bad = ZSTD_isError(r) || opos != n || memcmp(back, src, n);
        if (bad) snprintf(msg, msgCap, "FAIL round trip inside the declared window (%u bytes): %s", (unsigned)fh.windowSize, ZSTD_isError(r) ? ZSTD_getErrorName(r) : "bytes differ");
        ZSTD_freeDCtx(d); return bad; } }
/* [last T bytes before tailEnd][R bytes from `from`] written so that the copy starts at `at` */
static void plant(unsigned char* p, size_t n, size_t at, size_t tailEnd, size_t T, size_t from, size_t R) {
    if (at < T || at + R > n || tailEnd < T || tailEnd > n || from + R > n) return;
    memcpy(p + at - T, p + tailEnd - T, T); memcpy(p + at, p + from, R); }

/* ---- data ---- */
static unsigned long long rs;
static unsigned rnd(void) { rs = rs * 6364136223846793005ULL + 1442695040888963407ULL; return (unsigned)(rs >> 33); }
static void gen_data(unsigned char* p, size_t n, unsigned long long seed) {
    size_t i = 0; rs = seed;
    if ((seed >> 40) == 1 && n >= (3u << 20)) {
        /* "ldmjob" data: incompressible bytes with ONE long repetition placed in the 1 MiB chunk c >= 2 of the first job, so that the long-distance
         * matcher of a multi-MiB job meets match-free chunks (not only the first of the job) before a chunk that holds a match */
        size_t const MiB = 1u << 20, jmb = n >> 20, ln = 8192; size_t c = 2 + (size_t)(seed & 0xff) % (jmb - 2 ? jmb - 2 : 1), dst, src;
        if (c >= jmb) c = jmb - 1;
        for (i = 0; i < n; i++) p[i] = (unsigned char)rnd();
        dst = c * MiB + 300000 + (size_t)((seed >> 8) & 0xffff) * 8 % 600000; src = ((seed >> 24) & 1) ? dst - 150000 : 5000 + (size_t)((seed >> 8) & 0xfff);
        if (dst + ln < n) memcpy(p + dst, p + src, ln);
        return;
    }
    while (i < n) { unsigned k = rnd() % 100; size_t len = 1 + rnd() % 400; size_t j; if (len > n - i) len = n - i;
        if (k < 40 && i > 100) { size_t maxd = i < 3000000u ? i : 3000000u; size_t d = 1 + rnd() % maxd; for (j = 0; j < len; j++) p[i + j] = p[i + j - d]; }
        else if (k < 75) { for (j = 0; j < len; j++) p[i + j] = (unsigned char)("etaoin shrdlu,.\n"[rnd() % 17]); }
        else { for (j = 0; j < len; j++) p[i + j] = (unsigned char)rnd(); }
        i += len; }
}
static size_t csv(char* s, size_t* a, size_t max) { size_t n = 0; char* sv; char* t; for (t = strtok_r(s, ",", &sv); t && n < max; t = strtok_r(NULL, ",", &sv)) a[n++] = (size_t)strtoull(t, NULL, 10); return n; }
static int g_hangWait;     /* ZV_HANG_WAIT=1: a blocked run stays alive after its verdict so that a debugger can be attached */
static void on_alarm(int sg) { (void)sg; { static const char m[] = "\nend FAIL hang (no return within the time limit)\n"; if (g_buf && write(1, g_buf, g_len) < 0) {} if (write(1, m, sizeof m - 1) < 0) {} } if (g_hangWait) { signal(SIGALRM, SIG_IGN); for (;;) sleep(1000); } _exit(3); }
/* op mtf: blocked = the process has used no processor time during two consecutive 4 s periods (a deadlock; a run slowed down by a loaded machine keeps
 * consuming time and is not a hang); 180 s in all for a run that normally takes 0.1 s is no termination either */
#include <sys/time.h>
#include <time.h>
static long long g_wdCpu = -1; static int g_wdIdle, g_wdTicks;
static void on_tick(int sg) { struct timespec ts; long long now; (void)sg; clock_gettime(CLOCK_PROCESS_CPUTIME_ID, &ts); now = (long long)ts.tv_sec * 1000000 + ts.tv_nsec / 1000;
    g_wdIdle = (g_wdCpu >= 0 && now - g_wdCpu < 3000) ? g_wdIdle + 1 : 0; g_wdCpu = now; g_wdTicks++;
    if (g_wdIdle >= 2 || g_wdTicks >= 45) on_alarm(sg); }
static void watchdog(int on) { struct itimerval it; memset(&it, 0, sizeof it); g_wdCpu = -1; g_wdIdle = 0; g_wdTicks = 0;
    if (on) { signal(SIGALRM, on_tick); it.it_interval.tv_sec = 4; it.it_value.tv_sec = 4; setitimer(ITIMER_REAL, &it, NULL); }
    else { setitimer(ITIMER_REAL, &it, NULL); signal(SIGALRM, on_alarm); } }
static void frame_start(ZSTD_CCtx* c) { g_mt = c->mtctx; if (!g_mt) return; ev("frame %u\n", g_mt->jobIDMask); g_cDone = g_cNext = 0; g_cFlushed = 0; g_cProduced = g_mt->produced; g_serialSeen = 0; g_inFrame = 1; memset(g_ckPending, 0, sizeof g_ckPending); }

int main(void) {
    char* line; signal(SIGALRM, on_alarm); g_hangWait = getenv("ZV_HANG_WAIT") != NULL;
    while ((line = zv_getline())) {
        char* op = strtok(line, " "); if (!op) continue;
        if (!strcmp(op, "mt")) {
            int workers = atoi(strtok(NULL, " ")); char* spec = strtok(NULL, " "); size_t n = (size_t)strtoull(strtok(NULL, " "), NULL, 10); unsigned long long seed = strtoull(strtok(NULL, " "), NULL, 10);
            size_t ic[32], oc[32]; size_t ni = csv(strtok(NULL, " "), ic, 32), no = csv(strtok(NULL, " "), oc, 32); int abortAfter, midLevel, frames, f; const char* verdict = "ok"; char vbuf[200]; const char* spec2;
            unsigned char* src = (unsigned char*)malloc(n ? n : 1); size_t cap = ZSTD_compressBound(n) + 4096; unsigned char* dst = (unsigned char*)malloc(cap); unsigned char* back = (unsigned char*)malloc(n ? n : 1);
            ZSTD_CCtx* c; unsigned long long totIn = 0, totOut = 0; int doneFrames = 0;
            g_perturb = atoi(strtok(NULL, " ")); g_pseed = (unsigned)strtoul(strtok(NULL, " "), NULL, 10); abortAfter = atoi(strtok(NULL, " ")); midLevel = atoi(strtok(NULL, " ")); frames = atoi(strtok(NULL, " ")); { char* s2 = strtok(NULL, " "); spec2 = s2 ? s2 : spec; }
            g_len = 0; g_nworkers = 0; g_mt = NULL; g_serial = NULL; g_inFrame = 0; memset(g_job, 0, sizeof g_job); t_rng = g_pseed * 31u + 7;
            gen_data(src, n, seed); alarm(120);
            c = ZSTD_createCCtx(); g_cctx = c;
            for (f = 0; f < frames && !strcmp(verdict, "ok"); f++) {
                size_t pos = 0, out = 0, r = 0; int calls = 0, ii = 0, oi = 0, started = 0, aborted = 0; char buf[512]; char* sv = NULL; char* kv;
                ZSTD_CCtx_reset(c, ZSTD_reset_session_and_parameters);
                ZSTD_CCtx_setParameter(c, ZSTD_c_nbWorkers, workers + (frames > 1 && f % 2 ? 1 : 0));       /* worker count changes between frames */
                { const char* sp = (f % 2) ? spec2 : spec; if (strcmp(sp, "-")) { strncpy(buf, sp, sizeof buf - 1); buf[sizeof buf - 1] = 0; for (kv = strtok_r(buf, ",", &sv); kv; kv = strtok_r(NULL, ",", &sv)) { int id, val; if (sscanf(kv, "%d=%d", &id, &val) == 2) ZSTD_CCtx_setParameter(c, (ZSTD_cParameter)id, val); } } }
                for (;;) { ZSTD_inBuffer ib; ZSTD_outBuffer ob; size_t isz = ic[ii++ % ni], osz = oc[oi++ % no]; ZSTD_EndDirective dir;
                    if (isz > n - pos) isz = n - pos; if (osz > cap - out) osz = cap - out; dir = (pos + isz == n) ? ZSTD_e_end : ((rnd() % 7) ? ZSTD_e_continue : ZSTD_e_flush);
                    ib.src = src + pos; ib.size = isz; ib.pos = 0; ob.dst = dst + out; ob.size = osz; ob.pos = 0;
                    if (midLevel && calls == 3) ZSTD_CCtx_setParameter(c, ZSTD_c_compressionLevel, midLevel);     /* parameter change between jobs */
                    r = ZSTD_compressStream2(c, &ob, &ib, dir);
                    if (!started && c->mtctx) { /* the frame was initialised inside this call: events logged before `frame` belong to it */ }
                    if (!started) { started = 1; }
                    if (ZSTD_isError(r)) { snprintf(vbuf, sizeof vbuf, "FAIL compressStream2: %s", ZSTD_getErrorName(r)); verdict = vbuf; break; }
                    pos += ib.pos; out += ob.pos; calls++;
                    if (t_worker < 0) caller_sync();
                    if (dir == ZSTD_e_end && r == 0) break;
                    if (abortAfter >= 0 && calls == abortAfter && f == 0) { aborted = 1; break; }
                    if (calls > 4000000) { verdict = "FAIL no termination"; break; } }
                caller_sync();
                if (aborted) { ev("abort\n"); g_inFrame = 0; continue; }
                if (strcmp(verdict, "ok")) break;
                ev("frameend\n"); g_inFrame = 0;
                {   size_t const dr = ZSTD_decompress(back, n, dst, out); if (ZSTD_isError(dr) || dr != n || memcmp(back, src, n)) { snprintf(vbuf, sizeof vbuf, "FAIL round trip: %s", ZSTD_isError(dr) ? ZSTD_getErrorName(dr) : "bytes differ"); verdict = vbuf; } }
                /* the frame must also decode inside the window its header DECLARES: a streaming decoder limited to exactly that window
                 * (small pieces, so that no single-pass shortcut applies) - an offset beyond the declared window reads overwritten history */
                if (!strcmp(verdict, "ok") && out > 18) { ZSTD_frameHeader fh; if (ZSTD_getFrameHeader(&fh, dst, out) == 0 && fh.windowSize >= 1024 && fh.windowSize <= (1u << 27)) {
                    ZSTD_DCtx* d = ZSTD_createDCtx(); size_t ipos = 0, opos = 0, r = 1; int guard = 0;
                    ZSTD_DCtx_setMaxWindowSize(d, (size_t)fh.windowSize);
                    while (ipos < out && !ZSTD_isError(r) && guard++ < 10000000) { ZSTD_inBuffer ib; ZSTD_outBuffer ob; size_t const chunk = out - ipos < 60000 ? out - ipos : 60000;
                        ib.src = dst + ipos; ib.size = chunk; ib.pos = 0; ob.dst = back + opos; ob.size = (n - opos) < 50000 ? (n - opos) : 50000; ob.pos = 0;
                        r = ZSTD_decompressStream(d, &ob, &ib); ipos += ib.pos; opos += ob.pos; if (!ZSTD_isError(r) && ib.pos == 0 && ob.pos == 0) break; }
                    if (ZSTD_isError(r) || opos != n || memcmp(back, src, n)) { snprintf(vbuf, sizeof vbuf, "FAIL round trip inside the declared window (%u bytes): %s", (unsigned)fh.windowSize, ZSTD_isError(r) ? ZSTD_getErrorName(r) : "bytes differ"); verdict = vbuf; }
                    ZSTD_freeDCtx(d); } }
                totIn += n; totOut += out; doneFrames++;
            }
            alarm(0);
            ZSTD_freeCCtx(c);
            if (g_buf) fputs(g_buf, stdout);
            printf("end %s frames=%d in=%llu out=%llu\n", verdict, doneFrames, totIn, totOut);
            free(src); free(dst); free(back);
        } else if (!strcmp(op, "mtf")) {
            int workers = atoi(strtok(NULL, " ")); char* spec = strtok(NULL, " "); size_t n = (size_t)strtoull(strtok(NULL, " "), NULL, 10); unsigned long long seed = strtoull(strtok(NULL, " "), NULL, 10);
            size_t ic[32], oc[32]; size_t ni = csv(strtok(NULL, " "), ic, 32), no = csv(strtok(NULL, " "), oc, 32); const char* verdict = "ok"; char vbuf[200]; char res[64] = "ok"; const char* who; int faultFrame, flushEvery, f;
            unsigned char* src = (unsigned char*)malloc(n ? n : 1); size_t cap = ZSTD_compressBound(n) + 4096; unsigned char* dst = (unsigned char*)malloc(cap); unsigned char* back = (unsigned char*)malloc(n ? n : 1);
            ZSTD_customMem cmem; ZSTD_CCtx* c; unsigned long long totIn = 0, totOut = 0; int doneFrames = 0; long nA = 0, nW = 0, nC = 0;
            g_perturb = atoi(strtok(NULL, " ")); g_pseed = (unsigned)strtoul(strtok(NULL, " "), NULL, 10); who = strtok(NULL, " "); g_fNth = atol(strtok(NULL, " ")); g_fSticky = atoi(strtok(NULL, " ")); faultFrame = atoi(strtok(NULL, " "));
            g_dJob = atoi(strtok(NULL, " ")); g_dUs = (unsigned)strtoul(strtok(NULL, " "), NULL, 10); flushEvery = atoi(strtok(NULL, " "));
            g_fWho = who[0] == 'A' ? 0 : who[0] == 'W' ? 1 : who[0] == 'C' ? 2 : who[0] == 'J' ? 3 : -1; g_fJob = who[0] == 'J' ? (unsigned)atoi(who + 1) : 0;
            g_fArmed = 0; g_fFired = 0; g_cut = 0; g_efinDone = 0; g_turnAfterEfin = 0; g_patient = 1; g_nAll = g_nWorker = g_nCaller = 0; g_live = 0;
            g_len = 0; if (g_buf) g_buf[0] = 0; g_nworkers = 0; g_mt = NULL; g_serial = NULL; g_inFrame = 0; memset(g_job, 0, sizeof g_job); t_rng = g_pseed * 31u + 7;
            cmem.customAlloc = zv_malloc; cmem.customFree = zv_free; cmem.opaque = NULL;
            gen_data(src, n, seed); watchdog(1);
            c = ZSTD_createCCtx_advanced(cmem); g_cctx = c;
            for (f = 0; f < 3 && !strcmp(verdict, "ok"); f++) {
                size_t pos = 0, out = 0, r = 0; int calls = 0, ii = 0, oi = 0, failed = 0; char buf[512]; char* sv = NULL; char* kv;
                /* frame after the faulted one: session reset only (the parameters stay); last frame: everything reset, one more worker */
                if (f == 0 || f == 2 || f != faultFrame + 1) {
                    ZSTD_CCtx_reset(c, ZSTD_reset_session_and_parameters);
                    ZSTD_CCtx_setParameter(c, ZSTD_c_nbWorkers, workers + (f == 2 ? 1 : 0));
                    if (strcmp(spec, "-")) { strncpy(buf, spec, sizeof buf - 1); buf[sizeof buf - 1] = 0; for (kv = strtok_r(buf, ",", &sv); kv; kv = strtok_r(NULL, ",", &sv)) { int id, val; if (sscanf(kv, "%d=%d", &id, &val) == 2) ZSTD_CCtx_setParameter(c, (ZSTD_cParameter)id, val); } }
                } else { size_t const rr = ZSTD_CCtx_reset(c, ZSTD_reset_session_only); if (ZSTD_isError(rr)) { snprintf(vbuf, sizeof vbuf, "FAIL session reset after the faulted frame: %s", ZSTD_getErrorName(rr)); verdict = vbuf; break; } }
                if (f == faultFrame) __atomic_store_n(&g_fArmed, 1, __ATOMIC_RELEASE);
                for (;;) { ZSTD_inBuffer ib; ZSTD_outBuffer ob; size_t isz = ic[ii++ % ni], osz = oc[oi++ % no]; ZSTD_EndDirective dir;
                    if (isz > n - pos) isz = n - pos; if (osz > cap - out) osz = cap - out; dir = (pos + isz == n) ? ZSTD_e_end : ((flushEvery > 0 && calls % flushEvery == flushEvery - 1) ? ZSTD_e_flush : ZSTD_e_continue);
                    ib.src = src + pos; ib.size = isz; ib.pos = 0; ob.dst = dst + out; ob.size = osz; ob.pos = 0;
                    r = ZSTD_compressStream2(c, &ob, &ib, dir);
                    if (ZSTD_isError(r)) { failed = 1; break; }
                    pos += ib.pos; out += ob.pos; calls++;
                    if (t_worker < 0) caller_sync();
                    if (dir == ZSTD_e_end && r == 0) break;
                    if (calls > 4000000) { verdict = "FAIL no termination"; break; } }
                if (f == faultFrame) { __atomic_store_n(&g_fArmed, 0, __ATOMIC_RELEASE); nA = __atomic_load_n(&g_nAll, __ATOMIC_SEQ_CST); nW = __atomic_load_n(&g_nWorker, __ATOMIC_SEQ_CST); nC = __atomic_load_n(&g_nCaller, __ATOMIC_SEQ_CST); snprintf(res, sizeof res, "%s", failed ? zv_errclass(r) : "ok"); }
                if (strcmp(verdict, "ok")) break;
                if (failed) {
                    if (f != faultFrame || !FIRED()) { snprintf(vbuf, sizeof vbuf, "FAIL compressStream2 (frame %d, no allocation refused): %s", f, ZSTD_getErrorName(r)); verdict = vbuf; break; }
                    pthread_mutex_lock(&g_log); g_cut = 0; pthread_mutex_unlock(&g_log); ev("abort\n"); g_inFrame = 0; continue; }
                pthread_mutex_lock(&g_log); { int const wasCut = g_cut; g_cut = 0; pthread_mutex_unlock(&g_log); if (wasCut) ev("abort\n"); else { caller_sync(); ev("frameend\n"); } } g_inFrame = 0;
                if (!roundtrip(src, n, dst, out, back)) { snprintf(vbuf, sizeof vbuf, "FAIL round trip (frame %d%s)", f, f == faultFrame ? (FIRED() ? ", reported complete although an allocation was refused" : ", no allocation refused") : (f > faultFrame ? ", context reused after the faulted frame" : "")); verdict = vbuf; break; }
                if (f == faultFrame && FIRED() && (g_fWho == 1 || g_fWho == 3)) { verdict = "FAIL a worker's job lost an allocation and the frame was reported complete"; break; }
                totIn += n; totOut += out; doneFrames++;
            }
            ZSTD_freeCCtx(c);
            watchdog(0);
            if (!strcmp(verdict, "ok") && LIVE() != 0) { snprintf(vbuf, sizeof vbuf, "FAIL %ld blocks of the custom allocator still live after ZSTD_freeCCtx", LIVE()); verdict = vbuf; }
            g_fWho = -1; g_dJob = -1; g_patient = 0;
            if (g_buf) fputs(g_buf, stdout);
            printf("end %s frames=%d in=%llu out=%llu fault=%d res=%s allocs=%ld/%ld/%ld\n", verdict, doneFrames, totIn, totOut, FIRED(), res, nA, nW, nC);
            free(src); free(dst); free(back);
        } else if (!strcmp(op, "mth")) {
            int workers = atoi(strtok(NULL, " ")); char* spec = strtok(NULL, " "); unsigned long long seed = strtoull(strtok(NULL, " "), NULL, 10); int hrel = atoi(strtok(NULL, " ")); int where = atoi(strtok(NULL, " ")); unsigned holdUs = (unsigned)strtoul(strtok(NULL, " "), NULL, 10);
            size_t ic[32], oc[32]; size_t ni = csv(strtok(NULL, " "), ic, 32), no = csv(strtok(NULL, " "), oc, 32); const char* verdict = "ok"; char vbuf[200]; size_t T, R, ypm, extra, n = 0, cap = 0, S = 0, P = 0, K = 0; int h = -1;
            unsigned char* src = NULL; unsigned char* dst = NULL; unsigned char* back = NULL; ZSTD_CCtx* c; unsigned long long totIn = 0, totOut = 0; int doneFrames = 0; char buf[512]; char* sv = NULL; char* kv; static const char* const relName[] = { "none", "ldmwait", "fed", "timeout" };
            g_perturb = atoi(strtok(NULL, " ")); g_pseed = (unsigned)strtoul(strtok(NULL, " "), NULL, 10); T = (size_t)strtoull(strtok(NULL, " "), NULL, 10); R = (size_t)strtoull(strtok(NULL, " "), NULL, 10); ypm = (size_t)strtoull(strtok(NULL, " "), NULL, 10); extra = (size_t)strtoull(strtok(NULL, " "), NULL, 10);
            g_len = 0; if (g_buf) g_buf[0] = 0; g_nworkers = 0; g_mt = NULL; g_serial = NULL; g_inFrame = 0; memset(g_job, 0, sizeof g_job); t_rng = g_pseed * 31u + 7;
            g_holdWrap = 1; g_hWhere = where; g_dJob = -1; g_dUs = holdUs; g_patient = 1; g_hRel = 0; g_callerLdmWait = 0; g_jobsEnded = 0; g_fed = 0; g_hFedLimit = ~0ULL;
            watchdog(1);
            c = ZSTD_createCCtx(); g_cctx = c;
            ZSTD_CCtx_setParameter(c, ZSTD_c_nbWorkers, workers);
            if (strcmp(spec, "-")) { strncpy(buf, spec, sizeof buf - 1); buf[sizeof buf - 1] = 0; for (kv = strtok_r(buf, ",", &sv); kv; kv = strtok_r(NULL, ",", &sv)) { int id, val; if (sscanf(kv, "%d=%d", &id, &val) == 2) ZSTD_CCtx_setParameter(c, (ZSTD_cParameter)id, val); } }
            {   /* a call without input initialises the frame: the geometry of the round buffer is known before the input is built */
                ZSTD_inBuffer ib; ZSTD_outBuffer ob; size_t r; ib.src = vbuf; ib.size = 0; ib.pos = 0; ob.dst = vbuf; ob.size = 0; ob.pos = 0;
                r = ZSTD_compressStream2(c, &ob, &ib, ZSTD_e_continue);
                if (ZSTD_isError(r)) { snprintf(vbuf, sizeof vbuf, "FAIL compressStream2 (initialisation): %s", ZSTD_getErrorName(r)); verdict = vbuf; }
                else if (!c->mtctx || c->appliedParams.nbWorkers < 1) verdict = "FAIL no worker context after initialisation";
                else { S = c->mtctx->targetSectionSize; P = c->mtctx->targetPrefixSize; K = S ? c->mtctx->roundBuff.capacity / S : 0; } }
            if (!strcmp(verdict, "ok")) {
                size_t i, j, y; h = (int)K - workers + hrel; if (h < 1) h = 1;
                n = (K + 1 + extra) * S + (size_t)(seed % 70001); cap = ZSTD_compressBound(n) + 4096;
                src = (unsigned char*)malloc(n); dst = (unsigned char*)malloc(cap); back = (unsigned char*)malloc(n);
                rs = seed; for (i = 0; i < n; i++) src[i] = (unsigned char)rnd();
                if (T > P) T = P; if (R > S / 4) R = S / 4; if (T > S / 8) T = S / 8;
                j = (size_t)(h + where); y = T + (S / 2 - T - R) * (ypm % 1000) / 1000;
                if (P > 0 && T > 0 && j >= 2 && j < K - 1) { plant(src, n, j * S + y, K * S, T, P, R); plant(src, n, j * S + S / 2 + y, (K + 1) * S, T, P + S, R); }
                g_hFedLimit = (unsigned long long)(K + 1) * S; __atomic_store_n(&g_dJob, h, __ATOMIC_RELEASE);
                {   size_t pos = 0, out = 0, r = 0; int calls = 0, ii = 0, oi = 0;
                    for (;;) { ZSTD_inBuffer ib; ZSTD_outBuffer ob; size_t isz = ic[ii++ % ni], osz = oc[oi++ % no]; ZSTD_EndDirective dir;
                        if (isz > n - pos) isz = n - pos; if (osz > cap - out) osz = cap - out; dir = (pos + isz == n) ? ZSTD_e_end : ZSTD_e_continue;
                        ib.src = src + pos; ib.size = isz; ib.pos = 0; ob.dst = dst + out; ob.size = osz; ob.pos = 0;
                        r = ZSTD_compressStream2(c, &ob, &ib, dir);
                        if (ZSTD_isError(r)) { snprintf(vbuf, sizeof vbuf, "FAIL compressStream2: %s", ZSTD_getErrorName(r)); verdict = vbuf; break; }
                        pos += ib.pos; out += ob.pos; calls++;
                        __atomic_store_n(&g_fed, (unsigned long long)pos, __ATOMIC_RELAXED);     /* consumed so far */
                        if (t_worker < 0) caller_sync();
                        if (dir == ZSTD_e_end && r == 0) break;
                        if (calls > 4000000) { verdict = "FAIL no termination"; break; } }
                    caller_sync();
                    if (!strcmp(verdict, "ok")) { ev("frameend\n"); g_inFrame = 0;
                        if (!roundtrip(src, n, dst, out, back)) { size_t const dr = ZSTD_decompress(back, n, dst, out); snprintf(vbuf, sizeof vbuf, "FAIL round trip: %s", ZSTD_isError(dr) ? ZSTD_getErrorName(dr) : "bytes differ"); verdict = vbuf; }
                        else if (roundtrip_declared(src, n, dst, out, back, vbuf, sizeof vbuf)) verdict = vbuf;
                        else { totIn += n; totOut += out; doneFrames++; } } }
            }
            ZSTD_freeCCtx(c);
            watchdog(0);
            if (g_buf) fputs(g_buf, stdout);
            printf("end %s frames=%d in=%llu out=%llu hold=%d where=%d rel=%s K=%zu S=%zu P=%zu\n", verdict, doneFrames, totIn, totOut, h, where, relName[__atomic_load_n(&g_hRel, __ATOMIC_RELAXED) & 3], K, S, P);
            g_holdWrap = 0; g_dJob = -1; g_patient = 0; g_dUs = 0;
            free(src); free(dst); free(back);
        } else printf("bad-op\n");
        fflush(stdout);
    }
    return 0;
}
