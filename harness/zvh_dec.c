/* zvh_dec — decoding / compressing entry points behind a line protocol (used by C01 C03 C04 C05 C06 C09).
 *   dec <cap> <hex> [dict-hex]         ZSTD_decompress / ZSTD_decompress_usingDict into an exact-size buffer of <cap> bytes
 *   comp <level> <flags> <hex-src>     ZSTD_compress2 with level and flags (bit0 checksum, bit1 no content size, bit2 magicless) -> hex frame
 *   fsize <hex>                        ZSTD_findFrameCompressedSize
 *   bound <hex>                        ZSTD_decompressBound
 *   hdr <hex>                          ZSTD_getFrameHeader: ret + fields */
#include "mem.h"
#include "zvh_common.h"
#include <signal.h>
#include <unistd.h>
#define ZDICT_STATIC_LINKING_ONLY
#include "zdict.h"
static void on_alarm(int s) { (void)s; { static const char m[] = "TIMEOUT\n"; if (write(1, m, sizeof m - 1) < 0) {} } _exit(3); }

int main(void) {
    char* line; ZSTD_DCtx* dctx = ZSTD_createDCtx(); ZSTD_CCtx* cctx = ZSTD_createCCtx();
    signal(SIGALRM, on_alarm);
    while ((line = zv_getline())) {
        char* op = strtok(line, " "); if (!op) continue;
        alarm(60);   /* every operation must return in bounded time */
        if (!strcmp(op, "dec")) {
            size_t cap = (size_t)strtoull(strtok(NULL, " "), NULL, 10), n, dn = 0; char* hx = strtok(NULL, " "); char* dh = strtok(NULL, " ");
            unsigned char* in = zv_unhex(hx, &n); unsigned char* d = dh ? zv_unhex(dh, &dn) : NULL;
            unsigned char* out = (unsigned char*)malloc(cap ? cap : 1);
            size_t r = d ? ZSTD_decompress_usingDict(dctx, out, cap, in, n, d, dn) : ZSTD_decompressDCtx(dctx, out, cap, in, n);
            zv_result(r, out); free(in); free(out); free(d);
        } else if (!strcmp(op, "decdp")) {
            /* decdp <id=val,...> <mode o|s> <cap> <hex> : decoding with decompression parameters set (ZSTD_d_forceIgnoreChecksum = 1002, ZSTD_d_windowLogMax = 100,
             * ZSTD_d_stableOutBuffer = 1001, ZSTD_d_maxBlockSize = 1005, ...): o = ZSTD_decompressDCtx, s = ZSTD_decompressStream fed in 1000-byte pieces; exact-size buffers */
            char* ps = strtok(NULL, " "); char* mode = strtok(NULL, " "); size_t cap = (size_t)strtoull(strtok(NULL, " "), NULL, 10), n; unsigned char* in = zv_unhex(strtok(NULL, " "), &n);
            unsigned char* out = (unsigned char*)malloc(cap ? cap : 1); size_t r = 0; char* save = NULL; char* kv;
            ZSTD_DCtx_reset(dctx, ZSTD_reset_session_and_parameters);
            for (kv = strtok_r(ps, ",", &save); kv && !ZSTD_isError(r); kv = strtok_r(NULL, ",", &save)) { int id, val; if (sscanf(kv, "%d=%d", &id, &val) == 2) r = ZSTD_DCtx_setParameter(dctx, (ZSTD_dParameter)id, val); }
            if (!ZSTD_isError(r)) {
                if (mode[0] == 'o') r = ZSTD_decompressDCtx(dctx, out, cap, in, n);
                else { ZSTD_outBuffer ob = { out, cap, 0 }; size_t pos = 0; int guard = 0; r = 1;
                    while (pos < n && !ZSTD_isError(r) && guard++ < 100000) { size_t chunk = n - pos < 1000 ? n - pos : 1000; unsigned char* piece = (unsigned char*)malloc(chunk); ZSTD_inBuffer ib = { piece, chunk, 0 }; memcpy(piece, in + pos, chunk);
                        r = ZSTD_decompressStream(dctx, &ob, &ib); pos += ib.pos; free(piece); if (!ZSTD_isError(r) && ib.pos == 0 && ob.pos == ob.size) break; }
                    if (!ZSTD_isError(r)) r = (r == 0 && pos == n) ? ob.pos : (size_t)-ZSTD_error_srcSize_wrong; }
            }
            ZSTD_DCtx_reset(dctx, ZSTD_reset_session_and_parameters);
            zv_result(r, out); free(in); free(out);
        } else if (!strcmp(op, "decf")) {
            int fmt = atoi(strtok(NULL, " ")); size_t cap = (size_t)strtoull(strtok(NULL, " "), NULL, 10), n; unsigned char* in = zv_unhex(strtok(NULL, " "), &n);
            unsigned char* out = (unsigned char*)malloc(cap ? cap : 1); size_t r;
            ZSTD_DCtx_setParameter(dctx, ZSTD_d_format, fmt);
            r = ZSTD_decompressDCtx(dctx, out, cap, in, n);
            ZSTD_DCtx_setParameter(dctx, ZSTD_d_format, 0);
            zv_result(r, out); free(in); free(out);
        } else if (!strcmp(op, "comp")) {
            int level = atoi(strtok(NULL, " ")); int flags = atoi(strtok(NULL, " ")); size_t n; unsigned char* in = zv_unhex(strtok(NULL, " "), &n);
            size_t cap = ZSTD_compressBound(n); unsigned char* out = (unsigned char*)malloc(cap); size_t r;
            ZSTD_CCtx_reset(cctx, ZSTD_reset_session_and_parameters);
            ZSTD_CCtx_setParameter(cctx, ZSTD_c_compressionLevel, level);
            ZSTD_CCtx_setParameter(cctx, ZSTD_c_checksumFlag, flags & 1);
            ZSTD_CCtx_setParameter(cctx, ZSTD_c_contentSizeFlag, !(flags & 2));
            ZSTD_CCtx_setParameter(cctx, ZSTD_c_format, (flags & 4) ? ZSTD_f_zstd1_magicless : ZSTD_f_zstd1);
            r = ZSTD_compress2(cctx, out, cap, in, n);
            if (ZSTD_isError(r)) printf("err %s\n", zv_errclass(r)); else { zv_puthex(out, r); putchar('\n'); }
            free(in); free(out);
        } else if (!strcmp(op, "comp2")) {
            /* comp2 <api> <id=val,...|-> <hex-src> [dict-hex] ; api in c2 simple cctx adv udict ucdict */
            char* api = strtok(NULL, " "); char* ps = strtok(NULL, " "); size_t n, dn = 0; unsigned char* in = zv_unhex(strtok(NULL, " "), &n);
            char* dh = strtok(NULL, " "); unsigned char* d = dh ? zv_unhex(dh, &dn) : NULL;
            size_t cap = ZSTD_compressBound(n) + 64; unsigned char* out = (unsigned char*)malloc(cap); size_t r = 0; int level = 3; char* save = NULL; char* kv;
            ZSTD_CCtx_reset(cctx, ZSTD_reset_session_and_parameters);
            for (kv = strtok_r(ps, ",", &save); kv && !ZSTD_isError(r); kv = strtok_r(NULL, ",", &save)) {
                int id, val; if (sscanf(kv, "%d=%d", &id, &val) == 2) { if (id == 100) level = val; r = ZSTD_CCtx_setParameter(cctx, (ZSTD_cParameter)id, val); } }
            if (!ZSTD_isError(r)) {
                if (!strcmp(api, "c2")) { if (d) r = ZSTD_CCtx_loadDictionary(cctx, d, dn); if (!ZSTD_isError(r)) r = ZSTD_compress2(cctx, out, cap, in, n); }
                else if (!strcmp(api, "simple")) r = ZSTD_compress(out, cap, in, n, level);
                else if (!strcmp(api, "cctx")) r = ZSTD_compressCCtx(cctx, out, cap, in, n, level);
                else if (!strcmp(api, "adv")) { ZSTD_parameters p = ZSTD_getParams(level, n, dn); r = ZSTD_compress_advanced(cctx, out, cap, in, n, d, dn, p); }
                else if (!strcmp(api, "udict")) r = ZSTD_compress_usingDict(cctx, out, cap, in, n, d, dn, level);
                else if (!strcmp(api, "ucdict")) { ZSTD_CDict* cd = ZSTD_createCDict(d, dn, level); r = cd ? ZSTD_compress_usingCDict(cctx, out, cap, in, n, cd) : (size_t)-1; ZSTD_freeCDict(cd); }
                else r = (size_t)-1;
            }
            if (ZSTD_isError(r)) printf("err %s\n", zv_errclass(r)); else { zv_puthex(out, r); putchar('\n'); }
            free(in); free(out); free(d);
        } else if (!strcmp(op, "decs")) {
            /* decs <cap> <hex> <in-chunks csv> <out-chunks csv> [trace [fresh]] : ZSTD_decompressStream under a segmentation (lists are cycled) */
            size_t cap = (size_t)strtoull(strtok(NULL, " "), NULL, 10), n; unsigned char* in = zv_unhex(strtok(NULL, " "), &n);
            char* ins = strtok(NULL, " "); char* outs = strtok(NULL, " "); char* tr = strtok(NULL, " "); char* fr = tr ? strtok(NULL, " ") : NULL;
            ZSTD_DCtx* const dsaved = dctx; if (tr && !strcmp(tr, "fresh")) { fr = tr; tr = NULL; }      /* "fresh" alone: own context, no trace */
            if (fr && !strcmp(fr, "fresh")) dctx = ZSTD_createDCtx();   /* a context without buffers left over from earlier lines */
            size_t ic[64], oc[64]; int ni = 0, no = 0, ii = 0, oi = 0; char* sv; char* t;
            unsigned char* out = (unsigned char*)malloc(cap ? cap : 1); size_t consumed = 0, produced = 0, r = 1; int calls = 0, idle = 0;
            char zeros[2048]; size_t zl = 0; zeros[0] = 0;
            for (t = strtok_r(ins, ",", &sv); t && ni < 64; t = strtok_r(NULL, ",", &sv)) ic[ni++] = (size_t)strtoull(t, NULL, 10);
            for (t = strtok_r(outs, ",", &sv); t && no < 64; t = strtok_r(NULL, ",", &sv)) oc[no++] = (size_t)strtoull(t, NULL, 10);
            ZSTD_DCtx_reset(dctx, ZSTD_reset_session_only);
            if (tr) printf("trace");
            while (calls < 2000000) {
                size_t isz = ic[ii++ % ni], osz = oc[oi++ % no]; ZSTD_inBuffer ib; ZSTD_outBuffer ob;
                if (isz > n - consumed) isz = n - consumed;
                if (osz > cap - produced) osz = cap - produced;
                ib.src = in + consumed; ib.size = isz; ib.pos = 0; ob.dst = out + produced; ob.size = osz; ob.pos = 0;
                r = ZSTD_decompressStream(dctx, &ob, &ib); calls++;
                if (tr) printf(" %zu/%zu:%zu/%zu:%s", ib.pos, isz, ob.pos, osz, ZSTD_isError(r) ? "E" : r == 0 ? "0" : "+");
                if (ZSTD_isError(r)) break;
                consumed += ib.pos; produced += ob.pos;
                if (r == 0 && zl + 48 < sizeof zeros) zl += (size_t)sprintf(zeros + zl, "%s%zu:%zu", zl ? ";" : "", consumed, produced);
                if (ib.pos == 0 && ob.pos == 0) { if (consumed == n && (osz > 0 || produced == cap)) { if (++idle >= 2) break; } else if (++idle > 40) break; } else idle = 0;
            }
            if (tr) printf("\n");
            if (ZSTD_isError(r)) printf("err %s calls=%d consumed=%zu produced=%zu zeros=%s\n", zv_errclass(r), calls, consumed, produced, zl ? zeros : "-");
            else printf("ok %zu %016llx calls=%d consumed=%zu zeros=%s last=%s\n", produced, (unsigned long long)XXH64(out, produced, 0), calls, consumed, zl ? zeros : "-", r == 0 ? "0" : "+");
            if (dctx != dsaved) { ZSTD_freeDCtx(dctx); dctx = dsaved; }
            free(in); free(out);
        } else if (!strcmp(op, "pledge")) {
            /* pledge <pledged|-1> <total> <chunks csv> <endmode: 0 end-with-last-chunk, 1 separate end call, 2 endStream legacy> [nbWorkers: several 512 KB jobs] */
            long long pl = atoll(strtok(NULL, " ")); size_t total = (size_t)strtoull(strtok(NULL, " "), NULL, 10); char* cs = strtok(NULL, " "); int mode = atoi(strtok(NULL, " ")); char* wk = strtok(NULL, " "); int workers = wk ? atoi(wk) : 0; char* nf = wk ? strtok(NULL, " ") : NULL; int nofcs = nf ? atoi(nf) : 0;
            size_t ch[64]; int nc = 0, k; char* sv; char* t; unsigned char* src = (unsigned char*)malloc(total + 1); size_t cap = ZSTD_compressBound(total) + 1024;
            unsigned char* out = (unsigned char*)malloc(cap); size_t fed = 0, r = 0; ZSTD_outBuffer ob; size_t i; int failedAt = -1;
            for (i = 0; i < total; i++) src[i] = (unsigned char)(i * 31 + (i >> 7));
            for (t = strtok_r(cs, ",", &sv); t && nc < 64; t = strtok_r(NULL, ",", &sv)) ch[nc++] = (size_t)strtoull(t, NULL, 10);
            ZSTD_CCtx_reset(cctx, ZSTD_reset_session_and_parameters);
            if (workers) { ZSTD_CCtx_setParameter(cctx, ZSTD_c_nbWorkers, workers); ZSTD_CCtx_setParameter(cctx, ZSTD_c_jobSize, 524288); ZSTD_CCtx_setParameter(cctx, ZSTD_c_compressionLevel, 1); }
            if (nofcs) ZSTD_CCtx_setParameter(cctx, ZSTD_c_contentSizeFlag, 0);     /* the pledge must be enforced whether or not it ends up in the header */
            if (pl >= 0) r = ZSTD_CCtx_setPledgedSrcSize(cctx, (unsigned long long)pl);
            ob.dst = out; ob.size = cap; ob.pos = 0;
            for (k = 0; k < nc && !ZSTD_isError(r); k++) {
                ZSTD_inBuffer ib; int last = (k == nc - 1); ib.src = src + fed; ib.size = ch[k] > total - fed ? total - fed : ch[k]; ib.pos = 0;
                do { r = ZSTD_compressStream2(cctx, &ob, &ib, (last && mode == 0) ? ZSTD_e_end : ZSTD_e_continue); } while (!ZSTD_isError(r) && (ib.pos < ib.size || (last && mode == 0 && r != 0)));
                fed += ib.pos; if (ZSTD_isError(r)) failedAt = k;
            }
            if (!ZSTD_isError(r) && mode == 1) { ZSTD_inBuffer ib = { src, 0, 0 }; do { r = ZSTD_compressStream2(cctx, &ob, &ib, ZSTD_e_end); } while (!ZSTD_isError(r) && r != 0); if (ZSTD_isError(r)) failedAt = nc; }
            if (!ZSTD_isError(r) && mode == 2) { do { r = ZSTD_endStream(cctx, &ob); } while (!ZSTD_isError(r) && r != 0); if (ZSTD_isError(r)) failedAt = nc; }
            if (ZSTD_isError(r)) printf("err %s at=%d fed=%zu\n", zv_errclass(r), failedAt, fed);
            else { ZSTD_frameHeader h; ZSTD_getFrameHeader(&h, out, ob.pos); printf("ok fed=%zu fcs=%lld\n", fed, h.frameContentSize == ZSTD_CONTENTSIZE_UNKNOWN ? -1LL : (long long)h.frameContentSize); }
            free(src); free(out);
        } else if (!strcmp(op, "cstream")) {
            /* cstream <id=val,...|-> <hex-src> <in-chunks csv> <out-chunks csv> <dirs e.g. ccfce> [dict-hex]
             * ZSTD_compressStream2 under a call history; chunk lists and directive string are cycled; the frame is always finished with e_end.
             * prints: <hex frame(s)> flushes=<consumed:produced;...> calls=<n> noprogress=<n> */
            char* ps = strtok(NULL, " "); size_t n, dn = 0; unsigned char* in = zv_unhex(strtok(NULL, " "), &n);
            char* ins = strtok(NULL, " "); char* outs = strtok(NULL, " "); char* dirs = strtok(NULL, " "); char* dh = strtok(NULL, " ");
            int tr = dh && !strcmp(dh, "trace"); unsigned char* d = (dh && !tr) ? zv_unhex(dh, &dn) : NULL;
            size_t ic[64], oc[64]; int ni = 0, no = 0, ii = 0, oi = 0, di = 0, nd = (int)strlen(dirs); char* sv; char* t; char* save = NULL; char* kv;
            size_t cap = ZSTD_compressBound(n) + 24 * n + (1 << 20); unsigned char* out = (unsigned char*)malloc(cap); size_t consumed = 0, produced = 0, r = 0; int calls = 0, noprog = 0;   /* every 1-byte flush costs a block (or a whole MT job) */
            char fl[4096]; size_t fll = 0; int ended = 0; fl[0] = 0;
            for (t = strtok_r(ins, ",", &sv); t && ni < 64; t = strtok_r(NULL, ",", &sv)) ic[ni++] = (size_t)strtoull(t, NULL, 10);
            for (t = strtok_r(outs, ",", &sv); t && no < 64; t = strtok_r(NULL, ",", &sv)) oc[no++] = (size_t)strtoull(t, NULL, 10);
            ZSTD_CCtx_reset(cctx, ZSTD_reset_session_and_parameters);
            for (kv = strtok_r(ps, ",", &save); kv && !ZSTD_isError(r); kv = strtok_r(NULL, ",", &save)) { int id, val; if (sscanf(kv, "%d=%d", &id, &val) == 2) {
                if (id == 9000) { if (val) r = ZSTD_CCtx_setPledgedSrcSize(cctx, n); }      /* pseudo-parameter: pledge the exact source size (content size known to the decoder) */
                else r = ZSTD_CCtx_setParameter(cctx, (ZSTD_cParameter)id, val); } }
            if (d && !ZSTD_isError(r)) r = ZSTD_CCtx_loadDictionary(cctx, d, dn);
            if (tr) printf("trace");
            while (!ZSTD_isError(r) && !ended && calls < 4000000) {
                size_t isz = ic[ii++ % ni], osz = oc[oi++ % no]; ZSTD_inBuffer ib; ZSTD_outBuffer ob; ZSTD_EndDirective dir; char dc = dirs[di++ % nd];
                if (isz > n - consumed) isz = n - consumed;
                if (osz > cap - produced) osz = cap - produced;
                if (dc == 'u' || dc == 'w') { ZSTD_CCtx_setParameter(cctx, ZSTD_c_compressionLevel, dc == 'u' ? 12 : 1); dc = 'c'; }   /* parameter change in mid-frame (allowed for the level): 'u' raises it, 'w' lowers it */
                dir = dc == 'f' ? ZSTD_e_flush : dc == 'e' ? ZSTD_e_end : ZSTD_e_continue;
                if (consumed == n && isz == 0) dir = ZSTD_e_end;      /* all input delivered: finish */
                if (dir == ZSTD_e_end && consumed + isz < n) dir = ZSTD_e_flush;                   /* only end with the last input (single frame) */
                { int sIn = 0, sOut = 0; size_t c0 = consumed, p0 = produced;
                  ZSTD_CCtx_getParameter(cctx, ZSTD_c_stableInBuffer, &sIn); ZSTD_CCtx_getParameter(cctx, ZSTD_c_stableOutBuffer, &sOut);
                  if (sIn) { ib.src = in; ib.size = consumed + isz; ib.pos = consumed; } else { ib.src = in + consumed; ib.size = isz; ib.pos = 0; }
                  if (sOut) { ob.dst = out; ob.size = produced + osz; ob.pos = produced; } else { ob.dst = out + produced; ob.size = osz; ob.pos = 0; }
                  r = ZSTD_compressStream2(cctx, &ob, &ib, dir); calls++;
                  if (ZSTD_isError(r)) break;
                  if (sIn) ib.pos -= c0; if (sOut) ob.pos -= p0; }
                if (isz > 0 && osz > 0 && ib.pos == 0 && ob.pos == 0 && !(dir == ZSTD_e_end && r == 0)) noprog++;
                if (tr) printf(" %c%zu/%zu:%zu/%zu:%s", dc, ib.pos, isz, ob.pos, osz, r == 0 ? "0" : "+");
                consumed += ib.pos; produced += ob.pos;
                if (dir == ZSTD_e_flush && r == 0 && fll + 48 < sizeof fl) fll += (size_t)sprintf(fl + fll, "%s%zu:%zu", fll ? ";" : "", consumed, produced);
                if (dir == ZSTD_e_end && r == 0 && consumed == n) ended = 1;
                if (ib.pos < isz) { ii--; }   /* re-offer: the same chunk size is presented again from the new position */
            }
            if (tr) printf("\n");
            if (ZSTD_isError(r)) printf("err %s calls=%d consumed=%zu\n", zv_errclass(r), calls, consumed);
            else { zv_puthex(out, produced); printf(" flushes=%s calls=%d noprogress=%d\n", fll ? fl : "-", calls, noprog); }
            free(in); free(out); free(d);
        } else if (!strcmp(op, "ddict")) {
            /* ddict <hex> : offer arbitrary bytes as a dictionary to both sides */
            size_t dn; unsigned char* d = zv_unhex(strtok(NULL, " "), &dn);
            ZSTD_DDict* dd = ZSTD_createDDict(d, dn); ZSTD_CDict* cd = ZSTD_createCDict(d, dn, 3);
            size_t r1 = ZSTD_DCtx_loadDictionary(dctx, d, dn); size_t r2 = ZSTD_CCtx_loadDictionary(cctx, d, dn);
            printf("ddict=%s cdict=%s id=%u idD=%u idC=%u loadD=%s loadC=%s\n", dd ? "ok" : "null", cd ? "ok" : "null", ZSTD_getDictID_fromDict(d, dn),
                   dd ? ZSTD_getDictID_fromDDict(dd) : 0, cd ? ZSTD_getDictID_fromCDict(cd) : 0, zv_errclass(r1), zv_errclass(r2));
            if (cd) { unsigned char o[512]; static const unsigned char x[64] = "abcabcabcabcabcabcabcabcabcabcabcabcabcabcabcabcabcabcabcabcabc"; size_t c = ZSTD_compress_usingCDict(cctx, o, sizeof o, x, sizeof x, cd);
                if (!ZSTD_isError(c) && dd) { unsigned char y[64]; size_t r = ZSTD_decompress_usingDDict(dctx, y, sizeof y, o, c, dd); if (ZSTD_isError(r) || r != 64 || memcmp(x, y, 64)) printf("ROUNDTRIP-FAIL\n"); } }
            ZSTD_DCtx_reset(dctx, ZSTD_reset_session_and_parameters); ZSTD_CCtx_reset(cctx, ZSTD_reset_session_and_parameters);
            ZSTD_freeDDict(dd); ZSTD_freeCDict(cd); free(d);
        } else if (!strcmp(op, "multidd")) {
            /* multidd <n> <frameDictID> : reference n DDicts (ids 1000..1000+n-1) in multi-DDict mode, then decode a tiny frame naming <frameDictID> */
            int n = atoi(strtok(NULL, " ")), i; unsigned fid = (unsigned)strtoul(strtok(NULL, " "), NULL, 10);
            ZSTD_DDict** dds = (ZSTD_DDict**)calloc((size_t)n + 1, sizeof *dds); size_t r = 0; unsigned char frame[16]; unsigned char out[16];
            static unsigned char samples[2048]; size_t ssz[8]; for (i = 0; i < 2048; i++) samples[i] = (unsigned char)("the quick brown fox "[i % 20] + (i / 256)); for (i = 0; i < 8; i++) ssz[i] = 256;
            ZSTD_DCtx* dc = ZSTD_createDCtx(); ZSTD_DCtx_setParameter(dc, ZSTD_d_refMultipleDDicts, ZSTD_rmd_refMultipleDDicts);
            for (i = 0; i < n && !ZSTD_isError(r); i++) {
                unsigned char db[1024]; ZDICT_params_t zp; size_t ds; memset(&zp, 0, sizeof zp); zp.dictID = 1000u + (unsigned)i;
                ds = ZDICT_finalizeDictionary(db, sizeof db, samples + 16 * (i % 8), 600, samples, ssz, 8, zp);
                if (ZDICT_isError(ds)) { r = ds; break; }
                dds[i] = ZSTD_createDDict(db, ds); r = ZSTD_DCtx_refDDict(dc, dds[i]);
            }
            frame[0] = 0x28; frame[1] = 0xB5; frame[2] = 0x2F; frame[3] = 0xFD; frame[4] = 0x23; MEM_writeLE32(frame + 5, fid); frame[9] = 0; frame[10] = 1; frame[11] = 0; frame[12] = 0;
            if (!ZSTD_isError(r)) r = ZSTD_decompressDCtx(dc, out, sizeof out, frame, 13);
            printf("multidd n=%d -> %s\n", n, zv_errclass(r));
            if (!ZSTD_isError(r) || 1) { ZSTD_inBuffer ib = { frame, 13, 0 }; ZSTD_outBuffer ob = { out, sizeof out, 0 }; ZSTD_DCtx_reset(dc, ZSTD_reset_session_only); r = ZSTD_decompressStream(dc, &ob, &ib); printf("multidd-stream -> %s\n", zv_errclass(r)); }
            ZSTD_freeDCtx(dc); for (i = 0; i < n; i++) ZSTD_freeDDict(dds[i]); free(dds);
        } else if (!strcmp(op, "bufless")) {
            /* bufless <cap> <hex> : ZSTD_decompressBegin / nextSrcSizeToDecompress / decompressContinue */
            size_t cap = (size_t)strtoull(strtok(NULL, " "), NULL, 10), n; unsigned char* in = zv_unhex(strtok(NULL, " "), &n);
            unsigned char* out = (unsigned char*)malloc(cap ? cap : 1); size_t ip = 0, op_ = 0, r = 0; int steps = 0;
            do {   /* the buffer-less API decodes one frame per ZSTD_decompressBegin */
                r = ZSTD_decompressBegin(dctx);
                while (!ZSTD_isError(r) && steps++ < 1000000) { size_t want = ZSTD_nextSrcSizeToDecompress(dctx); if (want == 0) break; if (want > n - ip) { r = (size_t)-ZSTD_error_srcSize_wrong; break; }
                    r = ZSTD_decompressContinue(dctx, out + op_, cap - op_, in + ip, want); ip += want; if (!ZSTD_isError(r)) op_ += r; }
            } while (!ZSTD_isError(r) && ip < n && steps < 1000000);
            if (ZSTD_isError(r)) printf("err %s\n", zv_errclass(r)); else printf("ok %zu %016llx consumed=%zu\n", op_, (unsigned long long)XXH64(out, op_, 0), ip);
            ZSTD_DCtx_reset(dctx, ZSTD_reset_session_only); free(in); free(out);
        } else if (!strcmp(op, "decso")) {
            /* decso <cap> <hex> <in-chunks csv> : ZSTD_decompressStream with ZSTD_d_stableOutBuffer (one fixed output buffer) */
            size_t cap = (size_t)strtoull(strtok(NULL, " "), NULL, 10), n; unsigned char* in = zv_unhex(strtok(NULL, " "), &n); char* ins = strtok(NULL, " ");
            size_t ic[64]; int ni = 0, ii = 0, calls = 0, idle = 0; char* sv; char* t; unsigned char* out = (unsigned char*)malloc(cap ? cap : 1); size_t consumed = 0, r = 1; ZSTD_outBuffer ob;
            for (t = strtok_r(ins, ",", &sv); t && ni < 64; t = strtok_r(NULL, ",", &sv)) ic[ni++] = (size_t)strtoull(t, NULL, 10);
            ZSTD_DCtx_reset(dctx, ZSTD_reset_session_and_parameters); ZSTD_DCtx_setParameter(dctx, ZSTD_d_stableOutBuffer, 1);
            ob.dst = out; ob.size = cap; ob.pos = 0;
            while (calls++ < 2000000) { size_t isz = ic[ii++ % ni]; ZSTD_inBuffer ib; size_t before = ob.pos; if (isz > n - consumed) isz = n - consumed; ib.src = in + consumed; ib.size = isz; ib.pos = 0;
                r = ZSTD_decompressStream(dctx, &ob, &ib); if (ZSTD_isError(r)) break; consumed += ib.pos;
                if (ib.pos == 0 && ob.pos == before) { if (consumed == n) { if (++idle >= 2) break; } else if (++idle > 40) break; } else idle = 0; }
            if (ZSTD_isError(r)) printf("err %s\n", zv_errclass(r)); else printf("ok %zu %016llx\n", ob.pos, (unsigned long long)XXH64(out, ob.pos, 0));
            ZSTD_DCtx_reset(dctx, ZSTD_reset_session_and_parameters); free(in); free(out);
        } else if (!strcmp(op, "decdd")) {
            /* decdd <mode c|s|w|b> <cap> <hex-frame> <hex-dict> <in-chunks> <out-chunks> : cold one-shot / cold stream / warm stream / cold buffer-less with a DDict */
            char mode = strtok(NULL, " ")[0]; size_t cap = (size_t)strtoull(strtok(NULL, " "), NULL, 10), n, dn; unsigned char* in = zv_unhex(strtok(NULL, " "), &n);
            unsigned char* d = zv_unhex(strtok(NULL, " "), &dn); char* ins = strtok(NULL, " "); char* outs = strtok(NULL, " ");
            size_t ic[64], oc[64]; int ni = 0, no = 0; char* sv; char* t; unsigned char* out = (unsigned char*)malloc(cap ? cap : 1); size_t r = 0, produced = 0; int pass;
            ZSTD_DDict* dd = ZSTD_createDDict(d, dn); ZSTD_DCtx* dc = ZSTD_createDCtx();
            for (t = strtok_r(ins, ",", &sv); t && ni < 64; t = strtok_r(NULL, ",", &sv)) ic[ni++] = (size_t)strtoull(t, NULL, 10);
            for (t = strtok_r(outs, ",", &sv); t && no < 64; t = strtok_r(NULL, ",", &sv)) oc[no++] = (size_t)strtoull(t, NULL, 10);
            if (!dd) { printf("err ddict-null\n"); }
            else if (mode == 'c') { r = ZSTD_decompress_usingDDict(dc, out, cap, in, n, dd); produced = r; }
            else if (mode == 'b') { size_t ip = 0; r = ZSTD_decompressBegin_usingDDict(dc, dd); while (!ZSTD_isError(r)) { size_t want = ZSTD_nextSrcSizeToDecompress(dc); if (!want) break; if (want > n - ip) { r = (size_t)-ZSTD_error_srcSize_wrong; break; }
                    r = ZSTD_decompressContinue(dc, out + produced, cap - produced, in + ip, want); ip += want; if (!ZSTD_isError(r)) produced += r; } if (!ZSTD_isError(r)) r = produced; }
            else for (pass = 0; pass < (mode == 'w' ? 2 : 1); pass++) { size_t consumed = 0; int ii = 0, oi = 0, idle = 0, calls = 0; produced = 0;
                ZSTD_DCtx_reset(dc, ZSTD_reset_session_only); ZSTD_DCtx_refDDict(dc, dd);
                while (calls++ < 2000000) { size_t isz = ic[ii++ % ni], osz = oc[oi++ % no]; ZSTD_inBuffer ib; ZSTD_outBuffer ob;
                    if (isz > n - consumed) isz = n - consumed; if (osz > cap - produced) osz = cap - produced;
                    ib.src = in + consumed; ib.size = isz; ib.pos = 0; ob.dst = out + produced; ob.size = osz; ob.pos = 0;
                    r = ZSTD_decompressStream(dc, &ob, &ib); if (ZSTD_isError(r)) break; consumed += ib.pos; produced += ob.pos;
                    if (ib.pos == 0 && ob.pos == 0) { if (consumed == n) { if (++idle >= 2) break; } else if (++idle > 40) break; } else idle = 0; }
                if (ZSTD_isError(r)) break; r = produced; }
            if (dd) { if (ZSTD_isError(r)) printf("err %s\n", zv_errclass(r)); else printf("ok %zu %016llx\n", produced, (unsigned long long)XXH64(out, produced, 0)); }
            ZSTD_freeDCtx(dc); ZSTD_freeDDict(dd); free(in); free(out); free(d);
        } else if (!strcmp(op, "decabandon")) {
            /* decabandon <hex frame A> <cut> <reset 0 session_only|1 initDStream> <hex frame B> <chunk> : feed the first <cut> bytes of A in <chunk>-byte calls, abandon it (reset), then decode B
             * giving the decoder exactly what it asks for (its return value), one request per call -> ok <n> <xxh> hintsBeyond=<0|1> */
            size_t na, nb; unsigned char* A = zv_unhex(strtok(NULL, " "), &na); size_t cut = (size_t)strtoull(strtok(NULL, " "), NULL, 10); int rk = atoi(strtok(NULL, " ")); unsigned char* B = zv_unhex(strtok(NULL, " "), &nb);
            size_t chunk = (size_t)strtoull(strtok(NULL, " "), NULL, 10); size_t cap = 1 << 22; unsigned char* out = (unsigned char*)malloc(cap); size_t pos = 0, produced = 0, r = 1; int beyond = 0, guard = 0; ZSTD_DCtx* dc = ZSTD_createDCtx();
            if (cut > na) cut = na;
            while (pos < cut) { ZSTD_inBuffer ib; ZSTD_outBuffer ob; ib.src = A + pos; ib.size = chunk < cut - pos ? chunk : cut - pos; ib.pos = 0; ob.dst = out; ob.size = cap; ob.pos = 0; r = ZSTD_decompressStream(dc, &ob, &ib); if (ZSTD_isError(r) || ib.pos == 0) break; pos += ib.pos; }
            if (rk) ZSTD_initDStream(dc); else ZSTD_DCtx_reset(dc, ZSTD_reset_session_only);
            pos = 0; r = ZSTD_FRAMEHEADERSIZE_MAX > nb ? nb : 5;
            while (guard++ < 1000000 && pos < nb) { ZSTD_inBuffer ib; ZSTD_outBuffer ob; size_t want = r; if (want > nb - pos) { beyond = 1; want = nb - pos; }
                ib.src = B + pos; ib.size = want; ib.pos = 0; ob.dst = out + produced; ob.size = cap - produced; ob.pos = 0; r = ZSTD_decompressStream(dc, &ob, &ib); if (ZSTD_isError(r)) break; pos += ib.pos; produced += ob.pos; if (r == 0) break; if (ib.pos == 0 && ob.pos == 0) break; }
            if (ZSTD_isError(r)) printf("err %s\n", zv_errclass(r)); else printf("%s %zu %016llx hintsBeyond=%d consumed=%zu\n", r == 0 ? "ok" : "unfinished", produced, (unsigned long long)XXH64(out, produced, 0), beyond, pos);
            ZSTD_freeDCtx(dc); free(A); free(B); free(out);
        } else if (!strcmp(op, "dechint")) {
            /* dechint <cap> <hex> <outchunk> : feed ZSTD_decompressStream EXACTLY the number of bytes it asks for; input is followed by garbage
             * prints the hint sequence summary: ok <produced> <hash> consumed=<n> hints=<h1,h2,...(first 12)> overask=<0|1> */
            size_t cap = (size_t)strtoull(strtok(NULL, " "), NULL, 10), n; unsigned char* in0 = zv_unhex(strtok(NULL, " "), &n); size_t oc = (size_t)strtoull(strtok(NULL, " "), NULL, 10);
            unsigned char* in = (unsigned char*)malloc(n + 64); unsigned char* out = (unsigned char*)malloc(cap ? cap : 1); size_t consumed = 0, produced = 0, hint, r = 1; int calls = 0, over = 0; char hs[400]; size_t hl = 0;
            memcpy(in, in0, n); memset(in + n, 0xEE, 64);
            ZSTD_DCtx_reset(dctx, ZSTD_reset_session_and_parameters); hint = ZSTD_initDStream(dctx); hs[0] = 0;
            { char* dp = strtok(NULL, " "); char* save = NULL; char* kv;      /* optional 4th argument dp=<id=val,...> : decompression parameters */
              if (dp && !strncmp(dp, "dp=", 3)) for (kv = strtok_r(dp + 3, ",", &save); kv; kv = strtok_r(NULL, ",", &save)) { int id, val; if (sscanf(kv, "%d=%d", &id, &val) == 2) ZSTD_DCtx_setParameter(dctx, (ZSTD_dParameter)id, val); } }
            while (calls++ < 2000000) { ZSTD_inBuffer ib; ZSTD_outBuffer ob; size_t osz = oc > cap - produced ? cap - produced : oc;
                if (hl + 24 < sizeof hs && calls <= 12) hl += (size_t)sprintf(hs + hl, "%s%zu", hl ? "," : "", hint);
                if (hint > n - consumed) { over = 1; break; }    /* asks for bytes beyond the end of the frame(s) */
                ib.src = in + consumed; ib.size = hint; ib.pos = 0; ob.dst = out + produced; ob.size = osz; ob.pos = 0;
                r = ZSTD_decompressStream(dctx, &ob, &ib); if (ZSTD_isError(r)) break;
                consumed += ib.pos; produced += ob.pos;
                if (r == 0) { if (consumed == n) break; hint = 5; /* next frame, same session: no reset */ if (n - consumed < 5) hint = n - consumed; continue; }
                hint = (ib.pos < ib.size) ? (ib.size - ib.pos) : r;      /* unconsumed input is re-offered first (output was full) */
                if (ib.pos == 0 && ob.pos == 0 && ib.size == 0 && osz == 0) break; }
            if (ZSTD_isError(r)) printf("err %s consumed=%zu hints=%s\n", zv_errclass(r), consumed, hs);
            else printf("ok %zu %016llx consumed=%zu hints=%s overask=%d lastret=%s\n", produced, (unsigned long long)XXH64(out, produced, 0), consumed, hs, over, r == 0 ? "0" : "+");
            free(in0); free(in); free(out);
        } else if (!strcmp(op, "cseq") || !strcmp(op, "genseq")) {
            /* cseq <id=val,...|-> <hex-src> <off:ll:ml,...|-> [dict-hex] : ZSTD_compressSequences -> hex frame | err
             * genseq <id=val,...|-> <hex-src> <merge 0|1> : ZSTD_generateSequences (+ mergeBlockDelimiters) -> off:ll:ml list */
            int gen = !strcmp(op, "genseq"); char* ps = strtok(NULL, " "); size_t n, dn = 0; unsigned char* in = zv_unhex(strtok(NULL, " "), &n); char* sq = strtok(NULL, " "); char* dh = strtok(NULL, " ");
            unsigned char* d = (dh && !gen) ? zv_unhex(dh, &dn) : NULL; size_t r = 0; char* save = NULL; char* kv;
            ZSTD_CCtx_reset(cctx, ZSTD_reset_session_and_parameters);
            for (kv = strtok_r(ps, ",", &save); kv && !ZSTD_isError(r); kv = strtok_r(NULL, ",", &save)) { int id, val; if (sscanf(kv, "%d=%d", &id, &val) == 2) r = ZSTD_CCtx_setParameter(cctx, (ZSTD_cParameter)id, val); }
            if (gen) {
                size_t cap = ZSTD_sequenceBound(n) + 16; ZSTD_Sequence* sv = (ZSTD_Sequence*)malloc(cap * sizeof *sv); size_t k, i;
                k = ZSTD_isError(r) ? r : ZSTD_generateSequences(cctx, sv, cap, in, n);
                if (!ZSTD_isError(k) && sq && sq[0] == '1') k = ZSTD_mergeBlockDelimiters(sv, k);
                if (ZSTD_isError(k)) printf("err %s\n", zv_errclass(k)); else { if (!k) putchar('-'); for (i = 0; i < k; i++) printf("%s%u:%u:%u", i ? "," : "", sv[i].offset, sv[i].litLength, sv[i].matchLength); putchar('\n'); }
                free(sv);
            } else {
                size_t ns = 0, cap = 16, i; ZSTD_Sequence* sv = (ZSTD_Sequence*)malloc(cap * sizeof *sv); char* t; char* s2 = NULL; size_t ocap = ZSTD_compressBound(n) + 1024; unsigned char* out = (unsigned char*)malloc(ocap);
                if (sq[0] != '-') for (t = strtok_r(sq, ",", &s2); t; t = strtok_r(NULL, ",", &s2)) { unsigned a, b, c; if (sscanf(t, "%u:%u:%u", &a, &b, &c) == 3) { if (ns == cap) { cap *= 2; sv = (ZSTD_Sequence*)realloc(sv, cap * sizeof *sv); } sv[ns].offset = a; sv[ns].litLength = b; sv[ns].matchLength = c; sv[ns].rep = 0; ns++; } }
                { ZSTD_Sequence* exact = (ZSTD_Sequence*)malloc((ns ? ns : 1) * sizeof *sv); memcpy(exact, sv, ns * sizeof *sv); free(sv); sv = exact; (void)i; }   /* exact-size array: ASan sees reads past it */
                /* explicit delimiters may cut blocks far smaller than the block size limit: 3 bytes of block header each, beyond what ZSTD_compressBound budgets */
                ocap += 4 * ns; free(out); out = (unsigned char*)malloc(ocap);
                if (d && !ZSTD_isError(r)) r = ZSTD_CCtx_loadDictionary(cctx, d, dn);
                if (!ZSTD_isError(r)) r = ZSTD_compressSequences(cctx, out, ocap, sv, ns, in, n);
                if (ZSTD_isError(r)) printf("err %s\n", zv_errclass(r)); else { zv_puthex(out, r); putchar('\n'); }
                free(sv); free(out);
            }
            free(in); free(d);
        } else if (!strcmp(op, "cbound")) {
            unsigned long long n = strtoull(strtok(NULL, " "), NULL, 10); size_t b = ZSTD_compressBound((size_t)n); if (ZSTD_isError(b)) printf("E\n"); else printf("%llu\n", (unsigned long long)b);
        } else if (!strcmp(op, "cend")) {
            /* cend <id=val,...|-> <hex-src> : the frame is ended by a call that carries no input, into a destination with exactly k spare
             * bytes (k = 0..12) after what a flush produced: (s) compressStream2 with ZSTD_c_stableOutBuffer, (b) buffer-less
             * ZSTD_compressBegin_advanced / Continue / End. Destinations are exact-size heap blocks. Prints s:<k>=<ok n|err>.. b:..; OVER = wrote or reported past capacity */
            char* ps = strtok(NULL, " "); size_t n; unsigned char* in = zv_unhex(strtok(NULL, " "), &n); int mode, k; char pcopy[512]; int level = 3, cks = 0, wlog = 0;
            size_t big = ZSTD_compressBound(n) + 64;
            for (mode = 0; mode < 2; mode++) {
                size_t F = 0; printf("%s", mode ? " b:" : "s:");
                for (k = -1; k <= 12; k++) {
                    size_t cap = k < 0 ? big : F + (size_t)k, r = 0, pos = 0; unsigned char* dst = (unsigned char*)malloc(cap ? cap : 1); char* save = NULL; char* kv; int over = 0;
                    ZSTD_CCtx_reset(cctx, ZSTD_reset_session_and_parameters);
                    strncpy(pcopy, ps, sizeof pcopy - 1); pcopy[sizeof pcopy - 1] = 0;
                    for (kv = strtok_r(pcopy, ",", &save); kv && !ZSTD_isError(r); kv = strtok_r(NULL, ",", &save)) { int id, val; if (sscanf(kv, "%d=%d", &id, &val) == 2) { if (id == 100) level = val; if (id == 201) cks = val; if (id == 101) wlog = val; r = ZSTD_CCtx_setParameter(cctx, (ZSTD_cParameter)id, val); } }
                    if (mode == 0) {
                        ZSTD_inBuffer ib = { in, n, 0 }; ZSTD_outBuffer ob = { dst, cap, 0 };
                        if (!ZSTD_isError(r)) r = ZSTD_CCtx_setParameter(cctx, ZSTD_c_stableOutBuffer, 1);
                        if (!ZSTD_isError(r)) r = ZSTD_compressStream2(cctx, &ob, &ib, ZSTD_e_flush);
                        if (!ZSTD_isError(r) && (r != 0 || ib.pos != ib.size)) r = (size_t)-ZSTD_error_dstSize_tooSmall;
                        if (k < 0) F = ob.pos;
                        if (!ZSTD_isError(r)) { ib.src = in + n; ib.size = 0; ib.pos = 0; r = ZSTD_compressStream2(cctx, &ob, &ib, ZSTD_e_end); if (!ZSTD_isError(r) && r != 0) r = (size_t)-ZSTD_error_dstSize_tooSmall; }
                        pos = ob.pos; if (ob.pos > ob.size) over = 1;
                    } else {
                        ZSTD_parameters prm = ZSTD_getParams(level, n, 0); size_t c1;
                        prm.fParams.checksumFlag = cks; prm.fParams.contentSizeFlag = 0; if (wlog) prm.cParams.windowLog = (unsigned)wlog;
                        r = ZSTD_compressBegin_advanced(cctx, NULL, 0, prm, ZSTD_CONTENTSIZE_UNKNOWN);
                        if (!ZSTD_isError(r)) { c1 = ZSTD_compressContinue(cctx, dst, cap, in, n); r = c1; if (!ZSTD_isError(c1)) { pos = c1; if (k < 0) F = c1; } }
                        if (!ZSTD_isError(r)) { r = ZSTD_compressEnd(cctx, dst + pos, cap - pos, NULL, 0); if (!ZSTD_isError(r)) { if (r > cap - pos) over = 1; pos += r; } }
                    }
                    if (k >= 0) { if (ZSTD_isError(r)) printf("%d=err%s ", k, over ? "-OVER" : ""); else printf("%d=ok%zu%s ", k, pos, (over || pos > cap) ? "-OVER" : ""); }
                    free(dst);
                    if (k < 0 && ZSTD_isError(r)) { printf("setup-err "); break; }
                }
            }
            putchar('\n'); free(in);
        } else if (!strcmp(op, "ccap")) {
            /* ccap <id=val,...|-> <cap> <hex-src> : ZSTD_compress2 into an exact-size heap buffer of <cap> bytes (ASan redzone right behind it) plus canary check */
            char* ps = strtok(NULL, " "); size_t cap = (size_t)strtoull(strtok(NULL, " "), NULL, 10), n; unsigned char* in = zv_unhex(strtok(NULL, " "), &n);
            unsigned char* out = (unsigned char*)malloc(cap + 64); size_t r = 0, i; char* save = NULL; char* kv; int over = 0;
            unsigned char* exact = (unsigned char*)malloc(cap ? cap : 1);
            memset(out + cap, 0xA5, 64);
            ZSTD_CCtx_reset(cctx, ZSTD_reset_session_and_parameters);
            for (kv = strtok_r(ps, ",", &save); kv && !ZSTD_isError(r); kv = strtok_r(NULL, ",", &save)) { int id, val; if (sscanf(kv, "%d=%d", &id, &val) == 2) r = ZSTD_CCtx_setParameter(cctx, (ZSTD_cParameter)id, val); }
            if (!ZSTD_isError(r)) { r = ZSTD_compress2(cctx, out, cap, in, n); for (i = 0; i < 64; i++) if (out[cap + i] != 0xA5) over = 1;
                ZSTD_CCtx_reset(cctx, ZSTD_reset_session_only); { size_t r2 = ZSTD_compress2(cctx, exact, cap, in, n); if (ZSTD_isError(r) != ZSTD_isError(r2) || (!ZSTD_isError(r) && r != r2)) over |= 2; } }
            if (ZSTD_isError(r)) printf("err %s%s\n", zv_errclass(r), over ? " OVERRUN" : ""); else printf("ok %zu%s%s\n", r, r > cap ? " RETURNED-MORE-THAN-CAPACITY" : "", over ? " OVERRUN" : "");
            free(in); free(out); free(exact);
        } else if (!strcmp(op, "ccaps")) {
            /* ccaps <id=val,...|-> <cap> <hex-src> : ZSTD_compressSequences (sequences from ZSTD_generateSequences on the same input, explicit block
             * delimiters) into an exact-size heap buffer of <cap> bytes: ASan redzones on both sides; a result above the capacity is reported */
            char* ps = strtok(NULL, " "); size_t cap = (size_t)strtoull(strtok(NULL, " "), NULL, 10), n; unsigned char* in = zv_unhex(strtok(NULL, " "), &n);
            size_t r = 0, ns = 0; char* save = NULL; char* kv; char pcopy[512]; size_t scap = ZSTD_sequenceBound(n) + 16; ZSTD_Sequence* sv = (ZSTD_Sequence*)malloc(scap * sizeof *sv);
            unsigned char* exact = (unsigned char*)malloc(cap ? cap : 1);
            strncpy(pcopy, ps, sizeof pcopy - 1); pcopy[sizeof pcopy - 1] = 0;
            ZSTD_CCtx_reset(cctx, ZSTD_reset_session_and_parameters);
            for (kv = strtok_r(pcopy, ",", &save); kv && !ZSTD_isError(r); kv = strtok_r(NULL, ",", &save)) { int id, val; if (sscanf(kv, "%d=%d", &id, &val) == 2) r = ZSTD_CCtx_setParameter(cctx, (ZSTD_cParameter)id, val); }
            if (!ZSTD_isError(r)) { ns = ZSTD_generateSequences(cctx, sv, scap, in, n); if (ZSTD_isError(ns)) r = ns; }
            if (!ZSTD_isError(r)) { ZSTD_CCtx_reset(cctx, ZSTD_reset_session_only); r = ZSTD_CCtx_setParameter(cctx, ZSTD_c_blockDelimiters, ZSTD_sf_explicitBlockDelimiters); }
            if (!ZSTD_isError(r)) r = ZSTD_compressSequences(cctx, exact, cap, sv, ns, in, n);
            if (ZSTD_isError(r)) printf("err %s\n", zv_errclass(r)); else printf("ok %zu%s\n", r, r > cap ? " RETURNED-MORE-THAN-CAPACITY" : "");
            free(in); free(sv); free(exact);
        } else if (!strcmp(op, "sireset")) {
            /* sireset <mode 0|1> <first> <hex-src> : ZSTD_c_stableInBuffer session abandoned after one small ZSTD_e_continue call (its input is deferred),
             * ZSTD_CCtx_reset (0: session only, 1: session and parameters), then the whole source through ZSTD_compress2 from an exact-size buffer;
             * the frame must decode to the source */
            int mode = atoi(strtok(NULL, " ")); size_t first = (size_t)strtoull(strtok(NULL, " "), NULL, 10), n; unsigned char* in = zv_unhex(strtok(NULL, " "), &n);
            size_t cap = ZSTD_compressBound(n) + 64, r; unsigned char* out = (unsigned char*)malloc(cap); unsigned char* back = (unsigned char*)malloc(n ? n : 1);
            unsigned char* tmp = (unsigned char*)malloc(first ? first : 1); ZSTD_inBuffer ib; ZSTD_outBuffer ob = { out, cap, 0 };
            if (first > n) first = n; memcpy(tmp, in, first); ib.src = tmp; ib.size = first; ib.pos = 0;
            ZSTD_CCtx_reset(cctx, ZSTD_reset_session_and_parameters);
            ZSTD_CCtx_setParameter(cctx, ZSTD_c_stableInBuffer, 1);
            r = ZSTD_compressStream2(cctx, &ob, &ib, ZSTD_e_continue);
            if (!ZSTD_isError(r)) r = ZSTD_CCtx_reset(cctx, mode ? ZSTD_reset_session_and_parameters : ZSTD_reset_session_only);
            if (!ZSTD_isError(r) && !mode) r = ZSTD_CCtx_setParameter(cctx, ZSTD_c_stableInBuffer, 0);
            if (!ZSTD_isError(r)) r = ZSTD_compress2(cctx, out, cap, in, n);
            if (ZSTD_isError(r)) printf("err %s\n", zv_errclass(r));
            else { size_t d = ZSTD_decompress(back, n, out, r); printf("%s\n", (!ZSTD_isError(d) && d == n && !memcmp(back, in, n)) ? "ok" : "FAIL frame does not decode to the source"); }
            ZSTD_CCtx_reset(cctx, ZSTD_reset_session_and_parameters);
            free(in); free(out); free(back); free(tmp);
        } else if (!strcmp(op, "dcap")) {
            /* dcap <cap> <hex> : ZSTD_decompress into exact-size buffer + canary copy */
            size_t cap = (size_t)strtoull(strtok(NULL, " "), NULL, 10), n, i; unsigned char* in = zv_unhex(strtok(NULL, " "), &n);
            unsigned char* out = (unsigned char*)malloc(cap + 64); unsigned char* exact = (unsigned char*)malloc(cap ? cap : 1); int over = 0; size_t r, r2;
            memset(out + cap, 0xA5, 64);
            r = ZSTD_decompressDCtx(dctx, out, cap, in, n); for (i = 0; i < 64; i++) if (out[cap + i] != 0xA5) over = 1;
            r2 = ZSTD_decompressDCtx(dctx, exact, cap, in, n); if (ZSTD_isError(r) != ZSTD_isError(r2)) over |= 2;
            if (ZSTD_isError(r)) printf("err %s%s\n", zv_errclass(r), over ? " OVERRUN" : ""); else printf("ok %zu %016llx%s%s\n", r, (unsigned long long)XXH64(out, r, 0), r > cap ? " RETURNED-MORE-THAN-CAPACITY" : "", over ? " OVERRUN" : "");
            free(in); free(out); free(exact);
        } else if (!strcmp(op, "insp")) {
            /* insp <hex> : frame inspectors on a sequence of frames */
            size_t n; unsigned char* in = zv_unhex(strtok(NULL, " "), &n);
            size_t fs = ZSTD_findFrameCompressedSize(in, n); unsigned long long db = ZSTD_decompressBound(in, n), cs = ZSTD_getFrameContentSize(in, n), fd = ZSTD_findDecompressedSize(in, n);
            size_t mg = ZSTD_decompressionMargin(in, n);
            printf("fsize=%s%zu dbound=%lld fcs=%lld fdsize=%lld margin=%s%zu\n", ZSTD_isError(fs) ? "E" : "", ZSTD_isError(fs) ? (size_t)0 : fs, (long long)db, (long long)cs, (long long)fd, ZSTD_isError(mg) ? "E" : "", ZSTD_isError(mg) ? (size_t)0 : mg);
            free(in);
        } else if (!strcmp(op, "inplace")) {
            /* inplace <outsize> <delta> <hex> : in-place decoding with margin = ZSTD_decompressionMargin + delta (documented procedure) */
            size_t outSize = (size_t)strtoull(strtok(NULL, " "), NULL, 10), n; long delta = atol(strtok(NULL, " ")); unsigned char* in = zv_unhex(strtok(NULL, " "), &n);
            size_t mg = ZSTD_decompressionMargin(in, n);
            if (ZSTD_isError(mg)) printf("err margin %s\n", zv_errclass(mg));
            else { size_t m = (size_t)((long)mg + delta > 0 ? (long)mg + delta : 0); size_t total = outSize + m; unsigned char* buf = (unsigned char*)malloc(total ? total : 1); size_t r;
                if (n > total) { printf("skip\n"); } else { memcpy(buf + total - n, in, n); r = ZSTD_decompressDCtx(dctx, buf, total, buf + total - n, n); printf("margin=%zu ", mg); zv_result(r, buf); }
                free(buf); }
            free(in);
        } else if (!strcmp(op, "xxh")) {
            size_t n; unsigned char* in = zv_unhex(strtok(NULL, " "), &n); printf("ok %zu %016llx\n", n, (unsigned long long)XXH64(in, n, 0)); free(in);
        } else if (!strcmp(op, "fsize")) {
            size_t n; unsigned char* in = zv_unhex(strtok(NULL, " "), &n); size_t r = ZSTD_findFrameCompressedSize(in, n);
            if (ZSTD_isError(r)) printf("err %s\n", zv_errclass(r)); else printf("ok %zu\n", r); free(in);
        } else if (!strcmp(op, "bound")) {
            size_t n; unsigned char* in = zv_unhex(strtok(NULL, " "), &n); unsigned long long r = ZSTD_decompressBound(in, n);
            if (r == ZSTD_CONTENTSIZE_ERROR) printf("err\n"); else printf("ok %llu\n", r); free(in);
        } else printf("bad-op\n");
        fflush(stdout);
    }
    ZSTD_freeDCtx(dctx); ZSTD_freeCCtx(cctx);
    return 0;
}
