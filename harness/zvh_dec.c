/* zvh_dec — decoding / compressing entry points behind a line protocol (used by C01 C03 C04 C05 C06 C09).
 *   dec <cap> <hex> [dict-hex]         ZSTD_decompress / ZSTD_decompress_usingDict into an exact-size buffer of <cap> bytes
 *   comp <level> <flags> <hex-src>     ZSTD_compress2 with level and flags (bit0 checksum, bit1 no content size, bit2 magicless) -> hex frame
 *   fsize <hex>                        ZSTD_findFrameCompressedSize
 *   bound <hex>                        ZSTD_decompressBound
 *   hdr <hex>                          ZSTD_getFrameHeader: ret + fields */
#include "zvh_common.h"

int main(void) {
    char* line; ZSTD_DCtx* dctx = ZSTD_createDCtx(); ZSTD_CCtx* cctx = ZSTD_createCCtx();
    while ((line = zv_getline())) {
        char* op = strtok(line, " "); if (!op) continue;
        if (!strcmp(op, "dec")) {
            size_t cap = (size_t)strtoull(strtok(NULL, " "), NULL, 10), n, dn = 0; char* hx = strtok(NULL, " "); char* dh = strtok(NULL, " ");
            unsigned char* in = zv_unhex(hx, &n); unsigned char* d = dh ? zv_unhex(dh, &dn) : NULL;
            unsigned char* out = (unsigned char*)malloc(cap ? cap : 1);
            size_t r = d ? ZSTD_decompress_usingDict(dctx, out, cap, in, n, d, dn) : ZSTD_decompressDCtx(dctx, out, cap, in, n);
            zv_result(r, out); free(in); free(out); free(d);
        } else if (!strcmp(op, "decf")) {
            int fmt = atoi(strtok(NULL, " ")); size_t cap = (size_t)strtoull(strtok(NULL, " "), NULL, 10), n; unsigned char* in = zv_unhex(strtok(NULL, " "), &n);
            unsigned char* out = (unsigned char*)malloc(cap ? cap : 1); size_t r;
            ZSTD_DCtx_setParameter(dctx, ZSTD_d_format, fmt);
            r = ZSTD_decompressDCtx(dctx, out, cap, in, n);
            ZSTD_DCtx_setParameter(dctx, ZSTD_d_format, 0);
            zv_result(r, out); free(in); free(out);
        } else if (!strcmp(op, "comp")) {
            int level = atoi(strtok(NULL, " ")); int flags = atoi(strtok(NULL, " ")); size_t n; unsigned char* in = zv_unhex(strtok(NULL, " "), &n);
            size_t cap = ZSTD_compressBound(n); unsigned char* out = (unsigned char*)malloc(cap); size_t r;
            ZSTD_CCtx_reset(cctx, ZSTD_reset_session_and_parameters);
            ZSTD_CCtx_setParameter(cctx, ZSTD_c_compressionLevel, level);
            ZSTD_CCtx_setParameter(cctx, ZSTD_c_checksumFlag, flags & 1);
            ZSTD_CCtx_setParameter(cctx, ZSTD_c_contentSizeFlag, !(flags & 2));
            ZSTD_CCtx_setParameter(cctx, ZSTD_c_format, (flags & 4) ? ZSTD_f_zstd1_magicless : ZSTD_f_zstd1);
            r = ZSTD_compress2(cctx, out, cap, in, n);
            if (ZSTD_isError(r)) printf("err %s\n", zv_errclass(r)); else { zv_puthex(out, r); putchar('\n'); }
            free(in); free(out);
        } else if (!strcmp(op, "comp2")) {
            /* comp2 <api> <id=val,...|-> <hex-src> [dict-hex] ; api in c2 simple cctx adv udict ucdict */
            char* api = strtok(NULL, " "); char* ps = strtok(NULL, " "); size_t n, dn = 0; unsigned char* in = zv_unhex(strtok(NULL, " "), &n);
            char* dh = strtok(NULL, " "); unsigned char* d = dh ? zv_unhex(dh, &dn) : NULL;
            size_t cap = ZSTD_compressBound(n) + 64; unsigned char* out = (unsigned char*)malloc(cap); size_t r = 0; int level = 3; char* save = NULL; char* kv;
            ZSTD_CCtx_reset(cctx, ZSTD_reset_session_and_parameters);
            for (kv = strtok_r(ps, ",", &save); kv && !ZSTD_isError(r); kv = strtok_r(NULL, ",", &save)) {
                int id, val; if (sscanf(kv, "%d=%d", &id, &val) == 2) { if (id == 100) level = val; r = ZSTD_CCtx_setParameter(cctx, (ZSTD_cParameter)id, val); } }
            if (!ZSTD_isError(r)) {
                if (!strcmp(api, "c2")) { if (d) r = ZSTD_CCtx_loadDictionary(cctx, d, dn); if (!ZSTD_isError(r)) r = ZSTD_compress2(cctx, out, cap, in, n); }
                else if (!strcmp(api, "simple")) r = ZSTD_compress(out, cap, in, n, level);
                else if (!strcmp(api, "cctx")) r = ZSTD_compressCCtx(cctx, out, cap, in, n, level);
                else if (!strcmp(api, "adv")) { ZSTD_parameters p = ZSTD_getParams(level, n, dn); r = ZSTD_compress_advanced(cctx, out, cap, in, n, d, dn, p); }
                else if (!strcmp(api, "udict")) r = ZSTD_compress_usingDict(cctx, out, cap, in, n, d, dn, level);
                else if (!strcmp(api, "ucdict")) { ZSTD_CDict* cd = ZSTD_createCDict(d, dn, level); r = cd ? ZSTD_compress_usingCDict(cctx, out, cap, in, n, cd) : (size_t)-1; ZSTD_freeCDict(cd); }
                else r = (size_t)-1;
            }
            if (ZSTD_isError(r)) printf("err %s\n", zv_errclass(r)); else { zv_puthex(out, r); putchar('\n'); }
            free(in); free(out); free(d);
        } else if (!strcmp(op, "xxh")) {
            size_t n; unsigned char* in = zv_unhex(strtok(NULL, " "), &n); printf("ok %zu %016llx\n", n, (unsigned long long)XXH64(in, n, 0)); free(in);
        } else if (!strcmp(op, "fsize")) {
            size_t n; unsigned char* in = zv_unhex(strtok(NULL, " "), &n); size_t r = ZSTD_findFrameCompressedSize(in, n);
            if (ZSTD_isError(r)) printf("err %s\n", zv_errclass(r)); else printf("ok %zu\n", r); free(in);
        } else if (!strcmp(op, "bound")) {
            size_t n; unsigned char* in = zv_unhex(strtok(NULL, " "), &n); unsigned long long r = ZSTD_decompressBound(in, n);
            if (r == ZSTD_CONTENTSIZE_ERROR) printf("err\n"); else printf("ok %llu\n", r); free(in);
        } else printf("bad-op\n");
        fflush(stdout);
    }
    return 0;
}
