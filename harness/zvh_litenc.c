/* Literals-section WRITER of the library (lib/compress/zstd_compress_literals.c), line protocol (one op per line on stdin, one
 * canonical text line per op on stdout):
 *   lit raw <hex literals>             ZSTD_noCompressLiterals          -> ok mode=raw section=<hex>
 *   lit rle <hex literals>             ZSTD_compressRleLiteralsBlock    -> ok mode=rle section=<hex>   (all bytes must be identical, >= 1 byte)
 *   lit huf <hex literals> [strategy]  ZSTD_compressLiterals with a fresh ZSTD_hufCTables_t (repeatMode = HUF_repeat_none),
 *                                      disableLiteralCompression = 0, suspectUncompressible = 0, bmi2 = 0, strategy 1..9 (default ZSTD_fast)
 *                                      -> ok mode=huf|raw|rle section=<hex> [log=L msv=M nb=n0,n1,..]
 *                                      mode = what the library chose (first two bits of the section); for huf the table depth, the
 *                                      largest symbol and the per-symbol code lengths of the table it built (nextHuf->CTable)
 */
#define HUF_STATIC_LINKING_ONLY
#include "zvh_common.h"
#include "mem.h"
#include "huf.h"
#include "zstd_compress_literals.h"

static unsigned long long g_wksp[ENTROPY_WORKSPACE_SIZE / 8 + 64];

int main(void)
{
    char* line;
    while ((line = zv_getline()) != NULL) {
        char* op = strtok(line, " ");
        char* mode; char* hx; char* st;
        size_t n, cap, r; unsigned char* src; unsigned char* dst;
        if (!op) continue;
        mode = strtok(NULL, " "); hx = strtok(NULL, " "); st = strtok(NULL, " ");
        if (strcmp(op, "lit") || !mode || !hx) { printf("err unknown-op\n"); fflush(stdout); continue; }
        src = zv_unhex(hx, &n);
        cap = n + 64;
        dst = (unsigned char*)malloc(cap);
        if (!strcmp(mode, "raw")) {
            r = ZSTD_noCompressLiterals(dst, cap, src, n);
            if (ZSTD_isError(r)) printf("err %s\n", zv_errclass(r));
            else { printf("ok mode=raw section="); zv_puthex(dst, r); printf("\n"); }
        } else if (!strcmp(mode, "rle")) {
            size_t i; int same = n >= 1;
            for (i = 1; i < n; i++) if (src[i] != src[0]) same = 0;
            if (!same) printf("err precondition\n");
            else {
                r = ZSTD_compressRleLiteralsBlock(dst, cap, src, n);
                if (ZSTD_isError(r)) printf("err %s\n", zv_errclass(r));
                else { printf("ok mode=rle section="); zv_puthex(dst, r); printf("\n"); }
            }
        } else if (!strcmp(mode, "huf")) {
            static ZSTD_hufCTables_t prev, next;
            int const strategy = st ? atoi(st) : (int)ZSTD_fast;
            memset(&prev, 0, sizeof(prev)); memset(&next, 0, sizeof(next));
            prev.repeatMode = HUF_repeat_none;
            r = ZSTD_compressLiterals(dst, cap, src, n, g_wksp, sizeof(g_wksp), &prev, &next, (ZSTD_strategy)strategy, 0, 0, 0);
            if (ZSTD_isError(r)) printf("err %s\n", zv_errclass(r));
            else {
                unsigned const ty = r ? (dst[0] & 3) : 0;
                printf("ok mode=%s section=", ty == 0 ? "raw" : ty == 1 ? "rle" : ty == 2 ? "huf" : "repeat");
                zv_puthex(dst, r);
                if (ty == 2) {
                    HUF_CTableHeader const h = HUF_readCTableHeader(next.CTable);
                    unsigned s;
                    printf(" log=%u msv=%u nb=", (unsigned)h.tableLog, (unsigned)h.maxSymbolValue);
                    for (s = 0; s <= h.maxSymbolValue; s++) printf("%s%u", s ? "," : "", (unsigned)(next.CTable[1 + s] & 0xFF));
                }
                printf("\n");
            }
        } else printf("err unknown-mode\n");
        free(src); free(dst);
        fflush(stdout);
    }
    return 0;
}
