/* zvh_seqprod — block-level sequence producer harness (C17).  A registered producer (ZSTD_registerSequenceProducer) answers block k with
 * entry k of a plan; at every call it also records the repeat-offset history the compressor holds at that moment
 * (cctx->blockState.prevCBlock->rep: what the transcriber of this block, or the internal parser if the block is handed over, starts from).
 * Only the private struct layout is used (zstd_compress_internal.h); the library objects are linked unchanged.
 *
 *   prod <id=val,...|-> <hex-src> <plan> <api> [dict-hex]
 *        plan  = entries separated by ';' , entry k answers the k-th producer call (calls beyond the plan: F)
 *                F            return ZSTD_SEQUENCE_PRODUCER_ERROR
 *                C            return outSeqsCapacity + 1 (the smallest error code)
 *                Z            return 0
 *                X            fill the whole buffer with {1,0,3} entries and return outSeqsCapacity (no room for a delimiter)
 *                off:ll:ml,...  write these entries, return their number (a final delimiter 0:ll:0 may be left out when it would be 0:0:0)
 *        api   = c2 (ZSTD_compress2) | s<chunk> (ZSTD_compressStream2, input fed in <chunk>-byte pieces with ZSTD_e_continue, then ZSTD_e_end)
 *        dict  = raw content loaded with ZSTD_CCtx_loadDictionary_advanced(..., ZSTD_dct_rawContent)
 *        -> <hex frame | err <class>> calls=<srcSize>:<cap>:<r0>.<r1>.<r2>:<what was returned: F C Z X R<n> or M = plan entry longer than the buffer>;...
 *   prodgen <id=val,...|-> <hex-src> <plan>      same producer, ZSTD_generateSequences -> off:ll:ml:rep list | err <class>
 *   cseqx <id=val,...|-> <hex-src> <off:ll:ml,...|-> <mode> [hex]      ZSTD_compressSequences (no producer) on a fresh context and an exact-size
 *        sequence array, any parameter (ZSTD_c_nbWorkers = 400 included), with the history given by <mode>:
 *                -            none
 *                P            ZSTD_CCtx_refPrefix(hex) (raw content)
 *                D            ZSTD_CCtx_loadDictionary_advanced(hex, byCopy, rawContent)
 *                C            ZSTD_createCDict_advanced(hex, rawContent, level of the parameter list) + ZSTD_CCtx_refCDict
 *        -> <hex frame | err <class>>
 *   mergeseq <off:ll:ml,...|->                   ZSTD_mergeBlockDelimiters on an exact-size heap array -> off:ll:ml list of the entries it returns | -
 *   genmerge <id=val,...|-> <hex-src>            ZSTD_generateSequences, then ZSTD_mergeBlockDelimiters on an exact-size copy
 *        -> <extracted off:ll:ml list|-> <merged off:ll:ml list|->  |  err <class>
 */
#include <stdio.h>
#include <stdlib.h>
#include <string.h>
#define ZSTD_STATIC_LINKING_ONLY
#include "zstd_compress_internal.h"   /* struct ZSTD_CCtx_s; found through -I<repo>/lib/compress (tools/build.py) */
#include "zvh_common.h"

#define ZV_MAXCALLS 4096
typedef struct { size_t srcSize, cap; unsigned rep[3]; char what; size_t n; } zv_call;
typedef struct {
    ZSTD_CCtx* cctx;
    char** entries; size_t nbEntries;      /* plan */
    zv_call calls[ZV_MAXCALLS]; size_t nbCalls;
} zv_prod;

static size_t zv_producer(void* opaque, ZSTD_Sequence* outSeqs, size_t cap, const void* src, size_t srcSize,
                          const void* dict, size_t dictSize, int level, size_t windowSize) {
    zv_prod* const st = (zv_prod*)opaque; size_t const k = st->nbCalls; zv_call* c; const char* e; size_t ret;
    (void)src; (void)dict; (void)dictSize; (void)level; (void)windowSize;
    if (k >= ZV_MAXCALLS) return ZSTD_SEQUENCE_PRODUCER_ERROR;
    c = &st->calls[st->nbCalls++]; c->srcSize = srcSize; c->cap = cap; c->n = 0;
    c->rep[0] = st->cctx->blockState.prevCBlock->rep[0]; c->rep[1] = st->cctx->blockState.prevCBlock->rep[1]; c->rep[2] = st->cctx->blockState.prevCBlock->rep[2];
    e = k < st->nbEntries ? st->entries[k] : "F";
    if (e[0] == 'F') { c->what = 'F'; return ZSTD_SEQUENCE_PRODUCER_ERROR; }
    if (e[0] == 'C') { c->what = 'C'; return cap + 1; }
    if (e[0] == 'Z') { c->what = 'Z'; return 0; }
    if (e[0] == 'X') { size_t i; for (i = 0; i < cap; i++) { outSeqs[i].offset = 1; outSeqs[i].litLength = 0; outSeqs[i].matchLength = 3; outSeqs[i].rep = 0; } c->what = 'X'; c->n = cap; return cap; }
    ret = 0;
    {   const char* p = e;
        while (*p) { unsigned a, b, m; int used = 0;
            if (sscanf(p, "%u:%u:%u%n", &a, &b, &m, &used) != 3) break;
            if (ret >= cap) { c->what = 'M'; return ZSTD_SEQUENCE_PRODUCER_ERROR; }
            outSeqs[ret].offset = a; outSeqs[ret].litLength = b; outSeqs[ret].matchLength = m; outSeqs[ret].rep = 0; ret++;
            p += used; if (*p == ',') p++; } }
    c->what = 'R'; c->n = ret;
    return ret;
}

static size_t zv_apply(ZSTD_CCtx* c, char* ps) {
    size_t r = 0; char* save = NULL; char* kv;
    for (kv = strtok_r(ps, ",", &save); kv && !ZSTD_isError(r); kv = strtok_r(NULL, ",", &save)) { int id, val; if (sscanf(kv, "%d=%d", &id, &val) == 2) r = ZSTD_CCtx_setParameter(c, (ZSTD_cParameter)id, val); }
    return r;
}

static void zv_split_plan(zv_prod* st, char* plan) {
    size_t n = 1, i = 0; char* p; char* save = NULL; char* t;
    for (p = plan; *p; p++) if (*p == ';') n++;
    st->entries = (char**)malloc(n * sizeof(char*)); st->nbEntries = 0;
    for (t = strtok_r(plan, ";", &save); t; t = strtok_r(NULL, ";", &save)) st->entries[i++] = t;
    st->nbEntries = i;
}

int main(void) {
    char* line; ZSTD_CCtx* cctx = ZSTD_createCCtx(); zv_prod* st = (zv_prod*)calloc(1, sizeof *st);
    while ((line = zv_getline())) {
        char* op = strtok(line, " "); if (!op) continue;
        if (!strcmp(op, "prod") || !strcmp(op, "prodgen")) {
            int const gen = !strcmp(op, "prodgen");
            char* ps = strtok(NULL, " "); size_t n, dn = 0; unsigned char* in = zv_unhex(strtok(NULL, " "), &n); char* plan = strtok(NULL, " "); char* api = strtok(NULL, " "); char* dh = strtok(NULL, " ");
            unsigned char* d = (dh && !gen) ? zv_unhex(dh, &dn) : NULL; size_t r; size_t i;
            ZSTD_CCtx_reset(cctx, ZSTD_reset_session_and_parameters);
            r = zv_apply(cctx, ps);
            st->cctx = cctx; st->nbCalls = 0; zv_split_plan(st, plan);
            ZSTD_registerSequenceProducer(cctx, st, zv_producer);
            if (gen) {
                size_t cap = ZSTD_sequenceBound(n) + 16; ZSTD_Sequence* sv = (ZSTD_Sequence*)calloc(cap, sizeof *sv); size_t k;
                k = ZSTD_isError(r) ? r : ZSTD_generateSequences(cctx, sv, cap, in, n);
                if (ZSTD_isError(k)) printf("err %s\n", zv_errclass(k)); else { if (!k) putchar('-'); for (i = 0; i < k; i++) printf("%s%u:%u:%u:%u", i ? "," : "", sv[i].offset, sv[i].litLength, sv[i].matchLength, sv[i].rep); putchar('\n'); }
                free(sv);
            } else {
                size_t ocap = ZSTD_compressBound(n) + 1024; unsigned char* out = (unsigned char*)malloc(ocap);
                if (d && !ZSTD_isError(r)) r = ZSTD_CCtx_loadDictionary_advanced(cctx, d, dn, ZSTD_dlm_byCopy, ZSTD_dct_rawContent);
                if (!ZSTD_isError(r)) {
                    if (api && api[0] == 's') {
                        size_t chunk = (size_t)strtoull(api + 1, NULL, 10); ZSTD_inBuffer ib; ZSTD_outBuffer ob; size_t fed = 0; int guard;
                        if (!chunk) chunk = 1;
                        ob.dst = out; ob.size = ocap; ob.pos = 0; r = 1;
                        while (fed < n && !ZSTD_isError(r)) { size_t k = n - fed < chunk ? n - fed : chunk;
                            /* every piece is handed over in its own exact-size buffer: the compressor may not look past it */
                            unsigned char* piece = (unsigned char*)malloc(k); memcpy(piece, in + fed, k);
                            ib.src = piece; ib.size = k; ib.pos = 0; guard = 0;
                            while (ib.pos < ib.size && !ZSTD_isError(r) && guard++ < 100000) r = ZSTD_compressStream2(cctx, &ob, &ib, ZSTD_e_continue);
                            free(piece); fed += k; }
                        ib.src = in; ib.size = 0; ib.pos = 0; guard = 0;
                        while (!ZSTD_isError(r) && guard++ < 100000) { r = ZSTD_compressStream2(cctx, &ob, &ib, ZSTD_e_end); if (r == 0) break; }
                        if (!ZSTD_isError(r)) r = ob.pos;
                    } else r = ZSTD_compress2(cctx, out, ocap, in, n);
                }
                if (ZSTD_isError(r)) printf("err %s", zv_errclass(r)); else zv_puthex(out, r);
                printf(" calls=");
                if (!st->nbCalls) putchar('-');
                for (i = 0; i < st->nbCalls; i++) { zv_call* c = &st->calls[i];
                    printf("%s%zu:%zu:%u.%u.%u:%c", i ? ";" : "", c->srcSize, c->cap, c->rep[0], c->rep[1], c->rep[2], c->what); if (c->what == 'R') printf("%zu", c->n); }
                putchar('\n');
                free(out);
            }
            free(st->entries); st->entries = NULL; free(in); free(d);
        } else if (!strcmp(op, "cseqx")) {
            char* ps = strtok(NULL, " "); size_t n, dn = 0; unsigned char* in = zv_unhex(strtok(NULL, " "), &n); char* sq = strtok(NULL, " "); char* mode = strtok(NULL, " "); char* dh = strtok(NULL, " ");
            unsigned char* d = dh ? zv_unhex(dh, &dn) : NULL; size_t r; size_t ns = 0, cap = 16; ZSTD_Sequence* sv = (ZSTD_Sequence*)malloc(cap * sizeof *sv); ZSTD_Sequence* exact; char* t; char* s2 = NULL;
            ZSTD_CCtx* fresh = ZSTD_createCCtx(); ZSTD_CDict* cd = NULL; int level = 3; size_t ocap; unsigned char* out;
            { const char* q = ps; while (q && *q) { int id, val; if (sscanf(q, "%d=%d", &id, &val) == 2 && id == 100) level = val; q = strchr(q, ','); if (q) q++; } }
            r = zv_apply(fresh, ps);
            if (sq && sq[0] != '-') for (t = strtok_r(sq, ",", &s2); t; t = strtok_r(NULL, ",", &s2)) { unsigned a, b, c;
                if (sscanf(t, "%u:%u:%u", &a, &b, &c) == 3) { if (ns == cap) { cap *= 2; sv = (ZSTD_Sequence*)realloc(sv, cap * sizeof *sv); } sv[ns].offset = a; sv[ns].litLength = b; sv[ns].matchLength = c; sv[ns].rep = 0; ns++; } }
            exact = (ZSTD_Sequence*)malloc(ns ? ns * sizeof *sv : 1); memcpy(exact, sv, ns * sizeof *sv); free(sv);
            ocap = ZSTD_compressBound(n) + 1024 + 4 * ns; out = (unsigned char*)malloc(ocap);
            if (!ZSTD_isError(r) && mode && d) {
                if (mode[0] == 'P') r = ZSTD_CCtx_refPrefix_advanced(fresh, d, dn, ZSTD_dct_rawContent);
                else if (mode[0] == 'D') r = ZSTD_CCtx_loadDictionary_advanced(fresh, d, dn, ZSTD_dlm_byCopy, ZSTD_dct_rawContent);
                else if (mode[0] == 'C') { ZSTD_compressionParameters cp = ZSTD_getCParams(level, n, dn); cd = ZSTD_createCDict_advanced(d, dn, ZSTD_dlm_byCopy, ZSTD_dct_rawContent, cp, ZSTD_defaultCMem);
                    r = cd ? ZSTD_CCtx_refCDict(fresh, cd) : (size_t)-ZSTD_error_memory_allocation; }
            }
            if (!ZSTD_isError(r)) r = ZSTD_compressSequences(fresh, out, ocap, exact, ns, in, n);
            if (ZSTD_isError(r)) printf("err %s\n", zv_errclass(r)); else { zv_puthex(out, r); putchar('\n'); }
            ZSTD_freeCCtx(fresh); ZSTD_freeCDict(cd); free(exact); free(out); free(in); free(d);
        } else if (!strcmp(op, "mergeseq")) {
            char* sq = strtok(NULL, " "); size_t ns = 0, cap = 16, i, k; ZSTD_Sequence* sv = (ZSTD_Sequence*)malloc(cap * sizeof *sv); ZSTD_Sequence* exact; char* t; char* s2 = NULL;
            if (sq && sq[0] != '-') for (t = strtok_r(sq, ",", &s2); t; t = strtok_r(NULL, ",", &s2)) { unsigned a, b, c;
                if (sscanf(t, "%u:%u:%u", &a, &b, &c) == 3) { if (ns == cap) { cap *= 2; sv = (ZSTD_Sequence*)realloc(sv, cap * sizeof *sv); } sv[ns].offset = a; sv[ns].litLength = b; sv[ns].matchLength = c; sv[ns].rep = 0; ns++; } }
            exact = (ZSTD_Sequence*)malloc(ns ? ns * sizeof *sv : 1); memcpy(exact, sv, ns * sizeof *sv); free(sv);      /* exact size: ASan sees an access to entry [n] */
            k = ZSTD_mergeBlockDelimiters(exact, ns);
            if (k > ns) printf("err returned-%zu-of-%zu\n", k, ns);
            else { if (!k) putchar('-'); for (i = 0; i < k; i++) printf("%s%u:%u:%u", i ? "," : "", exact[i].offset, exact[i].litLength, exact[i].matchLength); putchar('\n'); }
            free(exact);
        } else if (!strcmp(op, "genmerge")) {
            char* ps = strtok(NULL, " "); size_t n; unsigned char* in = zv_unhex(strtok(NULL, " "), &n); size_t r, k, i;
            size_t cap = ZSTD_sequenceBound(n) + 16; ZSTD_Sequence* sv = (ZSTD_Sequence*)calloc(cap, sizeof *sv);
            ZSTD_CCtx_reset(cctx, ZSTD_reset_session_and_parameters);
            r = zv_apply(cctx, ps);
            k = ZSTD_isError(r) ? r : ZSTD_generateSequences(cctx, sv, cap, in, n);
            if (ZSTD_isError(k)) printf("err %s\n", zv_errclass(k));
            else { ZSTD_Sequence* exact = (ZSTD_Sequence*)malloc(k ? k * sizeof *sv : 1); size_t m; memcpy(exact, sv, k * sizeof *sv);
                if (!k) putchar('-'); for (i = 0; i < k; i++) printf("%s%u:%u:%u", i ? "," : "", sv[i].offset, sv[i].litLength, sv[i].matchLength);
                m = ZSTD_mergeBlockDelimiters(exact, k);
                putchar(' '); if (!m || m > k) putchar('-'); for (i = 0; i < m && m <= k; i++) printf("%s%u:%u:%u", i ? "," : "", exact[i].offset, exact[i].litLength, exact[i].matchLength);
                putchar('\n'); free(exact); }
            free(sv); free(in);
        } else printf("bad-op\n");
        fflush(stdout);
    }
    ZSTD_freeCCtx(cctx); free(st);
    return 0;
}
