/* zvh_dictwear — a raw-content dictionary / prefix LARGER THAN THE WINDOW loaded into a long-lived context whose 32-bit index is close to the
 * rebase threshold (C15): the frame must equal the frame of a fresh context given the same calls, and must round-trip.
 *
 *   dictwear <api prefix|usingdict|begin> <level> <wlog> <hlog> <gapKiB> <dictKiB> <srcKiB> <backKiB> <seed>
 *        The long-lived context is AGED with ordinary frames (same API, same level / parameters, no dictionary; 256 MiB of zero bytes each, the last one cut) until
 *        its window index is ZSTD_CURRENT_MAX - gapKiB*1024 (the index is only READ from the context, to steer the number of bytes; nothing is written into it).
 *        Then ONE frame with a raw-content dictionary / prefix of dictKiB (random bytes) and an input of srcKiB made of pieces of the last backKiB of the dictionary
 *        (far more than a window behind its end) mixed with noise:
 *          gap > 16 MiB and gap < dict size : the dictionary is loaded ACROSS ZSTD_CURRENT_MAX, the window is rebased inside ZSTD_loadDictionaryContent;
 *          gap <= 16 MiB                     : the context resets its index at the start of the frame (ZSTD_indexTooCloseToMax);
 *          gap > dict size + input           : nothing special, the rebase happens in some later frame.
 *        wlog / hlog = 0 : default of the level (prefix API only; usingdict / begin take the level alone); hlog sets hashLog AND chainLog, so that the tables of the
 *        dictionary frame are not larger than those of the ageing frames (a context that has to enlarge its workspace restarts its index: nothing to see).
 *        -> ok idx=<index at the start of the frame> cross=<0|1: idx <= CURRENT_MAX - 16 MiB and idx + dict > CURRENT_MAX> corr=<rebases of the window during the frame>
 *              after=<index after the frame> size=<frame bytes> ratio1000=<frame*1000/input> bytes=<bytes through the context>
 *           the case aimed at is cross=1 corr>=1; cross=1 corr=0 means the context restarted its index for another reason (workspace resized)
 *         | FAIL ...
 */
#include <stdio.h>
#include <stdlib.h>
#include <string.h>
#include <sys/mman.h>
#include "zstd_compress.c"   /* to READ the window index of the context; found through -I<repo>/lib/compress */
#include "zvh_common.h"

static unsigned long long rs;
static unsigned rnd(void) { rs = rs * 6364136223846793005ULL + 1442695040888963407ULL; return (unsigned)(rs >> 33); }

enum { A_PREFIX, A_USINGDICT, A_BEGIN };
typedef struct { int api, level, wlog, hlog; } cfg_t;

static size_t frame(ZSTD_CCtx* c, const cfg_t* g, void* dst, size_t cap, const void* src, size_t n, const void* dict, size_t dsz) {
    size_t r;
    switch (g->api) {
    case A_USINGDICT: return ZSTD_compress_usingDict(c, dst, cap, src, n, dict, dsz, g->level);
    case A_BEGIN: r = ZSTD_compressBegin_usingDict(c, dict, dsz, g->level); if (ZSTD_isError(r)) return r; return ZSTD_compressEnd(c, dst, cap, src, n);
    default:
        r = ZSTD_CCtx_setParameter(c, ZSTD_c_compressionLevel, g->level); if (ZSTD_isError(r)) return r;
        if (g->wlog) { r = ZSTD_CCtx_setParameter(c, ZSTD_c_windowLog, g->wlog); if (ZSTD_isError(r)) return r; }
        if (g->hlog) { r = ZSTD_CCtx_setParameter(c, ZSTD_c_hashLog, g->hlog); if (ZSTD_isError(r)) return r; r = ZSTD_CCtx_setParameter(c, ZSTD_c_chainLog, g->hlog); if (ZSTD_isError(r)) return r; }
        r = ZSTD_CCtx_setParameter(c, ZSTD_c_checksumFlag, 1); if (ZSTD_isError(r)) return r;
        if (dsz) { r = ZSTD_CCtx_refPrefix(c, dict, dsz); if (ZSTD_isError(r)) return r; }
        return ZSTD_compress2(c, dst, cap, src, n);
    }
}
static unsigned long long widx(const ZSTD_CCtx* c) { const ZSTD_window_t* w = &c->blockState.matchState.window; return (unsigned long long)(w->nextSrc - w->base); }

static void op_dictwear(void) {
    const char* api = strtok(NULL, " "); cfg_t g; unsigned long long gap, dsz, n, back, seed, total = 0, target, idx0; size_t const big = (size_t)256 << 20;
    unsigned char *zeros, *dict, *src, *a, *b, *bk, *agedst; size_t cap, agecap, ca, cb, i, r; ZSTD_CCtx *lived, *fresh; ZSTD_DCtx* d; unsigned corr0; int guard = 0;
    g.level = atoi(strtok(NULL, " ")); g.wlog = atoi(strtok(NULL, " ")); g.hlog = atoi(strtok(NULL, " "));
    gap = strtoull(strtok(NULL, " "), NULL, 10) << 10; dsz = strtoull(strtok(NULL, " "), NULL, 10) << 10; n = strtoull(strtok(NULL, " "), NULL, 10) << 10; back = strtoull(strtok(NULL, " "), NULL, 10) << 10;
    seed = strtoull(strtok(NULL, " "), NULL, 10);
    g.api = !strcmp(api, "prefix") ? A_PREFIX : !strcmp(api, "usingdict") ? A_USINGDICT : !strcmp(api, "begin") ? A_BEGIN : -1;
    if (g.api < 0 || dsz < 4096 || n < 1024 || back < 2048 || gap >= ZSTD_CURRENT_MAX || dsz > ((size_t)512 << 20)) { printf("bad-op\n"); return; }
    if (back > dsz) back = dsz;
    zeros = (unsigned char*)mmap(NULL, big, PROT_READ, MAP_PRIVATE | MAP_ANONYMOUS, -1, 0); if (zeros == MAP_FAILED) { printf("FAIL setup: mmap\n"); return; }
    agecap = ZSTD_compressBound(big); agedst = (unsigned char*)malloc(agecap); cap = ZSTD_compressBound(n) + 64;
    dict = (unsigned char*)malloc(dsz); src = (unsigned char*)malloc(n); a = (unsigned char*)malloc(cap); b = (unsigned char*)malloc(cap); bk = (unsigned char*)malloc(n);
    lived = ZSTD_createCCtx(); fresh = ZSTD_createCCtx(); d = ZSTD_createDCtx();
    if (!agedst || !dict || !src || !a || !b || !bk || !lived || !fresh || !d) { printf("FAIL setup: memory\n"); return; }
    rs = seed * 2862933555777941757ULL + 3037000493ULL;
    for (i = 0; i + 4 <= dsz; i += 4) { unsigned const v = rnd(); memcpy(dict + i, &v, 4); } for (; i < dsz; i++) dict[i] = (unsigned char)rnd();
    dict[0] = 'r'; dict[1] = 'a'; dict[2] = 'w'; dict[3] = '!';     /* never the magic number of a structured dictionary */
    for (i = 0; i < n; ) {   /* pieces of the last `back` bytes of the dictionary, 200..3000 bytes each, separated by 20..200 bytes of noise */
        size_t len = 200 + rnd() % 2801, o, j; if (len > n - i) len = n - i; if (len > back) len = back;
        o = dsz - back + (size_t)(((unsigned long long)rnd() << 16 ^ rnd()) % (back - len + 1)); memcpy(src + i, dict + o, len); i += len;
        len = 20 + rnd() % 181; if (len > n - i) len = n - i; for (j = 0; j < len; j++) src[i + j] = (unsigned char)rnd(); i += len; }
    /* ageing: ordinary frames, same API and parameters */
    target = (unsigned long long)ZSTD_CURRENT_MAX - gap;
    while (widx(lived) < target && guard++ < 64) {
        unsigned long long const idx = widx(lived); size_t const step = target - idx > big ? big : (size_t)(target - idx);
        r = frame(lived, &g, agedst, agecap, zeros, step, NULL, 0);
        if (ZSTD_isError(r)) { printf("FAIL ageing frame of %zu bytes at index %llu: %s\n", step, idx, ZSTD_getErrorName(r)); return; }
        if (widx(lived) != idx + step && total) { printf("skip the index of the ageing context went from %llu to %llu over a frame of %zu bytes (workspace resized?)\n", idx, widx(lived), step); return; }
        total += step;
    }
    idx0 = widx(lived); corr0 = lived->blockState.matchState.window.nbOverflowCorrections;
    ca = frame(lived, &g, a, cap, src, n, dict, dsz);
    cb = frame(fresh, &g, b, cap, src, n, dict, dsz);
    if (ZSTD_isError(ca) || ZSTD_isError(cb)) {
        printf("FAIL long-lived context -> %s, fresh context -> %s (index %llu at the start of the frame, dictionary %llu bytes, input %llu bytes, %llu bytes through the context)\n",
               ZSTD_isError(ca) ? ZSTD_getErrorName(ca) : "ok", ZSTD_isError(cb) ? ZSTD_getErrorName(cb) : "ok", idx0, dsz, n, total); return; }
    r = ZSTD_decompress_usingDict(d, bk, n, a, ca, dict, dsz);
    if (ZSTD_isError(r) || r != n || memcmp(bk, src, n)) {
        printf("FAIL the frame of the long-lived context does not round-trip (%s): index %llu at the start of the frame, dictionary %llu bytes, input %llu bytes\n", ZSTD_isError(r) ? ZSTD_getErrorName(r) : "content differs", idx0, dsz, n); return; }
    if (ca != cb || memcmp(a, b, ca)) {
        printf("FAIL long-lived context output (%zu bytes) differs from the fresh context output (%zu bytes): %s level %d, index %llu at the start of the frame (ZSTD_CURRENT_MAX - %llu), raw dictionary of %llu bytes, input %llu bytes, "
               "%u rebase(s) during the frame, %llu bytes through the context before\n", ca, cb, api, g.level, idx0, (unsigned long long)ZSTD_CURRENT_MAX - idx0, dsz, n,
               lived->blockState.matchState.window.nbOverflowCorrections - corr0, total); return; }
    printf("ok idx=%llu cross=%d corr=%u after=%llu size=%zu ratio1000=%llu bytes=%llu\n", idx0, idx0 <= (unsigned long long)ZSTD_CURRENT_MAX - (16 << 20) && idx0 + dsz > ZSTD_CURRENT_MAX,
           lived->blockState.matchState.window.nbOverflowCorrections - corr0, widx(lived), ca, (unsigned long long)ca * 1000 / n, total + n);
    ZSTD_freeCCtx(lived); ZSTD_freeCCtx(fresh); ZSTD_freeDCtx(d); free(agedst); free(dict); free(src); free(a); free(b); free(bk); munmap(zeros, big);
}

int main(void) {
    char* line;
    while ((line = zv_getline())) {
        char* op = strtok(line, " "); if (!op) continue;
        if (!strcmp(op, "dictwear")) op_dictwear(); else printf("bad-op\n");
        fflush(stdout);
    }
    return 0;
}
