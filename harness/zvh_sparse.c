/* zvh_sparse — the CLI's sparse writer (programs/fileio_asyncio.c) on arbitrary buffer sequences (C19).
 *   sparse <hex buffer|-> ...   -> size=<file size> sum=<rolling sum of the file content> ops=<s<n>|w<n>,...>   (the seek / write calls issued)
 * fwrite and the relative seek are wrapped (after the system headers) so that the calls are logged; the file is real. */
#include <stdio.h>
#include <stdlib.h>
#include <string.h>
#include <unistd.h>
#include "platform.h"   /* found through -I<repo>/… (tools/build.py), so that ZV_REPO can point at another checkout */
#include "util.h"   /* found through -I<repo>/… (tools/build.py), so that ZV_REPO can point at another checkout */
#include "fileio_common.h"   /* found through -I<repo>/… (tools/build.py), so that ZV_REPO can point at another checkout */
static char g_ops[1 << 16]; static size_t g_opl;
static size_t zv_fwrite(const void* p, size_t sz, size_t n, FILE* f) { g_opl += (size_t)snprintf(g_ops + g_opl, sizeof g_ops - g_opl, "%sw%zu", g_opl ? "," : "", sz * n); return fwrite(p, sz, n, f); }
static int zv_seek(FILE* f, long long off, int whence) { g_opl += (size_t)snprintf(g_ops + g_opl, sizeof g_ops - g_opl, "%ss%lld", g_opl ? "," : "", off); return fseeko(f, (off_t)off, whence); }
#undef LONG_SEEK
#define LONG_SEEK zv_seek
#define fwrite zv_fwrite
#include "fileio_asyncio.c"   /* found through -I<repo>/… (tools/build.py), so that ZV_REPO can point at another checkout */
#undef fwrite
FIO_display_prefs_t g_display_prefs = { 2, FIO_ps_auto };
static int hv(int c) { return c <= '9' ? c - '0' : (c | 32) - 'a' + 10; }

int main(void) {
    char* line = NULL; size_t cap = 0; ssize_t n;
    while ((n = getline(&line, &cap, stdin)) > 0) {
        char* sv = NULL; char* tok; FIO_prefs_t prefs; FILE* f; char path[64]; unsigned skips = 0; unsigned char* back; long size; unsigned long long sum = 7; long i;
        while (n > 0 && (line[n - 1] == '\n' || line[n - 1] == '\r')) line[--n] = 0;
        tok = strtok_r(line, " ", &sv); if (!tok || strcmp(tok, "sparse")) { printf("bad-op\n"); fflush(stdout); continue; }
        memset(&prefs, 0, sizeof prefs); prefs.sparseFileSupport = 2; prefs.testMode = 0;
        snprintf(path, sizeof path, "/tmp/zvsparse.%d", (int)getpid()); f = fopen(path, "wb"); g_opl = 0; g_ops[0] = 0;
        for (tok = strtok_r(NULL, " ", &sv); tok; tok = strtok_r(NULL, " ", &sv)) {
            size_t len = tok[0] == '-' ? 0 : strlen(tok) / 2, k; unsigned char* b = (unsigned char*)malloc(len + 8);      /* malloc'ed, hence aligned on size_t */
            for (k = 0; k < len; k++) b[k] = (unsigned char)(hv(tok[2 * k]) * 16 + hv(tok[2 * k + 1]));
            skips = AIO_fwriteSparse(f, b, len, &prefs, skips); free(b); }
        AIO_fwriteSparseEnd(&prefs, f, skips); fclose(f);
        f = fopen(path, "rb"); fseek(f, 0, SEEK_END); size = ftell(f); fseek(f, 0, SEEK_SET); back = (unsigned char*)malloc((size_t)size + 1); if (fread(back, 1, (size_t)size, f) != (size_t)size) size = -1; fclose(f); unlink(path);
        for (i = 0; i < size; i++) sum = (sum * 31 + back[i]) % 4294967291ULL;
        printf("size=%ld sum=%llu ops=%s\n", size, sum, g_ops); free(back); fflush(stdout);
    }
    return 0;
}
