/* zvh_seqreuse — one compression context that lives across ZSTD_compressSequences calls (C17 / C16).
 *
 *   reuse <id=val,...|-> <hex-src> <off:ll:ml,...|->
 *        On ONE long-lived context (parameters re-applied from the defaults at the start of the line):
 *          seq    ZSTD_compressSequences(src, sequences)                                   -> ok <size> <hash> | err <class>
 *                 (after an error: ZSTD_CCtx_reset(session_only) - the documented way back, as for every other entry point)
 *        then, WITHOUT any other reset, what a caller may do between two frames:
 *          set    ZSTD_CCtx_setParameter(ZSTD_c_checksumFlag, the other value)             -> ok | err <class>
 *          c2     ZSTD_compress2(src)                                                      -> ok <size> <hash> | err <class>
 *          st     ZSTD_compressStream2(first half of src, ZSTD_e_end)                      -> ok <size> <hash> | err <class>
 *          seq2   ZSTD_compressSequences(src, sequences) again                             -> ok <size> <hash> | err <class>
 *          set2   ZSTD_CCtx_setParameter(ZSTD_c_windowLog, 18)   (after seq2)              -> ok | err <class>
 *          rp     ZSTD_CCtx_reset(ZSTD_reset_parameters)                                   -> ok | err <class>
 *        and the same calls (set, c2, st, seq2) on a context created for this line        -> ref: ...
 *   The library objects are linked unchanged; only public / static-linking-only API is used. */
#define ZSTD_STATIC_LINKING_ONLY
#include "zvh_common.h"

static size_t apply(ZSTD_CCtx* c, const char* ps0) {
    size_t r = 0; char* ps = strdup(ps0); char* save = NULL; char* kv;
    for (kv = strtok_r(ps, ",", &save); kv && !ZSTD_isError(r); kv = strtok_r(NULL, ",", &save)) { int id, val; if (sscanf(kv, "%d=%d", &id, &val) == 2) r = ZSTD_CCtx_setParameter(c, (ZSTD_cParameter)id, val); }
    free(ps); return r;
}
static void res(const char* tag, size_t r, const unsigned char* out) {
    if (ZSTD_isError(r)) printf(" %s=err:%s", tag, zv_errclass(r)); else if (out) printf(" %s=ok:%zu:%016llx", tag, r, (unsigned long long)XXH64(out, r, 0)); else printf(" %s=ok", tag);
}
static size_t stream_end(ZSTD_CCtx* c, unsigned char* out, size_t ocap, const unsigned char* in, size_t n) {
    ZSTD_inBuffer ib = { in, n, 0 }; ZSTD_outBuffer ob = { out, ocap, 0 }; size_t r;
    do { r = ZSTD_compressStream2(c, &ob, &ib, ZSTD_e_end); } while (!ZSTD_isError(r) && r != 0 && ob.pos < ob.size);
    return ZSTD_isError(r) ? r : r != 0 ? (size_t)-ZSTD_error_dstSize_tooSmall : ob.pos;
}

int main(void) {
    char* line; ZSTD_CCtx* cc = ZSTD_createCCtx();
    while ((line = zv_getline())) {
        char* op = strtok(line, " "); if (!op) continue;
        if (!strcmp(op, "reuse")) {
            char* ps = strtok(NULL, " "); size_t n; unsigned char* in = zv_unhex(strtok(NULL, " "), &n); char* sq = strtok(NULL, " ");
            size_t ns = 0, cap = 16; ZSTD_Sequence* sv = (ZSTD_Sequence*)malloc(cap * sizeof *sv); char* t; char* s2 = NULL; size_t ocap; unsigned char* out; size_t r; int pass, cks = 0;
            if (sq && sq[0] != '-') for (t = strtok_r(sq, ",", &s2); t; t = strtok_r(NULL, ",", &s2)) { unsigned a, b, c; if (sscanf(t, "%u:%u:%u", &a, &b, &c) == 3) { if (ns == cap) { cap *= 2; sv = (ZSTD_Sequence*)realloc(sv, cap * sizeof *sv); } sv[ns].offset = a; sv[ns].litLength = b; sv[ns].matchLength = c; sv[ns].rep = 0; ns++; } }
            { ZSTD_Sequence* exact = (ZSTD_Sequence*)malloc((ns ? ns : 1) * sizeof *sv); memcpy(exact, sv, ns * sizeof *sv); free(sv); sv = exact; }
            ocap = ZSTD_compressBound(n) + 1024 + 4 * ns; out = (unsigned char*)malloc(ocap);
            for (pass = 0; pass < 2; pass++) {
                ZSTD_CCtx* c = pass ? ZSTD_createCCtx() : cc;
                if (!pass) ZSTD_CCtx_reset(c, ZSTD_reset_session_and_parameters); else printf(" ref:");
                r = apply(c, ps);
                if (ZSTD_isError(r)) { res("params", r, NULL); if (pass) ZSTD_freeCCtx(c); continue; }
                ZSTD_CCtx_getParameter(c, ZSTD_c_checksumFlag, &cks);
                if (!pass) {
                    r = ZSTD_compressSequences(c, out, ocap, sv, ns, in, n); res("seq", r, out);
                    if (ZSTD_isError(r)) ZSTD_CCtx_reset(c, ZSTD_reset_session_only);
                }
                res("set", ZSTD_CCtx_setParameter(c, ZSTD_c_checksumFlag, !cks), NULL);
                r = ZSTD_compress2(c, out, ocap, in, n); res("c2", r, out);
                r = stream_end(c, out, ocap, in, n / 2); res("st", r, out);
                r = ZSTD_compressSequences(c, out, ocap, sv, ns, in, n); res("seq2", r, out);
                if (ZSTD_isError(r)) ZSTD_CCtx_reset(c, ZSTD_reset_session_only);
                if (!pass) { res("set2", ZSTD_CCtx_setParameter(c, ZSTD_c_windowLog, 18), NULL); res("rp", ZSTD_CCtx_reset(c, ZSTD_reset_parameters), NULL); }
                if (pass) ZSTD_freeCCtx(c);
            }
            putchar('\n');
            free(sv); free(out); free(in);
        } else printf("bad-op\n");
        fflush(stdout);
    }
    ZSTD_freeCCtx(cc);
    return 0;
}
