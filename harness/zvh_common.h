/* shared helpers for the line-protocol harnesses */
#ifndef ZVH_COMMON_H
#define ZVH_COMMON_H
#include <stdio.h>
#include <stdlib.h>
#include <string.h>
#include "zstd.h"
#include "zstd_errors.h"
#define XXH_STATIC_LINKING_ONLY
#include "xxhash.h"

static const char* zv_errclass(size_t r) {
    switch (ZSTD_getErrorCode(r)) {
        case ZSTD_error_no_error: return "ok";
        case ZSTD_error_srcSize_wrong: return "srcSize_wrong";
        case ZSTD_error_dstSize_tooSmall: return "dstSize_tooSmall";
        case ZSTD_error_corruption_detected: return "corruption";
        case ZSTD_error_checksum_wrong: return "checksum_wrong";
        case ZSTD_error_dictionary_wrong: return "dictionary_wrong";
        case ZSTD_error_dictionary_corrupted: return "dictionary_corrupted";
        case ZSTD_error_frameParameter_windowTooLarge: return "window_too_large";
        case ZSTD_error_frameParameter_unsupported: return "unsupported";
        case ZSTD_error_prefix_unknown: return "prefix_unknown";
        case ZSTD_error_tableLog_tooLarge: return "tableLog_tooLarge";
        case ZSTD_error_literals_headerWrong: return "literals_headerWrong";
        case ZSTD_error_GENERIC: return "generic";
        case ZSTD_error_memory_allocation: return "memory_allocation";
        case ZSTD_error_stage_wrong: return "stage_wrong";
        case ZSTD_error_parameter_outOfBound: return "parameter_outOfBound";
        case ZSTD_error_parameter_unsupported: return "parameter_unsupported";
        case ZSTD_error_noForwardProgress_destFull: return "noForwardProgress_destFull";
        case ZSTD_error_noForwardProgress_inputEmpty: return "noForwardProgress_inputEmpty";
        case ZSTD_error_externalSequences_invalid: return "externalSequences_invalid";
        case ZSTD_error_sequenceProducer_failed: return "sequenceProducer_failed";
        default: return "other";
    }
}
static int zv_hv(int c) { return c <= '9' ? c - '0' : (c | 32) - 'a' + 10; }
/* decode hex string (may be "-" for empty) into a malloc'd EXACT-size buffer (so ASan redzones sit right at its ends) */
static unsigned char* zv_unhex(const char* s, size_t* n) {
    size_t len = (s[0] == '-' ) ? 0 : strlen(s) / 2, i; unsigned char* b = (unsigned char*)malloc(len ? len : 1);
    for (i = 0; i < len; i++) b[i] = (unsigned char)(zv_hv(s[2*i]) * 16 + zv_hv(s[2*i+1]));
    *n = len; return b;
}
static void zv_puthex(const unsigned char* b, size_t n) {
    static const char d[] = "0123456789abcdef"; size_t i;
    if (!n) { putchar('-'); return; }
    for (i = 0; i < n; i++) { putchar(d[b[i] >> 4]); putchar(d[b[i] & 15]); }
}
/* read one whole line of arbitrary length; returns NULL at EOF */
static char* zv_getline(void) {
    static char* buf; static size_t cap; ssize_t n = getline(&buf, &cap, stdin);
    if (n < 0) return NULL;
    while (n > 0 && (buf[n-1] == '\n' || buf[n-1] == '\r')) buf[--n] = 0;
    return buf;
}
static void zv_result(size_t r, const unsigned char* out) {
    if (ZSTD_isError(r)) printf("err %s\n", zv_errclass(r));
    else printf("ok %zu %016llx\n", r, (unsigned long long)XXH64(out, r, 0));
}
#endif
