/* zvh_seek — line-protocol harness over contrib/seekable_format (compiled from the current tree).
 *   mk <level> <maxFrameSize> <checksum> <hex-src> <in-chunks csv> <out-chunks csv> <endframe-every|0>
 *        build an archive through ZSTD_seekable_compressStream / endFrame / endStream under a call history -> hex archive
 *   tbl <hex-archive>            load (memory mode); print numFrames and, for i in 0..n+1, cOff:dOff:cSize:dSize (E = error)
 *   idx <hex-archive> <pos,...>  ZSTD_seekable_offsetToFrameIndex at each position
 *   rd <mode b|f|c> <hex-archive> <off:len,...>   range reads through memory / FILE* / custom callbacks: per read "n:hash" or "E:class"
 *   mk ... <prior> stat          (optional 9th field) the archive is followed by " partial=<p> calls=<c>": p = ZSTD_seekable_compressStream calls in which the inner
 *        compressor took LESS than the part of the chunk offered to it for the current frame (the caller re-presents the rest), c = all such calls
 *   cks <hex-archive>            the seek table's entries read from the raw bytes, each frame decoded on its own by a regular decoder and through
 *        ZSTD_seekable_decompressFrame: "ok n=<frames> ck=<flag> e=<dSize:storedChecksum,...> bad=<frames whose slice does not decode to dSize bytes or whose
 *        stored checksum is not the low 32 bits of XXH64 of those bytes> rdbad=<frames the seekable reader refuses or returns differently>" */
#include "zvh_common.h"
#include <unistd.h>
#include <signal.h>
#include "zstd_seekable.h"

static void on_alarm(int s) { (void)s; { static const char m[] = "TIMEOUT\n"; if (write(1, m, sizeof m - 1) < 0) {} } _exit(3); }

typedef struct { const unsigned char* p; size_t size; size_t pos; } membuf_t;
static int cb_read(void* o, void* buf, size_t n) { membuf_t* m = (membuf_t*)o; if (m->pos + n > m->size) return -1; memcpy(buf, m->p + m->pos, n); m->pos += n; return 0; }
static int cb_seek(void* o, long long off, int origin) { membuf_t* m = (membuf_t*)o; long long np = origin == SEEK_SET ? off : origin == SEEK_CUR ? (long long)m->pos + off : (long long)m->size + off;
    if (np < 0 || (unsigned long long)np > m->size) return -1; m->pos = (size_t)np; return 0; }

static unsigned rd32(const unsigned char* p) { return (unsigned)p[0] | ((unsigned)p[1] << 8) | ((unsigned)p[2] << 16) | ((unsigned)p[3] << 24); }
static size_t parse_csv(char* s, size_t* a, size_t max) { size_t n = 0; char* sv; char* t; for (t = strtok_r(s, ",", &sv); t && n < max; t = strtok_r(NULL, ",", &sv)) a[n++] = (size_t)strtoull(t, NULL, 10); return n; }

int main(void) {
    char* line; signal(SIGALRM, on_alarm);
    while ((line = zv_getline())) {
        char* op = strtok(line, " "); if (!op) continue;
        alarm(120);
        if (!strcmp(op, "mk")) {
            int level = atoi(strtok(NULL, " ")); unsigned mfs = (unsigned)strtoul(strtok(NULL, " "), NULL, 10); int ck = atoi(strtok(NULL, " ")); size_t n; unsigned char* in = zv_unhex(strtok(NULL, " "), &n);
            size_t ic[64], oc[64]; size_t ni = parse_csv(strtok(NULL, " "), ic, 64), no = parse_csv(strtok(NULL, " "), oc, 64); size_t every = (size_t)strtoull(strtok(NULL, " "), NULL, 10);
            size_t cap = ZSTD_compressBound(n) + 64 * (n / (mfs ? mfs : n + 1) + n / (every ? every : n + 1) + 16) + 4096 + 2 * n, produced = 0, consumed = 0, r = 0, ii = 0, oi = 0, sinceEnd = 0; unsigned char* out = (unsigned char*)malloc(cap);
            ZSTD_seekable_CStream* zcs = ZSTD_seekable_createCStream(); int guard = 0; int wantStat = 0;
            size_t const mfsEff = mfs ? mfs : ZSTD_SEEKABLE_MAX_FRAME_DECOMPRESSED_SIZE; size_t frameD = 0, g_calls = 0, g_partial = 0;
            {   /* optional 8th field: an earlier session on the SAME object that consumed <prior> bytes and was abandoned (no endFrame / endStream) */
                char* pr = strtok(NULL, " "); size_t prior = pr ? (size_t)strtoull(pr, NULL, 10) : 0;
                { char* st = pr ? strtok(NULL, " ") : NULL; wantStat = st && !strcmp(st, "stat"); }
                if (prior) { ZSTD_inBuffer ib; ZSTD_outBuffer ob; size_t scap = ZSTD_compressBound(prior) + 4096; unsigned char* scratch = (unsigned char*)malloc(scap);
                    ZSTD_seekable_initCStream(zcs, level, ck, mfs ? mfs : 0);
                    ib.src = in; ib.size = prior < n ? prior : n; ib.pos = 0; ob.dst = scratch; ob.size = scap; ob.pos = 0;
                    while (ib.pos < ib.size && guard++ < 1000000) { size_t rr = ZSTD_seekable_compressStream(zcs, &ob, &ib); if (ZSTD_isError(rr)) break; }
                    free(scratch); guard = 0; } }
            r = ZSTD_seekable_initCStream(zcs, level, ck, mfs);
            while (!ZSTD_isError(r) && consumed < n && guard++ < 50000000) {
                size_t isz = ic[ii++ % ni], osz = oc[oi++ % no]; ZSTD_inBuffer ib; ZSTD_outBuffer ob;
                if (isz > n - consumed) isz = n - consumed; if (osz > cap - produced) osz = cap - produced;
                ib.src = in + consumed; ib.size = isz; ib.pos = 0; ob.dst = out + produced; ob.size = osz; ob.pos = 0;
                r = ZSTD_seekable_compressStream(zcs, &ob, &ib); if (ZSTD_isError(r)) break;
                {   /* frameD mirrors zcs->frameDSize: a full frame stays pending until its end is flushed (calls that take nothing), the next bytes taken open a new one */
                    if (frameD >= mfsEff && ib.pos > 0) frameD = 0;
                    if (frameD < mfsEff) { size_t const room = mfsEff - frameD, offered = isz < room ? isz : room; g_calls++; if (ib.pos < offered) g_partial++; frameD += ib.pos; } }
                consumed += ib.pos; produced += ob.pos; sinceEnd += ib.pos;
                if (every && sinceEnd >= every) frameD = 0;
                if (every && sinceEnd >= every) { do { size_t o2 = oc[oi++ % no]; if (o2 > cap - produced) o2 = cap - produced; if (!o2) o2 = 1; ob.dst = out + produced; ob.size = o2; ob.pos = 0; r = ZSTD_seekable_endFrame(zcs, &ob); produced += ob.pos; } while (!ZSTD_isError(r) && r != 0 && guard++ < 50000000); sinceEnd = 0; }
            }
            while (!ZSTD_isError(r) && guard++ < 50000000) { ZSTD_outBuffer ob; size_t osz = oc[oi++ % no]; if (osz > cap - produced) osz = cap - produced; if (!osz) osz = 1; ob.dst = out + produced; ob.size = osz; ob.pos = 0;
                r = ZSTD_seekable_endStream(zcs, &ob); produced += ob.pos; if (r == 0) break; }
            if (ZSTD_isError(r)) printf("err %s\n", zv_errclass(r)); else { zv_puthex(out, produced); if (wantStat) printf(" partial=%zu calls=%zu", g_partial, g_calls); putchar('\n'); }
            ZSTD_seekable_freeCStream(zcs); free(in); free(out);
        } else if (!strcmp(op, "tbl") || !strcmp(op, "idx")) {
            size_t n; unsigned char* in = zv_unhex(strtok(NULL, " "), &n); ZSTD_seekable* zs = ZSTD_seekable_create(); size_t r = ZSTD_seekable_initBuff(zs, in, n);
            if (ZSTD_isError(r)) printf("err %s\n", zv_errclass(r));
            else if (!strcmp(op, "tbl")) { unsigned nf = ZSTD_seekable_getNumFrames(zs), i; printf("ok n=%u", nf);
                for (i = 0; i <= nf + 1; i++) { size_t cs = ZSTD_seekable_getFrameCompressedSize(zs, i), ds = ZSTD_seekable_getFrameDecompressedSize(zs, i);
                    unsigned long long co = ZSTD_seekable_getFrameCompressedOffset(zs, i), dof = ZSTD_seekable_getFrameDecompressedOffset(zs, i);
                    if (i < 6 || i + 3 > nf) { if (co == ZSTD_SEEKABLE_FRAMEINDEX_TOOLARGE) printf(" E"); else printf(" %llu:%llu", co, dof); if (ZSTD_isError(cs)) printf(":E"); else printf(":%zu", cs); if (ZSTD_isError(ds)) printf(":E"); else printf(":%zu", ds); } }
                { unsigned long long hc = 0, hd = 0; for (i = 0; i < nf; i++) { hc = hc * 1000003ULL + ZSTD_seekable_getFrameCompressedSize(zs, i); hd = hd * 1000003ULL + ZSTD_seekable_getFrameDecompressedSize(zs, i); } printf(" sums=%llx:%llx\n", hc, hd); } }
            else { size_t ps[256]; size_t np = parse_csv(strtok(NULL, " "), ps, 256), i; printf("ok"); for (i = 0; i < np; i++) printf(" %u", ZSTD_seekable_offsetToFrameIndex(zs, ps[i])); printf("\n"); }
            ZSTD_seekable_free(zs); free(in);
        } else if (!strcmp(op, "rd")) {
            char mode = strtok(NULL, " ")[0]; size_t n; unsigned char* in = zv_unhex(strtok(NULL, " "), &n); char* reads = strtok(NULL, " ");
            ZSTD_seekable* zs = ZSTD_seekable_create(); size_t r; FILE* f = NULL; membuf_t mb; char* sv; char* t;
            mb.p = in; mb.size = n; mb.pos = 0;
            if (mode == 'f') { f = tmpfile(); if (n) fwrite(in, 1, n, f); fflush(f); r = ZSTD_seekable_initFile(zs, f); }
            else if (mode == 'c') { ZSTD_seekable_customFile cf; cf.opaque = &mb; cf.read = cb_read; cf.seek = cb_seek; r = ZSTD_seekable_initAdvanced(zs, cf); }
            else r = ZSTD_seekable_initBuff(zs, in, n);
            if (ZSTD_isError(r)) printf("err %s\n", zv_errclass(r));
            else { printf("ok");
                for (t = strtok_r(reads, ",", &sv); t; t = strtok_r(NULL, ",", &sv)) { unsigned long long off; size_t len; if (sscanf(t, "%llu:%zu", &off, &len) != 2) continue;
                    { unsigned char* dst = (unsigned char*)malloc(len ? len : 1); size_t got = ZSTD_seekable_decompress(zs, dst, len, off);
                      if (ZSTD_isError(got)) printf(" E:%s", zv_errclass(got)); else printf(" %zu:%016llx", got, (unsigned long long)XXH64(dst, got, 0)); free(dst); } }
                printf("\n"); }
            ZSTD_seekable_free(zs); if (f) fclose(f); free(in);
        } else if (!strcmp(op, "cks")) {
            size_t n; unsigned char* in = zv_unhex(strtok(NULL, " "), &n);
            if (n < 17 || rd32(in + n - 4) != ZSTD_SEEKABLE_MAGICNUMBER) printf("err no-seek-table\n");
            else { unsigned const sfd = in[n - 5], ckf = sfd >> 7, nf = rd32(in + n - 9), per = ckf ? 12 : 8; unsigned long long const tsz = (unsigned long long)per * nf + 17;
                if (tsz > n) printf("err table-larger-than-archive\n");
                else { const unsigned char* e = in + (n - (size_t)tsz) + 8; unsigned i, bad = 0, rdbad = 0; unsigned long long coff = 0; ZSTD_seekable* zs = ZSTD_seekable_create(); size_t const ir = ZSTD_seekable_initBuff(zs, in, n);
                    printf("ok n=%u ck=%u e=", nf, ckf);
                    for (i = 0; i < nf; i++, e += per) { unsigned const c = rd32(e), d = rd32(e + 4), stored = ckf ? rd32(e + 8) : 0; unsigned char* dst = (unsigned char*)malloc(d ? d : 1); unsigned char* dst2 = (unsigned char*)malloc(d ? d : 1);
                        size_t const r = (coff + c <= n - tsz) ? ZSTD_decompress(dst, d, in + coff, c) : (size_t)-1;
                        printf("%s%u:%u", i ? "," : "", d, stored);
                        if (ZSTD_isError(r) || r != d || (ckf && (unsigned)(XXH64(dst, d, 0) & 0xFFFFFFFFU) != stored)) bad++;
                        {   size_t const r2 = ZSTD_isError(ir) ? ir : ZSTD_seekable_decompressFrame(zs, dst2, d, i);      /* the reader verifies the frame's checksum itself */
                            if (ZSTD_isError(r2) || r2 != d || (!ZSTD_isError(r) && r == d && memcmp(dst, dst2, d))) rdbad++; }
                        free(dst); free(dst2); coff += c; }
                    printf(" bad=%u rdbad=%u\n", bad, rdbad); ZSTD_seekable_free(zs); } }
            free(in);
        } else if (!strcmp(op, "xxhr")) {
            /* xxhr <hex> <off:len,...> : expected hashes of ranges of a buffer */
            size_t n; unsigned char* in = zv_unhex(strtok(NULL, " "), &n); char* reads = strtok(NULL, " "); char* sv; char* t; printf("ok");
            for (t = strtok_r(reads, ",", &sv); t; t = strtok_r(NULL, ",", &sv)) { unsigned long long off; size_t len; if (sscanf(t, "%llu:%zu", &off, &len) != 2) continue;
                if (off > n) { printf(" 0:%016llx", (unsigned long long)XXH64(in, 0, 0)); continue; } if (len > n - off) len = n - (size_t)off; printf(" %zu:%016llx", len, (unsigned long long)XXH64(in + off, len, 0)); }
            printf("\n"); free(in);
        } else printf("bad-op\n");
        fflush(stdout);
    }
    return 0;
}
