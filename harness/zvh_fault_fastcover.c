#include "zvh_fault_redirect.h"
#include "../../repo/lib/dictBuilder/fastcover.c"
