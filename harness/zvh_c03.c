/* zvh_c03 — directed decoding histories for C03 (memory safety of the decoder on untrusted input, over inputs AND histories AND decoder settings).
 *
 *   trsweep <fmt 0|1> <cap> <hex frames> [dict-hex]
 *       every decompression-parameter setting (cross product of ZSTD_d_forceIgnoreChecksum, ZSTD_d_windowLogMax=10, ZSTD_d_stableOutBuffer,
 *       ZSTD_d_refMultipleDDicts, ZSTD_d_disableHuffmanAssembly, ZSTD_d_maxBlockSize=1024; a subset for long inputs) x every truncation point of the
 *       input (all of them for short inputs; around every field / block / checksum / frame boundary, the first and the last bytes for long ones)
 *       x { ZSTD_decompressDCtx, ZSTD_decompress_usingDDict, ZSTD_decompressStream }.  The truncated input is copied into an EXACT-size heap block,
 *       so that under ASan a read of even one byte past it is reported.
 *       -> trsweep n=<n> combos=<k> cuts=<k> evals=<k> ok=<k> err=<k> over=<0|1> accepted=<combo/mode/cut,...|->
 *          (accepted: strict non-empty prefixes that an entry point took for a complete input, with the first setting / entry point that did; first 16 distinct cuts; the caller asks the model about them)
 *
 *   sdhist <mode e|a> <size-spec> <dparams|-> <steps> <cap0:hex0> [<cap1:hex1> ...]
 *       a STATIC decoding context (ZSTD_initStaticDCtx / ZSTD_initStaticDStream in caller memory) of a size around what the frames need, used for a
 *       history of frames.  mode e: the area is an exact-size heap block (ASan redzone right behind it); mode a: the area lies inside a larger arena
 *       whose remainder is filled with a canary pattern that is checked after every step.
 *       size-spec: W<log>[+k|-k] = ZSTD_estimateDStreamSize(1<<log) +/- k ; D+<k> = ZSTD_estimateDCtxSize() + k ; F<i>[+k|-k] = ZSTD_estimateDStreamSize_fromFrame(frame i) +/- k
 *       steps: csv of <frame index>:<reset>:<in chunk>:<out chunk> ; reset: n none, s ZSTD_DCtx_reset(session_only), i ZSTD_initDStream, p reset(session_and_parameters) +
 *              parameters set again, o = one-shot ZSTD_decompressDCtx with this context (chunks ignored)
 *       every step is also run on a FRESH static context of the same size and settings (reference).
 *       -> sdhist size=<S> dctx=<sizeof> <h-result>|<f-result> ... canary=<ok|DAMAGED@step:offset>      result = ok:<n>:<xxh64> | err:<class> | open:<n> (input exhausted, frame not finished)
 */
#include "mem.h"
#include "zvh_common.h"
#include <signal.h>
#include <unistd.h>
static void on_alarm(int s) { (void)s; { static const char m[] = "TIMEOUT\n"; if (write(1, m, sizeof m - 1) < 0) {} } _exit(3); }

static void set_dparams(ZSTD_DCtx* d, const char* ps) {
    char buf[512]; char* save = NULL; char* kv;
    if (!ps || ps[0] == '-') return;
    strncpy(buf, ps, sizeof buf - 1); buf[sizeof buf - 1] = 0;
    for (kv = strtok_r(buf, ",", &save); kv; kv = strtok_r(NULL, ",", &save)) { int id, val; if (sscanf(kv, "%d=%d", &id, &val) == 2) ZSTD_DCtx_setParameter(d, (ZSTD_dParameter)id, val); }
}

/* ---- boundaries of the fields of a sequence of frames (header end, every block header / block end, checksum, frame end) ---- */
static size_t walk_bounds(const unsigned char* in, size_t n, int fmt, size_t* b, size_t maxb, size_t* fe, size_t* nfe, size_t maxfe) {
    size_t nb = 0, pos = 0; int guard = 0; *nfe = 0;
    while (pos < n && guard++ < 4096 && nb + 8 < maxb) {
        ZSTD_frameHeader zfh; size_t r;
        if (fmt == 0 && n - pos >= 8 && (MEM_readLE32(in + pos) & 0xFFFFFFF0U) == 0x184D2A50U) { size_t sz = 8 + (size_t)MEM_readLE32(in + pos + 4); b[nb++] = pos + 4; b[nb++] = pos + 8; if (sz > n - pos) break; pos += sz; b[nb++] = pos; if (*nfe < maxfe) fe[(*nfe)++] = pos; continue; }
        r = ZSTD_getFrameHeader_advanced(&zfh, in + pos, n - pos, fmt ? ZSTD_f_zstd1_magicless : ZSTD_f_zstd1);
        if (r != 0) break;
        b[nb++] = pos + (fmt ? 0 : 4); b[nb++] = pos + zfh.headerSize; pos += zfh.headerSize;
        for (;;) { unsigned h; size_t cs; if (n - pos < 3 || nb + 8 >= maxb) return nb; h = MEM_readLE24(in + pos); cs = ((h >> 1) & 3) == 1 ? 1 : (h >> 3);
            b[nb++] = pos + 3; if (cs > n - pos - 3) return nb; pos += 3 + cs; b[nb++] = pos; if (h & 1) break; }
        if (zfh.checksumFlag) { if (n - pos < 4) return nb; pos += 4; b[nb++] = pos; }
        if (*nfe < maxfe) fe[(*nfe)++] = pos;      /* end of the frame */
    }
    return nb;
}

static int cmp_sz(const void* a, const void* b) { size_t x = *(const size_t*)a, y = *(const size_t*)b; return x < y ? -1 : x > y; }

static void op_trsweep(void) {
    int fmt = atoi(strtok(NULL, " ")); size_t cap = (size_t)strtoull(strtok(NULL, " "), NULL, 10), n, dn = 0; unsigned char* in = zv_unhex(strtok(NULL, " "), &n);
    char* dh = strtok(NULL, " "); unsigned char* dict = dh ? zv_unhex(dh, &dn) : NULL;
    static const unsigned char rawdict[64] = "the quick brown fox jumps over the lazy dog, again and again...";
    ZSTD_DDict* dd = dict ? ZSTD_createDDict(dict, dn) : ZSTD_createDDict(rawdict, sizeof rawdict);
    unsigned char* out = (unsigned char*)malloc(cap ? cap : 1);
    size_t* cuts = NULL; size_t nc = 0, i, k;
    static const int few[] = { 0, 1, 1 | 4, 1 | 2, 1 | 32, 63, 4, 2 }; int ncombo, ci;
    unsigned long evals = 0, nok = 0, nerr = 0; int over = 0; char acc[800]; size_t al = 0; int nacc = 0; size_t acut[16];
    ZSTD_DCtx* d = ZSTD_createDCtx();
    acc[0] = 0;
    if (n <= 600) { cuts = (size_t*)malloc((n + 1) * sizeof(size_t)); for (i = 1; i <= n; i++) cuts[nc++] = i; ncombo = 64; }
    else {
        size_t* b = (size_t*)malloc(16384 * sizeof(size_t)); size_t fe[64], nfe = 0; size_t nb = walk_bounds(in, n, fmt, b, 16384, fe, &nfe, 64); int big = n > 4096; long dl;
        cuts = (size_t*)malloc((128 + 7 * nb + 8 * 64) * sizeof(size_t));
        for (i = 1; i <= 24 && i <= n; i++) cuts[nc++] = i;
        for (i = 0; i < 12 && i < n; i++) cuts[nc++] = n - i;
        for (k = 0; k < nb; k++) for (dl = (big ? -1 : -3); dl <= (big ? 1 : 3); dl++) { long c = (long)b[k] + dl; if (c >= 1 && (size_t)c <= n) cuts[nc++] = (size_t)c; }
        if (!big) for (i = 1; i < 40; i++) cuts[nc++] = 1 + (n - 1) * i / 40;
        qsort(cuts, nc, sizeof(size_t), cmp_sz); { size_t w = 0; for (i = 0; i < nc; i++) if (!w || cuts[w - 1] != cuts[i]) cuts[w++] = cuts[i]; nc = w; }
        if (nc > 400) { /* keep the head, the tail and a regular sample of the middle */ size_t w = 0, const_step = nc / 300 + 1; for (i = 0; i < nc; i++) if (i < 40 || i + 60 >= nc || (i % const_step) == 0) cuts[w++] = cuts[i]; nc = w; }
        /* never thinned: each of the last 7 cut points of every frame (inside and just before its content checksum / last block) */
        for (k = 0; k < nfe; k++) for (dl = -7; dl <= 0; dl++) { long c = (long)fe[k] + dl; if (c >= 1 && (size_t)c <= n) cuts[nc++] = (size_t)c; }
        qsort(cuts, nc, sizeof(size_t), cmp_sz); { size_t w = 0; for (i = 0; i < nc; i++) if (!w || cuts[w - 1] != cuts[i]) cuts[w++] = cuts[i]; nc = w; }
        ncombo = big ? (int)(sizeof few / sizeof few[0]) : 64;
        free(b);
    }
    for (ci = 0; ci < ncombo; ci++) {
        int const c = ncombo == 64 ? ci : few[ci]; int m;
        for (m = 0; m < 3; m++) {
            if (m == 1 && !(c & 8) && !dict) continue;                  /* the DDict entry point: with a dictionary given, or in the multi-DDict settings */
            for (k = 0; k < nc; k++) {
                size_t const cut = cuts[k]; unsigned char* piece = (unsigned char*)malloc(cut); size_t r; int complete = 0;
                memcpy(piece, in, cut);
                ZSTD_DCtx_reset(d, ZSTD_reset_session_and_parameters);
                ZSTD_DCtx_setParameter(d, ZSTD_d_format, fmt ? ZSTD_f_zstd1_magicless : ZSTD_f_zstd1);
                if (c & 1) ZSTD_DCtx_setParameter(d, ZSTD_d_forceIgnoreChecksum, ZSTD_d_ignoreChecksum);
                if (c & 2) ZSTD_DCtx_setParameter(d, ZSTD_d_windowLogMax, 10);
                if (c & 4) ZSTD_DCtx_setParameter(d, ZSTD_d_stableOutBuffer, 1);
                if (c & 8) ZSTD_DCtx_setParameter(d, ZSTD_d_refMultipleDDicts, ZSTD_rmd_refMultipleDDicts);
                if (c & 16) ZSTD_DCtx_setParameter(d, ZSTD_d_disableHuffmanAssembly, 1);
                if (c & 32) ZSTD_DCtx_setParameter(d, ZSTD_d_maxBlockSize, 1024);
                if (m == 0) { if (dict && !(c & 8)) r = ZSTD_decompress_usingDict(d, out, cap, piece, cut, dict, dn); else r = ZSTD_decompressDCtx(d, out, cap, piece, cut); complete = !ZSTD_isError(r); }
                else if (m == 1) { if (c & 8) ZSTD_DCtx_refDDict(d, dd); r = ZSTD_decompress_usingDDict(d, out, cap, piece, cut, dd); complete = !ZSTD_isError(r); }
                else { ZSTD_inBuffer ib = { piece, cut, 0 }; ZSTD_outBuffer ob = { out, cap, 0 }; int calls = 0, idle = 0; r = 1;
                    if (dict || (c & 8)) ZSTD_DCtx_refDDict(d, dd);
                    while (calls++ < 100000) { size_t const ip0 = ib.pos, op0 = ob.pos; r = ZSTD_decompressStream(d, &ob, &ib); if (ZSTD_isError(r)) break;
                        if (ob.pos > ob.size || ib.pos > ib.size) { over = 1; break; }
                        if (ib.pos == ip0 && ob.pos == op0) { if (++idle >= 2) break; } else idle = 0;
                        if (r == 0 && ib.pos == ib.size) break; }
                    complete = !ZSTD_isError(r) && r == 0 && ib.pos == cut; if (!ZSTD_isError(r)) r = ob.pos; }
                evals++;
                if (ZSTD_isError(r)) nerr++; else { nok++; if (r > cap) over = 1; }
                if (complete && cut < n && nacc < 16) { int q, seen = 0; for (q = 0; q < nacc; q++) if (acut[q] == cut) seen = 1;
                    if (!seen) { acut[nacc++] = cut; al += (size_t)sprintf(acc + al, "%s%d/%c/%zu", al ? "," : "", c, "ods"[m], cut); } }
                free(piece);
            }
        }
    }
    printf("trsweep n=%zu combos=%d cuts=%zu evals=%lu ok=%lu err=%lu over=%d accepted=%s\n", n, ncombo, nc, evals, nok, nerr, over, al ? acc : "-");
    ZSTD_freeDCtx(d); ZSTD_freeDDict(dd); free(cuts); free(out); free(in); free(dict);
}

/* ---- static decoding context histories ---- */
typedef struct { unsigned char* in; size_t n, cap; } sd_frame;

static void sd_res(char* dst, size_t r, int finished, const unsigned char* out, size_t produced) {
    if (ZSTD_isError(r)) sprintf(dst, "err:%s", zv_errclass(r));
    else if (!finished) sprintf(dst, "open:%zu", produced);
    else sprintf(dst, "ok:%zu:%016llx", produced, (unsigned long long)XXH64(out, produced, 0));
}

/* one step on context d: returns the result string; the input is handed over in exact-size heap pieces */
static void sd_step(ZSTD_DCtx* d, const sd_frame* f, char reset, size_t ic, size_t oc, const char* dparams, char* res, int* overcap) {
    unsigned char* out = (unsigned char*)malloc(f->cap ? f->cap : 1); size_t consumed = 0, produced = 0, r = 1; int calls = 0, idle = 0, finished = 0;
    if (reset == 's') ZSTD_DCtx_reset(d, ZSTD_reset_session_only);
    else if (reset == 'i') ZSTD_initDStream(d);
    else if (reset == 'p') { ZSTD_DCtx_reset(d, ZSTD_reset_session_and_parameters); set_dparams(d, dparams); }
    if (reset == 'o') { unsigned char* piece = (unsigned char*)malloc(f->n ? f->n : 1); memcpy(piece, f->in, f->n); r = ZSTD_decompressDCtx(d, out, f->cap, piece, f->n); free(piece);
        if (!ZSTD_isError(r)) { produced = r; finished = 1; if (r > f->cap) *overcap = 1; } }
    else {
        if (ic == 0) ic = 1;
        while (calls++ < 400000) {
            size_t isz = ic > f->n - consumed ? f->n - consumed : ic, osz = oc > f->cap - produced ? f->cap - produced : oc;
            unsigned char* piece = (unsigned char*)malloc(isz ? isz : 1); ZSTD_inBuffer ib; ZSTD_outBuffer ob;
            memcpy(piece, f->in + consumed, isz); ib.src = piece; ib.size = isz; ib.pos = 0; ob.dst = out + produced; ob.size = osz; ob.pos = 0;
            r = ZSTD_decompressStream(d, &ob, &ib); free(piece);
            if (ZSTD_isError(r)) break;
            if (ob.pos > osz || ib.pos > isz) { *overcap = 1; break; }
            consumed += ib.pos; produced += ob.pos;
            if (r == 0 && consumed == f->n) { finished = 1; break; }
            if (ib.pos == 0 && ob.pos == 0) { if (++idle >= 3) break; } else idle = 0;
        }
    }
    sd_res(res, r, finished, out, produced);
    free(out);
}

static size_t sd_size(const char* spec, const sd_frame* fr, int nf) {
    size_t base = 0; const char* p = spec + 1; long k = 0; char* e;
    if (spec[0] == 'W') { long lg = strtol(p, &e, 10); base = ZSTD_estimateDStreamSize((size_t)1 << lg); p = e; }
    else if (spec[0] == 'D') { base = ZSTD_estimateDCtxSize(); }
    else if (spec[0] == 'F') { long i = strtol(p, &e, 10); p = e; if (i < 0 || i >= nf) return 0; base = ZSTD_estimateDStreamSize_fromFrame(fr[i].in, fr[i].n); if (ZSTD_isError(base)) return 0; }
    else return (size_t)strtoull(spec, NULL, 10);
    if (*p == '+' || *p == '-') k = strtol(p, NULL, 10);
    if (k < 0 && (size_t)(-k) > base) return 0;
    return (size_t)((long)base + k);
}

#define SD_TAIL ((size_t)1280 << 10)
#define SD_HEAD ((size_t)4096)
static void op_sdhist(void) {
    char mode = strtok(NULL, " ")[0]; char* spec = strtok(NULL, " "); char* dparams = strtok(NULL, " "); char* steps = strtok(NULL, " ");
    sd_frame fr[16]; int nf = 0, i, stepno = 0, overcap = 0; char* t; size_t S; unsigned char* arena = NULL; unsigned char* area; unsigned char* farea;
    ZSTD_DCtx* d; char* sv = NULL; char dmg[64]; int useStream = 0;
    while ((t = strtok(NULL, " ")) && nf < 16) { char* c = strchr(t, ':'); if (!c) break; *c = 0; fr[nf].cap = (size_t)strtoull(t, NULL, 10); fr[nf].in = zv_unhex(c + 1, &fr[nf].n); nf++; }
    S = sd_size(spec, fr, nf); dmg[0] = 0;
    if (S == 0) { printf("sdhist bad-size\n"); goto done; }
    if (mode == 'a') { arena = (unsigned char*)malloc(SD_HEAD + S + SD_TAIL); memset(arena, 0xA5, SD_HEAD + S + SD_TAIL); area = arena + SD_HEAD; }
    else area = (unsigned char*)malloc(S);
    farea = (unsigned char*)malloc(S);
    useStream = (int)(S & 8) != 0;      /* both spellings of the initialiser */
    d = useStream ? ZSTD_initStaticDStream(area, S) : ZSTD_initStaticDCtx(area, S);
    printf("sdhist size=%zu dctx=%zu", S, ZSTD_estimateDCtxSize());
    if (!d) { printf(" init-null\n"); free(farea); if (arena) free(arena); else free(area); goto done; }
    set_dparams(d, dparams);
    for (t = strtok_r(steps, ",", &sv); t; t = strtok_r(NULL, ",", &sv), stepno++) {
        int fi = 0; char rk = 's'; unsigned long ic = 1000, oc = 4096; char hres[96], fres[96]; ZSTD_DCtx* f;
        if (sscanf(t, "%d:%c:%lu:%lu", &fi, &rk, &ic, &oc) < 2 || fi < 0 || fi >= nf) { printf(" bad-step"); continue; }
        sd_step(d, &fr[fi], rk, ic, oc, dparams, hres, &overcap);
        f = ZSTD_initStaticDCtx(farea, S); set_dparams(f, dparams);
        sd_step(f, &fr[fi], rk == 'o' ? 'o' : 'n', ic, oc, dparams, fres, &overcap);
        printf(" %s|%s", hres, fres);
        if (arena && !dmg[0]) { size_t k; for (k = 0; k < SD_HEAD; k++) if (arena[k] != 0xA5) { sprintf(dmg, "DAMAGED@%d:-%zu", stepno, SD_HEAD - k); break; }
            if (!dmg[0]) for (k = 0; k < SD_TAIL; k++) if (arena[SD_HEAD + S + k] != 0xA5) { sprintf(dmg, "DAMAGED@%d:+%zu", stepno, k); break; } }
    }
    printf(" overcap=%d canary=%s\n", overcap, dmg[0] ? dmg : "ok");
    free(farea); if (arena) free(arena); else free(area);
done:
    for (i = 0; i < nf; i++) free(fr[i].in);
}

int main(void) {
    char* line;
    signal(SIGALRM, on_alarm);
    while ((line = zv_getline())) {
        char* op = strtok(line, " "); if (!op) continue;
        alarm(120);
        if (!strcmp(op, "trsweep")) op_trsweep();
        else if (!strcmp(op, "sdhist")) op_sdhist();
        else printf("bad-op\n");
        fflush(stdout);
    }
    return 0;
}
