/* zvh_pool — runs a client program against the REAL lib/common/pool.c (included below with the
 * ZSTD_pthread_* primitives interposed) and prints the trace of critical sections.
 *
 * stdin:  pool <threads> <queueSize>
 *         client <op> <op> ...        ops: add:J tryadd:J join resize:N free     (one line per client thread; client 0 = main)
 *         body <J> <op> ...           ops: add:J tryadd:J                          (what job J does when it runs)
 *                                     waitfree : the job waits until the freeing client is inside POOL_free (no pool call; the posts that follow race with the shutdown)
 *         run <seed> <perturb>        perturb: 0 none, 1 random yields/sleeps before every primitive
 * stdout: one event per line, in the order the critical sections really happened:
 *         sec <thread> <acts,...|-> <head> <tail> <empty> <busy> <limit> <cap> <shutdown>
 *         act <thread> <bcastPush|bcastPop>          (POOL_join's broadcasts, issued outside the mutex)
 *         exec <thread> <J>      done <thread> <J>    tryret <thread> <J> <0|1>    addret <thread> <J>
 *         joinret <thread>       resizeret <thread> <N> <rc>   freeret <thread>
 *         monitor <ok|FAIL ...>  (property-level monitors evaluated by the harness alone)
 * thread names: C<i> for client i, W<k> for the k-th worker created. */
#define _GNU_SOURCE
#include <stdio.h>
#include <stdlib.h>
#include <string.h>
#include <unistd.h>
#include <time.h>
#include <pthread.h>
#include "threading.h"

/* ---- interposition (macros are expanded inside pool.c) ---- */
static int zv_lock(pthread_mutex_t* m);
static int zv_unlock(pthread_mutex_t* m);
static int zv_wait(pthread_cond_t* c, pthread_mutex_t* m);
static int zv_signal(pthread_cond_t* c);
static int zv_broadcast(pthread_cond_t* c);
static int zv_create(pthread_t* t, const void* attr, void* (*fn)(void*), void* arg);
static int zv_join(pthread_t t);
#undef ZSTD_pthread_mutex_lock
#undef ZSTD_pthread_mutex_unlock
#undef ZSTD_pthread_cond_wait
#undef ZSTD_pthread_cond_signal
#undef ZSTD_pthread_cond_broadcast
#undef ZSTD_pthread_create
#undef ZSTD_pthread_join
#define ZSTD_pthread_mutex_lock(a) zv_lock(a)
#define ZSTD_pthread_mutex_unlock(a) zv_unlock(a)
#define ZSTD_pthread_cond_wait(a, b) zv_wait((a), (b))
#define ZSTD_pthread_cond_signal(a) zv_signal(a)
#define ZSTD_pthread_cond_broadcast(a) zv_broadcast(a)
#define ZSTD_pthread_create(a, b, c, d) zv_create((a), (b), (c), (d))
#define ZSTD_pthread_join(a) zv_join(a)
#include "pool.c"   /* found through -I<repo>/… (tools/build.py), so that ZV_REPO can point at another checkout */

/* ---- log ---- */
static pthread_mutex_t g_log = PTHREAD_MUTEX_INITIALIZER;
static char* g_buf; static size_t g_len, g_cap;
static void logf_(const char* fmt, ...) __attribute__((format(printf, 1, 2)));
#include <stdarg.h>
static void logf_(const char* fmt, ...) {
    va_list ap; char tmp[256]; int n;
    va_start(ap, fmt); n = vsnprintf(tmp, sizeof tmp, fmt, ap); va_end(ap);
    pthread_mutex_lock(&g_log);
    if (g_len + (size_t)n + 1 > g_cap) { g_cap = (g_cap + n + 1) * 2; g_buf = (char*)realloc(g_buf, g_cap); }
    memcpy(g_buf + g_len, tmp, (size_t)n); g_len += (size_t)n;
    pthread_mutex_unlock(&g_log);
}
static volatile long g_progress;

/* ---- per-thread state ---- */
static __thread char t_name[16] = "?";
static __thread int t_inSection = 0;
static __thread char t_acts[128];
static __thread unsigned t_rng;
static int g_perturb = 0; static unsigned g_seed = 1;
static POOL_ctx* g_pool;

static void perturb(void) {
    if (!g_perturb) return;
    t_rng = t_rng * 1103515245u + 12345u;
    switch ((t_rng >> 16) & 7) { case 0: sched_yield(); break; case 1: usleep((t_rng >> 20) & 255); break; case 2: usleep(((t_rng >> 20) & 15) * 100); break; default: break; }
}
static void addact(const char* a) { if (t_acts[0]) strcat(t_acts, ","); strcat(t_acts, a); }
/* Under ThreadSanitizer the harness must not add accesses of its own to what it observes: the workers start inside POOL_create, before main has stored
 * g_pool and while POOL_create_advanced still writes threadCapacity / threadLimit (fields the real POOL_thread does not read before the first job is
 * queued) - the section log would read both.  The TSan build therefore logs no pool fields (traces are compared in the plain build) and tells the two
 * condition variables apart without g_pool. */
#if defined(__has_feature)
#  if __has_feature(thread_sanitizer)
#    define ZV_TSAN 1
#  endif
#endif
#if defined(__SANITIZE_THREAD__) && !defined(ZV_TSAN)
#  define ZV_TSAN 1
#endif
#ifdef ZV_TSAN
static const char* condname(pthread_cond_t* c) { (void)c; return "X"; }
#else
static const char* condname(pthread_cond_t* c) { return (g_pool && c == &g_pool->queuePushCond) ? "Push" : "Pop"; }
#endif
static void emit_section(void) {
#ifdef ZV_TSAN
    POOL_ctx* p = NULL;
#else
    POOL_ctx* p = g_pool;
#endif
    if (p) logf_("sec %s %s %zu %zu %d %zu %zu %zu %d\n", t_name, t_acts[0] ? t_acts : "-", p->queueHead, p->queueTail, p->queueEmpty,
                 p->numThreadsBusy, p->threadLimit, p->threadCapacity, p->shutdown);
    t_acts[0] = 0; __atomic_add_fetch(&g_progress, 1, __ATOMIC_SEQ_CST);
}
static int zv_lock(pthread_mutex_t* m) { int r; perturb(); r = pthread_mutex_lock(m); t_inSection = 1; t_acts[0] = 0; return r; }
static int zv_unlock(pthread_mutex_t* m) { emit_section(); t_inSection = 0; return pthread_mutex_unlock(m); }
static int zv_wait(pthread_cond_t* c, pthread_mutex_t* m) {
    int r; char a[16]; sprintf(a, "wait%s", condname(c)); addact(a); emit_section();
    r = pthread_cond_wait(c, m); t_acts[0] = 0; perturb(); return r;
}
static int zv_signal(pthread_cond_t* c) { char a[16]; sprintf(a, "signal%s", condname(c));
    if (t_inSection) addact(a); else logf_("act %s %s\n", t_name, a); return pthread_cond_signal(c); }
static int zv_broadcast(pthread_cond_t* c) { char a[16]; sprintf(a, "bcast%s", condname(c));
    if (t_inSection) addact(a); else logf_("act %s %s\n", t_name, a); return pthread_cond_broadcast(c); }

typedef struct { void* (*fn)(void*); void* arg; int idx; } wstart_t;
static int g_workers = 0;
static int g_created = 0, g_joined = 0, g_joinErrors = 0, g_exitedWorkers = 0;       /* thread accounting: POOL_free must join every worker it created */
static void* wstart(void* o) { wstart_t w = *(wstart_t*)o; void* r; free(o); sprintf(t_name, "W%d", w.idx); t_rng = g_seed * 7919u + (unsigned)w.idx * 104729u + 17; r = w.fn(w.arg); __atomic_add_fetch(&g_exitedWorkers, 1, __ATOMIC_SEQ_CST); return r; }
static int zv_create(pthread_t* t, const void* attr, void* (*fn)(void*), void* arg) {
    wstart_t* w = (wstart_t*)malloc(sizeof *w); (void)attr; w->fn = fn; w->arg = arg; w->idx = __atomic_fetch_add(&g_workers, 1, __ATOMIC_SEQ_CST);
    { int const r = pthread_create(t, NULL, wstart, w); if (r == 0) __atomic_add_fetch(&g_created, 1, __ATOMIC_SEQ_CST); return r; }
}
static int zv_join(pthread_t t) { int const r = t ? pthread_join(t, NULL) : 3 /* ESRCH: a zeroed handle */; if (r == 0) __atomic_add_fetch(&g_joined, 1, __ATOMIC_SEQ_CST); else __atomic_add_fetch(&g_joinErrors, 1, __ATOMIC_SEQ_CST); return r; }

/* ---- programs ---- */
#define MAXJ 256
#define MAXOPS 64
typedef struct { char kind; int arg; } op_t;       /* a add, t tryadd, j join, r resize, f free */
typedef struct { op_t ops[MAXOPS]; int n; } prog_t;
static prog_t g_clients[8]; static int g_nclients;
static prog_t g_body[MAXJ];
static int g_execCount[MAXJ], g_doneCount[MAXJ], g_acceptedCount[MAXJ];
static int g_maybeCount[MAXJ];      /* blocking posts made after POOL_free was entered: POOL_add has no return value, the job may or may not have been queued */
static volatile int g_freeEntered;  /* the freeing client is about to call POOL_free (set just before the call) */
static pthread_mutex_t g_mon = PTHREAD_MUTEX_INITIALIZER;
static char g_fail[512];
static void fail(const char* fmt, ...) { va_list ap; pthread_mutex_lock(&g_mon); if (!g_fail[0]) { va_start(ap, fmt); vsnprintf(g_fail, sizeof g_fail, fmt, ap); va_end(ap); } pthread_mutex_unlock(&g_mon); }

static void jobfn(void* o);
static void do_add(int j, int isTry) {
    if (isTry) { int r = POOL_tryAdd(g_pool, jobfn, (void*)(size_t)j);
        if (r) { pthread_mutex_lock(&g_mon); g_acceptedCount[j]++; pthread_mutex_unlock(&g_mon); }
        logf_("tryret %s %d %d\n", t_name, j, r); }
    else { int const late = __atomic_load_n(&g_freeEntered, __ATOMIC_SEQ_CST);
        POOL_add(g_pool, jobfn, (void*)(size_t)j);
        pthread_mutex_lock(&g_mon); if (late) g_maybeCount[j]++; else g_acceptedCount[j]++; pthread_mutex_unlock(&g_mon);
        logf_("addret %s %d\n", t_name, j); }
}
static void jobfn(void* o) {
    int j = (int)(size_t)o, k;
    pthread_mutex_lock(&g_mon); g_execCount[j]++; pthread_mutex_unlock(&g_mon);
    logf_("exec %s %d\n", t_name, j);
    perturb();
    for (k = 0; k < g_body[j].n; k++) {
        op_t op = g_body[j].ops[k];
        if (op.kind == 's') usleep((unsigned)op.arg * 1000);
        else if (op.kind == 'w') { for (;;) { int d; pthread_mutex_lock(&g_mon); d = g_doneCount[op.arg]; pthread_mutex_unlock(&g_mon); if (d) break; usleep(1000); } }
        else if (op.kind == 'F') { long n = 0; while (!__atomic_load_n(&g_freeEntered, __ATOMIC_SEQ_CST) && n++ < 20000) usleep(500);   /* at most 10 s: a program without free must not hang */
            usleep(20000); }                                                     /* POOL_join sets the shutdown flag within microseconds of the call */
        else if (op.kind == 'a' || op.kind == 't') do_add(op.arg, op.kind == 't');
    }
    pthread_mutex_lock(&g_mon); g_doneCount[j]++; pthread_mutex_unlock(&g_mon);
    logf_("done %s %d\n", t_name, j);
}
static pthread_t g_cthreads[8];
static void run_client(int ci) {
    int k;
    for (k = 0; k < g_clients[ci].n; k++) {
        op_t op = g_clients[ci].ops[k];
        perturb();
        switch (op.kind) {
            case 'a': do_add(op.arg, 0); break;
            case 't': do_add(op.arg, 1); break;
            case 'j': {
                int acc[MAXJ], j; pthread_mutex_lock(&g_mon); memcpy(acc, g_acceptedCount, sizeof acc); pthread_mutex_unlock(&g_mon);
                POOL_joinJobs(g_pool);
                pthread_mutex_lock(&g_mon);
                for (j = 0; j < MAXJ; j++) if (acc[j] > g_doneCount[j]) { pthread_mutex_unlock(&g_mon); fail("joinJobs returned while job %d accepted before the call had not finished", j); pthread_mutex_lock(&g_mon); break; }
                pthread_mutex_unlock(&g_mon);
                logf_("joinret %s\n", t_name); break; }
            case 'r': { int rc = POOL_resize(g_pool, (size_t)op.arg); logf_("resizeret %s %d %d\n", t_name, op.arg, rc); break; }
            case 'b': { int c; for (c = 1; c < g_nclients; c++) if (g_cthreads[c]) { pthread_join(g_cthreads[c], NULL); g_cthreads[c] = 0; } break; }
            case 's': usleep((unsigned)op.arg * 1000); break;
            case 'f': { int c; for (c = 1; c < g_nclients; c++) if (g_cthreads[c]) { pthread_join(g_cthreads[c], NULL); g_cthreads[c] = 0; }  /* no OTHER thread uses the pool; jobs still running on its own workers may (POOL_free joins them first) */
                __atomic_store_n(&g_freeEntered, 1, __ATOMIC_SEQ_CST);
                POOL_free(g_pool); g_pool = NULL; logf_("freeret %s\n", t_name); break; }
        }
    }
}
static void* cstart(void* o) { int ci = (int)(size_t)o; sprintf(t_name, "C%d", ci); t_rng = g_seed * 31337u + (unsigned)ci * 7u + 3; run_client(ci); return NULL; }

static void parse_ops(char* s, prog_t* p) {
    char* tok; p->n = 0;
    for (tok = strtok(s, " \n"); tok && p->n < MAXOPS; tok = strtok(NULL, " \n")) {
        op_t o = { 0, 0 };
        if (!strncmp(tok, "add:", 4)) { o.kind = 'a'; o.arg = atoi(tok + 4); }
        else if (!strncmp(tok, "tryadd:", 7)) { o.kind = 't'; o.arg = atoi(tok + 7); }
        else if (!strcmp(tok, "join")) o.kind = 'j';
        else if (!strncmp(tok, "resize:", 7)) { o.kind = 'r'; o.arg = atoi(tok + 7); }
        else if (!strcmp(tok, "free")) o.kind = 'f';
        else if (!strcmp(tok, "barrier")) o.kind = 'b';                                   /* wait for the other client threads (no pool call) */
        else if (!strncmp(tok, "sleep:", 6)) { o.kind = 's'; o.arg = atoi(tok + 6); }     /* milliseconds (no pool call) */
        else if (!strcmp(tok, "waitfree")) o.kind = 'F';                                   /* job body: wait until POOL_free has been entered (no pool call) */
        else if (!strncmp(tok, "waitdone:", 9)) { o.kind = 'w'; o.arg = atoi(tok + 9); }  /* spin until job finished (no pool call) */
        else continue;
        p->ops[p->n++] = o;
    }
}
static void* watchdog(void* o) {
    long last = -1; int idle = 0; (void)o;
    for (;;) { usleep(200000); { long const now = __atomic_load_n(&g_progress, __ATOMIC_SEQ_CST); if (now == last) idle++; else { idle = 0; last = now; } }
        if (idle >= 25) { fwrite(g_buf, 1, g_len, stdout); printf("monitor FAIL hang: no critical section for 5 s (deadlock / lost wake-up)\n"); fflush(stdout); _exit(3); } }
    return NULL;
}
int main(void) {
    char line[1024]; int threads = 1, qs = 0, c, j; pthread_t wd;
    while (fgets(line, sizeof line, stdin)) {
        if (!strncmp(line, "pool ", 5)) sscanf(line + 5, "%d %d", &threads, &qs);
        else if (!strncmp(line, "client", 6)) parse_ops(line + 6, &g_clients[g_nclients++]);
        else if (!strncmp(line, "body ", 5)) { int jj = atoi(line + 5); char* p = strchr(line + 5, ' '); if (p && jj >= 0 && jj < MAXJ) parse_ops(p, &g_body[jj]); }
        else if (!strncmp(line, "run ", 4)) { sscanf(line + 4, "%u %d", &g_seed, &g_perturb); break; }
    }
    sprintf(t_name, "C0"); t_rng = g_seed * 31337u + 3;
    pthread_create(&wd, NULL, watchdog, NULL);
    g_pool = POOL_create((size_t)threads, (size_t)qs);
    if (!g_pool) { printf("monitor FAIL POOL_create returned NULL\n"); return 1; }
    for (c = 1; c < g_nclients; c++) pthread_create(&g_cthreads[c], NULL, cstart, (void*)(size_t)c);
    run_client(0);
    if (g_pool) { for (c = 1; c < g_nclients; c++) if (g_cthreads[c]) pthread_join(g_cthreads[c], NULL); }
    /* final monitors: only meaningful once the pool was freed (all accepted jobs must have run) */
    for (j = 0; j < MAXJ; j++) {
        if (g_execCount[j] > g_acceptedCount[j] + g_maybeCount[j]) fail("job %d executed %d times but accepted %d times", j, g_execCount[j], g_acceptedCount[j] + g_maybeCount[j]);
        if (!g_pool && g_execCount[j] < g_acceptedCount[j]) fail("job %d accepted %d times, executed %d times by the time the pool was freed", j, g_acceptedCount[j], g_execCount[j]);
        if (g_doneCount[j] != g_execCount[j]) fail("job %d started %d times, finished %d", j, g_execCount[j], g_doneCount[j]);
    }
    if (!g_pool && (g_joined != g_created || g_joinErrors || g_exitedWorkers != g_created))
        fail("POOL_free returned with %d worker threads created, %d joined (%d join errors), %d exited", g_created, g_joined, g_joinErrors, g_exitedWorkers);
    fwrite(g_buf, 1, g_len, stdout);
    if (g_fail[0]) printf("monitor FAIL %s\n", g_fail); else printf("monitor ok\n");
    return 0;
}
