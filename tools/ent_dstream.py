"""Differential tie between the deterministic Lean model of the streaming decompressor (lean/ZstdVerif/Model/DStream.lean:
ZSTD_decompressStream + the ZSTD_decompressContinue stage machine) and the C code.

C side: harness/zvh_dstream.c; Lean side: `zvdriver dstream` (lean/Driver/DStream.lean).  One op per line:
  ds <cap> <hex stream> <in sizes csv> <out sizes csv> [limit] [windowLogMax]
      -> "ds" followed by one " consumed:produced:ret" triple for EVERY call (ret = E<class> or the numeric return value)
The two lines must be identical: every call of the real decoder consumes, produces and returns exactly what the model says.
"""
import build, zv, frames, datagen

MAGIC = 0xFD2FB528
DID = [0, 1, 2, 4]
FCS = [0, 2, 4, 8]


def harness(variant="plain"):
    return build.link("zvh_dstream", ["zvh_dstream.c"], variant)


def boundaries(stream):
    """offsets of every structural boundary of a valid stream: frame starts, end of each frame header, each block header and body"""
    pos, out, n = 0, [0], len(stream)
    while pos + 4 <= n:
        magic = int.from_bytes(stream[pos:pos + 4], "little")
        if magic & 0xFFFFFFF0 == 0x184D2A50:
            out.append(pos + 8); pos += 8 + int.from_bytes(stream[pos + 4:pos + 8], "little"); out.append(pos); continue
        if magic != MAGIC:
            break
        fhd = stream[pos + 4]
        single, fid = (fhd >> 5) & 1, fhd >> 6
        pos += 5 + (1 - single) + DID[fhd & 3] + FCS[fid] + (1 if single and fid == 0 else 0)
        out.append(pos)
        while pos + 3 <= n:
            h = int.from_bytes(stream[pos:pos + 3], "little")
            pos += 3; out.append(pos)
            pos += 1 if (h >> 1) & 3 == 1 else h >> 3
            out.append(pos)
            if h & 1:
                break
        if fhd & 4:
            pos += 4; out.append(pos)
    return sorted(set(b for b in out if b <= n))


def gen_input(rng, big):
    k = rng.random()
    if k < 0.08:
        return b""
    if k < 0.2:
        return datagen.randbytes(rng, rng.choice([1, 2, 3, 100, 1500, 5000, 140000 if big else 3000]))      # raw blocks
    if k < 0.3:
        return bytes([rng.randrange(256)]) * rng.choice([1, 5, 1000, 4096, 131072 if big else 2048, 200000 if big else 3000])   # rle blocks
    return datagen.gen(rng, 300000 if big else 12000)[1]


def gen_params(rng):
    p = {100: rng.choice([1, 1, 3, 3, 5, 9, 13, 19]), 101: rng.randint(10, 17)}
    if rng.random() < 0.5: p[201] = 1
    if rng.random() < 0.35: p[200] = 0
    if rng.random() < 0.2: p[130] = rng.choice([1340, 2000, 4096])
    if rng.random() < 0.15: p[1015] = rng.choice([1024, 2048, 4096, 65536])
    return p


def skippable(rng):
    pl = datagen.randbytes(rng, rng.choice([0, 0, 1, 2, 3, 4, 40, 3000]))
    return (0x184D2A50 + rng.randrange(16)).to_bytes(4, "little") + len(pl).to_bytes(4, "little") + pl


def make_streams(rng, n):
    """-> list of (stream bytes, content length)"""
    exe = frames.harness()
    lines, meta = [], []
    for i in range(n):
        x = gen_input(rng, big=(i % 6 == 0))
        p = gen_params(rng)
        if i % 5 == 4:
            # streaming compressor with flushes: empty / tiny blocks, a last block of size 0 after flush + end
            ins = rng.choice(["%d" % max(1, len(x)), "1000", "300,5000", "70000"])
            lines.append("cstream %s %s %s 10000000 %s" % (frames.pstr(p), frames.hx(x), ins, rng.choice(["fe", "cfe", "ffe", "cf", "e"])))
        else:
            lines.append("comp2 c2 %s %s" % (frames.pstr(p), frames.hx(x)))
        meta.append(len(x))
    out = frames.parallel(lambda ch: frames.run_lines(exe, ch, timeout=1800)[1], frames.split_chunks(lines, 8))
    single = []
    for o, ln in zip(out, meta):
        f = o.split()[0] if o else "err"
        if f.startswith("err") or o.startswith("err"):
            continue
        single.append((bytes.fromhex(f) if f != "-" else b"", ln))
    streams = []
    for k, (f, ln) in enumerate(single):
        if k % 3 == 0 and len(single) > 1:
            parts, total = [], 0
            for _ in range(rng.randint(2, 4)):
                if rng.random() < 0.35:
                    parts.append(skippable(rng))
                else:
                    g, gl = rng.choice(single) if rng.random() < 0.6 else (f, ln)
                    if len(g) > 60000 and total > 0:
                        g, gl = f, ln
                    parts.append(g); total += gl
            streams.append((b"".join(parts), total))
        else:
            streams.append((f, ln))
    return streams


SMALL = [1, 2, 3, 4, 5, 6, 7, 9, 13]


def segmentations(rng, stream, clen):
    """-> list of op lines for one stream"""
    n, hxs = len(stream), frames.hx(stream)
    cap = clen + rng.choice([0, 1, 7, 100000])
    big = max(n, clen) + 10
    ops = []

    def op(ins, outs, cap_=cap, extra=""):
        ops.append("ds %d %s %s %s%s" % (cap_, hxs, ins, outs, extra))
    op("%d" % big, "%d" % big)                                   # whole stream at once, big output
    op("%d" % big, rng.choice(["1", "7", "100", "1000", "4096"]))   # whole stream at once, small output
    op("h", "%d" % big)                                          # exactly-hinted feeding
    op("h", rng.choice(["1", "50", "1000", "4096", "131072"]))
    if n + clen <= 40000:
        op("1", "1")
    if n <= 60000:
        op("1", "%d" % big)
    if clen <= 60000:
        op("%d" % big, "1")
    bs = boundaries(stream)
    if len(bs) > 1:
        # sizes that end around structural boundaries (block headers, block ends, frame ends)
        cuts, prev = [], 0
        for b in bs[1:60]:
            c = max(prev, min(n, b + rng.choice([-2, -1, -1, 0, 0, 0, 1, 1, 2, 3])))
            cuts.append(c - prev); prev = c
        cuts = [c for c in cuts if c > 0][:60] or [1]
        op(",".join(map(str, cuts)), rng.choice(["%d" % big, "1000", "3,100000"]))
    for _ in range(2):
        ins = ",".join(str(rng.choice(SMALL + [0, 0, 100, 1000, 4096, 70000, 131075])) for _ in range(rng.randint(1, 5)))
        outs = ",".join(str(rng.choice(SMALL + [0, 0, 100, 1000, 4096, 70000, 131075, big])) for _ in range(rng.randint(1, 4)))
        if (all(int(v) < 10 for v in ins.split(",")) and n > 60000) or (all(int(v) < 10 for v in outs.split(",")) and clen > 60000):
            ins, outs = "1000,3", "4096,1"
        op(ins, outs)
    if n > 0 and rng.random() < 0.6:
        # the caller stops early: only the first <limit> bytes are ever offered
        op(rng.choice(["1000", "h", "%d" % big, "3,50"]), rng.choice(["%d" % big, "100"]), cap, " %d" % rng.randrange(n + 1))
    if rng.random() < 0.3:
        # output room smaller than the content: the decoder ends up with a full destination
        op(rng.choice(["%d" % big, "h", "100"]), "%d" % big, max(0, clen - rng.choice([1, 2, 100])))
    if rng.random() < 0.3:
        op(rng.choice(["%d" % big, "h", "7"]), "%d" % big, cap, " %d %d" % (n, rng.randint(10, 16)))      # windowLogMax refusals
    return ops


def compare(lines, chunks=8):
    exe = harness()
    cl = frames.parallel(lambda ch: frames.run_lines(exe, ch, timeout=1800)[1], frames.split_chunks(lines, chunks))

    def model(ch):
        rc, out, err = zv.run([zv.driver_exe(), "dstream"], "\n".join(ch) + "\n", timeout=1800)
        if rc != 0:
            raise RuntimeError("lean driver dstream failed: " + err[-500:])
        o = out.split("\n")
        return o[:-1] if o and o[-1] == "" else o
    ml = frames.parallel(model, frames.split_chunks(lines, chunks))
    bad = []
    for i, ln in enumerate(lines):
        c = cl[i] if i < len(cl) else "<missing>"
        m = ml[i] if i < len(ml) else "<missing>"
        if c != m:
            ct, mt = c.split(), m.split()
            k = next((j for j in range(max(len(ct), len(mt))) if (ct[j] if j < len(ct) else None) != (mt[j] if j < len(mt) else None)), 0)
            desc = "ZSTD_decompressStream and its model disagree at call %d: C %s, model %s (op: ds %s... in=%s out=%s)" % (
                k - 1, ct[k] if k < len(ct) else "<end>", mt[k] if k < len(mt) else "<end>", ln.split()[1], ln.split()[3], " ".join(ln.split()[4:]))
            lo = max(0, k - 6)
            bad.append((desc, dict(kind="tie", op=ln, c=" ".join(ct[lo:k + 3]), model=" ".join(mt[lo:k + 3]), first_diff=k - 1)))
    return bad, cl, ml


def run(ctx):
    rng = ctx.rng
    ns = 300 if ctx.quick() else 1500
    streams = make_streams(rng, ns)
    lines = []
    for s, clen in streams:
        lines += segmentations(rng, s, clen)
    bad, cl, ml = compare(lines)
    for desc, data in bad[:10]:
        ctx.violation(desc, data)
    calls = sum(max(0, len(c.split()) - 1) for c in cl)
    return dict(evaluations=len(lines), streams=len(streams), calls=calls)


def replay(ctx, data):
    bad, cl, ml = compare([data["op"]], chunks=1)
    return dict(violates=bool(bad), c=(cl[0] if cl else "<missing>")[:2000], model=(ml[0] if ml else "<missing>")[:2000])


if __name__ == "__main__":
    import random, sys, time

    class Fake:
        def __init__(self, seed):
            self.rng = random.Random(seed); self.violations = []

        def quick(self):
            return True

        def violation(self, desc, replay, no_input=False, key=None):
            self.violations.append((desc, replay))
    for seed in [int(a) for a in sys.argv[1:]] or [1]:
        t = time.time(); c = Fake(seed); r = run(c)
        print("seed", seed, r, "violations", len(c.violations), "%.1fs" % (time.time() - t))
        for d, rep in c.violations[:5]:
            print("  ", d[:300]); print("     op:", rep["op"][:60], "...", " ".join(rep["op"].split()[3:])); print("     C    :", rep["c"]); print("     model:", rep["model"])
