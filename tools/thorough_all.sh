#!/bin/bash
# usage (inside `vp run`): tools/thorough_all.sh [Cxx ...]   — the thorough tier of every property (or of those named), one after the other, on the
# unchanged tree; prints one line per property (last line of the check) and every VIOLATION / KNOWN-FINDING line.  A clean tree must give violations=0.
cd "$(dirname "$0")/.."
python3 tools/setup.py > /tmp/thorough_setup.$$ 2>&1 || { tail -5 /tmp/thorough_setup.$$; exit 2; }
props=("$@"); [ ${#props[@]} -gt 0 ] || props=(C01 C02 C03 C04 C05 C06 C07 C08 C09 C10 C11 C12 C13 C14 C15 C16 C17 C18 C19 C20)
for p in "${props[@]}"; do
  s=$(date +%s); out=$(/usr/bin/time -f "PEAKRSS_KB=%M" timeout 7200 python3 tools/check.py "$p" --tier thorough 2>&1); rc=$?
  echo "$p rc=$rc $(( $(date +%s) - s ))s $(echo "$out" | grep -o 'PEAKRSS_KB=[0-9]*') :: $(echo "$out" | grep -v PEAKRSS | tail -1 | cut -c1-200)"
  echo "$out" | grep -E '^(VIOLATION|KNOWN-FINDING|  ->)' | cut -c1-400 | head -12
done
