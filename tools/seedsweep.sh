#!/bin/bash
# usage (inside `vp run --with-repo`): tools/seedsweep.sh [seed-dir ...]   — for every seeded change: apply it to the scratch copy of the repository
# ($VP_RUN_REPO, or $ZV_REPO), run the quick check of its property against that copy, undo.  Prints one line per seed: DETECTED / MISSED.
set -u
R=${VP_RUN_REPO:-${ZV_REPO:-}}
[ -n "$R" ] || { echo "no scratch repository (VP_RUN_REPO / ZV_REPO)"; exit 2; }
export ZV_REPO=$R
cd "$(dirname "$0")/.."
python3 tools/setup.py > /tmp/seedsweep_setup.$$ 2>&1 || { tail -5 /tmp/seedsweep_setup.$$; exit 2; }
seeds=("$@"); [ ${#seeds[@]} -gt 0 ] || seeds=(seeded/*/)
for s in "${seeds[@]}"; do
  s=${s%/}; id=$(basename "$s"); prop=${id%%-*}
  [ -f "$s/patch.diff" ] || continue
  git -C "$R" checkout -q -- . ; git -C "$R" apply "$PWD/$s/patch.diff" 2>/dev/null || { echo "$id APPLY-FAILED"; continue; }
  out=$(timeout 3000 python3 tools/check.py "$prop" --tier quick 2>&1); rc=$?
  nv=$(echo "$out" | grep -c '^VIOLATION')
  first=$(echo "$out" | grep -m1 '^  ->' | cut -c1-260)
  nf=$(echo "$out" | grep '^VIOLATION' | grep -c 'no-failing-input-found')
  if [ $rc -ne 0 ] && [ "$nv" -gt 0 ]; then echo "$id DETECTED violations=$nv without-input=$nf :: $first"; else echo "$id MISSED rc=$rc"; fi
  git -C "$R" checkout -q -- .
done
