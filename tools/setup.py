#!/usr/bin/env python3
"""setup: build the Lean library + driver and warm the C build cache, from files on disk only."""
import os, sys, subprocess, time
sys.path.insert(0, os.path.dirname(os.path.abspath(__file__)))
import build, zv
t = time.time()
zv.regenerate()
ok, log, dt = zv.lake_build(["ZstdVerif", "zvdriver"])
print("lake build: %s in %.0fs" % ("ok" if ok else "FAILED", dt))
if not ok:
    print(log[-4000:]); sys.exit(1)
for v in ("plain", "san"):
    build.objects(v)
    print("built variant", v, "%.0fs" % (time.time() - t))
print("setup done in %.0fs" % (time.time() - t))
