#!/usr/bin/env python3
"""writes MANIFEST.json from tools/claims.json (per-property texts) — keeps the file schema-valid."""
import json, os, subprocess, sys
V = os.path.dirname(os.path.dirname(os.path.abspath(__file__)))
claims = json.load(open(os.path.join(V, "tools", "claims.json")))
props = [json.loads(l) for l in open(os.path.join(V, "properties.jsonl"))]
checks, na = [], []
for p in props:
    c = claims.get(p["id"])
    if c and c.get("claimed"):
        checks.append(dict(
            property_id=p["id"],
            quick_cmd="python3 tools/check.py %s --tier quick" % p["id"],
            thorough_cmd="python3 tools/check.py %s --tier thorough" % p["id"],
            evidence_file="evidence/%s.json" % p["id"],
            replay_cmd_template="python3 tools/check.py %s --replay {path}" % p["id"],
            engine="lean4-model+correspondence",
            level_claimed=dict(category="proof", text=c["text"], design_ref=c.get("design_ref", "DESIGN.md §4 " + p["id"])),
            level_note=c["note"],
            technique=c["technique"]))
    else:
        na.append(dict(property_id=p["id"], reason=(c or {}).get("reason", "check not built yet in this revision (model planned in DESIGN.md §4); not claimed")))
hooks = json.load(open(os.path.join(V, "tools", "hooks.json")))
m = dict(version=1,
         setup_cmd="python3 tools/setup.py",
         hooks=hooks,
         engines=[dict(name="lean4-model+correspondence", path="lean/ tools/ harness/", serves_properties=[c["property_id"] for c in checks],
                       kind_free_text="Lean 4 theorems about an executable model (lean/ZstdVerif); model tied to /repo's tree by regenerated tables (tools/gen.py) and a differential correspondence run (harness/*.c vs lean_exe zvdriver)")],
         checks=checks,
         notes="Every check: python3 tools/check.py Cxx --tier quick|thorough (cwd /verif; VERIF_SEED honoured). See DESIGN.md.",
         not_applicable=na)
json.dump(m, open(os.path.join(V, "MANIFEST.json"), "w"), indent=1)
try:
    import jsonschema
    jsonschema.validate(m, json.load(open("/root/.vp/MANIFEST.schema.json")))
    print("MANIFEST.json valid; claimed:", [c["property_id"] for c in checks])
except ImportError:
    print("jsonschema not importable here; written without validation")
