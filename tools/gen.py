"""Regenerate lean/ZstdVerif/Gen/*.lean from /repo's CURRENT tree.

Two mechanical translators:
 (1) harness/gen_tables.c, compiled against the tree, prints tables/constants/bounds as JSON;
 (2) a regex translator over the `switch` bodies of ZSTD_CCtxParams_setParameter,
     ZSTD_isUpdateAuthorized and ZSTD_DCtx_setParameter that classifies every parameter's setter
     (which check it performs, against WHICH parameter's bounds, and how it normalises).
The output is written only when it differs (so lake rebuilds only when the source changed)."""
import json, os, re, subprocess, sys, hashlib
import build

VERIF = build.VERIF
REPO = build.REPO
GEN_DIR = os.path.join(VERIF, "lean", "ZstdVerif", "Gen")


def read(p):
    with open(os.path.join(REPO, p)) as f:
        return f.read()


def param_lists():
    h = read("lib/zstd.h")
    out = {}
    for kind in ("c", "d"):
        m = re.search(r"typedef enum \{((?:(?!typedef enum).)*?)\}\s*ZSTD_%sParameter;" % kind, h, re.S)
        body = re.sub(r"/\*.*?\*/", "", m.group(1), flags=re.S)
        names = re.findall(r"\b(ZSTD_%s_\w+)\s*=\s*\d+" % kind, body)
        stable = [n for n in names if "experimentalParam" not in n]
        exp = re.findall(r"#define\s+(ZSTD_%s_\w+)\s+ZSTD_%s_experimentalParam\d+" % (kind, kind), h)
        out[kind] = stable + exp
    return out


def strip_mt(body):
    # keep the ZSTD_MULTITHREAD branch: "#ifndef ZSTD_MULTITHREAD A #else B #endif" -> B ; "#ifdef ZSTD_MULTITHREAD A #else B #endif" -> A
    body = re.sub(r"#ifndef ZSTD_MULTITHREAD.*?#else(.*?)#endif", r"\1", body, flags=re.S)
    body = re.sub(r"#ifdef ZSTD_MULTITHREAD(.*?)#else.*?#endif", r"\1", body, flags=re.S)
    return body


def func_body(src, signature_re):
    m = re.search(signature_re, src)
    if not m:
        return None
    i = src.index("{", m.end() - 1)
    depth = 0
    for j in range(i, len(src)):
        if src[j] == "{":
            depth += 1
        elif src[j] == "}":
            depth -= 1
            if depth == 0:
                return src[i:j + 1]
    return None


def split_cases(body, prefix):
    """returns list of (names, text) for each group of case labels."""
    body = re.sub(r"/\*.*?\*/", " ", body, flags=re.S)
    toks = list(re.finditer(r"\bcase\s+(%s\w+)\s*:|\bdefault\s*:" % prefix, body))
    groups = []
    cur = []
    for k, t in enumerate(toks):
        end = toks[k + 1].start() if k + 1 < len(toks) else len(body)
        text = body[t.end():end]
        name = t.group(1)
        cur.append(name if name else "default")
        if text.strip():
            groups.append((cur, " ".join(text.split())))
            cur = []
    return groups


def classify_c(name, text):
    """-> (cls, boundsOf) ; cls names are constructors of Gen.PClass."""
    t = text
    bc = re.findall(r"BOUNDCHECK\(\s*(\w+)\s*,", t)
    cl = re.findall(r"ZSTD_cParam_clampBounds\(\s*(\w+)\s*,", t)
    tgt = lambda x: name if x == "param" else x
    unless0 = re.search(r"if\s*\(\s*value\s*!=\s*0\s*\)", t) is not None
    if cl and not bc:
        if "ZSTD_CLEVEL_DEFAULT" in t and re.search(r"value\s*==\s*0", t):
            return "level", tgt(cl[0])
        if "ZSTDMT_JOBSIZE_MIN" in t:
            return "jobSize", tgt(cl[0])
        if len(cl) == 1:
            return "clamp", tgt(cl[0])
    if bc and not cl:
        if "MAX(value, ZSTD_TARGETCBLOCKSIZE_MIN)" in t and unless0:
            return "raiseMinUnless0", tgt(bc[0])
        if len(bc) == 1 and unless0:
            return "checkUnless0", tgt(bc[0])
        if len(bc) == 1 and not re.search(r"\bif\b", t):
            return "check", tgt(bc[0])
    if not bc and not cl:
        if re.search(r"=\s*\(?\s*value\s*!=\s*0\s*\)?\s*;", t):
            return "boolNorm", name
        if re.search(r"=\s*!\s*value\s*;", t) and re.search(r"return\s*!", t):
            return "boolNorm", name     # dictIDFlag: stores !value, reads back !stored
    return "unknown", name


def classify_d(name, text):
    t = text
    bc = re.findall(r"CHECK_DBOUNDS\(\s*(\w+)\s*,", t)
    if len(bc) == 1:
        if re.search(r"if\s*\(\s*value\s*==\s*0\s*\)\s*value\s*=\s*ZSTD_WINDOWLOG_LIMIT_DEFAULT", t):
            return "zeroDefaultCheck", bc[0]
        if re.search(r"if\s*\(\s*value\s*!=\s*0\s*\)\s*CHECK_DBOUNDS", t):
            return "checkUnless0", bc[0]
        if len(re.findall(r"\bif\b", t)) == (1 if "staticSize" in t else 0):
            return "check", bc[0]
    return "unknown", name


def translate_params(tables):
    zc = read("lib/compress/zstd_compress.c")
    zd = read("lib/decompress/zstd_decompress.c")
    setp = strip_mt(func_body(zc, r"size_t\s+ZSTD_CCtxParams_setParameter\s*\([^)]*\)\s*\{"))
    auth = func_body(zc, r"static\s+int\s+ZSTD_isUpdateAuthorized\s*\([^)]*\)\s*\{")
    dset = func_body(zd, r"size_t\s+ZSTD_DCtx_setParameter\s*\([^)]*\)\s*\{")
    ccls = {}
    for names, text in split_cases(setp, "ZSTD_c_"):
        for n in names:
            if n != "default":
                ccls[n] = classify_c(n, text)
    authorized = set()
    for names, text in split_cases(auth, "ZSTD_c_"):
        if re.match(r"return\s+1\s*;", text):
            authorized |= set(names)
    dcls = {}
    for names, text in split_cases(dset, "ZSTD_d_"):
        for n in names:
            if n != "default":
                dcls[n] = classify_d(n, text)
    cb = {p["name"]: p for p in tables["cparams"]}
    db = {p["name"]: p for p in tables["dparams"]}
    cps, dps = [], []
    for p in tables["cparams"]:
        cls, bo = ccls.get(p["name"], ("unknown", p["name"]))
        b = cb.get(bo, p)
        cps.append(dict(name=p["name"], id=p["id"], cls=cls, boundsOf=b["id"], lo=p["lo"], hi=p["hi"], ulo=b["lo"], uhi=b["hi"],
                        dflt=p["def"], mid=p["name"] in authorized, supported=(p["err"] == 0)))
    for p in tables["dparams"]:
        cls, bo = dcls.get(p["name"], ("unknown", p["name"]))
        b = db.get(bo, p)
        dps.append(dict(name=p["name"], id=p["id"], cls=cls, boundsOf=b["id"], lo=p["lo"], hi=p["hi"], ulo=b["lo"], uhi=b["hi"],
                        dflt=p["def"], mid=False, supported=(p["err"] == 0)))
    return cps, dps


def translate_ddict_hashset():
    """DDict hash set (zstd_decompress.c): load-factor constants, the expand condition (as an expression over count/size) and the
    probe step (the statements of the probe loop, in source order) -> Lean definitions."""
    zd = read("lib/decompress/zstd_decompress.c")
    consts = {}
    for k in ("DDICT_HASHSET_MAX_LOAD_FACTOR_COUNT_MULT", "DDICT_HASHSET_MAX_LOAD_FACTOR_SIZE_MULT", "DDICT_HASHSET_TABLE_BASE_SIZE", "DDICT_HASHSET_RESIZE_FACTOR"):
        m = re.search(r"#define\s+%s\s+(\d+)" % k, zd)
        consts[k] = int(m.group(1)) if m else 0
    add = func_body(zd, r"static\s+size_t\s+ZSTD_DDictHashSet_addDDict\s*\([^)]*\)\s*\{") or ""
    add = re.sub(r"/\*.*?\*/", " ", add, flags=re.S)
    m = re.search(r"if\s*\((.*?)\)\s*\{\s*FORWARD_IF_ERROR\(ZSTD_DDictHashSet_expand", add, re.S)
    cond = "false"
    if m:
        e = " ".join(m.group(1).split())
        e = e.replace("hashSet->ddictPtrCount", "count").replace("hashSet->ddictPtrTableSize", "size")
        for k, v in consts.items():
            e = e.replace(k, str(v))
        if re.fullmatch(r"[\scountsize\d\*/\+\-\(\)!=<>]+", e):
            cond = e.replace("!=", "≠").replace(">=", "≥").replace("<=", "≤")
            cond = "decide (%s)" % cond
    def probe(fname):
        b = func_body(zd, r"ZSTD_DDictHashSet_%s\s*\([^)]*\)\s*\{" % fname) or ""
        b = re.sub(r"/\*.*?\*/", " ", b, flags=re.S)
        steps = re.findall(r"idx\s*\+\+\s*;|idx\s*&=\s*idxRangeMask\s*;", b)
        expr = "idx"
        for st in steps:
            expr = "(%s + 1)" % expr if "++" in st else "(%s &&& mask)" % expr
        return expr if steps else "idx"
    return consts, cond, probe("emplaceDDict"), probe("getDDict")


def translate_seq_validation():
    """where ZSTD_copySequencesToSeqStore{Explicit,No}BlockDelim evaluate the validation position: the `seqPos->posInSrc += ...`
    statements BEFORE the ZSTD_validateSequence call (per function), as a Lean expression over pos / ll / ml"""
    zc = read("lib/compress/zstd_compress.c")
    out = {}
    for fn in ("ZSTD_copySequencesToSeqStoreExplicitBlockDelim", "ZSTD_copySequencesToSeqStoreNoBlockDelim"):
        b = func_body(zc, r"%s\s*\([^)]*\)\s*\{" % fn) or ""
        b = re.sub(r"/\*.*?\*/", " ", b, flags=re.S)
        i = b.find("ZSTD_validateSequence(")
        j = b.rfind("if (cctx->appliedParams.validateSequences)", 0, i)
        before = b[j:i] if i > 0 and j >= 0 else ""
        expr = "pos"
        for inc in re.findall(r"seqPos->posInSrc\s*\+=\s*([^;]+);", before):
            inc = inc.replace("litLength", "ll").replace("matchLength", "ml")
            if re.fullmatch(r"[\sllm\+]+", inc):
                expr = "%s + (%s)" % (expr, inc.strip())
            else:
                expr = "%s + 0 /- untranslated: %s -/" % (expr, inc.strip()[:40])
        out[fn] = expr
    return out


def translate_cwksp_free():
    """does ZSTD_cwksp_free reset the workspace descriptor (so that a failed re-creation leaves the context owning nothing)?"""
    h = read("lib/compress/zstd_cwksp.h")
    b = func_body(h, r"MEM_STATIC\s+void\s+ZSTD_cwksp_free\s*\([^)]*\)\s*\{") or ""
    b = re.sub(r"/\*.*?\*/", " ", b, flags=re.S)
    clears = re.search(r"ZSTD_memset\(\s*ws\s*,\s*0\s*,\s*sizeof\s*\(\s*ZSTD_cwksp\s*\)\s*\)", b) is not None or \
        re.search(r"ws->workspace\s*=\s*NULL", b) is not None
    return clears


def translate_dict_repeat():
    """which symbols ZSTD_dictNCountRepeat inspects: the header of its `for` loop, as a Lean list expression over the required maximum m"""
    zc = read("lib/compress/zstd_compress.c")
    b = func_body(zc, r"static\s+FSE_repeat\s+ZSTD_dictNCountRepeat\s*\([^)]*\)\s*\{") or ""
    b = re.sub(r"/\*.*?\*/", " ", b, flags=re.S)
    m = re.search(r"for\s*\(\s*s\s*=\s*(\d+)\s*;\s*s\s*(<=|<)\s*maxSymbolValue\s*;\s*(?:\+\+s|s\+\+)\s*\)", b)
    if not m or "normalizedCounter[s] == 0" not in " ".join(b.split()):
        return "[] /- untranslated loop -/"
    start, rel = int(m.group(1)), m.group(2)
    e = "List.range (m + 1)" if rel == "<=" else "List.range m"
    return e if start == 0 else "(%s).drop %d" % (e, start)


def lean_int(v):
    return "(%d)" % v if v < 0 else str(v)


def lean_list(xs, f=lean_int, per=16):
    items = [f(x) for x in xs]
    lines = []
    for i in range(0, len(items), per):
        lines.append("  " + ", ".join(items[i:i + per]))
    return "[\n" + ",\n".join(lines) + "]"


def emit(tables, cps, dps):
    files = {}
    hdr = "-- GENERATED by tools/gen.py from /repo's current tree. Do not edit.\n"
    t = hdr + "namespace ZstdVerif.Gen\n\n"
    for k in ["LL_bits", "ML_bits", "OF_bits", "LL_base", "ML_base", "OF_base", "LL_Code", "ML_Code",
              "repStartValue", "ZSTD_fcs_fieldSize", "ZSTD_did_fieldSize"]:
        t += "def %s : List Nat := %s\n\n" % (k, lean_list(tables[k]))
    for k in ["LL_defaultNorm", "ML_defaultNorm", "OF_defaultNorm"]:
        t += "def %s : List Int := %s\n\n" % (k, lean_list(tables[k]))
    t += "/-- one cell of a sequence decoding table: (nextState, nbAdditionalBits, nbBits, baseValue) -/\n"
    t += "structure SeqCell where\n  nextState : Nat\n  nbAddBits : Nat\n  nbBits : Nat\n  baseValue : Nat\nderiving DecidableEq, Repr, Inhabited\n\n"
    for k in ["LL_defaultDTable", "OF_defaultDTable", "ML_defaultDTable"]:
        d = tables[k]
        t += "def %s_tableLog : Nat := %d\ndef %s_fastMode : Nat := %d\n" % (k, d["tableLog"], k, d["fastMode"])
        t += "def %s : List SeqCell := %s\n\n" % (k, lean_list(d["cells"], lambda c: "⟨%d,%d,%d,%d⟩" % tuple(c), per=6))
    t += "end ZstdVerif.Gen\n"
    files["Tables.lean"] = t

    c = hdr + "namespace ZstdVerif.Gen\n\n"
    skip = {"cparams", "dparams", "clevels", "compressBoundGrid", "adjRows"}
    for k, v in tables.items():
        if k in skip or isinstance(v, (list, dict)):
            continue
        ty = "Int" if v < 0 or k in ("minCLevel", "maxCLevel", "defaultCLevel", "ZSTD_CLEVEL_DEFAULT") else "Nat"
        c += "def %s : %s := %s\n" % (k if k[0].isalpha() else "c_" + k, ty, lean_int(v))
    c += "\n/-- ZSTD_compressBound on boundary values, computed by the C compiler from the current macro -/\n"
    c += "def compressBoundGrid : List (Nat × Nat) := %s\n" % lean_list(tables["compressBoundGrid"], lambda p: "(%d,%d)" % tuple(p), per=4)
    c += "\n/-- ZSTD_defaultCParameters[4][23]: (windowLog, chainLog, hashLog, searchLog, minMatch, targetLength, strategy) -/\n"
    c += "structure CPar where\n  windowLog : Nat\n  chainLog : Nat\n  hashLog : Nat\n  searchLog : Nat\n  minMatch : Nat\n  targetLength : Nat\n  strategy : Nat\nderiving DecidableEq, Repr, Inhabited\n\n"
    c += "def clevels : List (List CPar) := [\n" + ",\n".join(
        lean_list(row, lambda r: "⟨%d,%d,%d,%d,%d,%d,%d⟩" % tuple(r), per=4) for row in tables["clevels"]) + "]\n"
    c += "\n/-- ZSTD_getCParams(level, tier, 0) for the source-size tiers 16 KB, 128 KB, 256 KB, unknown: the rows ZSTD_estimateCCtxSize_internal sizes -/\n"
    c += "def adjRows : List (List CPar) := [\n" + ",\n".join(
        lean_list(row, lambda r: "⟨%d,%d,%d,%d,%d,%d,%d⟩" % tuple(r), per=4) for row in tables["adjRows"]) + "]\n"
    c += "\nend ZstdVerif.Gen\n"
    files["Consts.lean"] = c

    b = hdr + "namespace ZstdVerif.Gen\n\n"
    b += "/-- how a parameter's setter treats the value (classified by tools/gen.py from the switch body) -/\n"
    b += "inductive PClass where\n  | check | checkUnless0 | clamp | boolNorm | level | jobSize | raiseMinUnless0 | zeroDefaultCheck | unknown\nderiving DecidableEq, Repr, Inhabited\n\n"
    b += ("structure PInfo where\n  name : String\n  id : Nat\n  cls : PClass\n  /-- id of the parameter whose bounds the setter tests against -/\n"
          "  boundsOf : Nat\n  /-- advertised bounds (ZSTD_?Param_getBounds) -/\n  lo : Int\n  hi : Int\n  /-- bounds the setter actually uses -/\n"
          "  ulo : Int\n  uhi : Int\n  /-- value read back from a fresh context -/\n  dflt : Int\n  /-- ZSTD_isUpdateAuthorized -/\n  mid : Bool\n  supported : Bool\nderiving Repr, Inhabited, DecidableEq\n\n")

    def pinfo(p):
        return ("{ name := \"%s\", id := %d, cls := .%s, boundsOf := %d, lo := %s, hi := %s, ulo := %s, uhi := %s, dflt := %s, mid := %s, supported := %s }"
                % (p["name"], p["id"], p["cls"], p["boundsOf"], lean_int(p["lo"]), lean_int(p["hi"]), lean_int(p["ulo"]), lean_int(p["uhi"]),
                   lean_int(p["dflt"]), "true" if p["mid"] else "false", "true" if p["supported"] else "false"))
    b += "def cparams : List PInfo := %s\n\n" % lean_list(cps, pinfo, per=1)
    b += "def dparams : List PInfo := %s\n\n" % lean_list(dps, pinfo, per=1)
    b += "end ZstdVerif.Gen\n"
    files["Bounds.lean"] = b
    consts, cond, pe, pg = translate_ddict_hashset()
    h = hdr + "namespace ZstdVerif.Gen.DDictHS\n\n"
    for k, v in consts.items():
        h += "def %s : Nat := %d\n" % (k, v)
    h += "\n/-- the condition under which ZSTD_DDictHashSet_addDDict expands the table (translated from the source expression) -/\n"
    h += "def expandCond (count size : Nat) : Bool := %s\n" % cond
    h += "\n/-- one step of the linear probe of ZSTD_DDictHashSet_emplaceDDict / _getDDict (statements in source order) -/\n"
    h += "def probeNextEmplace (idx mask : Nat) : Nat := %s\n" % pe
    h += "def probeNextGet (idx mask : Nat) : Nat := %s\n" % pg
    h += "\nend ZstdVerif.Gen.DDictHS\n"
    files["DDictHS.lean"] = h
    sv = translate_seq_validation()
    q = hdr + "namespace ZstdVerif.Gen.SeqVal\n\n"
    q += "/-- position (bytes the decoder will have regenerated) against which ZSTD_validateSequence is evaluated, as a function of the position\n"
    q += "before the sequence and its literal / match lengths - translated from the statements preceding the call -/\n"
    q += "def posAtValidationExplicit (pos ll ml : Nat) : Nat := %s\n" % sv["ZSTD_copySequencesToSeqStoreExplicitBlockDelim"]
    q += "def posAtValidationNoDelim (pos ll ml : Nat) : Nat := %s\n" % sv["ZSTD_copySequencesToSeqStoreNoBlockDelim"]
    q += "\nend ZstdVerif.Gen.SeqVal\n"
    files["SeqVal.lean"] = q
    w = hdr + "namespace ZstdVerif.Gen.Cwksp\n\n"
    w += "/-- ZSTD_cwksp_free resets the workspace descriptor after handing the block back (translated from the function body) -/\n"
    w += "def freeClearsDescriptor : Bool := %s\n" % ("true" if translate_cwksp_free() else "false")
    w += "\nend ZstdVerif.Gen.Cwksp\n"
    files["Cwksp.lean"] = w
    dr = hdr + "namespace ZstdVerif.Gen.DictRepeat\n\n"
    dr += "/-- symbols whose normalised count ZSTD_dictNCountRepeat inspects, for a required maximum symbol `m` (translated from the loop header) -/\n"
    dr += "def inspected (m : Nat) : List Nat := %s\n" % translate_dict_repeat()
    dr += "\nend ZstdVerif.Gen.DictRepeat\n"
    files["DictRepeat.lean"] = dr
    return files


def tables_json():
    """build+run the dumper against the current tree (cached per tree hash)."""
    bd = build.build_dir()
    hh = hashlib.sha256()
    for fp in (os.path.join(VERIF, "harness", "gen_tables.c"), os.path.abspath(__file__)):
        with open(fp, "rb") as fh:
            hh.update(fh.read())
    cache = os.path.join(bd, "gen_tables-%s.json" % hh.hexdigest()[:10])
    if os.path.exists(cache):
        with open(cache) as f:
            return json.load(f)
    pl = param_lists()
    inc = os.path.join(bd, "geninc")
    os.makedirs(inc, exist_ok=True)
    with open(os.path.join(inc, "gen_params.h"), "w") as f:
        f.write("#define CP_LIST " + ", ".join('{"%s", (int)%s}' % (n, n) for n in pl["c"]) + "\n")
        f.write("#define DP_LIST " + ", ".join('{"%s", (int)%s}' % (n, n) for n in pl["d"]) + "\n")
    exe = build.link("gen_tables", ["gen_tables.c"], "plain", exclude=("zstd_decompress_block.c",),
                     extra=["-I" + inc, "-DZV_GEN_%s" % hashlib.sha256(open(os.path.join(inc, "gen_params.h"), "rb").read()).hexdigest()[:8]])
    out = subprocess.run([exe], stdout=subprocess.PIPE, text=True, check=True).stdout
    tables = json.loads(out)
    # constants private to a .c file: taken by regex from the source text
    for fn, names in (("lib/compress/zstd_compress.c", ["ZSTD_HASHLOG3_MAX"]),
                      ("lib/compress/zstd_ldm.c", ["LDM_BUCKET_SIZE_LOG", "LDM_MIN_MATCH_LENGTH", "LDM_HASH_RLOG"])):
        src = read(fn)
        for nm in names:
            m = re.search(r"#\s*define\s+%s\s+(\d+)" % nm, src)
            tables[nm] = int(m.group(1)) if m else 0
    with open(cache + ".tmp", "w") as f:
        json.dump(tables, f)
    os.replace(cache + ".tmp", cache)
    return tables


def regenerate():
    """returns (changed_files, tables, cps, dps)"""
    tables = tables_json()
    cps, dps = translate_params(tables)
    files = emit(tables, cps, dps)
    os.makedirs(GEN_DIR, exist_ok=True)
    changed = []
    for n, txt in files.items():
        p = os.path.join(GEN_DIR, n)
        old = open(p).read() if os.path.exists(p) else None
        if old != txt:
            with open(p + ".tmp", "w") as f:
                f.write(txt)
            os.replace(p + ".tmp", p)
            changed.append(n)
    return changed, tables, cps, dps


if __name__ == "__main__":
    ch, tables, cps, dps = regenerate()
    print("changed:", ch)
    for p in cps + dps:
        print("%-36s %-16s boundsOf=%d [%d,%d] used [%d,%d] def=%d mid=%s" % (p["name"], p["cls"], p["boundsOf"], p["lo"], p["hi"], p["ulo"], p["uhi"], p["dflt"], p["mid"]))
