"""Content-hashed build cache of /repo's current working tree.

Nothing is written under /repo.  Objects live in /verif/.cache/build-<hash>/<variant>/.
The hash is over the *contents* of every source file used, so an edited tree
always gets a fresh build; builds older than the 3 most recent are pruned.
"""
import hashlib, os, subprocess, sys, shutil, time, fcntl, glob
from concurrent.futures import ThreadPoolExecutor

VERIF = os.path.dirname(os.path.dirname(os.path.abspath(__file__)))
REPO = os.environ.get("ZV_REPO", "/repo")
CACHE = os.path.join(VERIF, ".cache")
GUARD = "ZSTD_VERIF_HOOKS"

LIB_DIRS = ["lib/common", "lib/compress", "lib/decompress", "lib/dictBuilder", "lib/legacy"]
EXTRA_HASH_DIRS = ["lib", "programs", "contrib/seekable_format"]

VARIANTS = {
    # name: (compiler, flags)
    "plain": ("gcc", ["-O2", "-g"]),
    "san": ("clang-14", ["-O1", "-g", "-fsanitize=address,undefined", "-fno-sanitize-recover=all",
                         "-fno-omit-frame-pointer"]),
    "tsan": ("clang-14", ["-O1", "-g", "-fsanitize=thread"]),
    # frequent overflow correction build (C15)
    "freq": ("gcc", ["-O2", "-g", "-DZSTD_WINDOW_OVERFLOW_CORRECT_FREQUENTLY=1"]),
    # decoder variants (C04)
    "noasm": ("gcc", ["-O2", "-g", "-DZSTD_DISABLE_ASM=1", "-DDYNAMIC_BMI2=0"]),
    "hufx1": ("gcc", ["-O2", "-g", "-DHUF_FORCE_DECOMPRESS_X1=1", "-DZSTD_FORCE_DECOMPRESS_SEQUENCES_SHORT=1"]),
    "hufx2": ("gcc", ["-O2", "-g", "-DHUF_FORCE_DECOMPRESS_X2=1", "-DZSTD_FORCE_DECOMPRESS_SEQUENCES_LONG=1"]),
    "seqlong": ("gcc", ["-O2", "-g", "-DZSTD_FORCE_DECOMPRESS_SEQUENCES_LONG=1"]),
    "x2": ("gcc", ["-O2", "-g", "-DHUF_FORCE_DECOMPRESS_X2=1"]),
    "seqlongsan": ("clang-14", ["-O1", "-g", "-fsanitize=address,undefined", "-fno-sanitize-recover=all", "-fno-omit-frame-pointer", "-DZSTD_FORCE_DECOMPRESS_SEQUENCES_LONG=1"]),
    # MemorySanitizer (C18: use of memory the trainer never wrote); the hand-written assembly is not instrumented, hence left out
    "msan": ("clang-14", ["-O1", "-g", "-fsanitize=memory", "-fno-omit-frame-pointer", "-DZSTD_DISABLE_ASM=1", "-DZVT_NO_FILL=1"]),
}
COMMON_DEFS = ["-DZSTD_MULTITHREAD", "-DZSTD_LEGACY_SUPPORT=5", "-D" + GUARD,
               "-DZSTD_STATIC_LINKING_ONLY", "-DZDICT_STATIC_LINKING_ONLY", "-DXXH_NAMESPACE=ZSTD_"]
INCS = ["-I" + os.path.join(REPO, d) for d in
        ["lib", "lib/common", "lib/compress", "lib/decompress", "lib/dictBuilder", "lib/legacy", "programs",
         "contrib/seekable_format"]]


def _files(dirs, exts):
    out = []
    for d in dirs:
        full = os.path.join(REPO, d)
        for root, _, names in os.walk(full):
            if "/.git" in root:
                continue
            for n in sorted(names):
                if n.endswith(exts):
                    out.append(os.path.join(root, n))
    return sorted(set(out))


_hash_cache = None


def tree_hash():
    """sha256 over contents of all C sources/headers that any check uses."""
    global _hash_cache
    if _hash_cache:
        return _hash_cache
    h = hashlib.sha256()
    for f in _files(EXTRA_HASH_DIRS, (".c", ".h", ".S")):
        h.update(f.encode())
        with open(f, "rb") as fh:
            h.update(hashlib.sha256(fh.read()).digest())
    _hash_cache = h.hexdigest()[:16]
    return _hash_cache


def lib_sources():
    srcs = []
    for d in LIB_DIRS:
        srcs += sorted(glob.glob(os.path.join(REPO, d, "*.c")))
    srcs += sorted(glob.glob(os.path.join(REPO, "lib/decompress", "*.S")))
    # legacy: only v05..v07 are compiled with ZSTD_LEGACY_SUPPORT=5
    srcs = [s for s in srcs if not any(s.endswith("zstd_v0%d.c" % k) for k in (1, 2, 3, 4))]
    return srcs


def build_dir():
    d = os.path.join(CACHE, "build-" + tree_hash())
    os.makedirs(d, exist_ok=True)
    return d


def _run(cmd, **kw):
    p = subprocess.run(cmd, stdout=subprocess.PIPE, stderr=subprocess.STDOUT, text=True, **kw)
    return p.returncode, p.stdout


class BuildError(Exception):
    pass


def _lock(path):
    fh = open(path, "w")
    fcntl.flock(fh, fcntl.LOCK_EX)
    return fh


def objects(variant):
    """Compile all library sources for `variant`; returns dict basename -> object path."""
    cc, flags = VARIANTS[variant]
    bd = os.path.join(build_dir(), variant)
    os.makedirs(bd, exist_ok=True)
    lock = _lock(os.path.join(bd, ".lock"))
    try:
        srcs = lib_sources()
        objs = {}
        todo = []
        for s in srcs:
            base = os.path.basename(s)
            o = os.path.join(bd, base + ".o")
            objs[base] = o
            if not os.path.exists(o):
                todo.append((s, o))
        if todo:
            def comp(so):
                s, o = so
                if variant == "noasm" and s.endswith(".S"):
                    # still assemble: file is empty under ZSTD_DISABLE_ASM
                    pass
                cmd = [cc] + flags + COMMON_DEFS + INCS + ["-c", s, "-o", o + ".tmp"]
                rc, out = _run(cmd)
                if rc != 0:
                    return (s, out)
                os.replace(o + ".tmp", o)
                return None
            with ThreadPoolExecutor(max_workers=int(os.environ.get("ZV_JOBS", "16"))) as ex:
                errs = [e for e in ex.map(comp, todo) if e]
            if errs:
                raise BuildError("compile failed: %s\n%s" % (errs[0][0], errs[0][1][-3000:]))
        return objs
    finally:
        lock.close()


def link(name, sources, variant="plain", exclude=(), extra=(), libs=("-lpthread",), nolib=False):
    """Compile harness `sources` (paths under /verif/harness or absolute) and link with the
    library objects of `variant` except those whose basename is in `exclude`.
    Returns path of the executable (cached by content of the harness sources + flags)."""
    cc, flags = VARIANTS[variant]
    bd = os.path.join(build_dir(), variant)
    objs = {} if nolib else objects(variant)
    h = hashlib.sha256()
    srcs = []
    for s in sources:
        p = s if os.path.isabs(s) else os.path.join(VERIF, "harness", s)
        srcs.append(p)
        with open(p, "rb") as fh:
            h.update(fh.read())
    # harness headers
    for hp in sorted(glob.glob(os.path.join(VERIF, "harness", "*.h"))):
        with open(hp, "rb") as fh:
            h.update(fh.read())
    h.update(repr((sorted(exclude), list(extra), list(libs), nolib)).encode())
    exe = os.path.join(bd, "%s-%s" % (name, h.hexdigest()[:12]))
    os.makedirs(bd, exist_ok=True)
    lock = _lock(exe + ".lock")
    try:
        if os.path.exists(exe):
            return exe
        cmd = [cc] + flags + COMMON_DEFS + list(extra) + INCS + ["-I" + os.path.join(VERIF, "harness")] + srcs + \
              [o for b, o in sorted(objs.items()) if b not in exclude] + ["-o", exe + ".tmp"] + list(libs)
        rc, out = _run(cmd)
        if rc != 0:
            raise BuildError("link %s failed:\n%s" % (name, out[-4000:]))
        os.replace(exe + ".tmp", exe)
        return exe
    finally:
        lock.close()


def prune(keep=3):
    if not os.path.isdir(CACHE):
        return
    ds = sorted(glob.glob(os.path.join(CACHE, "build-*")), key=os.path.getmtime, reverse=True)
    cur = build_dir()
    for d in ds[keep:]:
        if d != cur:
            shutil.rmtree(d, ignore_errors=True)


def cli_binary(variant="plain"):
    """Build programs/zstd CLI from the current tree (for C19)."""
    cc, flags = VARIANTS[variant]
    srcs = sorted(glob.glob(os.path.join(REPO, "programs", "*.c")))
    srcs = [s for s in srcs if os.path.basename(s) not in ("zstdcli_trace.c",)] + \
           [os.path.join(REPO, "programs", "zstdcli_trace.c")]
    srcs = sorted(set(srcs))
    bd = os.path.join(build_dir(), variant)
    objs = objects(variant)
    exe = os.path.join(bd, "zstd-cli")
    lock = _lock(exe + ".lock")
    try:
        if os.path.exists(exe):
            return exe
        cmd = [cc] + flags + COMMON_DEFS + INCS + srcs + [o for b, o in sorted(objs.items())] + \
              ["-o", exe + ".tmp", "-lpthread"]
        rc, out = _run(cmd)
        if rc != 0:
            raise BuildError("cli build failed:\n" + out[-4000:])
        os.replace(exe + ".tmp", exe)
        return exe
    finally:
        lock.close()


if __name__ == "__main__":
    t = time.time()
    v = sys.argv[1] if len(sys.argv) > 1 else "plain"
    o = objects(v)
    print(build_dir(), len(o), "objects", "%.1fs" % (time.time() - t))
