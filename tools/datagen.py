"""seeded input generators (structure-aware, mostly compressible, with incompressible and degenerate cases)"""
import random

WORDS = [b"the", b"of", b"and", b"zstd", b"frame", b"block", b"literal", b"sequence", b"offset", b"match", b"window", b"table",
         b"entropy", b"huffman", b"fse", b"state", b"repeat", b"dictionary", b"checksum", b"stream", b"0123456789", b"\n", b"  ", b"{}", b"==="]


def text(rng, n):
    out = bytearray()
    while len(out) < n:
        out += rng.choice(WORDS)
        out += b" " if rng.random() < 0.8 else b""
    return bytes(out[:n])


def randbytes(rng, n):
    return bytes(rng.getrandbits(8) for _ in range(n)) if n < 4096 else rng.getrandbits(8 * n).to_bytes(n, "little")


def periodic(rng, n):
    k = rng.choice([1, 2, 3, 4, 5, 7, 8, 15, 16, 17, 31, 64, 255, 1000])
    unit = randbytes(rng, k)
    return (unit * (n // k + 1))[:n]


def repcodes(rng, n):
    """three alternating distances, short literals in between"""
    out = bytearray(randbytes(rng, 64))
    d = [rng.randint(1, 60), rng.randint(1, 60), rng.randint(1, 60)]
    while len(out) < n:
        k = rng.random()
        if k < 0.3:
            out += randbytes(rng, rng.randint(0, 4))
        else:
            dist = rng.choice(d)
            ln = rng.randint(3, 40)
            for _ in range(ln):
                out.append(out[-dist])
    return bytes(out[:n])


def small_alphabet(rng, n):
    a = rng.randint(2, 6)
    return bytes(rng.randrange(a) + 65 for _ in range(n))


def mixed(rng, n):
    out = bytearray()
    while len(out) < n:
        m = rng.randint(1, max(1, min(n, 20000)))
        out += rng.choice(KINDS)(rng, m)
        if rng.random() < 0.3 and len(out) > 100:
            # long-distance copy
            st = rng.randrange(len(out) - 50)
            out += out[st:st + rng.randint(10, 5000)]
    return bytes(out[:n])


def runs(rng, n):
    """long constant runs (RLE blocks / RLE literals) separated by short noise"""
    out = bytearray()
    while len(out) < n:
        out += bytes([rng.getrandbits(8)]) * rng.choice([1, 2, 3, 5, 40, 300, 5000, 140000, 300000])
        if rng.random() < 0.5:
            out += randbytes(rng, rng.randint(0, 6))
    return bytes(out[:n])


def tinymatches(rng, n):
    """3-4 byte tokens from a small table, each followed by one fresh byte: maximises sequences per block (nbSeq > 0x7F00)"""
    toks = [randbytes(rng, rng.choice([3, 3, 4])) for _ in range(rng.choice([8, 64, 500]))]
    out = bytearray(b"".join(toks))
    while len(out) < n:
        out += rng.choice(toks)
        out.append(rng.getrandbits(8))
    return bytes(out[:n])


def longcopies(rng, n):
    """segments of varied compressibility with very long repeats (match lengths >= 64 KiB, block-crossing) and incompressible tails"""
    out = bytearray()
    while len(out) < n:
        k = rng.random()
        m = rng.choice([300, 5000, 20000, 70000, 131072, 140000])
        if k < 0.35 or len(out) < 1000:
            out += rng.choice([text, small_alphabet, repcodes, tinymatches])(rng, m)
        elif k < 0.55:
            out += randbytes(rng, rng.choice([100, 3000, 20000]))
            if rng.random() < 0.5 and len(out) > 40:
                st = rng.randrange(len(out) - 20); out += out[st:st + rng.randint(3, 12)]
        else:
            st = rng.randrange(max(1, len(out) - m))
            out += out[st:st + m]
    return bytes(out[:n])


def blockstruct(rng, n):
    """input laid out on the compressor's 128 KiB block grid: every block is a random arrangement of
    {long copy of earlier data, text, noise}, often ending in an incompressible tail that contains one short match,
    the next block then starts by re-using that match's distance (repeat-offset continuity across blocks)."""
    BLK = 131072
    out = bytearray(text(rng, rng.choice([BLK, BLK, 3000, 70000])))
    lastdist = rng.randint(20, 400)
    while len(out) < n:
        room = BLK - (len(out) % BLK)
        if room < 64:
            out += randbytes(rng, room); continue
        # block start: optionally re-use the previous short-match distance after a few fresh bytes
        if rng.random() < 0.6 and len(out) > lastdist + 60:
            out += randbytes(rng, rng.randint(0, 4))
            ln = rng.randint(6, 60)
            for _ in range(ln):
                out.append(out[-lastdist])
        room = BLK - (len(out) % BLK)
        tail = rng.choice([0, 0, 300, 2500, 9000]) if room > 12000 else 0
        body = room - tail
        if rng.random() < 0.35 and len(out) > body + 10:
            st = rng.randrange(len(out) - body); out += out[st:st + body]; body = 0      # the block is one long copy (+ tail)
        while body > 0:
            k = rng.random()
            m = min(body, rng.choice([50, 2000, 30000, 70000, BLK]))
            if k < 0.5 and len(out) > m + 10:
                st = rng.randrange(len(out) - m); out += out[st:st + m]
            elif k < 0.8:
                out += text(rng, m)
            else:
                m = min(m, 3000); out += randbytes(rng, m)
            body -= m
        if tail:
            t = bytearray(randbytes(rng, tail))
            lastdist = rng.randint(20, min(400, tail - 20))
            pos = rng.randint(lastdist, tail - 8)
            ln = rng.randint(4, 8)
            t[pos:pos + ln] = t[pos - lastdist:pos - lastdist + ln]
            out += t
    return bytes(out[:n])


def noisecopies(rng, n):
    """regions of random bytes carrying sparse short copies at a few recurring distances (barely compressible, yet with sequences and
    repeat offsets), alternating with well-compressible text: partitions of a split block end up raw next to compressed ones"""
    out = bytearray()
    dists = [rng.randint(8, 3000) for _ in range(rng.choice([1, 2, 3]))]
    while len(out) < n:
        m = rng.choice([2000, 20000, 50000, 90000])
        if rng.random() < 0.55:
            seg = bytearray(randbytes(rng, m))
            gap = rng.choice([40, 150, 600])
            i = max(dists) + 1
            while i + 6 < m:
                d = rng.choice(dists); ln = rng.choice([4, 4, 5, 6])
                seg[i:i + ln] = seg[i - d:i - d + ln]
                i += rng.randint(gap // 2, gap * 2)
            out += seg
        else:
            out += text(rng, m)
    return bytes(out[:n])


def longlits(rng, n):
    """blocks that are mostly literals (> 64 KiB of them, Huffman-compressible or raw) carrying only a handful of long matches, some
    of them in the last part of the block: the decoder's literal buffer is split between the destination and its side buffer and the
    hand-over falls among the last sequences of the block"""
    BLK = 131072
    out = bytearray()
    while len(out) < n:
        room = BLK - (len(out) % BLK)
        nseq = rng.choice([1, 2, 3, 5, 8, 9, 12, 30])
        skew = rng.random() < 0.7
        alpha = [rng.randrange(256) for _ in range(rng.choice([20, 60, 200]))]
        cuts = sorted(rng.randrange(room) for _ in range(nseq))
        if rng.random() < 0.6:
            cuts = sorted(cuts[:-2] + [room - rng.randint(40, 30000) for _ in range(2)]) if nseq > 2 else cuts
        blk = bytearray()
        for c in cuts + [room]:
            while len(blk) < c:
                m = min(c - len(blk), 4096)
                if skew:
                    blk += bytes(alpha[min(int(rng.expovariate(0.15)), len(alpha) - 1)] for _ in range(m))
                else:
                    blk += randbytes(rng, m)
            if c < room and len(out) + len(blk) > 300:
                ln = min(rng.choice([5, 40, 300, 2000]), room - len(blk))
                hist = out + blk
                st = rng.randrange(len(hist) - ln) if len(hist) > ln else 0
                blk += hist[st:st + ln]
        out += blk[:room]
    return bytes(out[:n])


def longlits2(rng, n):
    """like longlits, but the literals come from a flat alphabet of 48..160 byte values: Huffman-compressible (so the block's literals are
    decoded into the decoder's own literal buffer, which is SPLIT between the destination and its side buffer when they exceed 64 KiB), yet
    almost free of accidental matches, so that the block carries only the handful (1..10) of long planted matches and the hand-over from
    the destination-resident part to the side buffer falls among the LAST sequences of the block (the drain loop of the prefetching decoder)"""
    BLK = 131072
    out = bytearray()
    while len(out) < n:
        room = min(BLK - (len(out) % BLK), n - len(out))
        A = rng.choice([48, 64, 100, 128, 160]); base = rng.randrange(256 - A + 1)
        nseq = rng.choice([1, 2, 3, 4, 6, 8, 9, 10])
        blk = bytearray(base + rng.randrange(A) for _ in range(room))
        if len(out) + room > 2000:
            # planted matches: spread over the block, most of them behind the 64 KiB mark of the literals
            for _ in range(nseq):
                ln = rng.choice([40, 60, 200, 1000])
                at = rng.randrange(min(room - 1, 1000), room)
                ln = min(ln, room - at)
                hist = out + blk[:at]
                if len(hist) > ln + 8 and ln >= 8:
                    st = rng.randrange(len(hist) - ln)
                    blk[at:at + ln] = hist[st:st + ln]
        out += blk
    return bytes(out[:n])


def exactlen(rng, n):
    """incompressible bytes carrying a few isolated matches of an EXACT short length (3..8, the bytes just before and after differ), each after
    a long match-free stretch (256..3000 bytes): the skipping match finders (fast / double-fast step up their stride while nothing is found)
    meet the match at every stride phase, with a match length at the edge of minMatch and of their hash-table write-back rules"""
    x = bytearray(randbytes(rng, n))
    pos = rng.randint(300, 1200)
    while pos + 16 < n:
        ln = rng.choice([3, 4, 4, 4, 5, 6, 7, 8])
        q = rng.randrange(1, max(2, pos - ln - 8))
        x[pos:pos + ln] = x[q:q + ln]
        if pos + ln < n: x[pos + ln] = x[q + ln] ^ 0x55
        x[pos - 1] = x[q - 1] ^ 0xAA
        pos += ln + rng.randint(256, 3000)
    return bytes(x)


def ldmjob(rng):
    """several MiB of incompressible bytes with ONE long repetition placed so that, inside a worker job of `jmb` MiB with long-distance matching,
    the 1 MiB chunks the long-distance matcher works through are: chunks without any match (not only the first of the job), then a chunk
    that holds the match - its literal run spans the match-free chunks before it.  Returns (bytes, jmb)."""
    MB = 1 << 20
    jmb = rng.choice([3, 4, 4, 5])
    n = jmb * MB + rng.randint(1000, 200000)
    x = bytearray(randbytes(rng, n))
    c = rng.randint(2, jmb - 1)                       # chunk of the job that holds the match; chunk c-1 (not the first) has none
    ln = rng.choice([2048, 8192, 8192, 30000])
    dst = c * MB + rng.randint(250000, MB - ln - 50000)
    src = rng.choice([dst - rng.randint(100000, 240000), rng.randint(0, MB - ln - 1)])      # same chunk, or back in chunk 0
    x[dst:dst + ln] = x[src:src + ln]
    return bytes(x), jmb


def ringlap(rng, wl, n):
    """Huffman-compressible bytes (flat alphabet) whose matches sit at distances just below the window size 2^wl: in a streaming decoder
    every such match reads history from the far end of the window, i.e. from the previous lap of the decoder's ring buffer"""
    W = 1 << wl
    A = rng.choice([24, 40, 64]); base = rng.randrange(256 - A)
    x = bytearray(base + rng.randrange(A) for _ in range(n))
    pos = W
    while pos + 40 < n:
        ln = rng.choice([6, 8, 12, 20, 30])
        dist = W - rng.choice([0, 1, 2, 5, 17, 40, 100])
        if pos - dist >= 0:
            x[pos:pos + ln] = x[pos - dist:pos - dist + ln]
        pos += ln + rng.randint(20, 300)
    return bytes(x)


def subtail(rng, nblocks):
    """128 KiB blocks made of one or two long copies of earlier data followed by a short incompressible tail holding a single short match;
    the next block starts by re-using that match's distance. With ZSTD_c_targetCBlockSize the tail becomes a raw sub-block whose
    sequence is never sent: the repeat-offset history handed to the next block has to be rebuilt from the sequences that were sent."""
    BLK = 131072
    out = bytearray(text(rng, BLK))
    lastdist = 0
    for b in range(1, nblocks):
        tail = rng.choice([300, 1200, 2500, 6000])
        dist = rng.randint(20, min(400, tail - 30))
        if lastdist:
            out += randbytes(rng, rng.randint(1, 4))
            for _ in range(rng.randint(8, 60)):
                out.append(out[-lastdist])
        room = BLK - (len(out) % BLK)
        body = room - tail
        st = rng.randrange(0, len(out) - body) if len(out) > body else 0
        if rng.random() < 0.6:
            out += out[st:st + body]
        else:
            h = body // 2
            out += out[st:st + h]
            st2 = rng.randrange(0, len(out) - (body - h))
            out += out[st2:st2 + body - h]
        t = bytearray(randbytes(rng, tail))
        pos = rng.randint(dist, tail - 8); ln = rng.randint(4, 8)
        t[pos:pos + ln] = t[pos - dist:pos - dist + ln]
        out += t
        lastdist = dist
    out += randbytes(rng, 3)
    for _ in range(48):
        out.append(out[-lastdist])
    out += text(rng, rng.choice([100, 5000, 60000]))
    return bytes(out)


KINDS = [text, randbytes, periodic, repcodes, small_alphabet, runs, tinymatches]


def gen(rng, maxn):
    k = rng.random()
    if k < 0.05:
        n = rng.choice([0, 1, 2, 3, 4, 7, 8, 9, 15, 16, 17])
    elif k < 0.5:
        n = rng.randint(0, min(maxn, 3000))
    else:
        n = rng.randint(0, maxn)
    f = rng.choice(KINDS + [mixed, mixed, text, longcopies, noisecopies])
    return f.__name__, f(rng, n)


def _units(rng, out, count, lit, ml, near):
    """`count` units of `lit` fresh random bytes followed by an `ml`-byte copy of earlier data (one sequence each for a parser that
    finds the copy): near = small recurring distances, else far unique spots"""
    dists = [rng.randint(ml + 1, 900) for _ in range(3)]
    for _ in range(count):
        out += randbytes(rng, lit)
        if near:
            d = rng.choice(dists)
        else:
            d = rng.randint(ml + 1, max(ml + 2, min(len(out) - 1, 100000)))
        if d >= len(out):
            d = len(out) - 1
        for _k in range(ml):
            out.append(out[-d])


def splitlong(rng, nblocks):
    """every 128 KiB block: K one-sequence units of one style, ONE copy longer than 64 KiB, K-1 units of another style - the long sequence
    sits at the middle sequence index, where the post-parse block splitter cuts first (long-length marker at a partition start)"""
    BLK = 131072
    out = bytearray(text(rng, BLK))
    for b in range(nblocks):
        start = len(out)
        a_lit, a_ml = rng.choice([(8, 12), (6, 9), (12, 20)])
        b_lit, b_ml = rng.choice([(2, 40), (3, 30), (1, 24)])
        ua, ub = a_lit + a_ml, b_lit + b_ml
        K = rng.randint(200, (BLK - 65560) // (ua + ub))
        pre = rng.randint(1, 6)
        longlen = BLK - K * ua - (K - 1) * ub - pre
        _units(rng, out, K, a_lit, a_ml, False)
        out += randbytes(rng, pre)
        st = rng.randrange(0, max(1, start - longlen - 10))
        out += out[st:st + longlen]
        _units(rng, out, K - 1, b_lit, b_ml, True)
        assert len(out) - start == BLK
    return bytes(out)


def splitraw(rng, nblocks):
    """every 128 KiB block: a first half of noise carrying sparse 4-5 byte copies at three recurring distances (not worth compressing,
    yet it owns sequences), a second half of well-compressible units that re-use exactly those distances at once - when the splitter
    stores the first partition raw the decoder never sees its sequences and the repeat-offset history must be rewound"""
    BLK = 131072
    out = bytearray(text(rng, BLK))
    for b in range(nblocks):
        start = len(out)
        dists = [rng.randint(8, 2000) for _ in range(3)]
        nA = rng.choice([160, 200, 320, 400])
        half = rng.choice([60000, 65536, 70000])
        gap = half // nA
        seg = bytearray(randbytes(rng, half))
        i = max(dists) + 1
        cnt = 0
        while i + 6 < half:
            d = rng.choice(dists); ln = rng.choice([4, 4, 5])
            base = start + i
            for k in range(ln):
                src = base + k - d
                seg[i + k] = out[src] if src < start else seg[src - start]
            i += rng.randint(max(8, gap - 20), gap + 20); cnt += 1
        out += seg
        # second half: units re-using the same distances straight away
        while len(out) - start < BLK - 64:
            out += randbytes(rng, rng.choice([1, 2, 3]))
            d = rng.choice(dists); ml = rng.choice([6, 12, 30])
            for _k in range(ml):
                out.append(out[-d])
        out += randbytes(rng, BLK - (len(out) - start))
    return bytes(out)


def mtlevel_dirs(rng):
    """(input chunk sizes, directive string) for a streaming compression that changes the level in mid-frame AFTER the first job of a worker-thread
    compression has been posted (level 1/3: job size 2 MiB): 'u' raises the level to 12, 'w' lowers it to 1; both apply to the jobs created afterwards."""
    ins, avg = rng.choice([("300000", 300000), ("1000000", 1000000), ("100000,700000", 400000), ("65536", 65536)])
    k = rng.randint(2300000 // avg + 1, 3600000 // avg)
    tail = rng.choice(["c" * 400, "c" * (2200000 // avg + 1) + "w" + "c" * 400, "c" * (4200000 // avg + 1) + "w" + "c" * 400])
    return ins, "c" * k + "u" + tail


def ldmedge(rng, s_, second=True):
    """about 1.3 MB of incompressible bytes with two planted 8 KB copies of earlier stretches: the first copy ENDS `s_` bytes past a 128 KiB block edge
    (a long-distance match split at the edge leaves a remainder shorter than the minimum match behind it), the second follows in the same worker job
    (its position is what a lost remainder shifts)"""
    n = 1300000 + rng.randint(0, 50000)
    x = bytearray(randbytes(rng, n))
    edge = rng.choice([4, 5, 6, 7]) * 131072
    ln = 8192
    d1 = edge + s_ - ln
    x[d1:d1 + ln] = x[1000:1000 + ln]
    if second:
        d2 = edge + rng.randint(40000, 200000)
        x[d2:d2 + ln] = x[20000:20000 + ln]
    return bytes(x)
