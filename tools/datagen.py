"""seeded input generators (structure-aware, mostly compressible, with incompressible and degenerate cases)"""
import random

WORDS = [b"the", b"of", b"and", b"zstd", b"frame", b"block", b"literal", b"sequence", b"offset", b"match", b"window", b"table",
         b"entropy", b"huffman", b"fse", b"state", b"repeat", b"dictionary", b"checksum", b"stream", b"0123456789", b"\n", b"  ", b"{}", b"==="]


def text(rng, n):
    out = bytearray()
    while len(out) < n:
        out += rng.choice(WORDS)
        out += b" " if rng.random() < 0.8 else b""
    return bytes(out[:n])


def randbytes(rng, n):
    return bytes(rng.getrandbits(8) for _ in range(n)) if n < 4096 else rng.getrandbits(8 * n).to_bytes(n, "little")


def periodic(rng, n):
    k = rng.choice([1, 2, 3, 4, 5, 7, 8, 15, 16, 17, 31, 64, 255, 1000])
    unit = randbytes(rng, k)
    return (unit * (n // k + 1))[:n]


def repcodes(rng, n):
    """three alternating distances, short literals in between"""
    out = bytearray(randbytes(rng, 64))
    d = [rng.randint(1, 60), rng.randint(1, 60), rng.randint(1, 60)]
    while len(out) < n:
        k = rng.random()
        if k < 0.3:
            out += randbytes(rng, rng.randint(0, 4))
        else:
            dist = rng.choice(d)
            ln = rng.randint(3, 40)
            for _ in range(ln):
                out.append(out[-dist])
    return bytes(out[:n])


def small_alphabet(rng, n):
    a = rng.randint(2, 6)
    return bytes(rng.randrange(a) + 65 for _ in range(n))


def mixed(rng, n):
    out = bytearray()
    while len(out) < n:
        m = rng.randint(1, max(1, min(n, 20000)))
        out += rng.choice(KINDS)(rng, m)
        if rng.random() < 0.3 and len(out) > 100:
            # long-distance copy
            st = rng.randrange(len(out) - 50)
            out += out[st:st + rng.randint(10, 5000)]
    return bytes(out[:n])


KINDS = [text, randbytes, periodic, repcodes, small_alphabet]


def gen(rng, maxn):
    k = rng.random()
    if k < 0.05:
        n = rng.choice([0, 1, 2, 3, 4, 7, 8, 9, 15, 16, 17])
    elif k < 0.5:
        n = rng.randint(0, min(maxn, 3000))
    else:
        n = rng.randint(0, maxn)
    f = rng.choice(KINDS + [mixed, mixed, text])
    return f.__name__, f(rng, n)
