#!/usr/bin/env python3
"""check.py Cxx [--tier quick|thorough] [--replay FILE]

Pipeline (DESIGN.md §0): rebuild from /repo's working tree -> regenerate Gen/*.lean -> lake build of
the model, the driver and Props/Cxx.lean -> proof audit -> correspondence run (model vs implementation)
-> evidence.  Exit 0 iff the property held on everything explored; otherwise one line
`VIOLATION property=Cxx replay=<path>[ no-failing-input-found]` per violation and exit 1."""
import argparse, importlib, json, os, re, sys, time, traceback

sys.path.insert(0, os.path.dirname(os.path.abspath(__file__)))
import build, zv

VERIF = build.VERIF


class Ctx:
    def __init__(self, prop, tier, seed):
        self.prop, self.tier, self.seed = prop, tier, seed
        self.rng = zv.Rng(seed * 1000003 + sum(map(ord, prop)))
        self.violations = []      # dicts: desc, replay (dict), no_input (bool), key
        self.known_hits = []
        self.notes = []
        self.t0 = time.time()
        kf = zv.known_findings()
        self.known = [k for k in kf.get("known", []) if k.get("property") == prop]

    def quick(self):
        return self.tier == "quick"

    def violation(self, desc, replay, no_input=False, key=None):
        """record a violation unless it is a listed known finding (matched by key)"""
        for k in self.known:
            if key is not None and k.get("key") == key:
                if key not in [h["key"] for h in self.known_hits]:
                    self.known_hits.append(k)
                return
        self.violations.append(dict(desc=desc, replay=replay, no_input=no_input, key=key))

    def elapsed(self):
        return time.time() - self.t0


def write_replay(prop, idx, data):
    d = os.path.join(VERIF, "replays")
    os.makedirs(d, exist_ok=True)
    p = os.path.join(d, "%s_%d_%d.json" % (prop, int(time.time()), idx))
    with open(p, "w") as f:
        json.dump(data, f, indent=1, default=str)
    return p


def broken_obligations(log):
    """theorem names / first error lines out of a failed lake build log"""
    errs = re.findall(r"error: (\S+\.lean):(\d+):\d+: (.*)", log)
    out = []
    for f, ln, msg in errs[:12]:
        name = None
        try:
            lines = open(os.path.join(zv.LEAN, f)).read().split("\n")
            for k in range(int(ln) - 1, -1, -1):
                m = re.match(r"\s*(?:private\s+)?(theorem|example|def|lemma)\s*(\S*)", lines[k])
                if m:
                    name = (m.group(1) + " " + m.group(2)).strip()
                    break
        except Exception:
            pass
        out.append(dict(file=f, line=int(ln), decl=name, message=msg[:300]))
    return out


def main():
    ap = argparse.ArgumentParser()
    ap.add_argument("prop")
    ap.add_argument("--tier", default=os.environ.get("VERIF_TIER", "quick"))
    ap.add_argument("--replay")
    a = ap.parse_args()
    prop = a.prop.upper()
    tier = a.tier if a.tier in ("quick", "thorough") else "quick"
    try:
        seed = int(os.environ.get("VERIF_SEED", "1"))
    except ValueError:
        seed = 1
    ctx = Ctx(prop, tier, seed)
    mod = importlib.import_module("props." + prop.lower())
    evidence_path = os.path.join(VERIF, "evidence", prop + ".json")
    cov = dict(obligations=0, discharged=0, checker_cmd="", trusted_base=[], evaluations=0, distinct_nontrivial=0,
               rule="", samples=[])
    assumptions = list(getattr(mod, "ASSUMPTIONS", []))
    proofs_ok = False
    driver_ok = False
    try:
        # 1. rebuild + regenerate
        try:
            changed, tables, cps, dps = zv.regenerate()
            ctx.gen = dict(tables=tables, cps=cps, dps=dps)
            cov["gen_files_changed_this_run"] = changed
            cov["tree_hash"] = build.tree_hash()
        except (build.BuildError, Exception) as e:
            ctx.violation("the current tree does not build / the table dumper failed: %s" % str(e)[-1500:],
                          dict(kind="build", error=str(e)[-4000:]), no_input=True)
            raise StopIteration
        if a.replay:
            ok, log, _ = zv.lake_build(["zvdriver"])
            with open(a.replay) as f:
                data = json.load(f)
            r = mod.replay(ctx, data)
            print(json.dumps(r, indent=1, default=str))
            sys.exit(1 if r.get("violates") else 0)
        # 2. lean: driver (model only), then the property theorems
        ok_d, log_d, t_d = zv.lake_build(["zvdriver"])
        driver_ok = ok_d
        ok_p, log_p, t_p = zv.lake_build(["ZstdVerif.Props." + prop])
        ns, thms, nex = zv.theorems_of(prop)
        cov["obligations"] = len(thms) + nex
        cov["checker_cmd"] = "cd lean && lake build ZstdVerif.Props.%s && lake env lean <#print axioms of every theorem>" % prop
        cov["lake_build_s"] = round(t_d + t_p, 1)
        if not ok_d:
            ctx.violation("the Lean model no longer compiles against the regenerated tables", dict(
                kind="model-build", broken=broken_obligations(log_d), log=log_d[-3000:]), no_input=True)
        if not ok_p and ok_d:
            broken = broken_obligations(log_p)
            found = None
            if hasattr(mod, "search_failing_input"):
                try:
                    found = mod.search_failing_input(ctx, broken, log_p)
                except Exception as e:
                    ctx.notes.append("search_failing_input raised: %r" % e)
            if found:
                ctx.violation("proof obligation broken and a concrete failing input found: " + found["desc"],
                              dict(kind="broken-proof+witness", broken=broken, witness=found), key=found.get("key"))
            else:
                ctx.violation("proof obligation(s) no longer check: " + "; ".join("%s (%s:%d)" % (b["decl"], b["file"], b["line"]) for b in broken[:4]),
                              dict(kind="broken-proof", broken=broken, log=log_p[-3000:]), no_input=True)
            cov["discharged"] = 0
            cov["broken"] = broken
        if ok_p:
            au = zv.audit(prop)
            cov["theorems"] = au["theorems"]
            cov["axioms"] = au["axioms"]
            cov["trusted_base"] = sorted({x for v in au["axioms"].values() for x in v}) + [
                "Lean 4 kernel", "tools/gen.py + harness/gen_tables.c (translator)", "correspondence harness"]
            if au["ok"]:
                cov["discharged"] = cov["obligations"]
                proofs_ok = True
            else:
                cov["discharged"] = 0
                ctx.violation("proof audit failed: %s" % json.dumps({k: au[k] for k in ("forbidden", "bad_axioms") if au.get(k)} or au.get("audit_error", ""))[:600],
                              dict(kind="audit", audit=au), no_input=True)
            if tier == "thorough":
                okc, outc = zv.leanchecker(prop)
                cov["leanchecker"] = "ok" if okc else outc
                if not okc:
                    ctx.violation("leanchecker rejected ZstdVerif.Props.%s" % prop, dict(kind="leanchecker", out=outc), no_input=True)
        # 3. correspondence
        if driver_ok:
            r = mod.correspondence(ctx)
            for k in ("evaluations", "distinct_nontrivial", "rule", "samples"):
                cov[k] = r.get(k, cov[k])
            for k, v in r.items():
                if k not in cov:
                    cov[k] = v
    except StopIteration:
        pass
    except Exception as e:
        tb = traceback.format_exc()
        ctx.violation("check machinery failed: %r" % e, dict(kind="internal", traceback=tb[-4000:]), no_input=True)
    finally:
        build.prune()
    # 4. report
    for k in ctx.known_hits:
        print("KNOWN-FINDING: property=%s %s" % (prop, k.get("what", k.get("key"))))
    nv = 0
    for i, v in enumerate(ctx.violations):
        data = dict(property=prop, seed=seed, tier=tier, description=v["desc"], tree_hash=build.tree_hash() if True else None)
        data.update(v["replay"] or {})
        path = write_replay(prop, i, data)
        print("VIOLATION property=%s replay=%s%s" % (prop, path, " no-failing-input-found" if v["no_input"] else ""))
        sys.stderr.write("  -> %s\n" % v["desc"][:500])
        nv += 1
        if i >= 9:
            break
    level = "proof" if (cov["obligations"] > 0 and cov["discharged"] == cov["obligations"]) else "other"
    if level == "other":
        cov["explanation"] = "proof obligations not all discharged in this run (%d of %d); see violations" % (cov["discharged"], cov["obligations"])
    if cov["distinct_nontrivial"] < 2 and level == "proof":
        pass
    ev = dict(property_id=prop, tier=tier, seed=seed, level=level, coverage=cov, assumptions=assumptions,
              wall_s=round(time.time() - ctx.t0, 2), violations=len(ctx.violations),
              known_findings_hit=[k.get("key") for k in ctx.known_hits], notes=ctx.notes)
    os.makedirs(os.path.dirname(evidence_path), exist_ok=True)
    with open(evidence_path + ".tmp", "w") as f:
        json.dump(ev, f, indent=1, default=str)
    os.replace(evidence_path + ".tmp", evidence_path)
    print("%s %s seed=%d: obligations %d/%d, correspondence evaluations=%d distinct=%d, violations=%d, known=%d, %.1fs" % (
        prop, tier, seed, cov["discharged"], cov["obligations"], cov["evaluations"], cov["distinct_nontrivial"], len(ctx.violations), len(ctx.known_hits), time.time() - ctx.t0))
    sys.exit(1 if ctx.violations else 0)


if __name__ == "__main__":
    main()
