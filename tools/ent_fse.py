"""Differential tie between the Lean model of the FSE encoder (lean/ZstdVerif/Model/FSEEnc.lean, decoding table: Model/FSE.lean) and the
C code (FSE_buildCTable_wksp, FSE_buildDTable_wksp, FSE_initCState2 / FSE_encodeSymbol / FSE_flushCState over bitstream.h).

C side: harness/zvh_fseenc.c; Lean side: `zvdriver fseenc` (lean/Driver/FSEEnc.lean).  Ops (one output line per op):
  ctable <tableLog> <counts>           -> ok log=<tableLog> st=<tableU16[...]> tt=<deltaNbBits:deltaFindState,...>   (model appends spreadOK= spreadEncEqDec=)
  dtable <tableLog> <counts>           -> ok cells=<symbol:nbBits:newState,...>
  enc <tableLog> <counts> <symbols>    -> ok <hex of the closed bit stream>
  seqtableLL|OF|ML <tableLog> <counts> -> ok cells=<nextState:nbAddBits:nbBits:baseValue,...>   (ZSTD_buildFSETable, both BMI2 settings)
  ncount <tableLog> <counts>           -> ok <hex of the table description> | err generic | err tableLog_tooLarge
                                          C: FSE_writeNCount (fse_compress.c), model: NCountW.writeNCount? (lean/ZstdVerif/Model/NCountW.lean)
  rncount <maxSV> <hex|->              -> ok log=<tableLog> norm=<c0,...,c_maxSVout> used=<bytes read> | err <class>
                                          C: FSE_readNCount (entropy_common.c, both BMI2 settings) on exactly those bytes, model: FSE.readNCount
For ncount / rncount the two lines must be equal, error lines included (the error class names agree on both sides).  The rncount ops are
made from the descriptions the C writer produced in a first pass (followed by 0..7 extra bytes, cut short, mutated), so the tool also
checks the round trip FSE_readNCount(FSE_writeNCount(norm)) = (norm without its trailing zeros, tableLog, size of the description).

Stand-alone:  python3 tools/ent_fse.py <seed> [full]
"""
import os, re, sys
sys.path.insert(0, os.path.dirname(os.path.abspath(__file__)))
import build, zv

# the three predefined distributions of zstd (lean/ZstdVerif/Gen/Tables.lean: LL_defaultNorm, ML_defaultNorm, OF_defaultNorm)
LL_DEFAULT = (6, [4, 3, 2, 2, 2, 2, 2, 2, 2, 2, 2, 2, 2, 1, 1, 1,
                  2, 2, 2, 2, 2, 2, 2, 2, 2, 3, 2, 1, 1, 1, 1, 1,
                  -1, -1, -1, -1])
ML_DEFAULT = (6, [1, 4, 3, 2, 2, 2, 2, 2, 2, 1, 1, 1, 1, 1, 1, 1,
                  1, 1, 1, 1, 1, 1, 1, 1, 1, 1, 1, 1, 1, 1, 1, 1,
                  1, 1, 1, 1, 1, 1, 1, 1, 1, 1, 1, 1, 1, 1, -1, -1,
                  -1, -1, -1, -1, -1])
OF_DEFAULT = (5, [1, 1, 1, 1, 1, 1, 2, 2, 2, 1, 1, 1, 1, 1, 1, 1,
                  1, 1, 1, 1, 1, 1, 1, 1, -1, -1, -1, -1, -1])
DEFAULTS = [LL_DEFAULT, ML_DEFAULT, OF_DEFAULT]

FLAVOURS = ["lowprob", "zeros", "dominant", "uniform", "single", "nolow", "trailing", "mixed", "alllow", "default"]
SUFFIX_RE = re.compile(r" spreadOK=(true|false) spreadEncEqDec=(true|false)$")


def _composition(rng, total, parts):
    """random composition of `total` into `parts` positive integers"""
    if parts == 1:
        return [total]
    cuts = sorted(rng.sample(range(1, total), parts - 1))
    return [b - a for a, b in zip([0] + cuts, cuts + [total])]


def _place(rng, n, present, values, prefix=False):
    """lay `values` down on `present` positions of an alphabet of n symbols (the others get 0)"""
    norm = [0] * n
    pos = list(range(present)) if prefix else sorted(rng.sample(range(n), present))
    vals = list(values)
    rng.shuffle(vals)
    for p, v in zip(pos, vals):
        norm[p] = v
    return norm


def gen_norm(rng, flavour=None):
    """-> (tableLog, counts): a valid normalised distribution (the counts sum to 2^tableLog, -1 counting for 1)"""
    flavour = flavour or rng.choice(FLAVOURS)
    if flavour == "default":
        log, norm = rng.choice(DEFAULTS)
        return log, list(norm)
    log = rng.randint(5, 12)
    size = 1 << log
    if flavour == "alllow" and size > 256:
        log = rng.randint(5, 8)
        size = 1 << log
    n = rng.choice([1, 2, rng.randint(1, 8), rng.randint(1, 16), rng.randint(1, 64), rng.randint(1, 64), rng.randint(1, 256), rng.randint(1, 256),
                    rng.randint(1, 256), 255, 256])
    if flavour == "single":
        norm = [0] * n
        norm[rng.choice([0, n - 1, rng.randrange(n)])] = size
        return log, norm
    if flavour == "alllow":
        # every cell of the table is a low-probability symbol (highThreshold runs down to "-1" in C)
        n = rng.choice([size, size, rng.randint(size, 256)])
        return log, _place(rng, n, size, [-1] * size)
    if n == 1:
        return log, [size]
    present = rng.randint(1, min(n, size))     # symbols with a non-zero count
    if flavour == "trailing" and n >= 2:
        present = rng.randint(1, min(n - 1, size))
    elif flavour == "zeros":
        present = rng.randint(1, max(1, min(n // 4, size)))
    elif flavour in ("uniform", "lowprob", "nolow", "mixed"):
        present = rng.randint(max(1, min(n, size) // 2), min(n, size))
    if flavour == "lowprob":
        low = rng.randint(present // 2, present)
    elif flavour in ("nolow", "uniform"):
        low = 0
    else:
        low = rng.choice([0, 0, 1, rng.randint(0, present), rng.randint(0, max(0, present // 4))])
    if low == present and present < size:
        low = present - 1                       # the positive counts have to fill the rest of the table
    pos = present - low
    rest = size - low
    if pos == 0:
        vals = []
    elif flavour == "uniform":
        q, r = divmod(rest, pos)
        vals = [q + (1 if i < r else 0) for i in range(pos)]
    elif flavour == "dominant" and pos >= 2 and rest - (pos - 1) >= 2:
        hi = rest - (pos - 1)
        big = rng.randint(max(1, hi // 2), hi)
        vals = [big] + (_composition(rng, rest - big, pos - 1) if pos > 1 else [])
    elif flavour == "mixed" and pos >= 3 and rest >= 4 * pos:
        # a few heavy symbols, many symbols of count 1 or 2
        heavy = rng.randint(1, max(1, pos // 8))
        light = [rng.choice([1, 1, 2]) for _ in range(pos - heavy)]
        vals = light + _composition(rng, rest - sum(light), heavy)
    else:
        vals = _composition(rng, rest, pos)
    vals = vals + [-1] * low
    return log, _place(rng, n, present, vals, prefix=(flavour == "trailing"))


def gen_symbols(rng, norm):
    """a symbol sequence (1..2000 symbols) over the symbols of non-zero count"""
    live = [s for s, c in enumerate(norm) if c != 0]
    k = rng.random()
    if k < 0.10:
        n = 1
    elif k < 0.40:
        n = rng.randint(2, 20)
    elif k < 0.85:
        n = rng.randint(21, 300)
    else:
        n = rng.randint(301, 2000)
    k = rng.random()
    if k < 0.12:
        return [rng.choice(live)] * n
    if k < 0.50:
        return [rng.choice(live) for _ in range(n)]
    if k < 0.60:
        few = rng.sample(live, min(len(live), rng.randint(1, 3)))
        return [rng.choice(few) for _ in range(n)]
    weights = [(1 if norm[s] == -1 else norm[s]) for s in live]      # the distribution the table was made for
    return rng.choices(live, weights=weights, k=n)


ALPHA = dict(LL=(36, 9), OF=(32, 8), ML=(53, 9))      # alphabet size, largest accepted table log (LLFSELog / OffFSELog / MLFSELog)


def gen_seqtable_op(rng):
    """ZSTD_buildFSETable (the sequence-table builder of the decoder): distributions over one of the three sequence alphabets, accuracy logs
    5..max, biased to many "less than one" (-1) symbols at small logs, where the walk has to skip the reserved top of the table repeatedly"""
    which = rng.choice(["LL", "OF", "ML"]); nmax, lmax = ALPHA[which]
    log = rng.choice([5, 5, 6, 6, 7, rng.randint(5, lmax)])
    size = 1 << log
    n = rng.randint(2, nmax)
    low = rng.randint(0, min(n - 1, size - 1)) if rng.random() < 0.7 else 0
    if rng.random() < 0.4:
        low = min(n - 1, size - 1, rng.randint(max(0, n - 4), n))          # nearly every symbol "less than one"
    pos = rng.randint(1, max(1, min(n - low, size - low)))
    rest = size - low
    cuts = sorted(rng.sample(range(1, rest), pos - 1)) if pos > 1 and rest > pos - 1 else []
    if len(cuts) != pos - 1:
        pos = 1; cuts = []
    vals = [b - a for a, b in zip([0] + cuts, cuts + [rest])]
    counts = [-1] * low + vals + [0] * (n - low - pos)
    rng.shuffle(counts)
    while counts and counts[-1] == 0:
        counts.pop()
    return "seqtable%s %d %s" % (which, log, ",".join(map(str, counts)))


def gen_op(rng):
    if rng.random() < 0.25:
        return gen_seqtable_op(rng)
    log, norm = gen_norm(rng)
    counts = ",".join(map(str, norm))
    k = rng.random()
    if k < 0.35:
        return "ctable %d %s" % (log, counts)
    if k < 0.60:
        return "dtable %d %s" % (log, counts)
    return "enc %d %s %s" % (log, counts, ",".join(map(str, gen_symbols(rng, norm))))


# ---------------------------------------------------------------------------------------------------------- table descriptions

# numbers of zero-count symbols between two non-zero counts: the writer emits the first zero as a count, then the run of the other k - 1
# (24 zeros = 16 bits `1`, 3 zeros = 2 bits `11`, then a 2-bit rest); the reader takes 36 at a time (12 fields), then 3 at a time
ZRUNS = [1, 2, 3, 4, 5, 22, 23, 24, 25, 26, 27, 28, 36, 37, 38, 47, 48, 49, 50, 71, 72, 73, 74, 75, 96, 97, 98, 100, 108, 109, 110, 120, 121, 122]


def _values(rng, size, m, low=None):
    """m non-zero counts (-1 allowed) whose weights sum to size; m <= size"""
    assert 1 <= m <= size
    if low is None:
        low = rng.choice([0, 0, 1, 2, rng.randint(0, m), rng.randint(0, max(0, m // 4))])
    low = min(low, m)
    if low == m and m < size:
        low = m - 1
    pos = m - low
    vals = (_composition(rng, size - low, pos) if pos else []) + [-1] * low
    rng.shuffle(vals)
    return vals


def gen_zero_run_norm(rng, runs=None, log=None, lead=None):
    """a valid distribution (last count non-zero) with the given numbers of zero counts between non-zero counts; `lead` = number of
    zero counts in front of the first non-zero one (None: random)"""
    log = log or rng.randint(5, 12)
    size = 1 << log
    if runs is None:
        runs = [rng.choice(ZRUNS) for _ in range(rng.choice([1, 1, 2, 2, 3, 4, 6]))]
    runs = list(runs)
    while sum(runs) + len(runs) + 1 > 256:
        runs.pop()
    room = 256 - sum(runs) - (len(runs) + 1)
    if lead is None:
        lead = rng.choice([0, 0, 0, 1, 2, 3, 24, 25, rng.randint(0, 60)])
    lead = min(lead, room)
    room -= lead
    # the layout: lead zeros, then groups of non-zero counts separated by the runs
    groups = []
    for _ in range(len(runs) + 1):
        g = min(room + 1, rng.choice([1, 1, 1, 2, 3, rng.randint(1, 12)]))
        room -= g - 1
        groups.append(g)
    m = sum(groups)
    while m > size:                                # more non-zero counts than cells: shrink the groups
        k = max(range(len(groups)), key=lambda i: groups[i])
        groups[k] -= 1
        m -= 1
    vals = _values(rng, size, m)
    # "less than one" counts right before / right after a run, often
    edges, p = [], 0
    for k, g in enumerate(groups):
        if k > 0:
            edges.append(p)                        # first count behind a run
        if k < len(groups) - 1:
            edges.append(p + g - 1)                # last count in front of a run
        p += g
    if -1 in vals and edges and rng.random() < 0.6:
        for e in rng.sample(edges, rng.randint(1, len(edges))):
            j = vals.index(-1)
            if vals[e] != -1:
                vals[j], vals[e] = vals[e], vals[j]
    norm, p = [0] * lead, 0
    for k, g in enumerate(groups):
        norm += vals[p:p + g]
        p += g
        if k < len(runs):
            norm += [0] * runs[k]
    assert len(norm) <= 256 and norm[-1] != 0 and sum(abs(c) for c in norm) == size
    return log, norm


def gen_ncount_valid(rng, n):
    """-> list of (tableLog, counts), all valid for FSE_writeNCount (sum = 2^tableLog; trailing zeros are tolerated by the C function when
    the counts in front of them fill the table: both shapes are produced, gen_norm leaves trailing zeros in)"""
    out = []
    for fl in FLAVOURS:                                             # every flavour of gen_norm, as is and without its trailing zeros
        for _ in range(max(2, n // 40)):
            log, norm = gen_norm(rng, fl)
            out.append((log, norm))
            t = list(norm)
            while t and t[-1] == 0:
                t.pop()
            if t != norm:
                out.append((log, t))
    for log in range(5, 13):                                        # per table log: one and two symbols, each run length once
        size = 1 << log
        out.append((log, [size]))
        for hi in (1, 2, 3, 4, 24, 25, 26, 35, 36, 37, 100, 255):
            out.append((log, [0] * hi + [size]))                    # a single symbol behind zeros
        a = rng.randint(1, size - 1)
        out.append((log, [a, size - a]))
        out.append((log, [size - 1, -1]))
        out.append((log, [-1, size - 1]))
        out.append((log, [1, size - 1]))
        out.append((log, [size - 1, 1]))
        out.append((log, [0, a, size - a]))
        for z in (1, 2, 3, 23, 24, 25, 26, 27, 47, 48, 49, 72, rng.randint(100, 254)):
            b = rng.randint(1, size - 1)
            out.append((log, [b] + [0] * z + [size - b]))           # two symbols, z zero counts between them
            out.append((log, [-1] + [0] * z + [size - 1]))
            out.append((log, [size - 1] + [0] * z + [-1]))
    for z in ZRUNS + [rng.randint(100, 253) for _ in range(6)]:     # one run of exactly z zeros, random surroundings
        for _ in range(2):
            out.append(gen_zero_run_norm(rng, [z]))
        out.append(gen_zero_run_norm(rng, [z], lead=0))
    for _ in range(n):                                              # several runs in one distribution
        out.append(gen_zero_run_norm(rng))
    for _ in range(n // 4):                                         # -1 everywhere / nearly everywhere
        log = rng.randint(5, 8)
        size = 1 << log
        m = rng.randint(max(1, size - 8), size) if size <= 128 else rng.randint(120, 200)
        cells = _values(rng, size, m, low=m)
        gaps = 256 - m
        norm = []
        for c in cells:
            if gaps and rng.random() < 0.1:
                z = rng.randint(1, min(gaps, 30))
                norm += [0] * z
                gaps -= z
            norm.append(c)
        out.append((log, norm))
    return out


def gen_ncount_invalid(rng, valid, n):
    """inputs FSE_writeNCount has to refuse (ERROR(GENERIC) / tableLog_tooLarge), or accepts by ignoring a tail: no undefined behaviour
    on any of them (every read of normalizedCounter[] is below alphabetSize, the arithmetic is on int / U32, asserts are compiled out)"""
    out = []
    for _ in range(n):
        log, norm = rng.choice(valid)
        norm = list(norm)
        k = rng.randrange(9)
        nz = [i for i, c in enumerate(norm) if c != 0]
        if k == 0:                                                   # sum too large
            i = rng.choice(nz); norm[i] = (norm[i] if norm[i] > 0 else 1) + rng.choice([1, 1, 2, 100])
        elif k == 1:                                                 # sum too small
            big = [i for i in nz if norm[i] > 1]
            if big:
                i = rng.choice(big); norm[i] -= rng.randint(1, norm[i] - 1)
            else:
                norm[rng.choice(nz)] = 0
        elif k == 2:                                                 # trailing zero counts behind a complete distribution (accepted)
            if len(norm) < 256:
                norm += [0] * rng.randint(1, min(30, 256 - len(norm)))
        elif k == 3:                                                 # the last non-zero count missing: the final zero run reaches the end
            norm[nz[-1]] = 0
        elif k == 4:                                                 # nothing but zeros
            norm = [0] * len(norm)
        elif k == 5:                                                 # a count below -1
            norm[rng.choice(nz)] = -rng.randint(2, 40)
        elif k == 6:                                                 # table log outside FSE_MIN_TABLELOG .. FSE_MAX_TABLELOG
            log = rng.choice([1, 2, 3, 4, 13, 14, 15])
        elif k == 7:                                                 # the counts of another table log
            log = rng.choice([l for l in range(5, 13) if l != log])
        else:                                                        # a huge count
            norm[rng.choice(nz)] = rng.choice([4096, 4097, 8192, 32767, -32768, -4096])
        out.append((log, norm))
    return out


def _hexrand(rng, n):
    return "".join("%02x" % rng.randrange(256) for _ in range(n))


def gen_rncount_ops(rng, described, nrandom):
    """described = [(tableLog, counts, hex of the description)] -> (op lines, {op: the line a correct round trip gives})"""
    ops, expect = [], {}
    for log, norm, hx in described:
        t = list(norm)
        while t and t[-1] == 0:
            t.pop()
        last = len(t) - 1
        good = "ok log=%d norm=%s used=%d" % (log, ",".join(map(str, t)), len(hx) // 2)
        for extra in range(8):                                       # hbSize < 8 (padding path) and the 4-bytes-ahead reads near the end
            tail = _hexrand(rng, extra)
            for msv in sorted({last, min(255, last + 1), 255}):
                op = "rncount %d %s" % (msv, hx + tail)
                ops.append(op)
                expect[op] = good
        for msv in sorted({0, last - 1, rng.randrange(last + 1)} - {last, -1}):      # maxSymbolValue too small
            ops.append("rncount %d %s" % (msv, hx + _hexrand(rng, rng.randint(0, 7))))
        for cut in (1, 2, 3):                                        # a description cut short
            if len(hx) // 2 > cut:
                ops.append("rncount %d %s" % (rng.choice([last, 255]), hx[:-2 * cut]))
        b = bytearray.fromhex(hx)                                    # one bit flipped
        i = rng.randrange(len(b) * 8)
        b[i // 8] ^= 1 << (i % 8)
        ops.append("rncount %d %s" % (rng.choice([last, min(255, last + 1), 255]), b.hex() + _hexrand(rng, rng.randint(0, 7))))
    for _ in range(nrandom):                                         # random byte strings (the low nibble = tableLog - 5 kept small, mostly)
        n = rng.choice([0, 1, 2, 3, 4, 5, 6, 7, 8, 9, rng.randint(10, 40)])
        b = bytearray(rng.randrange(256) for _ in range(n))
        if b and rng.random() < 0.85:
            b[0] = (b[0] & 0xF0) | rng.randint(0, 7)
        if b and rng.random() < 0.3:                                 # long stretches of 1 bits: runs of zero counts
            k = rng.randrange(len(b))
            for j in range(k, min(len(b), k + rng.randint(1, 12))):
                b[j] = 0xFF
        ops.append("rncount %d %s" % (rng.choice([255, 255, 52, 35, 31, rng.randint(0, 255)]), b.hex() or "-"))
    return ops, expect


def run_ncount(rng, n):
    """the FSE_writeNCount / FSE_readNCount tie: -> (violations [(desc, replay-dict)], number of ops compared, counters)"""
    valid = gen_ncount_valid(rng, n)
    invalid = gen_ncount_invalid(rng, valid, max(40, n))
    wops = ["ncount %d %s" % (log, ",".join(map(str, norm))) for log, norm in valid + invalid]
    bad, cl, ml = compare(wops)
    described = []
    if len(cl) == len(wops):
        for (log, norm), c in zip(valid, cl):                        # every valid input must be accepted
            if c.startswith("ok ") and c != "ok -":
                described.append((log, norm, c[3:]))
            else:
                bad.append(("FSE_writeNCount refuses a valid normalised distribution", dict(kind="tie", op="ncount %d %s" % (log, ",".join(map(str, norm))), c=c, model="")))
    rops, expect = gen_rncount_ops(rng, described, 4 * n)
    bad2, cl2, ml2 = compare(rops)
    bad += bad2
    if len(cl2) == len(rops):
        for op, c in zip(rops, cl2):
            if op in expect and c != expect[op]:
                bad.append(("FSE_readNCount does not give back what FSE_writeNCount was given (expected %s)" % expect[op][:200], dict(kind="tie", op=op, c=c, model="", expect=expect[op])))
    stats = dict(ncount_valid=len(valid), ncount_invalid=len(invalid), ncount_c_errors=sum(1 for c in cl if c.startswith("err")),
                 rncount=len(rops), rncount_roundtrip=len(expect), rncount_c_errors=sum(1 for c in cl2 if c.startswith("err")))
    return bad, len(wops) + len(rops), stats


def _exe():
    return build.link("zvh_fseenc", ["zvh_fseenc.c"], "plain")


def compare(lines):
    """run the op lines on both sides -> (list of (desc, replay-dict) for every difference, C lines, model lines)"""
    out = []
    cl, ml, crc, cerr = zv.differential(_exe(), "fseenc", lines)
    if crc != 0 or len(cl) != len(lines) or len(ml) != len(lines):
        k = min(len(cl), len(ml), len(lines) - 1)
        out.append(("FSE harness: C return code %s, %d C lines and %d model lines for %d ops %s" % (crc, len(cl), len(ml), len(lines), cerr[-300:]),
                    dict(kind="tie", op=lines[k], c=cl[k] if k < len(cl) else "<missing>", model=ml[k] if k < len(ml) else "<missing>")))
    for op, c, m in zip(lines, cl, ml):
        kind = op.split(" ", 1)[0]
        m0 = m
        if kind == "ctable":
            sm = SUFFIX_RE.search(m)
            if sm:
                m0 = m[:sm.start()]
                if sm.group(1) != "true":
                    out.append(("FSE encoder model: the spread symbols do not realise the normalised counts (spreadOK=false)",
                                dict(kind="tie", op=op, c=c, model=m)))
                if sm.group(2) != "true":
                    out.append(("FSE: the encoder's symbol spreading differs from the decoder's (spreadEncEqDec=false)",
                                dict(kind="tie", op=op, c=c, model=m)))
            elif m.startswith("ok"):
                out.append(("FSE encoder model: ctable line without the spreadOK / spreadEncEqDec report", dict(kind="tie", op=op, c=c, model=m)))
        if kind in ("ncount", "rncount"):                            # error lines are legitimate answers there: the whole line is compared
            if c != m:
                out.append(("FSE %s: the model and the C code differ" % kind, dict(kind="tie", op=op, c=c, model=m)))
        elif c != m0 or not c.startswith("ok "):
            out.append(("FSE %s: the model and the C code differ" % kind, dict(kind="tie", op=op, c=c, model=m)))
    return out, cl, ml


def run(ctx):
    n = 400 if ctx.quick() else 1500
    lines = []
    for log, norm in DEFAULTS:                 # the three predefined distributions, always
        counts = ",".join(map(str, norm))
        lines += ["ctable %d %s" % (log, counts), "dtable %d %s" % (log, counts),
                  "enc %d %s %s" % (log, counts, ",".join(map(str, gen_symbols(ctx.rng, norm))))]
    lines += [gen_op(ctx.rng) for _ in range(n - len(lines))]
    for desc, data in compare(lines)[0]:
        ctx.violation(desc, data)
    nbad, nops, stats = run_ncount(ctx.rng, 60 if ctx.quick() else 250)
    for desc, data in nbad[:20]:
        ctx.violation(desc, data)
    return dict(evaluations=n + nops, mismatches=len(nbad), **stats)


def replay(ctx, data):
    bad, cl, ml = compare([data["op"]])
    if data.get("expect") and cl[:1] != [data["expect"]]:          # a round trip FSE_readNCount(FSE_writeNCount(norm)) that did not give norm back
        bad = bad or [("round trip", data)]
    return dict(violates=bool(bad), c=cl[0] if cl else "<missing>", model=ml[0] if ml else "<missing>")


if __name__ == "__main__":
    import random

    class Ctx:
        def __init__(self):
            self.rng = random.Random(int(sys.argv[1]) if len(sys.argv) > 1 else 1)
            self.violations = []

        def quick(self):
            return len(sys.argv) <= 2

        def violation(self, desc, replay, no_input=False, key=None):
            self.violations.append(desc)
            print("VIOLATION:", desc[:300], "| op:", str(replay.get("op"))[:300], "| c:", str(replay.get("c"))[:200], "| model:", str(replay.get("model"))[:200])

    cx = Ctx()
    print(run(cx), "violations=%d" % len(cx.violations))
