"""Differential tie between the Lean model of the FSE encoder (lean/ZstdVerif/Model/FSEEnc.lean, decoding table: Model/FSE.lean) and the
C code (FSE_buildCTable_wksp, FSE_buildDTable_wksp, FSE_initCState2 / FSE_encodeSymbol / FSE_flushCState over bitstream.h).

C side: harness/zvh_fseenc.c; Lean side: `zvdriver fseenc` (lean/Driver/FSEEnc.lean).  Ops (one output line per op):
  ctable <tableLog> <counts>           -> ok log=<tableLog> st=<tableU16[...]> tt=<deltaNbBits:deltaFindState,...>   (model appends spreadOK= spreadEncEqDec=)
  dtable <tableLog> <counts>           -> ok cells=<symbol:nbBits:newState,...>
  enc <tableLog> <counts> <symbols>    -> ok <hex of the closed bit stream>
"""
import re
import build, zv

# the three predefined distributions of zstd (lean/ZstdVerif/Gen/Tables.lean: LL_defaultNorm, ML_defaultNorm, OF_defaultNorm)
LL_DEFAULT = (6, [4, 3, 2, 2, 2, 2, 2, 2, 2, 2, 2, 2, 2, 1, 1, 1,
                  2, 2, 2, 2, 2, 2, 2, 2, 2, 3, 2, 1, 1, 1, 1, 1,
                  -1, -1, -1, -1])
ML_DEFAULT = (6, [1, 4, 3, 2, 2, 2, 2, 2, 2, 1, 1, 1, 1, 1, 1, 1,
                  1, 1, 1, 1, 1, 1, 1, 1, 1, 1, 1, 1, 1, 1, 1, 1,
                  1, 1, 1, 1, 1, 1, 1, 1, 1, 1, 1, 1, 1, 1, -1, -1,
                  -1, -1, -1, -1, -1])
OF_DEFAULT = (5, [1, 1, 1, 1, 1, 1, 2, 2, 2, 1, 1, 1, 1, 1, 1, 1,
                  1, 1, 1, 1, 1, 1, 1, 1, -1, -1, -1, -1, -1])
DEFAULTS = [LL_DEFAULT, ML_DEFAULT, OF_DEFAULT]

FLAVOURS = ["lowprob", "zeros", "dominant", "uniform", "single", "nolow", "trailing", "mixed", "alllow", "default"]
SUFFIX_RE = re.compile(r" spreadOK=(true|false) spreadEncEqDec=(true|false)$")


def _composition(rng, total, parts):
    """random composition of `total` into `parts` positive integers"""
    if parts == 1:
        return [total]
    cuts = sorted(rng.sample(range(1, total), parts - 1))
    return [b - a for a, b in zip([0] + cuts, cuts + [total])]


def _place(rng, n, present, values, prefix=False):
    """lay `values` down on `present` positions of an alphabet of n symbols (the others get 0)"""
    norm = [0] * n
    pos = list(range(present)) if prefix else sorted(rng.sample(range(n), present))
    vals = list(values)
    rng.shuffle(vals)
    for p, v in zip(pos, vals):
        norm[p] = v
    return norm


def gen_norm(rng, flavour=None):
    """-> (tableLog, counts): a valid normalised distribution (the counts sum to 2^tableLog, -1 counting for 1)"""
    flavour = flavour or rng.choice(FLAVOURS)
    if flavour == "default":
        log, norm = rng.choice(DEFAULTS)
        return log, list(norm)
    log = rng.randint(5, 12)
    size = 1 << log
    if flavour == "alllow" and size > 256:
        log = rng.randint(5, 8)
        size = 1 << log
    n = rng.choice([1, 2, rng.randint(1, 8), rng.randint(1, 16), rng.randint(1, 64), rng.randint(1, 64), rng.randint(1, 256), rng.randint(1, 256),
                    rng.randint(1, 256), 255, 256])
    if flavour == "single":
        norm = [0] * n
        norm[rng.choice([0, n - 1, rng.randrange(n)])] = size
        return log, norm
    if flavour == "alllow":
        # every cell of the table is a low-probability symbol (highThreshold runs down to "-1" in C)
        n = rng.choice([size, size, rng.randint(size, 256)])
        return log, _place(rng, n, size, [-1] * size)
    if n == 1:
        return log, [size]
    present = rng.randint(1, min(n, size))     # symbols with a non-zero count
    if flavour == "trailing" and n >= 2:
        present = rng.randint(1, min(n - 1, size))
    elif flavour == "zeros":
        present = rng.randint(1, max(1, min(n // 4, size)))
    elif flavour in ("uniform", "lowprob", "nolow", "mixed"):
        present = rng.randint(max(1, min(n, size) // 2), min(n, size))
    if flavour == "lowprob":
        low = rng.randint(present // 2, present)
    elif flavour in ("nolow", "uniform"):
        low = 0
    else:
        low = rng.choice([0, 0, 1, rng.randint(0, present), rng.randint(0, max(0, present // 4))])
    if low == present and present < size:
        low = present - 1                       # the positive counts have to fill the rest of the table
    pos = present - low
    rest = size - low
    if pos == 0:
        vals = []
    elif flavour == "uniform":
        q, r = divmod(rest, pos)
        vals = [q + (1 if i < r else 0) for i in range(pos)]
    elif flavour == "dominant" and pos >= 2 and rest - (pos - 1) >= 2:
        hi = rest - (pos - 1)
        big = rng.randint(max(1, hi // 2), hi)
        vals = [big] + (_composition(rng, rest - big, pos - 1) if pos > 1 else [])
    elif flavour == "mixed" and pos >= 3 and rest >= 4 * pos:
        # a few heavy symbols, many symbols of count 1 or 2
        heavy = rng.randint(1, max(1, pos // 8))
        light = [rng.choice([1, 1, 2]) for _ in range(pos - heavy)]
        vals = light + _composition(rng, rest - sum(light), heavy)
    else:
        vals = _composition(rng, rest, pos)
    vals = vals + [-1] * low
    return log, _place(rng, n, present, vals, prefix=(flavour == "trailing"))


def gen_symbols(rng, norm):
    """a symbol sequence (1..2000 symbols) over the symbols of non-zero count"""
    live = [s for s, c in enumerate(norm) if c != 0]
    k = rng.random()
    if k < 0.10:
        n = 1
    elif k < 0.40:
        n = rng.randint(2, 20)
    elif k < 0.85:
        n = rng.randint(21, 300)
    else:
        n = rng.randint(301, 2000)
    k = rng.random()
    if k < 0.12:
        return [rng.choice(live)] * n
    if k < 0.50:
        return [rng.choice(live) for _ in range(n)]
    if k < 0.60:
        few = rng.sample(live, min(len(live), rng.randint(1, 3)))
        return [rng.choice(few) for _ in range(n)]
    weights = [(1 if norm[s] == -1 else norm[s]) for s in live]      # the distribution the table was made for
    return rng.choices(live, weights=weights, k=n)


ALPHA = dict(LL=(36, 9), OF=(32, 8), ML=(53, 9))      # alphabet size, largest accepted table log (LLFSELog / OffFSELog / MLFSELog)


def gen_seqtable_op(rng):
    """ZSTD_buildFSETable (the sequence-table builder of the decoder): distributions over one of the three sequence alphabets, accuracy logs
    5..max, biased to many "less than one" (-1) symbols at small logs, where the walk has to skip the reserved top of the table repeatedly"""
    which = rng.choice(["LL", "OF", "ML"]); nmax, lmax = ALPHA[which]
    log = rng.choice([5, 5, 6, 6, 7, rng.randint(5, lmax)])
    size = 1 << log
    n = rng.randint(2, nmax)
    low = rng.randint(0, min(n - 1, size - 1)) if rng.random() < 0.7 else 0
    if rng.random() < 0.4:
        low = min(n - 1, size - 1, rng.randint(max(0, n - 4), n))          # nearly every symbol "less than one"
    pos = rng.randint(1, max(1, min(n - low, size - low)))
    rest = size - low
    cuts = sorted(rng.sample(range(1, rest), pos - 1)) if pos > 1 and rest > pos - 1 else []
    if len(cuts) != pos - 1:
        pos = 1; cuts = []
    vals = [b - a for a, b in zip([0] + cuts, cuts + [rest])]
    counts = [-1] * low + vals + [0] * (n - low - pos)
    rng.shuffle(counts)
    while counts and counts[-1] == 0:
        counts.pop()
    return "seqtable%s %d %s" % (which, log, ",".join(map(str, counts)))


def gen_op(rng):
    if rng.random() < 0.25:
        return gen_seqtable_op(rng)
    log, norm = gen_norm(rng)
    counts = ",".join(map(str, norm))
    k = rng.random()
    if k < 0.35:
        return "ctable %d %s" % (log, counts)
    if k < 0.60:
        return "dtable %d %s" % (log, counts)
    return "enc %d %s %s" % (log, counts, ",".join(map(str, gen_symbols(rng, norm))))


def _exe():
    return build.link("zvh_fseenc", ["zvh_fseenc.c"], "plain")


def compare(lines):
    """run the op lines on both sides -> (list of (desc, replay-dict) for every difference, C lines, model lines)"""
    out = []
    cl, ml, crc, cerr = zv.differential(_exe(), "fseenc", lines)
    if crc != 0 or len(cl) != len(lines) or len(ml) != len(lines):
        k = min(len(cl), len(ml), len(lines) - 1)
        out.append(("FSE harness: C return code %s, %d C lines and %d model lines for %d ops %s" % (crc, len(cl), len(ml), len(lines), cerr[-300:]),
                    dict(kind="tie", op=lines[k], c=cl[k] if k < len(cl) else "<missing>", model=ml[k] if k < len(ml) else "<missing>")))
    for op, c, m in zip(lines, cl, ml):
        kind = op.split(" ", 1)[0]
        m0 = m
        if kind == "ctable":
            sm = SUFFIX_RE.search(m)
            if sm:
                m0 = m[:sm.start()]
                if sm.group(1) != "true":
                    out.append(("FSE encoder model: the spread symbols do not realise the normalised counts (spreadOK=false)",
                                dict(kind="tie", op=op, c=c, model=m)))
                if sm.group(2) != "true":
                    out.append(("FSE: the encoder's symbol spreading differs from the decoder's (spreadEncEqDec=false)",
                                dict(kind="tie", op=op, c=c, model=m)))
            elif m.startswith("ok"):
                out.append(("FSE encoder model: ctable line without the spreadOK / spreadEncEqDec report", dict(kind="tie", op=op, c=c, model=m)))
        if c != m0 or not c.startswith("ok "):
            out.append(("FSE %s: the model and the C code differ" % kind, dict(kind="tie", op=op, c=c, model=m)))
    return out, cl, ml


def run(ctx):
    n = 400 if ctx.quick() else 1500
    lines = []
    for log, norm in DEFAULTS:                 # the three predefined distributions, always
        counts = ",".join(map(str, norm))
        lines += ["ctable %d %s" % (log, counts), "dtable %d %s" % (log, counts),
                  "enc %d %s %s" % (log, counts, ",".join(map(str, gen_symbols(ctx.rng, norm))))]
    lines += [gen_op(ctx.rng) for _ in range(n - len(lines))]
    for desc, data in compare(lines)[0]:
        ctx.violation(desc, data)
    return dict(evaluations=n)


def replay(ctx, data):
    bad, cl, ml = compare([data["op"]])
    return dict(violates=bool(bad), c=cl[0] if cl else "<missing>", model=ml[0] if ml else "<missing>")
