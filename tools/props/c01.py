"""C01 — lossless one-shot round trip.  For generated (input, parameter vector, entry point): the real library compresses;
monitor = ZSTD_decompress gives back the input; tie = the independent Lean decoder (Model/Frame.lean) regenerates the same bytes and
its decode trace satisfies Conform.checkFrame (the frame lies in the image of the modelled format)."""
import build, zv, frames, datagen, segfam

ASSUMPTIONS = [
    "the compressor front end (match finders, block splitter, entropy-mode heuristics) is an oracle: its answers are validated per frame by the independent Lean decoder + conformance predicate",
    "inputs are bounded by the run's size limits (quick: 256 KiB); theorems are unbounded",
]
VARIANTS = ["hufx1", "hufx2"]
APIS = ["c2", "c2", "c2", "c2", "simple", "cctx", "adv", "udict", "ucdict"]


def gen_cases(ctx, n, maxsize, start=0):
    rng = ctx.rng
    cases = []
    for i in range(start, start + n):
        kind, x = datagen.gen(rng, maxsize if i % 6 == 0 else min(maxsize, 30000))
        api = rng.choice(APIS)
        p = frames.param_vector(rng, ctx.quick()) if api == "c2" else {100: rng.choice([-3, 1, 3, 5, 9, 13, 17, 19])}
        if i % 12 == 5:
            # heavy profile: several full blocks of mixed compressibility through the optimal parser / splitter / sub-block paths
            if rng.random() < 0.3:
                kind, x = "longlits", datagen.longlits(rng, rng.choice([131072, 100000, 200000, 262144, 262144 - 700]))
            elif rng.random() < 0.35:
                kind, x = "noisecopies", datagen.noisecopies(rng, rng.choice([131072, 131072, 200000, 262144]))
            elif rng.random() < 0.6:
                kind, x = "blockstruct", datagen.blockstruct(rng, rng.choice([2, 3, 3, 4]) * 131072 - rng.choice([0, 0, 1, 5000]))
            else:
                kind, x = "longcopies", datagen.longcopies(rng, rng.choice([140000, 270000, 400000]))
            api = "c2"
            p = {100: rng.choice([16, 17, 18, 19] if kind != "longlits" else [1, 3, 5, 12, 19])}
            if rng.random() < 0.5: p[130] = rng.choice([1340, 1340, 2000, 6000])
            if rng.random() < 0.2: p[105] = 3
            if rng.random() < 0.3: p[1010] = 1
            if rng.random() < 0.3: p[201] = 1
        if i % 60 == 7 or (not ctx.quick() and i % 20 == 7):
            # sub-block compression whose last sub-block is raw yet owns a sequence; the next block re-uses that sequence's distance
            kind, x = "subtail", datagen.subtail(rng, rng.choice([2, 3, 4]))
            api = "c2"; p = {100: rng.choice([13, 16, 17, 18, 19]), 130: rng.choice([400, 1340, 1340, 2000, 6000])}
        if i % 60 in (17, 27):
            # post-parse block splitter: a > 64 KiB sequence opening a partition (17); a raw partition that owns sequences followed by a
            # partition that re-uses its distances (27)
            kind = "splitlong" if i % 60 == 17 else "splitraw"
            x = getattr(datagen, kind)(rng, rng.choice([2, 3])); api = "c2"; p = {100: rng.choice([16, 17, 18, 19])}
            if rng.random() < 0.25: p[201] = 1
        if i % 60 in (35, 47, 55):
            # > 64 KiB of Huffman-compressed literals and only a handful of sequences in the LAST block of an exactly sized destination:
            # the literal buffer is split and the hand-over to the side buffer happens in the drain loop of the prefetching decoder
            kind = "longlits2"
            x = datagen.longlits2(rng, rng.choice([0, 131072]) + rng.randint(70000, 131072)); api = "c2"
            p = {100: rng.choice([1, 2, 3, 4, 5, 7])}
            if rng.random() < 0.3: p[201] = 1
        if i % 25 == 3:
            # isolated matches of an exact short length behind long match-free stretches, through the skipping match finders
            kind = "exactlen"; x = datagen.exactlen(rng, rng.choice([2000, 4096, 4096, 8192, 16384, 40000]))
            api = rng.choice(["c2", "c2", "simple"])
            p = {100: rng.choice([-5, -1, 1, 2, 3, 3, 4, 5])}
            if api == "c2":
                if rng.random() < 0.7: p[107] = rng.choice([1, 2, 2, 3, 4])
                if rng.random() < 0.7: p[105] = rng.choice([3, 4, 4, 5, 6])
                if rng.random() < 0.2: p[106] = rng.choice([0, 1, 2, 4])
        if i in (201, 601, 1101) or (not ctx.quick() and i % 500 == 201):
            # long-distance matching inside one multi-MiB worker job
            kind = "ldmjob"; x, jmb = datagen.ldmjob(rng); api = "c2"
            p = {100: rng.choice([1, 3]), 160: 1, 400: rng.choice([1, 1, 2]), 401: jmb << 20}
            if rng.random() < 0.5: p[201] = 1
        if i in (301, 401, 501, 701, 801, 901, 1001, 1201) or (not ctx.quick() and i % 500 == 301):
            # a long-distance match split at a block edge with a remainder of 1 .. minMatch-1 bytes behind the edge, another match after it in the same job
            kind = "ldmedge"; k_ = (i // 100) % 8
            x = datagen.ldmedge(rng, [1, 2, 3, 4, 5, 6, 1, 3][k_]); api = "c2"
            p = {100: [1, 5, 3, 9, 1, 1, 5, 3][k_], 160: 1, 400: 1}
            if rng.random() < 0.3: p[201] = 1
        d = b""
        if api in ("udict", "ucdict") or (api in ("c2", "adv") and rng.random() < 0.15):
            d = datagen.gen(rng, 8000)[1] + x[: rng.randint(0, min(len(x), 2000))]
            if len(d) < 8 and api in ("ucdict",):
                d = d + b"12345678"
        if api in ("simple", "cctx") or p.get(10):
            d = b""      # (magicless frames are decoded through the format parameter, without dictionary, by the harness)
        cases.append(dict(kind=kind, api=api, p=p, x=x, d=d))
    return cases


def run(ctx, cases, exe, want_conform=True):
    """returns per-case dict(frame, cdec, conform)"""
    lines = ["comp2 %s %s %s%s" % (c["api"], frames.pstr(c["p"]), frames.hx(c["x"]), (" " + frames.hx(c["d"])) if c["d"] else "") for c in cases if not c.get("pre")]
    def comp(chunk):
        return frames.run_lines_exact(exe, chunk)
    frs = frames.parallel(comp, frames.split_chunks(lines, 16))
    # cases with a controlled memory layout of the source (byte in front of the source buffer chosen) go through harness/zvh_seg.c
    plines = [segfam.pre_line(c) for c in cases if c.get("pre")]
    if plines:
        sexe = segfam.harness()
        pfr = segfam.run_all(sexe, plines)
        it, ip = iter(frs), iter(pfr)
        frs = [next(ip) if c.get("pre") else next(it, "err missing") for c in cases]
    dl, cl = [], []
    for c, f in zip(cases, frs):
        c["frame"] = f
        fmt = c["p"].get(10, 0)
        if f.startswith("err"):
            dl.append("bad"); cl.append("bad"); continue
        if c["d"]:
            dl.append("dec %d %s %s" % (len(c["x"]), f, frames.hx(c["d"])))
        elif fmt:
            dl.append("decf 1 %d %s" % (len(c["x"]), f))
        else:
            dl.append("dec %d %s" % (len(c["x"]), f))
        cl.append("conform %s %s %s %d %d" % (f, frames.hx(c["x"]), frames.hx(c["d"]), c["p"].get(1015, 0), fmt))
    cdec = frames.parallel(lambda ch: frames.run_lines_exact(exe, ch), frames.split_chunks(dl, 16))
    # the same frames through the library built with each of its alternative decoder bodies forced (single-stream Huffman + short
    # sequence decoder; double-symbol Huffman + prefetching sequence decoder)
    for c in cases:
        c["vdec"] = {}
    for v in VARIANTS:
        vexe = frames.harness(v)
        vd = frames.parallel(lambda ch: frames.run_lines_exact(vexe, ch), frames.split_chunks(dl, 16))
        for c, a in zip(cases, vd):
            c["vdec"][v] = a
    want = frames.parallel(lambda ch: frames.run_lines(exe, ch)[1], frames.split_chunks(["xxh " + frames.hx(c["x"]) for c in cases], 16))
    for c, w in zip(cases, want):
        c["want"] = w
    conf = frames.parallel(lambda ch: frames.model_lines(ch), frames.split_chunks(cl, 16)) if want_conform else [""] * len(cl)
    for c, a, b in zip(cases, cdec, conf):
        c["cdec"], c["conform"] = a, b
    return cases


def expected_dec(x):
    import subprocess
    return None


def tie_rep_codes(ctx):
    """function-level tie of Model/Rep.lean (theorem rep_lockstep, ll/ml_code_roundtrip) to ZSTD_finalizeOffBase, ZSTD_updateRep, ZSTD_LLcode, ZSTD_MLcode"""
    rng = ctx.rng
    hx = build.link("zvh_cwksp", ["zvh_cwksp.c"], "plain", exclude=("zstd_compress.c",))
    lines = []
    for i in range(3000 if ctx.quick() else 60000):
        reps = [rng.choice([1, 2, 3, 4, 8, 9, rng.randint(1, 1 << 20)]) for _ in range(3)]
        raw = rng.choice(reps + [reps[0] - 1 if reps[0] > 1 else 5, reps[0] + 1, rng.randint(1, 1 << 27)])
        lines.append("rep %d %d %d %d %d" % (reps[0], reps[1], reps[2], raw, rng.randint(0, 1)))
    for i in range(2000 if ctx.quick() else 40000):
        ll = rng.choice([rng.randint(0, 70), rng.randint(0, 131071), (1 << rng.randint(0, 16)) + rng.choice([-1, 0, 1])])
        ml = rng.choice([rng.randint(0, 140), rng.randint(0, 131071), (1 << rng.randint(0, 16)) + rng.choice([-1, 0, 1])])
        lines.append("codes %d %d" % (max(0, ll), max(0, ml)))
    co, mo, rc, err = zv.differential(hx, "mem", lines, timeout=900)
    for ln, a, b in zip(lines, co, mo):
        if a != b:
            ctx.violation("repeat-offset / length-code model differs from the compressor's functions: %s -> code %s, model %s" % (ln, a, b), dict(kind="tie-rep", op=ln, code=a, model=b), no_input=True)
            break
    return len(lines)


def tie_entropy(ctx):
    """function-level ties of the encoder-side models behind the entropy round-trip theorems (bits_roundtrip, fse_roundtrip, huf_roundtrip):
    BitW == bitstream.h writer, FSE.buildCTable / encodeAll == FSE_buildCTable_wksp / FSE_encodeSymbol, FSE.buildCells == FSE_buildDTable_wksp,
    HufEnc.codesOf / encode1 / layout4 == HUF_buildCTable / HUF_readCTable / HUF_compress1X / 4X; the decidable hypotheses of the theorems
    (spreadOK, spreadEnc = spread, weightsOK) are evaluated by the driver on every table and the model re-decodes its own streams"""
    import ent_bitw, ent_fse, ent_huf, ent_lit, ent_seq, ent_frame, ent_block
    out = {}
    for name, mod in (("bitw", ent_bitw), ("fse", ent_fse), ("huf", ent_huf), ("lit", ent_lit), ("seq", ent_seq), ("frame", ent_frame), ("block", ent_block)):
        before = len(ctx.violations)
        r = mod.run(ctx)
        out[name] = r.get("evaluations", 0)
        for v in ctx.violations[before:]:
            v["no_input"] = False
            v["replay"] = dict(v.get("replay") or {}, ent=name)
    return out


def correspondence(ctx):
    exe = frames.harness()
    ntie = tie_rep_codes(ctx)
    ent = tie_entropy(ctx)
    n = 1500 if ctx.quick() else 30000
    maxsize = 262144 if ctx.quick() else 4 << 20
    # directed: the beginning of the input recurs behind a byte equal to the byte stored in front of the source buffer (segfam.edge_cases)
    # in batches: the thorough tier holds inputs of up to 4 MiB (and their hex forms for the two harnesses and the Lean driver) - all 30000 cases at
    # once need tens of gigabytes; a batch is generated, run, scored and dropped
    import hashlib
    acc = dict(cov=0, kinds={}, apis={}, sizes={"0": 0, "<1K": 0, "<64K": 0, "<1M": 0, ">=1M": 0}, nontrivial=set(), rejected=0, n=0, samples=[])
    B = 1500 if ctx.quick() else 600
    for start in range(0, n, B):
        score(ctx, run(ctx, gen_cases(ctx, min(B, n - start), maxsize, start), exe), acc, hashlib)
        if len(ctx.violations) >= 5:
            break
    ne, nl = (208, 18) if ctx.quick() else (2080, 180)
    for k in range(1 if ctx.quick() else 10):
        if len(ctx.violations) >= 5:
            break
        score(ctx, run(ctx, segfam.edge_cases(ctx.rng, ne // (1 if ctx.quick() else 10), nl // (1 if ctx.quick() else 10)), exe), acc, hashlib)      # (drawn after the others: their stream is unchanged)
    cov, kinds, apis, sizes, nontrivial, rejected_params = acc["cov"], acc["kinds"], acc["apis"], acc["sizes"], acc["nontrivial"], acc["rejected"]
    covnames = ["raw-block", "rle-block", "compressed-block", "", "lit-raw", "lit-rle", "lit-huf", "lit-treeless", "lit-4streams", "nbSeq=0",
                "LL-predef", "LL-rle", "LL-fse", "LL-repeat", "OF-predef", "OF-rle", "OF-fse", "OF-repeat", "ML-predef", "ML-rle", "ML-fse", "ML-repeat", "longNbSeq"]
    return dict(evaluations=acc["n"], distinct_nontrivial=len(nontrivial),
                rule="inputs from seeded structure-aware generators (text, random, periodic, repcode-heavy, small alphabets, mixed with long-distance copies, tiny sizes) x parameter vectors drawn from the accepted ranges x "
                     "single-call entry points {compress2, compress, compressCCtx, compress_advanced, usingDict, usingCDict}; plus the directed prefix-edge family (tools/segfam.py: source at offset 1 of a heap block whose byte 0 is chosen, the beginning of the input "
                     "recurring behind that byte, repeats exactly one window back; every strategy, both match-finder modes, windowLog 10..17; window rule of Conform checked on them); non-trivial = input > 64 bytes, round-tripped and independently decoded; distinct by (input hash, params, api)",
                samples=acc["samples"],
                input_kinds=kinds, apis=apis, size_histogram=sizes, decoder_features_hit=[covnames[i] for i in range(len(covnames)) if cov >> i & 1 and covnames[i]],
                decoder_features_missed=[covnames[i] for i in range(len(covnames)) if not (cov >> i & 1) and covnames[i]], params_rejected_by_setter=rejected_params,
                entropy_model_ties=ent, rep_code_ties=ntie)


def score(ctx, cases, acc, hashlib):
    """evaluate one batch of run cases into the accumulator (violations go to ctx)"""
    kinds, apis, sizes, nontrivial = acc["kinds"], acc["apis"], acc["sizes"], acc["nontrivial"]
    acc["n"] += len(cases)
    if not acc["samples"]:
        acc["samples"] = [dict(api=c["api"], params=frames.pstr(c["p"]), kind=c["kind"], size=len(c["x"]), frame_bytes=len(c["frame"]) // 2, conform=c["conform"][:80]) for c in cases[:3]]
    for c in cases:
        kinds[c["kind"]] = kinds.get(c["kind"], 0) + 1
        apis[c["api"]] = apis.get(c["api"], 0) + 1
        n_ = len(c["x"])
        sizes["0" if n_ == 0 else "<1K" if n_ < 1024 else "<64K" if n_ < 65536 else "<1M" if n_ < (1 << 20) else ">=1M"] += 1
        def mkrep(c=c):      # (built only for a violation: the hex form of every input is what the thorough tier cannot afford)
            rep = dict(kind="monitor", api=c["api"], params=c["p"], input_hex=frames.hx(c["x"])[:8400000], dict_hex=frames.hx(c["d"]), frame=c["frame"][:8400000])
            if c.get("pre"): rep["pre"] = c["pre"]
            return rep
        if c["frame"].startswith("err"):
            if c["frame"] in ("err parameter_outOfBound", "err parameter_unsupported"):
                acc["rejected"] += 1
                continue
            ctx.violation("single-call compression into a compressBound-sized buffer failed: %s (api %s)" % (c["frame"], c["api"]), mkrep())
            continue
        if c["cdec"] != c["want"]:
            ctx.violation("round trip broken: ZSTD_decompress of the emitted frame gives %r, expected %r (api %s, params %s)" % (c["cdec"], c["want"], c["api"], frames.pstr(c["p"])), mkrep())
            continue
        bad = [v for v in VARIANTS if c.get("vdec", {}).get(v, c["want"]) != c["want"]]
        if bad:
            ctx.violation("round trip broken in the library built with decoder variant %s: ZSTD_decompress gives %r, expected %r (api %s, params %s)" % (bad[0], c["vdec"][bad[0]], c["want"], c["api"], frames.pstr(c["p"])), dict(mkrep(), variant=bad[0]))
            continue
        if c["conform"].startswith("ok"):
            acc["cov"] |= int(c["conform"].split("cov=")[1])
            if n_ > 64:
                nontrivial.add(hashlib.sha1(c["x"]).hexdigest() + frames.pstr(c["p"]) + c["api"])
        elif c["conform"].startswith("viol"):
            # conformance is C05's property; C01 only needs the independent decode to agree - except, on the directed prefix-edge inputs, the rule
            # that a match never reaches below the window / the start of the content: a decoder that keeps exactly one window cannot regenerate such a frame
            if c.get("pre") and "violates window" in c["conform"]:
                ctx.violation("single-call compression emitted a match that reaches below the window / the start of the content: %s (api %s, params %s)" % (c["conform"][:300], c["api"], frames.pstr(c["p"])), mkrep())
        else:
            # the independent decoder disagrees with the library on a frame the library round-trips
            ctx.violation("independent Lean decoder disagrees on a library frame: %r (C decoder: %r)" % (c["conform"], c["cdec"]),
                          dict(mkrep(), kind="tie", correspondence="Model/Frame.lean vs ZSTD_decompress"), no_input=True)
        if len(ctx.violations) >= 5:
            break


def replay(ctx, data):
    if data.get("ent"):
        # a function-level tie of an encoder-side model: re-run that tie (same seed => same operations) and report whether it still differs
        import ent_bitw, ent_fse, ent_huf, ent_lit, ent_seq, ent_frame, ent_block
        mod = dict(bitw=ent_bitw, fse=ent_fse, huf=ent_huf, lit=ent_lit, seq=ent_seq, frame=ent_frame, block=ent_block)[data["ent"]]
        if hasattr(mod, "replay") and data.get("op"):
            return mod.replay(ctx, data)
        ctx.rng = zv.Rng(int(data.get("seed", 1)) * 1000003 + sum(map(ord, "C01")))
        tie_rep_codes(ctx)        # consumes the generator exactly as the check did before reaching the entropy ties
        before = len(ctx.violations)
        for name, m in (("bitw", ent_bitw), ("fse", ent_fse), ("huf", ent_huf), ("lit", ent_lit), ("seq", ent_seq), ("frame", ent_frame), ("block", ent_block)):
            m.run(ctx)
            if name == data["ent"]:
                break
        return dict(violates=len(ctx.violations) > before, violations=[v["desc"][:300] for v in ctx.violations[before:]][:5])
    exe = frames.harness()
    x = bytes.fromhex(data["input_hex"]) if data.get("input_hex", "-") != "-" else b""
    d = bytes.fromhex(data["dict_hex"]) if data.get("dict_hex", "-") != "-" else b""
    p = {int(k): v for k, v in (data.get("params") or {}).items()}
    cs = run(ctx, [dict(kind="replay", api=data.get("api", "c2"), p=p, x=x, d=d, pre=data.get("pre"))], exe)
    c = cs[0]
    bad = c["frame"].startswith("err") or c["cdec"] != c["want"] or not c["conform"].startswith(("ok", "viol")) or any(a != c["want"] for a in c.get("vdec", {}).values())
    bad = bad or bool(c.get("pre") and "violates window" in c["conform"])
    return dict(violates=bad, variants=c.get("vdec"), frame=c["frame"][:200], cdec=c["cdec"], conform=c["conform"][:300])
