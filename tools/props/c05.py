"""C05 — everything the compressor emits is a conformant, truthful frame.  Every frame produced by one-shot, streaming, multithreaded
and dictionary compression is decoded by the independent Lean decoder (Model/Frame.lean) and its decode trace is checked by
Conform.checkFrame: content-size / checksum / reserved bits, block-size limit, window rule per sequence, interop rules."""
import hashlib
import build, zv, frames, datagen, dictgen, segfam
from props import c01

ASSUMPTIONS = ["the independent decoder + Conform predicate are the oracle for 'valid frame under the specification' (they accept exactly what Model/Frame.lean accepts in strict mode)",
               "compressor front end is not modelled: conformance is established per emitted frame"]


def total_cases(ctx):
    return 500 if ctx.quick() else 8000


def gen_cases(ctx, start=0, count=None):
    rng = ctx.rng
    n = total_cases(ctx)
    cases = []
    for i in range(start, n if count is None else min(n, start + count)):
        k = i % 5
        if k == 0:      # long inputs with long-range repetition at small windows: the only place window bugs show
            wl = rng.choice([10, 10, 11, 12, 13, 14, 17])
            base = datagen.gen(rng, 40000)[1] or b"x"
            x = bytearray()
            while len(x) < rng.choice([3, 6, 20]) * (1 << wl):
                if rng.random() < 0.5 and len(x) > 100:
                    dist = rng.choice([(1 << wl) - 1, (1 << wl), (1 << wl) + 1, (1 << wl) + rng.randint(2, 70000), rng.randint(1, 1 << wl)])
                    st = max(0, len(x) - dist); ln = rng.randint(8, 20000)
                    x += x[st:st + ln]
                else:
                    x += base[:rng.randint(1, len(base))]
            x = bytes(x[:600000])
            p = {100: rng.choice([1, 3, 5, 7, 12, 16, 19]), 101: wl}
            if rng.random() < 0.5:
                p[160] = 1
                if rng.random() < 0.5: p[162] = rng.choice([4, 16, 64])
                if rng.random() < 0.5: p[164] = rng.randint(0, 6)
            mode = rng.choice(["c2", "stream", "mt"])
        elif k == 1:
            kind, x = datagen.gen(rng, 200000); p = frames.param_vector(rng, True, allow_fmt=False); mode = "stream"
        elif k == 2 and i % 100 != 2:
            kind, x = datagen.gen(rng, 400000); p = frames.param_vector(rng, True, allow_fmt=False); mode = "mt"
        elif k == 3 and i % 10 == 3:
            sel = (i // 10) % 4
            if sel == 0:
                x = rng.choice([datagen.noisecopies, datagen.blockstruct])(rng, rng.choice([131072, 200000, 262144]))
            elif sel == 1:
                x = datagen.splitraw(rng, rng.choice([2, 3]))
            elif sel == 2:
                x = datagen.splitlong(rng, rng.choice([2, 3]))
            else:
                x = datagen.subtail(rng, rng.choice([2, 3, 4]))
            p = {100: rng.choice([16, 17, 18, 19])}; mode = "c2"
            if sel == 3: p[130] = rng.choice([400, 1340, 2000])
            elif sel == 0 and rng.random() < 0.4: p[130] = 1340
        elif k == 3 and i % 10 == 8:
            # sub-block path with very regular sequences: records of N random bytes (all literal lengths share one code) followed by a short copy at
            # one fixed distance: every table degenerates to RLE / repeat mode and late sub-blocks carry one or two sequences in 1-3 bytes
            nrec = rng.choice([3, 3, 4, 6, 12])
            ml, off = rng.choice([(32, 12), (32, 12), (16, 8), (40, 24), (35, 5)])
            x = bytearray()
            for _ in range(nrec):
                x += datagen.randbytes(rng, rng.choice([1024, 1024, 1100, 1300, 2047, rng.randint(1024, 2047)]))
                for _ in range(ml):
                    x.append(x[-off])
            x = bytes(x)
            p = {100: rng.choice([5, 6, 7, 9, 12, 3, 16]), 130: rng.choice([1340, 1340, 1340, 2000])}; mode = rng.choice(["c2", "c2", "stream"])
        elif k == 2 and i % 100 == 2:
            # worker threads + compression level raised / lowered in mid-frame (no explicit window): jobs created after the change must stay inside the
            # window the header - already written by job 0 - declares; block-periodic input with repeats farther apart than the first window
            per = rng.choice([600000, 1 << 20, 1500000])
            blk = datagen.randbytes(rng, per)
            x = bytearray()
            while len(x) < rng.choice([5, 6, 8]) * (1 << 20):
                b = bytearray(blk)
                for _ in range(30):
                    b[rng.randrange(per)] ^= 0x55
                x += b
            x = bytes(x)
            p = {100: rng.choice([1, 1, 3]), 400: rng.choice([1, 2]), 201: 1}
            cases.append(dict(mode="mtlevel", p=p, x=x, d=b"")); continue
        elif k == 4 and i % 10 == 9:
            # input lengths at the thresholds of the content-size field widths (256, 65792) and of the single-segment rule
            n_ = rng.choice([255, 256, 257, 65535, 65536, 65791, 65792, 65792, 65793, 65536 + 256 + 255, 131071, 131072])
            x = datagen.gen(rng, n_ + 10)[1]
            x = (x * (n_ // max(1, len(x)) + 1))[:n_] if x else bytes(n_)
            p = {100: rng.choice([1, 3, 5])}
            if rng.random() < 0.3: p[201] = 1
            if rng.random() < 0.3: p[101] = rng.choice([10, 16, 17, 18])
            mode = rng.choice(["c2", "stream", "c2"])
        elif k == 4 and i % 10 == 4:
            # formatted dictionary whose offset-code table covers exactly the codes the first block can need; the frame starts with
            # incompressible or constant blocks and later reaches back to the start of the dictionary (offset codes beyond the table)
            cases.append(dictof_case(rng)); continue
        else:
            kind, x = datagen.gen(rng, 60000); p = frames.param_vector(rng, True, allow_fmt=False); mode = "c2"
        d = b""
        if rng.random() < 0.2:
            d = datagen.gen(rng, 20000)[1] + x[:rng.randint(0, min(len(x), 3000))]
        if mode == "mt":
            p[400] = rng.randint(1, 3)
            if rng.random() < 0.6: p[401] = rng.choice([524288, 1048576])    # (ZSTDMT_JOBSIZE_MIN = 512 KiB)
            if rng.random() < 0.5: p[402] = rng.randint(0, 9)
            if rng.random() < 0.3: p[500] = 1
        cases.append(dict(mode=mode, p=p, x=x, d=d))
    return cases


def dictof_case(rng):
    content = datagen.randbytes(rng, rng.choice([60000, 100000, 120000, 126000]))
    d, _ = dictgen.build_exact_of(rng, content)
    x = bytearray()
    for _ in range(rng.choice([1, 2, 2, 3])):
        x += datagen.randbytes(rng, 131072) if rng.random() < 0.7 else bytes([rng.randrange(256)]) * 131072
    if rng.random() < 0.3:
        x = x[:len(x) - rng.randint(0, 60000)]
    tail = rng.choice([131072, 131072, 200000])
    end = len(x) + tail
    while len(x) < end:
        st = rng.randrange(0, min(len(content), 50000)); ln = rng.choice([300, 2000, 2000, 5000])
        x += content[st:st + ln] + datagen.randbytes(rng, rng.choice([8, 40, 200]))
        if rng.random() < 0.2 and len(x) > 300:
            b = rng.randrange(len(x) - 200); x += x[b:b + rng.randint(5, 150)]
    x = bytes(x[:end])
    p = {100: rng.choice([1, 1, 2, 3, 4, 5])}
    if rng.random() < 0.3: p[101] = rng.choice([19, 20, 21])
    if rng.random() < 0.2: p[201] = 1
    mode = rng.choice(["c2", "c2", "stream"])
    if rng.random() < 0.3: p[1001] = rng.choice([1, 2])       # forceAttachDict / forceCopy
    return dict(mode=mode, p=p, x=x, d=d)


def line_for(rng, c):
    ps, xs = frames.pstr(c["p"]), frames.hx(c["x"])
    dd = (" " + frames.hx(c["d"])) if c["d"] else ""
    if c["mode"] == "c2":
        return "comp2 c2 %s %s%s" % (ps, xs, dd)
    if c["mode"] == "mtlevel":
        return "cstream %s %s %s 10000000 %s" % ((ps, xs) + datagen.mtlevel_dirs(rng))
    ins = ",".join(str(rng.choice([1, 7, 100, 4096, 65536, 131072, 200000, 1000000])) for _ in range(rng.randint(1, 4)))
    outs = ",".join(str(rng.choice([1, 50, 4096, 131072, 1000000])) for _ in range(rng.randint(1, 3)))
    dirs = "".join(rng.choice("cccfe") for _ in range(rng.randint(1, 6)))
    return "cstream %s %s %s %s %s%s" % (ps, xs, ins, outs, dirs, dd)


def tie_header(ctx):
    """function-level tie of Model/HeaderW.lean (theorem header_roundtrip) to ZSTD_writeFrameHeader"""
    rng = ctx.rng
    hx = build.link("zvh_cwksp", ["zvh_cwksp.c"], "plain", exclude=("zstd_compress.c",))
    sizes = [0, 1, 2, 255, 256, 257, 65535, 65536, 65791, 65792, 65793, (1 << 32) - 2, (1 << 32) - 1, 1 << 32, (1 << 32) + 1, 1 << 40, (1 << 64) - 2]
    dids = [0, 1, 2, 255, 256, 257, 65535, 65536, 65537, (1 << 32) - 1]
    lines = []
    for i in range(6000 if ctx.quick() else 100000):
        wl = rng.randint(10, 31)
        pl = rng.choice(sizes + [(1 << wl) - 1, 1 << wl, (1 << wl) + 1, rng.randrange(1 << rng.randint(1, 63))])
        did = rng.choice(dids + [rng.randrange(1 << 32)])
        lines.append("fhdr %d %d %d %d %d %d %d" % (wl, pl, rng.randint(0, 1), did, int(rng.random() < 0.25), rng.randint(0, 1), int(rng.random() < 0.2)))
    co, mo, rc, err = zv.differential(hx, "mem", lines, timeout=900)
    if len(co) != len(lines) or len(mo) != len(lines):
        ctx.violation("frame-header tie did not complete (%d / %d / %d lines): %s" % (len(lines), len(co), len(mo), (err or "")[-300:]), dict(kind="tie-header"), no_input=True)
    for ln, a, b in zip(lines, co, mo):
        if a != b:
            ctx.violation("frame-header writer model differs from ZSTD_writeFrameHeader: %s -> code %s, model %s" % (ln, a, b), dict(kind="tie-header", op=ln, code=a, model=b), no_input=True)
            break
    return len(lines)


def correspondence(ctx):
    ntie = tie_header(ctx)
    exe = frames.harness()
    acc = dict(modes={}, distinct=set(), cov=0, rejected=0, n=0, samples=[])
    # in batches (a batch is generated, compressed, decoded, judged and dropped): the thorough tier's inputs with the hex forms the two harnesses and the
    # Lean driver read do not fit in memory all at once
    B = 500
    for start in range(0, total_cases(ctx), B):
        cases = gen_cases(ctx, start, B)
        lines = [line_for(ctx.rng, c) for c in cases]
        frs = frames.parallel(lambda ch: frames.run_lines_exact(exe, ch, timeout=1800), frames.split_chunks(lines, 16))
        judge(ctx, exe, cases, lines, frs, acc)
        if len(ctx.violations) >= 5:
            break
    # directed call histories on the caller's own memory (harness/zvh_seg.c; drawn after the others: their stream is unchanged):
    # begin / continue / end over segments (tiny first / middle segments; separate heap blocks, contiguous, ring buffer, one overwritten buffer; raw and
    # formatted dictionaries attached / loaded) and the prefix-edge family through compress2 and compressStream2 (stable / copied input, several chunkings)
    sexe = segfam.harness()
    for k in range(1 if ctx.quick() else 10):
        if len(ctx.violations) >= 5:
            break
        dcases = segfam.seg_cases(ctx.rng, 230 if ctx.quick() else 300)
        ecases = segfam.edge_cases(ctx.rng, 56 if ctx.quick() else 80, 8 if ctx.quick() else 10, chunked=True)
        for c in ecases: c["mode"] = "pre"
        dlines = [segfam.seg_line(c) for c in dcases] + [segfam.pre_line(c) for c in ecases]
        judge(ctx, exe, dcases + ecases, dlines, segfam.run_all(sexe, dlines), acc)
    return dict(evaluations=acc["n"] + ntie, distinct_nontrivial=len(acc["distinct"]), header_writer_tie_calls=ntie,
                rule="frames from compress2 / compressStream2 under random call histories / multithreaded compression (1-3 workers, jobSize, overlapLog, rsyncable) / dictionaries, "
                     "including inputs several windows long with repeats placed just inside / at / just beyond the window (windowLog 10..17, LDM on/off); each frame is decoded by the independent Lean decoder and its "
                     "trace checked by Conform.checkFrame; plus (tools/segfam.py) frames from compressBegin[_usingDict|_usingCDict|_advanced|_usingCDict_advanced] / compressContinue / compressEnd over segmented inputs "
                     "(0..8-byte first and middle segments; separate heap blocks, contiguous, ring buffer, one overwritten buffer; raw-content and formatted dictionaries recurring in the input; levels 1..19) and the "
                     "prefix-edge family (byte in front of the source buffer chosen) through compress2 / compressStream2 with stable and copied input; distinct = (input hash, call line prefix)",
                samples=acc["samples"], modes=acc["modes"], params_rejected=acc["rejected"], decoder_feature_bitmap=acc["cov"])


def judge(ctx, exe, cases, lines, frs, acc):
    """one batch: frames -> independent decoder + conformance predicate (+ the library's decoder for the directed families) -> violations / accumulator"""
    frs = list(frs) + ["err missing"] * (len(lines) - len(frs))
    cl = []
    for c, f, ln in zip(cases, frs, lines):
        c["line"] = ln
        c["frame"] = f.split()[0] if f else "err missing"
        c["raw"] = f
        cl.append("conform %s %s %s %d %d %d" % (c["frame"], frames.hx(c["x"]), frames.hx(c["d"]), c["p"].get(1015, 0), 0, 1 if c["p"].get(130) else 0) if not f.startswith("err") else "bad")
    conf = frames.parallel(lambda ch: frames.model_lines(ch), frames.split_chunks(cl, 16))
    del cl
    # the directed frames also go through the library's own decoder (with the dictionary): decode(frame, dict) == concatenation of the segments
    dd = [c for c in cases if c["mode"] in ("seg", "pre") and not c["raw"].startswith("err")]
    if dd:
        ldec = frames.parallel(lambda ch: frames.run_lines_exact(exe, ch), frames.split_chunks(
            [ln for c in dd for ln in ("dec %d %s%s" % (len(c["x"]), c["frame"], (" " + frames.hx(c["d"])) if c["d"] else ""), "xxh " + frames.hx(c["x"]))], 16))
        for k, c in enumerate(dd):
            c["libdec"], c["want"] = (ldec[2 * k], ldec[2 * k + 1]) if 2 * k + 1 < len(ldec) else ("missing", "?")
    modes, distinct = acc["modes"], acc["distinct"]
    acc["n"] += len(cases)
    if not acc["samples"]:
        acc["samples"] = [dict(op=c["line"][:100], result=r[:100]) for c, r in list(zip(cases, conf))[:3]]
    for c, r in zip(cases, conf):
        modes[c["mode"]] = modes.get(c["mode"], 0) + 1
        rep = dict(kind="monitor", op=c["line"][:40000000], frame=c["frame"][:300000], result=r)
        if c["mode"] in ("seg", "pre"): rep["harness"] = "zvh_seg"
        if c.get("libdec") and c["libdec"] != c["want"]:
            ctx.violation("the library's decoder does not regenerate the input from the emitted frame: %s, expected %s (mode %s, params %s, %s)" % (
                c["libdec"], c["want"], c["mode"], frames.pstr(c["p"]), c["line"][:80]), rep)
            if len(ctx.violations) >= 5:
                break
            continue
        if c["raw"].startswith("err no-answer"):
            ctx.violation("the library crashed / hung while compressing (%s): %s" % (c["raw"], c["line"][:120]), rep)
        elif c["raw"].startswith("err"):
            if "parameter" in c["raw"]:
                acc["rejected"] += 1
                continue
            ctx.violation("compression failed: %s (%s)" % (c["raw"], c["line"][:120]), rep)
        elif r.startswith("ok"):
            acc["cov"] |= int(r.split("cov=")[1])
            distinct.add(hashlib.sha1(c["x"]).hexdigest() + c["line"][:60])
        elif r.startswith("viol"):
            ctx.violation("emitted frame is not conformant: %s (mode %s, params %s)" % (r[:300], c["mode"], frames.pstr(c["p"])), rep)
        else:
            ctx.violation("independent decoder does not regenerate the input from the emitted frame: %s (mode %s, params %s)" % (r, c["mode"], frames.pstr(c["p"])), rep)
        if len(ctx.violations) >= 5:
            break


def replay(ctx, data):
    exe = segfam.harness() if data.get("harness") == "zvh_seg" else frames.harness()
    ln = data.get("op")
    f = frames.run_lines(exe, [ln])[1][0].split()[0]
    return dict(violates=True, frame=f[:200], note="re-run the conform line of the evidence with this frame")
