"""C15 — correctness does not wear out.  Function level: ZSTD_window_correctOverflow / needOverflowCorrection / reduceTable called on
arbitrary 32-bit index states (pointers inside a 9 GiB PROT_NONE mapping) against Model/Window.lean.  End to end: frames pushed through
ONE reused context - in the normal build across the 32-bit index range (> 3.4 GiB through one context) and in the build with
ZSTD_WINDOW_OVERFLOW_CORRECT_FREQUENTLY (corrections every few hundred KiB, with LDM, small windows, btlazy2/opt strategies) - must
each round-trip and equal a fresh context's output."""
import build, zv, frames

ASSUMPTIONS = ["the compressor front end is an oracle: wear is observed on generated data; the index arithmetic it relies on is proved in Props/C15.lean",
               "thorough tier adds more data per context; a real > 4 GiB single STREAM is only in the thorough tier"]


def hx(variant):
    return build.link("zvh_window", ["zvh_window.c"], variant, exclude=("zstd_compress.c",))


def correspondence(ctx):
    rng = ctx.rng
    plain, freq = hx("plain"), hx("freq")
    ev = 0
    lines = []
    for _ in range(3000 if ctx.quick() else 100000):
        cyc = rng.choice([0, 1, 6, 10, 17, 24, 29, 30]); wl = rng.choice([10, 17, 20, 27, 30, 31]); md = 1 << wl
        curr = rng.choice([rng.randrange(3 << 29, 1 << 32), rng.randrange(md + (1 << cyc) + 4, 1 << 32), (3 << 29) + (1 << 29) + 1, (1 << 32) - 1, 3500 * (1 << 20) + 1])
        lo = rng.choice([0, 1, 2, curr, rng.randrange(0, curr + 1), max(0, curr - md)])
        di = rng.choice([lo, 2, rng.randrange(0, curr + 1)])
        lines.append("corr %d %d %d %d %d %d" % (lo, di, rng.randrange(0, 5), cyc, md, curr))
    for _ in range(1000 if ctx.quick() else 30000):
        vs = [rng.choice([0, 1, 2, 3, rng.randrange(1 << 32), (1 << 32) - 1]) for _ in range(rng.randint(1, 40))]
        red = rng.choice([1, 1000, 1 << 28, (1 << 29) + 12345, rng.randrange(1, 1 << 32)])
        vs += [red, red + 1, red + 2, red + 3, max(0, red - 1)]
        lines.append("reduce %d %d %s" % (rng.randint(0, 1), red, ",".join(str(v % (1 << 32)) for v in vs)))
    c = frames.run_lines(plain, lines)[1]
    m = frames.model_lines(lines)
    for ln, a, b in zip(lines, c, m):
        ev += 1
        if a != b:
            ctx.violation("index arithmetic differs from Model/Window.lean: %s -> impl %s model %s" % (ln, a, b), dict(kind="tie", correspondence="Window.correctOverflow / reduceCell vs the C inline functions", op=ln, impl=a, model=b), no_input=True)
            break
    need = []
    for _ in range(1500 if ctx.quick() else 30000):
        cyc = rng.choice([6, 17, 24]); wl = rng.choice([10, 17, 20, 27]); md = 1 << wl
        cs = rng.choice([rng.randrange(0, 1 << 32), rng.randrange(0, 1 << 24), 3500 * (1 << 20)])
        ce = min((1 << 32) - 1, cs + rng.randrange(0, 1 << 17))
        need.append((rng.randrange(0, cs + 1), rng.randrange(0, cs + 1), rng.randrange(0, 6), cyc, md, rng.choice([0, 0, rng.randrange(0, 1 << 24)]), cs, ce))
    for exe, fr in ((plain, 0), (freq, 1)):
        cl = ["need %d %d %d %d %d %d %d %d" % t for t in need]
        ml = ["need %d %d %d %d %d %d %d %d %d" % ((fr,) + t) for t in need]
        c = frames.run_lines(exe, cl)[1]; m = frames.model_lines(ml)
        for ln, a, b in zip(cl, c, m):
            ev += 1
            if a.split()[0] != b or a.split()[1] != "freq=%d" % fr:
                ctx.violation("needOverflowCorrection (FREQUENTLY=%d) differs: %s -> impl %s model %s" % (fr, ln, a, b), dict(kind="tie", correspondence="Window.needOverflowCorrection", op=ln, impl=a, model=b), no_input=True)
                break
    # end-to-end wear
    wear = []
    if ctx.quick():
        wear += [(plain, "wear 256 15000000 1 0 0 %d" % (ctx.seed * 7 + 1), "normal build, 3.84 GB through one context (crosses ZSTD_CURRENT_MAX = 3500 MiB)")]
        for lv, wl, ldm, n, sz in ((1, 20, 1, 14, 3000000), (3, 17, 1, 10, 2000000), (5, 18, 1, 8, 2000000), (13, 17, 0, 5, 1500000), (16, 18, 0, 3, 1500000), (0, 12, 0, 30, 600000), (7, 10, 0, 20, 400000)):
            wear.append((freq, "wear %d %d %d %d %d %d" % (n, sz, lv, wl, ldm, ctx.seed * 13 + lv + wl), "FREQUENT-correction build level %d windowLog %d ldm %d" % (lv, wl, ldm)))
    else:
        wear += [(plain, "wear 300 15000000 1 0 0 %d" % ctx.seed, "normal build, 4.5 GB"), (plain, "wear 90 50000000 3 0 1 %d" % ctx.seed, "normal build LDM 4.5 GB")]
        for lv in (1, 2, 3, 4, 5, 7, 9, 13, 15, 16, 19):
            for wl in (10, 14, 17, 20):
                for ldm in (0, 1):
                    wear.append((freq, "wear %d %d %d %d %d %d" % (12 if lv < 13 else 4, 3000000 if lv < 13 else 1500000, lv, wl, ldm, ctx.seed * 31 + lv * wl + ldm), "FREQUENT build level %d wlog %d ldm %d" % (lv, wl, ldm)))
    # caller-owned input ring smaller than the window (buffer-less API), several laps, position-dependent tags (stale-index aliasing lap after lap)
    for lv, wl in ((1, 20), (2, 19), (3, 20), (5, 20), (7, 20), (10, 21), (13, 20), (16, 20)) if ctx.quick() else [(l, w) for l in range(1, 20) for w in (18, 20, 22)]:
        ringSize = rng.choice([131072, 262144, 200000]); blk = rng.choice([16384, 32768, 65536, 50000]); rec = rng.choice([32, 64, 100])
        wear.append((plain, "ring %d %d %d %d %d %d %d" % (lv, wl, ringSize, blk, 5 * (ringSize // blk), rec, ctx.seed * 17 + lv), "caller-owned input ring, level %d windowLog %d" % (lv, wl)))
    def run(item):
        exe, ln, desc = item
        rc, out, err = frames.run_lines(exe, [ln], timeout=3000)
        return [(ln, desc, rc, out, err)]
    res = frames.parallel(lambda ch: sum((run(i) for i in ch), []), frames.split_chunks(wear, 8))
    total = 0
    for ln, desc, rc, out, err in res:
        ev += 1
        o = out[0] if out else "crash rc=%d %s" % (rc, err[-300:])
        if not o.startswith("ok"):
            ctx.violation("context wear (%s): %s" % (desc, o), dict(kind="monitor", op=ln, build=desc, result=o))
        else:
            total += int(o.split("bytes=")[1].split()[0])
    # decoder side: the streaming decoder's own ring (window + blocks) wrapped several times, with blocks that park > 64 KiB of literals
    # in the ring and matches a whole window back; a context of its own per frame so that the ring is exactly as large as this frame needs
    import synth
    dexe = frames.harness("plain")
    rf = [r for r in (synth.frame_ring(rng) for _ in range(16 if ctx.quick() else 300)) if r]
    dl = []
    for f, cont in rf:
        dl.append("decs %d %s %s %s fresh" % (len(cont), frames.hx(f), rng.choice(["100000", "7,4096", "131075"]), rng.choice(["4096", "1000,70000", "100000"])))
    dres = frames.parallel(lambda ch: frames.run_lines(dexe, ch)[1], frames.split_chunks(dl, 16))
    dwant = frames.parallel(lambda ch: frames.run_lines(dexe, ch)[1], frames.split_chunks(["xxh " + frames.hx(cont) for f, cont in rf], 16))
    for ln, a, b in zip(dl, dres, dwant):
        ev += 1
        if a.split()[:3] != b.split()[:3]:
            ctx.violation("streaming decoder whose ring buffer wrapped does not regenerate the content: %s, expected %s" % (a[:100], b), dict(kind="monitor", op=ln[:400000], result=a, expected=b))
            break
    return dict(evaluations=ev, distinct_nontrivial=len(set(lines)) + len(wear),
                rule="function level: random and boundary 32-bit states for correctOverflow (cycleLog 0..30, windowLog 10..31, indices up to 2^32-1), reduceTable cells around the reducer threshold and the btlazy2 mark, "
                     "needOverflowCorrection in both builds; end to end: generated frames through one reused context compared with a fresh context and round-tripped, %d wear runs" % len(wear),
                samples=[dict(op=lines[0], impl=c[0] if c else ""), dict(op=wear[0][1], what=wear[0][2])], bytes_through_reused_contexts=total, wear_runs=len(wear))


def replay(ctx, data):
    exe = hx("freq" if "FREQUENT" in data.get("build", "") else "plain")
    rc, out, err = frames.run_lines(exe, [data["op"]], timeout=3000)
    return dict(violates=not (out and out[0].startswith("ok")) if data["op"].startswith("wear") else True, result=out, rc=rc)
