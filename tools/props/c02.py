"""C02 — streaming round trip under any call history and buffer segmentation.  Compression: random call histories (chunk sizes down to 1
byte, continue/flush/end, stable-in / stable-out modes, dictionaries) -> the emitted bytes must decode (independent Lean decoder and
library) to exactly the input consumed.  Decompression: every observed ZSTD_decompressStream history is checked for inclusion in the
specification LTS of Model/Stream.lean (positions, completion reported exactly at frame ends) and its output equals one-shot decoding."""
import build, zv, frames, datagen

ASSUMPTIONS = ["the streaming compressor's per-chunk compressed bytes are an oracle; what is checked is that ANY history emits a stream decoding to the consumed input",
               "byte equality of streamed output with the specified content is checked through XXH64 of the whole output; positions / completion reports per call by the spec LTS"]


def history(rng):
    ins = ",".join(str(rng.choice([1, 1, 2, 7, 100, 1000, 4096, 65536, 131072, 131073, 1000000])) for _ in range(rng.randint(1, 5)))
    outs = ",".join(str(rng.choice([1, 1, 3, 50, 4096, 131072, 1000000])) for _ in range(rng.randint(1, 4)))
    dirs = "".join(rng.choice("ccccffe") for _ in range(rng.randint(1, 8)))
    return ins, outs, dirs


def mt_backpressure(ctx):
    """directed family: worker threads, many job-sized sections pushed while the caller gives no (or a few bytes of) output room, then the
    output drained through tiny rooms.  The ring of job descriptors fills (1 << (highbit(nbWorkers + 2) + 1) slots); what is accepted while
    nothing is emitted is tied to Model/MTBack.lean (`mtback`), and the emitted bytes must decode (one-shot, streaming limited to the declared
    window, and - for two of the lines - the independent Lean decoder) to exactly the input."""
    rng = zv.Rng(ctx.seed * 7919 + 20202)
    exe = build.link("zvh_mtstorm", ["zvh_mtstorm.c"], "plain")
    base = datagen.text(rng, 60000) + datagen.randbytes(rng, 15000) + datagen.mixed(rng, 80000)
    T0 = 524288
    plan = []      # (nbWorkers, T, how much to withhold: "all" | "part" | "none")
    for nbw in ([1, 1, 2, 3, 4, 1, 2] if ctx.quick() else [1, 2, 3, 4, 5, 6] * 5):
        plan.append((nbw, T0, "all"))
    plan += [(1, 2 * T0, "all"), (rng.choice([1, 2]), T0, "part"), (rng.choice([1, 2, 3, 4]), T0, "none")]
    ml = ["mtback %d %d %d %d" % (nbw, T, 1 << 40, T) for nbw, T, w in plan]
    mo = frames.model_lines(ml)
    lines, meta = [], []
    for k, ((nbw, T, w), m) in enumerate(zip(plan, mo)):
        slots = int(m.split("slots=")[1].split()[0]); bound = int(m.split("bound=")[1].split()[0])
        total = bound + rng.randint(T // 4, T + 200000)       # the section after the last one the ring can take is completed, and more follows
        piece = rng.choice([100000, T, 1 << 20, 65536, 4096, 300001])
        p = {100: rng.choice([1, 1, 1, 3, -1]), 400: nbw, 401: T}
        if rng.random() < 0.4: p[201] = 1
        if rng.random() < 0.3: p[9000] = 1
        if rng.random() < 0.3: p[101] = rng.choice([17, 18, 19, 20])
        if rng.random() < 0.2:
            p[402] = rng.choice([1, 5, 9])
            if p[402] == 9: p[101] = rng.choice([17, 18, 19])     # the overlap (here: a whole window) must stay within one section, or the section size is raised
        trickle = rng.choice(["0", "0", "0", "0,0,0,1", "0,3"]) if k >= 3 else "0"
        hold = bound if w == "all" else (bound - T - rng.randint(1, T) if w == "part" else 0)
        drain = rng.choice(["65536", "1000000", "517,3", "1,4096", "131072,0,0", "4096"])
        tail = rng.choice(["c", "c", "cf", "ccf", "f"])
        lines.append("storm %s %s %d %d %s %d %s %s%s" % (frames.pstr(p), base.hex(), total, piece, trickle, hold, drain, tail, " hex" if k in (0, 1) else ""))
        meta.append(dict(nbw=nbw, T=T, slots=slots, bound=bound, total=total, hold=hold, trickle=trickle, p=p, piece=piece))
    mm = frames.model_lines(["mtback %d %d %d %d" % (m["nbw"], m["T"], m["total"], m["piece"]) for m in meta])
    from concurrent.futures import ThreadPoolExecutor
    with ThreadPoolExecutor(max_workers=10) as ex:
        outs = list(ex.map(lambda ln: frames.run_lines(exe, [ln], timeout=120), lines))
    ev, lean_jobs = 0, []
    for ln, m, mline, (rc, o, err) in zip(lines, meta, mm, outs):
        ev += 1
        short = " ".join(ln.split()[:2]) + " <base> " + " ".join(ln.split()[3:])
        res = o[0] if o else "<no output rc=%s>" % rc
        rep = dict(kind="monitor", op=ln[:40000000], result=res[:400], model=mline, stderr=(err or "")[-500:])
        desc = "workers=%d, %d descriptors, sections of %d bytes, %d bytes fed in %d-byte writes with output rooms %s while %d bytes are withheld" % (
            m["nbw"], m["slots"], m["T"], m["total"], m["piece"], m["trickle"], m["hold"])
        if res.startswith("err"):
            if "parameter" not in res:
                ctx.violation("multithreaded streaming compression failed under back-pressure (%s): %s" % (desc, res[:120]), rep)
            continue
        if not res.startswith("in="):
            ctx.violation("multithreaded streaming compression under back-pressure did not finish (a call never returned, or the process died) (%s): %s" % (desc, res[:80]), rep)
            continue
        kv = dict(t.split("=", 1) for t in res.split() if "=" in t)
        if kv["rt"] != "ok":
            ctx.violation("bytes emitted by multithreaded streaming compression under back-pressure do not decode to the input consumed (%s): ZSTD_decompress -> %s" % (desc, kv["rt"]), rep)
        elif kv["sd"] != "ok":
            ctx.violation("frame emitted under back-pressure does not stream-decode within its declared window to the input (%s): %s" % (desc, kv["sd"]), rep)
        if m["p"].get(9000) and kv["fcs"] != str(m["total"]):
            ctx.violation("pledged frame emitted under back-pressure announces content size %s for %d bytes (%s)" % (kv["fcs"], m["total"], desc), rep)
        # tie with Model/MTBack.lean: what the ring lets in while nothing comes out
        if m["hold"] and int(kv["acc1"]) != m["hold"]:
            ctx.violation("the compressor stopped accepting input after %s bytes although the job ring (%d descriptors) and the section buffer have room for %d (%s)" % (kv["acc1"], m["slots"], m["hold"], desc),
                          dict(rep, kind="tie", correspondence="MT.Back.offer vs ZSTDMT_compressStream_generic"))
        if m["hold"] == m["bound"] and kv["emit1"] == "0":
            ev += 1
            macc = int(mline.split("accepted=")[1].split()[0])
            if macc != m["bound"] or int(kv["over"]) != 0:
                ctx.violation("%d bytes accepted while not one byte had been emitted; the model of the job ring allows %d ((descriptors + 1) sections): a job was created on a descriptor still in use (%s)" % (
                    int(kv["acc1"]) + int(kv["over"]), macc, desc), dict(rep, kind="tie", correspondence="MT.Back.offer / MT.canCreate vs ZSTDMT_createCompressionJob"))
        if "frame" in kv and kv["rt"] == "ok":
            lean_jobs.append((ln, m, kv))
    with ThreadPoolExecutor(max_workers=4) as ex:
        lres = list(ex.map(lambda j: frames.model_lines(["dec %d %s" % (j[1]["total"], j[2]["frame"])], timeout=600)[0], lean_jobs))
    for (ln, m, kv), lr in zip(lean_jobs, lres):
        ev += 1
        if lr != "ok %d %s" % (m["total"], kv["in"]):
            ctx.violation("independent decoder disagrees on a frame emitted by multithreaded compression under back-pressure: %r, expected ok %d %s" % (lr, m["total"], kv["in"]),
                          dict(kind="tie", op=ln[:40000000], correspondence="Model/Frame vs ZSTD_decompress"), no_input=True)
    return dict(evaluations=ev, histories=len(lines), lean_decoded=len(lean_jobs),
                sample=dict(op=" ".join(lines[0].split()[:2]) + " <base> " + " ".join(lines[0].split()[3:9]), result=(outs[0][1][0][:200] if outs[0][1] else ""), model=mm[0]))


def correspondence(ctx):
    rng = ctx.rng
    exe = frames.harness()
    n = 1200 if ctx.quick() else 10000
    cases, lines = [], []
    for i in range(n):
        kind, x = datagen.gen(rng, 300000 if i % 7 == 0 else 20000)
        p = frames.param_vector(rng, True, allow_fmt=False)
        r = rng.random()
        if r < 0.2:
            p[1006] = 1       # stable input buffer
        elif r < 0.3:
            p[1007] = 1       # stable output buffer
        ins, outs, dirs = history(rng)
        if p.get(1006) and rng.random() < 0.7:
            ins = ",".join(str(rng.choice([1, 100, 2500, 3500, 60000])) for _ in range(rng.randint(2, 5)))   # several small continue calls before the first flush
            dirs = "c" * rng.randint(2, 6) + rng.choice(["f", "e", "cf"])
        if p.get(1007):
            outs = "10000000"
        d = datagen.gen(rng, 5000)[1] if rng.random() < 0.1 else b""
        lines.append("cstream %s %s %s %s %s%s" % (frames.pstr(p), frames.hx(x), ins, outs, dirs, (" " + frames.hx(d)) if d else "")); cases.append(dict(x=x, p=p, d=d))
    outc = frames.parallel(lambda ch: frames.run_lines(exe, ch, timeout=1800)[1], frames.split_chunks(lines, 16))
    ev = 0
    streams = []
    dl, ml, wl, idx = [], [], [], []
    for c, ln, o in zip(cases, lines, outc):
        ev += 1
        rep = dict(kind="monitor", op=ln[:40000000], result=o[:300])
        if o.startswith("err"):
            if "parameter" in o:
                continue
            ctx.violation("streaming compression failed under a call history: %s" % o, rep); continue
        f = o.split()[0]
        c["frame"] = f
        dd = (" " + frames.hx(c["d"])) if c["d"] else ""
        dl.append("dec %d %s%s" % (len(c["x"]), f, dd)); ml.append("dec %d %s%s" % (len(c["x"]), f, dd)); wl.append("xxh " + frames.hx(c["x"])); idx.append((c, ln))
        if not c["d"]:
            streams.append((bytes.fromhex(f) if f != "-" else b"", c["x"]))
    cres = frames.parallel(lambda ch: frames.run_lines(exe, ch)[1], frames.split_chunks(dl, 16))
    mres = frames.parallel(lambda ch: frames.model_lines(ch), frames.split_chunks(ml, 16))
    want = frames.parallel(lambda ch: frames.run_lines(exe, ch)[1], frames.split_chunks(wl, 16))
    for (c, ln), a, b, w in zip(idx, cres, mres, want):
        ev += 2
        rep = dict(kind="monitor", op=ln[:40000000], frame=c["frame"][:300000])
        if a != w:
            ctx.violation("bytes emitted by streaming compression do not decode to the input consumed: library decoder %r, expected %r" % (a, w), rep)
        elif b != w:
            ctx.violation("independent decoder disagrees on a streamed frame: %r vs %r" % (b, w), dict(rep, kind="tie", correspondence="Model/Frame vs ZSTD_decompress"), no_input=True)
        if len(ctx.violations) >= 5:
            break
    # decoder side: multi-frame streams with skippable frames, random segmentations, trace inclusion in the spec LTS
    comps = []
    for _ in range(len(streams) // 2):
        parts, content = [], b""
        for _ in range(rng.randint(1, 3)):
            if rng.random() < 0.3:
                pl = datagen.randbytes(rng, rng.choice([0, 1, 2, 3, 40]))
                parts.append((0x184D2A50 + rng.randrange(16)).to_bytes(4, "little") + len(pl).to_bytes(4, "little") + pl)
            else:
                f, x = rng.choice(streams); parts.append(f); content += x
        comps.append((b"".join(parts), content))
    # directed compositions: a frame that leaves a small input buffer and a large ring, followed by one that needs a larger input buffer but a smaller total
    dl = []
    dm = []
    fresh_ones = set()
    for _ in range(10 if ctx.quick() else 150):
        wa = rng.choice([14, 15, 16])
        xa = bytes(rng.choice(b"etaoin shrdlu,.\n") for _ in range((1 << wa) * 2))
        xb = bytes(rng.getrandbits(8) if rng.random() < 0.9 else 32 for _ in range(rng.randint((1 << wa) + 2000, min(131072, (1 << wa) * 2 - 3000))))
        dl.append("comp2 c2 100=1,101=%d,200=0 %s" % (wa, xa.hex())); dl.append("comp2 c2 100=1,101=17,200=1 %s" % xb.hex()); dm.append((xa, xb))
    dout = frames.run_lines(exe, dl, timeout=1800)[1]
    for k, (xa, xb) in enumerate(dm):
        a, b = dout[2 * k], dout[2 * k + 1]
        if a.startswith("err") or b.startswith("err"):
            continue
        comps.append((bytes.fromhex(a) + bytes.fromhex(b), xa + xb)); fresh_ones.add(len(comps) - 1)
    # directed: content size known (pledged), small window, blocks of irregular sizes (mid-block flushes) so that laps of the decoder's ring have
    # uneven lengths, matches at distances just below the window size, Huffman literals; decoded below in small pieces by a context of its own
    rl, rm = [], []
    for _ in range(30 if ctx.quick() else 400):
        wl = rng.choice([10, 10, 11, 12]); W = 1 << wl
        t = rng.randint(1, W - 1); last = rng.randint(W // 2, W)
        nfull = rng.choice([2, 2, 3, 5])
        xr = datagen.ringlap(rng, wl, nfull * W + t + last)
        rl.append("cstream 100=%d,101=%d,9000=1%s %s %s 1000000 f" % (rng.choice([3, 9, 9, 19]), wl, rng.choice(["", "", ",201=1"]), xr.hex(), ",".join([str(W)] * nfull + [str(t), str(last)]))); rm.append(xr)
    rout = frames.parallel(lambda ch: frames.run_lines(exe, ch, timeout=1800)[1], frames.split_chunks(rl, 16))
    for xr, o in zip(rm, rout):
        if o.startswith("err"):
            continue
        comps.append((bytes.fromhex(o.split()[0]), xr)); fresh_ones.add(len(comps) - 1)
    info = frames.parallel(lambda ch: frames.model_lines(ch), frames.split_chunks(["frameinfo %d %s" % (len(c), frames.hx(f)) for f, c in comps], 16))
    tl, tmeta = [], []
    for ci, ((f, c), fi) in enumerate(zip(comps, info)):
        if not fi.startswith("ok"):
            continue
        for _ in range(3):
            ins = ",".join(str(rng.choice([0, 0, 1, 1, 2, 3, 7, 100, 4096, 131072, 10000000])) for _ in range(rng.randint(1, 4)))
            if ins.replace(",", "").strip("0") == "":
                ins += ",5"
            outs = ",".join(str(rng.choice([0, 1, 1, 3, 64, 4096, 131072, 10000000])) for _ in range(rng.randint(1, 4)))
            if outs.replace(",", "").strip("0") == "":
                outs += ",1"
            # a context of its own (no buffers left over from earlier lines) for the directed compositions and for half of the others
            tl.append("decs %d %s %s %s trace%s" % (len(c), frames.hx(f), ins, outs, " fresh" if (ci in fresh_ones or rng.random() < 0.5) else "")); tmeta.append((f, c, fi))
    tout = frames.parallel(lambda ch: frames.run_lines(exe, ch, timeout=1800)[1], frames.split_chunks(tl, 16))
    want2 = frames.parallel(lambda ch: frames.run_lines(exe, ch)[1], frames.split_chunks(["xxh " + frames.hx(c) for f, c, fi in tmeta], 16))
    checks, cidx = [], []
    for k in range(len(tl)):
        tr, res = tout[2 * k], tout[2 * k + 1]
        f, c, fi = tmeta[k]
        ev += 1
        rep = dict(kind="monitor", op=tl[k][:40000000], result=res[:300], trace=tr[:2000])
        if " ".join(res.split()[:3]) != want2[k]:
            ctx.violation("streaming decompression under a segmentation differs from single-call decompression: %r vs %r" % (res[:80], want2[k]), rep)
            continue
        checks.append("dcheck %s %d %s" % (fi[3:] or "-", len(c), " ".join(tr.split()[1:]))); cidx.append(k)
    # directed: valid frames whose header bytes, read from the middle on, look like the start of another frame (window descriptor + content size field =
    # a skippable magic / the zstd magic), with the header split between two calls at every position and the rest delivered at once with plenty of output
    # room: the decoder must not mistake the middle of a buffered header for a frame start (single-pass shortcut)
    def lookalike(wd, fcs, first_raw):
        def bh(last, ty, size): return ((size << 3) | (ty << 1) | (1 if last else 0)).to_bytes(3, "little")
        blocks, content, left = b"", b"", fcs
        for nraw in first_raw:
            d = bytes((37 * j + nraw) & 255 for j in range(nraw)); blocks += bh(False, 0, nraw) + d; content += d; left -= nraw
        k_ = 0
        while left > 0:
            nb = min(left, 131072 if wd >= 0x38 else 1 << (10 + (wd >> 3))); left -= nb
            blocks += bh(left == 0, 1, nb) + bytes([65 + k_ % 20]); content += bytes([65 + k_ % 20]) * nb; k_ += 1
        return b"\x28\xb5\x2f\xfd" + bytes([0x80, wd]) + fcs.to_bytes(4, "little") + blocks, content
    la = [lookalike(0x50 + v, 0x00184D2A, [1, 4000]) for v in ((0, 3, 7) if ctx.quick() else range(8))] + [lookalike(0x28, 0x00FD2FB5, [1, 3000])]
    ll, lw = [], []
    for f, c in la:
        for cut in range(1, 10):
            ll.append("decs %d %s %d,100000000 100000000 fresh" % (len(c), frames.hx(f), cut)); lw.append("dec %d %s" % (len(c), frames.hx(f)))
    lo = frames.parallel(lambda ch: frames.run_lines_exact(exe, ch, timeout=1800), frames.split_chunks(ll, 16))
    lref = frames.parallel(lambda ch: frames.run_lines_exact(exe, ch, timeout=1800), frames.split_chunks(sorted(set(lw)), 4))
    lref = dict(zip(sorted(set(lw)), lref))
    for ln, w_, o in zip(ll, lw, lo):
        ev += 1
        if not lref[w_].startswith("ok") or " ".join(o.split()[:3]) != " ".join(lref[w_].split()[:3]):
            ctx.violation("streaming decompression with the frame header split between two calls differs from single-call decompression: %r vs %r" % (o[:100], lref[w_][:60]),
                          dict(kind="monitor", op=ln[:40000000], result=o[:300], reference=lref[w_][:100]))
            break
    cr = frames.parallel(lambda ch: frames.model_lines(ch), frames.split_chunks(checks, 16))
    for k, r_ in zip(cidx, cr):
        ev += 1
        if not r_.startswith("ok"):
            ctx.violation("ZSTD_decompressStream history is not a run of the specification LTS (completion must be reported exactly at frame ends, positions within buffers): %s" % r_,
                          dict(kind="monitor", op=tl[k][:40000000], spec_verdict=r_, trace=tout[2 * k][:3000], frame_ends=tmeta[k][2]))
        if len(ctx.violations) >= 8:
            break
    # a stable-input session abandoned after a call whose input was deferred, then a reset and a fresh frame on the same context (sanitizer build)
    sl = ["sireset %d %d %s" % (m_, f_, frames.hx(datagen.gen(rng, 200000)[1] or b"abc")) for m_ in (0, 1) for f_ in (1, 100, 1000, 60000, 131071)]
    rc_, so_, se_ = frames.run_lines(frames.harness("san"), sl, timeout=900)
    ev += len(sl)
    if rc_ != 0 or len(so_) != len(sl):
        ctx.violation("sanitizer build aborted after an abandoned stable-input session and a reset: %s :: %s" % (sl[min(len(so_), len(sl) - 1)][:60], (se_ or "")[-500:]),
                      dict(kind="monitor", op=sl[min(len(so_), len(sl) - 1)][:40000000], stderr=(se_ or "")[-3000:]))
    for ln_, o_ in zip(sl, so_):
        if o_ != "ok":
            ctx.violation("after an abandoned stable-input session and a reset, ZSTD_compress2 on the same context: %s" % o_, dict(kind="monitor", op=ln_[:40000000], result=o_))
    # deterministic model of ZSTD_decompressStream / ZSTD_decompressContinue (Model/DStream.lean): every call of every history must give the
    # same (consumed, produced, return value - error class or exact input hint) as the real code
    import ent_dstream
    nb = len(ctx.violations)
    dsr = ent_dstream.run(ctx)
    for v in ctx.violations[nb:]:
        v["replay"] = dict(v.get("replay") or {}, ent="dstream")
    ev += dsr.get("evaluations", 0)
    # deterministic model of ZSTD_compressStream2 / compressStream_generic (Model/CStream.lean): per call consumed / produced / return value,
    # chunk log (source size, compressed size per ZSTD_compressContinue / End call) and buffer geometry against the real code
    import ent_cstream
    nb = len(ctx.violations)
    csr = ent_cstream.run(ctx)
    for v in ctx.violations[nb:]:
        v["replay"] = dict(v.get("replay") or {}, ent="cstream")
    ev += csr.get("evaluations", 0)
    # worker threads: a producer running ahead of a consumer that gives no output room (the ring of job descriptors fills), then tiny drains
    mtb = mt_backpressure(ctx)
    ev += mtb.get("evaluations", 0)
    return dict(evaluations=ev, mt_backpressure=mtb, dstream_model_tie=dsr, cstream_model_tie=csr, distinct_nontrivial=len({ln[:200] + str(len(ln)) for ln in lines}),
                rule="compression: inputs x parameter vectors x call histories (chunk lists with 1-byte and block-straddling sizes, output capacities down to 1 byte, continue/flush/end strings, stable-in with several small "
                     "continue calls, stable-out, dictionaries); decompression: compositions of the emitted frames and skippable frames under random input/output segmentations (0- and 1-byte calls), each observed call checked "
                     "against the spec LTS (Stream.dlegalNum) and the whole output against single-call decoding; distinct = distinct call lines",
                samples=[dict(op=lines[0][:60] + " ... " + " ".join(lines[0].split()[3:6]), result=outc[0][-70:])], compress_histories=len(lines), decode_histories=len(tl))


def replay(ctx, data):
    if data.get("ent") == "dstream":
        import ent_dstream
        return ent_dstream.replay(ctx, data)
    if data.get("ent") == "cstream":
        import ent_cstream
        return ent_cstream.replay(ctx, data)
    exe = build.link("zvh_mtstorm", ["zvh_mtstorm.c"], "plain") if data["op"].startswith("storm ") else frames.harness()
    rc, out, err = frames.run_lines(exe, [data["op"]])
    return dict(violates=True, note="re-executed; compare with the description", result=[o[:300] for o in out])
