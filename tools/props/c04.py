"""C04 — every decoding path yields the specified output for every valid frame.  Reference R = the independent Lean decoder.  Valid
frames come from (a) tools/synth.py (format features the bundled compressor never emits: RLE / raw literals of every size format incl.
> 64 KiB RLE literals, all-RLE and repeat sequence tables, every length / offset code, repcodes with ll=0, long nbSeq, raw / RLE / empty
blocks, window mantissas, every content-size width, skippable frames) filtered by R, and (b) the real compressor incl. dictionary frames.
Each is decoded by the CURRENT tree built in several variants through several paths; every result must equal R's."""
import build, zv, frames, datagen, synth

ASSUMPTIONS = ["R (Model/Frame.lean in strict mode: no `lax` verdict) defines 'valid frame' and 'specified content'",
               "the 32-bit long-offset path is unreachable here (gcc -m32 does not link in this sandbox)"]
QUICK_VARIANTS = ["plain", "hufx1", "hufx2"]
ALL_VARIANTS = ["plain", "noasm", "hufx1", "hufx2", "san"]


def frames_round(ctx, K):
    """one K-th of the frame families: generated, decoded by every variant through every path, judged, dropped (bounded memory in the thorough tier)"""
    rng = ctx.rng
    plain = frames.harness("plain")
    variants = QUICK_VARIANTS if ctx.quick() else ALL_VARIANTS
    # (a) synthesized streams, filtered by R
    cand = [synth.stream(rng) for _ in range(700 if ctx.quick() else max(1, 20000 // K))]
    # compressed blocks with FSE-described sequence tables (random distributions incl. 'less than one' probabilities); every 12th one
    # holds the most expensive sequence the format allows (> 2 MiB offset, > 32 KiB literal run, long match, full-cost state updates)
    for i in range(180 if ctx.quick() else max(1, 5000 // K)):
        r = synth.frame_ring(rng) if i % 12 == 6 else synth.frame_fse(rng, extreme=(i % 12 == 0))
        if r:
            cand.append(r)
    # Huffman literals in four streams at tiny sizes (fourth stream empty for 6 and 9 bytes), with and without a treeless second block
    cand += synth.huf4_small_frames(rng, 80 if ctx.quick() else max(1, 1500 // K))
    r = frames.parallel(lambda ch: frames.model_lines(ch), frames.split_chunks(["dec %d %s" % (len(c) + 8, frames.hx(f)) for f, c in cand], 16))
    # a synthesized frame is VALID only if it also obeys the window rule (a match may not reach further back than Window_Size once the block
    # ends beyond it): the one-shot decoders and R regenerate such a frame from their full history, a streaming decoder with the ring buffer
    # the header asks for legitimately cannot - those frames are not part of "every valid frame" (window rule of Conform, theorem window_sufficient)
    okc = [(f, c) for (f, c), rr in zip(cand, r) if rr.startswith("ok") and int(rr.split()[1]) == len(c)]
    wr = frames.parallel(lambda ch: frames.model_lines(ch), frames.split_chunks(["conform %s %s - 0 0 0" % (frames.hx(f), frames.hx(c)) for f, c in okc], 16))
    beyond_window = {bytes(f) for (f, c), w_ in zip(okc, wr) if "violates window" in w_}
    valid = [(f, rr) for (f, c), rr in zip(cand, r) if rr.startswith("ok") and bytes(f) not in beyond_window]
    synth_disagree = [(f, c, rr) for (f, c), rr in zip(cand, r) if rr.startswith("ok") and int(rr.split()[1]) != len(c)]
    # (b) compressor frames (no dict)
    lines, xs = [], []
    for i in range(120 if ctx.quick() else max(1, 3000 // K)):
        kind, x = datagen.gen(rng, 200000 if i % 6 == 0 else 20000)
        p = frames.param_vector(rng, True, allow_fmt=False)
        if i % 8 == 3:
            # sub-block frames (ZSTD_c_targetCBlockSize): tiny literal sections whose compressed size, tree description included, may
            # exceed the regenerated size; literal-heavy blocks with a handful of sequences
            x = rng.choice([datagen.blockstruct, datagen.longlits, datagen.noisecopies])(rng, rng.choice([140000, 200000, 262144]))
            p = {100: rng.choice([3, 16, 19]), 130: rng.choice([1340, 2000, 6000])} if rng.random() < 0.7 else {100: rng.choice([1, 5, 19])}
        lines.append("comp2 c2 %s %s" % (frames.pstr(p), frames.hx(x))); xs.append(x)
    frs = frames.parallel(lambda ch: frames.run_lines(plain, ch)[1], frames.split_chunks(lines, 16))
    cf = [bytes.fromhex(f) if f != "-" else b"" for f in frs if not f.startswith("err")]
    r2 = frames.parallel(lambda ch: frames.model_lines(ch), frames.split_chunks(["dec %d %s" % (1 << 22, frames.hx(f)) for f in cf], 16))
    valid += [(f, rr) for f, rr in zip(cf, r2) if rr.startswith("ok")]
    # (c) dictionary frames: text-like data with few matches, > 64 KiB of literals in the first block (split literal buffer + cold DDict => prefetch decoder)
    dlines, dmeta = [], []
    for i in range(24 if ctx.quick() else max(1, 400 // K)):
        d = datagen.text(rng, rng.choice([2000, 20000, 100000]))
        if i % 2 == 0:
            x = bytes(rng.choice(b"abcdefghijklmnopqrstuvwxyz ETAOIN.,;") for _ in range(rng.choice([70000, 131072, 200000])))
        else:
            x = datagen.gen(rng, 150000)[1]
        dlines.append("comp2 ucdict 100=%d %s %s" % (rng.choice([1, 3, 3, 5]), frames.hx(x), frames.hx(d))); dmeta.append((x, d))
    dfr = frames.parallel(lambda ch: frames.run_lines(plain, ch)[1], frames.split_chunks(dlines, 16))
    dwant = frames.parallel(lambda ch: frames.run_lines(plain, ch)[1], frames.split_chunks(["xxh " + frames.hx(x) for x, d in dmeta], 16))
    # ops per frame
    ops, want, desc = [], [], []
    for f, rr in valid:
        n = int(rr.split()[1])
        hx = frames.hx(f)
        w = " ".join(rr.split()[:3])
        for op in ("dec %d %s" % (n, hx), "dec %d %s" % (n + 100000 + rng.randint(0, 300000), hx),
                   # (the harness stops after 2,000,000 calls: no 1-byte output windows on multi-megabyte contents)
                   "decs %d %s %s %s" % (n, hx, rng.choice(["1", "3,1,100", "100000", "7,4096"]), rng.choice(["100000", "1", "64,5", "4096"] if n < 400000 else ["100000", "4096", "70000,5", "131072"])) + rng.choice(["", " fresh"]),
                   # own decoding context (exactly the buffers this frame needs), small output windows
                   "decs %d %s %s %s fresh" % (n, hx, rng.choice(["100000", "131075", "7,4096"]), rng.choice(["4096", "4096", "1000,70000"])),
                   "decs %d %s %s %s" % (n + 50, hx, rng.choice(["100000", "131075"]), rng.choice(["131072", "1000000"])),
                   "bufless %d %s" % (n + rng.choice([0, 0, 100, 200000]), hx), "decso %d %s %s" % (n + rng.choice([0, 1000]), hx, rng.choice(["1", "100000", "5,300"])),
                   "inplace %d 0 %s" % (n, hx)):
            ops.append(op); want.append(w); desc.append("synth/compressor frame")
    for (x, d), f, w in zip(dmeta, dfr, dwant):
        if f.startswith("err"):
            continue
        n = len(x)
        for mode in "cswb":
            cap = n + rng.choice([0, 0, 100, 500000])
            ops.append("decdd %s %d %s %s %s %s" % (mode, cap, f, frames.hx(d), rng.choice(["1000000", "1", "4096,7", "131075"]), rng.choice(["1000000", "5000", "131072", "100"])))
            want.append(w); desc.append("dictionary frame, DDict %s" % {"c": "cold one-shot", "s": "cold stream", "w": "warm stream", "b": "cold buffer-less"}[mode])
    ev, bad = 0, 0
    per_variant = {}
    for v in variants:
        exe = frames.harness(v)
        chunks = frames.split_chunks(list(range(len(ops))), 16)
        def run(idx, exe=exe):
            rc, out, err = frames.run_lines(exe, [ops[i] for i in idx], timeout=1800)
            return [(rc, out, err, idx)]
        res = frames.parallel(run, chunks)
        n_ok = 0
        for rc, out, err, idx in res:
            if rc != 0 or len(out) != len(idx):
                i = idx[min(len(out), len(idx) - 1)]
                ctx.violation("variant %s aborted / hung on a VALID frame (%s): %s" % (v, ops[i][:60], err[-500:]), dict(kind="monitor", variant=v, op=ops[i][:40000000], stderr=err[-2000:]))
                continue
            for i, o in zip(idx, out):
                ev += 1
                got = o.split(" ", 1)[1] if o.startswith("margin=") else o
                got = " ".join(got.split()[:3])
                if got == want[i] or o.startswith("skip") or o.startswith("err margin"):
                    n_ok += 1
                else:
                    bad += 1
                    if bad <= 6:
                        ctx.violation("decoding path disagrees with the reference decoder on a valid frame: variant %s, %s, op %s -> %r, reference %r" % (v, desc[i], ops[i].split()[0], o[:80], want[i]),
                                      dict(kind="monitor", variant=v, op=ops[i][:40000000], got=o, reference=want[i]))
        per_variant[v] = n_ok
    return dict(ev=ev, per_variant=per_variant, valid_big={bytes(f) for f, _ in valid if len(f) > 16}, sample=dict(op=ops[0][:80], reference=want[0]) if ops else None,
                synth_valid=len([1 for (f, c), rr in zip(cand, r) if rr.startswith("ok")]), synth_total=len(cand), beyond=len(beyond_window), cf=len(cf), dmeta=len(dmeta),
                disagree=[(len(c), rr) for f, c, rr in synth_disagree[:2]], variants=variants)


def correspondence(ctx):
    K = 1 if ctx.quick() else 10
    parts = []
    for k in range(K):
        parts.append(frames_round(ctx, K))
        if len(ctx.violations) >= 6:
            break
    ev = sum(p_["ev"] for p_ in parts)
    variants = parts[0]["variants"]
    per_variant = {v: sum(p_["per_variant"].get(v, 0) for p_ in parts) for v in variants}
    valid_big = set()
    for p_ in parts: valid_big |= p_["valid_big"]
    for p_ in parts:
        for n_, rr in p_["disagree"][:2]:
            ctx.notes.append("synthesizer's own simulation differs from R on a frame R accepts (generator imprecision, not a finding): %d vs %s" % (n_, rr))
    # function-level tie of the decoding-table builders: FSE_buildDTable_wksp and ZSTD_buildFSETable (both BMI2 settings) against
    # FSE.buildCells / FSE.buildSeqTable on random distributions, biased to small accuracy logs with many "less than one" symbols
    import ent_fse
    nb = len(ctx.violations)
    fsr = ent_fse.run(ctx)
    for v in ctx.violations[nb:]:
        v["no_input"] = False
        v["replay"] = dict(v.get("replay") or {}, ent="fse")
    ev += fsr.get("evaluations", 0)
    return dict(evaluations=ev, table_builder_tie=fsr, distinct_nontrivial=len(valid_big),
                rule="valid frames = synthesized streams accepted by the reference Lean decoder + real compressor frames + dictionary frames; each decoded by %d build variants of the current tree "
                     "(default asm/BMI2, HUF X1 + short sequence decoder, HUF X2 + long/prefetch sequence decoder%s) through one-shot (exact and roomy dst), streaming under segmentations, buffer-less, stable-output, in-place, "
                     "and DDict cold / warm / buffer-less; distinct = distinct frames > 16 bytes" % (len(variants), ", no-asm, ASan" if not ctx.quick() else ""),
                samples=[parts[0]["sample"]], variants=variants, agreeing_results_per_variant=per_variant,
                synthesized_valid=sum(p_["synth_valid"] for p_ in parts), synthesized_total=sum(p_["synth_total"] for p_ in parts), synthesized_beyond_window_excluded=sum(p_["beyond"] for p_ in parts),
                compressor_frames=sum(p_["cf"] for p_ in parts), dictionary_frames=sum(p_["dmeta"] for p_ in parts))


def replay(ctx, data):
    if data.get("ent") == "fse":
        import ent_fse
        return ent_fse.replay(ctx, data)
    exe = frames.harness(data.get("variant", "plain"))
    rc, out, err = frames.run_lines(exe, [data["op"]])
    return dict(violates=(out[:1] != [data.get("reference")]), got=out, reference=data.get("reference"), stderr=err[-800:])
