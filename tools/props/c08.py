"""C08 — dictionaries.  (1) both loaders vs Model/Dict.lean (accept / reject, dictionary ID) on structurally valid dictionaries with unusual
entropy tables, mutated ones, arbitrary bytes behind the dictionary magic and raw content, in the ASan+UBSan build; (2) round trips over
compression supply modes x attach preferences x dedicated dict search x levels x decompression modes (incl. the multi-DDict table with up to
40 other dictionaries), inputs built from dictionary pieces; every frame also decoded by the independent Lean decoder with the dictionary
loaded by the decoder-side loader MODEL; (3) the frame records the dictionary's ID; the same dictionary under another ID is refused;
(4) two directed (deterministic) families: `reuse_family` - dictionaries whose offset-code table suffices for the first block only (ZDICT_finalizeDictionary,
dictgen.build_exact_of) x frames whose leading blocks are not emitted compressed (raw / RLE / tiny flushed block / mixtures, also compressed ones) followed by a
block needing a larger offset code, on every block-emitting path (plain, block splitter, targetCBlockSize, LDM), plain + sanitizer build; `attach_family` - the
product attach preference x dedicated dictionary search x forceMaxWindow x level for refCDict / loadDictionary (+ usingCDict, compressBegin_usingCDict) with
row-match-finder, window, input size and dictionary kind rotating, in the sanitizer build with exact-size allocations; (5) `history_family` - several frames with one
digested dictionary through ONE context (reused as is / session reset / full reset / a frame without dictionary in between; fresh contexts as control), the dictionary's
tables built from explicit compression parameters (dictionary longer than its chain / binary-tree table) or from a level, every strategy (optimal parsers first) x
supply x attach / default / copy / load, sanitizer + plain build (harness/zvh_dictseq.c)."""
import re
import build, zv, frames, dictgen

ASSUMPTIONS = ["the compressor front end is an oracle: each emitted frame is validated (library decoder in several modes + independent Lean decoder)",
               "'every dictionary' = the generator's families (valid with zero / low-probability symbols, extreme table logs, odd repeat offsets, truncated / mutated, raw of any length, trained)"]

CM = "ucrlpbR"
DM = "udlrpm"


def hx(variant="plain"):
    return build.link("zvh_dict", ["zvh_dict.c"], variant)


def gen_dict(rng, kind=None):
    kind = kind or rng.choice(["valid", "valid", "valid", "ofhole", "mut", "rawmagic", "raw", "trunc", "tinycontent", "trained"])
    content = bytes(rng.choice(b"etaoin shrdlu,.\n0123456789") for _ in range(rng.choice([8, 9, 64, 700, 3000, 20000, 70000])))
    if kind == "raw":
        n = rng.choice([0, 1, 7, 8, 9, 100, 5000, 150000])
        return kind, bytes(rng.getrandbits(8) % 90 + 32 for _ in range(n))
    if kind == "rawmagic":
        return kind, dictgen.MAGIC.to_bytes(4, "little") + bytes(rng.getrandbits(8) for _ in range(rng.choice([0, 3, 4, 5, 40, 400])))
    if kind == "tinycontent":
        content = content[:rng.choice([0, 1, 2, 7, 8])]
    if kind == "ofhole":
        # the offset code the compressor may need (highbit(content + 128 KB)) is missing while larger ones exist
        need = (len(content) + 131072).bit_length() - 1
        hole = rng.choice([need, need, need - 1, need + 1, rng.randint(0, need)])
        d, meta = dictgen.build(rng, content, of_zero=(hole,), of_force=(min(31, need + rng.randint(1, 3)), 1, 5))
        return kind, d
    if kind == "trained":
        return kind, None
    reps = None
    if rng.random() < 0.3:
        n = len(content)
        reps = [rng.choice([0, 1, n, n + 1, max(1, n - 1), 1 << 31]) for _ in range(3)]
    d, meta = dictgen.build(rng, content, reps=reps,
                            ll_zero=tuple(rng.sample(range(35), rng.choice([0, 0, 3, 10]))), ml_zero=tuple(rng.sample(range(52), rng.choice([0, 0, 5, 20]))),
                            of_zero=tuple(rng.sample(range(20), rng.choice([0, 0, 2, 6]))))
    if kind == "mut":
        b = bytearray(d)
        for _ in range(rng.choice([1, 1, 2, 5])):
            k = rng.randrange(4, min(len(b), 140))
            b[k] ^= 1 << rng.randrange(8)
        d = bytes(b)
    elif kind == "trunc":
        d = d[:rng.randrange(8, min(len(d), 160))]
    return kind, d


# ---------------------------------------------------------------------------------------------------------------------------------------------
# directed families (deterministic designs: the random generator only supplies contents / seeds, never decides whether a combination is run)

BLOCK = 131072


def run_resilient(exe, lines, timeout=3000, max_crashes=4):
    """one answer per line; a line on which the harness dies (signal / sanitizer report) is answered 'CRASH ...' and the lines after it are run
    in a fresh process, so that one crash neither hides the other combinations nor is attributed to the wrong one"""
    out, rest, crashes = [], list(lines), 0
    while rest:
        rc, o, err = frames.run_lines(exe, rest, timeout=timeout)
        o = o[:len(rest)]
        if len(o) < len(rest) and o and not o[-1].startswith(("ok", "cerr", "derr", "MISMATCH", "bad", "err")):
            o = o[:-1]          # a partly written line
        out += o
        if len(o) == len(rest):
            break
        m = re.search(r"(ERROR: \w+: [^\n]*|runtime error: [^\n]*)", err)
        loc = [x for x in re.findall(r"#\d+ 0x\w+ in (\w+)", err) if not x.startswith("__")][:4]
        out.append("CRASH rc=%s %s in %s" % (rc, m.group(1)[:160] if m else err[-160:].replace("\n", " "), "<".join(loc)))
        crashes += 1
        rest = rest[len(o) + 1:]
        if crashes >= max_crashes:
            out += ["SKIPPED"] * len(rest)
            break
    return out


def judge_directed(ctx, family, ln, o, short, d, p, cm):
    """the round-trip obligations of section (2)+(3) for a directed line; returns True when the line held"""
    if o == "SKIPPED":
        return True
    if o.startswith("CRASH"):
        ctx.violation("%s: the library crashed / the sanitizer reported while compressing or decompressing with a dictionary: %s (%s)" % (family, o[:300], short), dict(kind="monitor", family=family, op=ln, result=o[:3000]))
        return False
    if o.startswith("cerr"):
        if "parameter" in o or "unsupported" in o.lower():
            return True
        ctx.violation("%s: compression with an accepted dictionary failed: %s (%s)" % (family, o, short), dict(kind="monitor", family=family, op=ln, result=o))
        return False
    if not o.startswith("ok"):
        ctx.violation("%s: dictionary round trip broken: %s (%s)" % (family, o[:120], short), dict(kind="monitor", family=family, op=ln, result=o[:3000]))
        return False
    m = re.match(r"ok fid=(\d+) n=(\d+) in=(\w+) wrong=(\S+) frame=(\S+)", o)
    fid, wrong = int(m.group(1)), m.group(4)
    did = int.from_bytes(d[4:8], "little") if (len(d) >= 8 and d[:4] == dictgen.MAGIC.to_bytes(4, "little")) else 0
    want = 0 if ((p.get(202) == 0 and cm in "rl") or cm in "pR") else did
    good = True
    if fid != want:
        ctx.violation("%s: frame records dictionary ID %d, the dictionary's is %d (%s)" % (family, fid, want, short), dict(kind="monitor", family=family, op=ln, result=o[:300])); good = False
    if wrong != "-" and fid != 0 and wrong != "dictionary_wrong":
        ctx.violation("%s: frame naming dictionary %d decoded with the same dictionary under another ID: %s instead of dictionary_wrong (%s)" % (family, fid, wrong, short), dict(kind="monitor", family=family, op=ln, result=o[:300])); good = False
    return good


def first_block_only_dicts(rng, exe):
    """dictionaries whose offset-code table covers exactly the codes the FIRST block can need (0..highbit(content + 128 KiB)), every one of them with a
    non-zero probability: what ZDICT_finalizeDictionary / the trainers write, and dictgen.build_exact_of.  The compressor-side loader marks such a table
    directly reusable ('valid'); from the second block on larger codes can be needed.  -> list of (kind, dictionary bytes, content size)"""
    out = []
    sizes = [3000, 60000, 110000]
    lines = ["mkdict %d %d %d %d" % (n, rng.randrange(1 << 30), rng.randint(32768, (1 << 31) - 1), rng.choice([1, 3, 3, 6])) for n in sizes]
    rc, o, err = frames.run_lines(exe, lines)
    for n, h in zip(sizes, o):
        if not h.startswith(("err", "bad")):
            out.append(("zdict", bytes.fromhex(h), n))
    for n in [20000, 60000, 140000, BLOCK - 8]:
        alpha = rng.choice([b"abcdefghijklmnopqrstuvwxyz ,.\n", bytes(range(256))])
        content = bytes(rng.choice(alpha) for _ in range(n))
        d, meta = dictgen.build_exact_of(rng, content)
        out.append(("exactof", d, n))
    return out


def reuse_family(ctx, exe, exe_s=None):
    """FAMILY 'table reuse across blocks'.  The dictionary's entropy tables are the 'previous block' tables of every block until a block is emitted
    compressed.  Frames whose first k blocks are NOT emitted compressed (incompressible -> raw, one repeated byte -> RLE, a tiny first block cut by an
    early flush, mixtures), followed by a block with few sequences whose offsets need a code ABOVE the dictionary table's last one (copies from more than
    2^(m+1) bytes back: dictionary content or the early input), a present high code and small ones; window logs that allow the distance; one level per
    strategy class and more; every supply mode.  Also the boundary of the first-block rule (copies of the dictionary's first bytes at the end of block 1)."""
    rng = ctx.rng
    dicts = first_block_only_dicts(rng, exe)
    all_levels_extra = [-5, -1, 2, 4, 6, 9, 13, 16, 19]
    lines, meta = [], []
    k = 0
    for di, (kind, d, cn) in enumerate(dicts):
        hdr = len(d) - cn
        m = (cn + BLOCK).bit_length() - 1
        far_lo = 1 << (m + 1)
        preludes = [(["N%d" % BLOCK], 0), (["Z%d" % BLOCK], 0), (["N%d" % BLOCK, "N%d" % BLOCK], 0), (["T40", "N%d" % (BLOCK - 40), "N%d" % BLOCK], 40), (["Z%d" % BLOCK, "N%d" % BLOCK], 0), (["T7", "Z%d" % BLOCK], 7),
                    (["G%d" % BLOCK, "T%d" % BLOCK], 0), (["T%d" % BLOCK, "N%d" % BLOCK], 0)]      # and after blocks that WERE emitted compressed (the plain "first block only" rule)
        if cn == BLOCK - 8:
            # boundary of the rule itself: the largest offsets the first block can hold (first dictionary bytes copied at the end of block 1), then the same one block later
            preludes = [([], 0), (["T40"], 40), (["N%d" % BLOCK], 0)]
        for pi, (pre, fchunk) in enumerate(preludes):
            pre = list(pre)
            plen = sum(int(x[1:]) for x in pre)
            if cn != BLOCK - 8:
                while plen + (BLOCK * 5) // 7 + cn < far_lo + 4096:       # the far copies of the last slots must really lie beyond the table's reach
                    pre.append("N%d" % BLOCK); plen += BLOCK
            body = "C%d:%d-%dx3:%d-%dx2:1000-30000x2" % (BLOCK, far_lo, far_lo + 70000, 1 << m, far_lo - 4000)
            if cn == BLOCK - 8:
                body = "C%d:999999999-999999999x4:1000-30000x3" % BLOCK
            tail = ["G30000"] if (di + pi) % 2 else []
            shape = "/".join(["H%d" % hdr] + pre + [body] + tail)
            total = plen + BLOCK + (30000 if tail else 0)
            need_wlog = max(19, (total + cn).bit_length())
            levels = [1, 3, 5, 7] + [all_levels_extra[(k // 6 + j) % len(all_levels_extra)] for j in (0, 4)]
            for lvl in levels:
                if lvl >= 16 and total > 3 * BLOCK:
                    lvl = 2
                cm = "ucrlb"[k % 5]
                dm = "udlr"[(k // 5) % 4]
                attach = [0, 0, 2, 0, 1, 3][(k // 7) % 6]
                p = {100: lvl}
                wsel = (k // 3) % 3
                if wsel or cm in "lb":
                    p[101] = need_wlog + (1 if wsel == 2 else 0)
                if k % 11 == 0: p[201] = 1
                ln = "rts %s %s %d 0 %s %s %d 0 0 %s %d" % (d.hex(), cm, attach, frames.pstr(p), dm, rng.randrange(1 << 30), shape, fchunk)
                lines.append(ln)
                meta.append((kind, d, cm, dm, p, "%s dictionary (%d bytes, content %d, offset codes 0..%d), compress mode %s, attach %d, decompress mode %s, params %s, shape %s, first chunk %d" % (kind, len(d), cn, m, cm, attach, dm, frames.pstr(p), shape, fchunk)))
                k += 1
            # the other paths that emit a block (each keeps the table state itself): block splitter, sub-block (targetCBlockSize) emission, long-distance matcher as the source of far matches
            for j, extra in enumerate([{1010: 1}, {130: [1340, 4096, 20000][(di + pi) % 3]}, {160: 1}]):
                lvl = [1, 3, 5, 2, 4, -1][(di + pi + j) % 6]
                cm = "ucrlb"[(k + j) % 5]
                dm = "udlr"[(k // 5) % 4]
                p = {100: lvl, 101: need_wlog}
                p.update(extra)
                ln = "rts %s %s 0 0 %s %s %d 0 0 %s %d" % (d.hex(), cm, frames.pstr(p), dm, rng.randrange(1 << 30), shape, fchunk)
                lines.append(ln)
                meta.append((kind, d, cm, dm, p, "%s dictionary (%d bytes, content %d, offset codes 0..%d), compress mode %s, attach 0, decompress mode %s, params %s, shape %s, first chunk %d" % (kind, len(d), cn, m, cm, dm, frames.pstr(p), shape, fchunk)))
    order = sorted(range(len(lines)), key=lambda i: -(meta[i][4][100]))        # slow levels first: better packing of the workers
    chunks = [[] for _ in range(16)]
    for j, i in enumerate(order):
        chunks[j % 16].append(i)
    # plain build: what a user gets (a frame that does not decode); sanitizer build: an encoder walking a table that lacks the symbol reads outside it
    jobs = [(exe, c, "") for c in chunks if c] + ([(exe_s, c, " [sanitizer build]") for c in chunks if c] if exe_s else [])
    res = frames.parallel(lambda job: [(i, o, job[2]) for i, o in zip(job[1], run_resilient(job[0], [lines[i] for i in job[1]]))], jobs)
    bad = 0
    for i, o, tag in sorted(res):
        kind, d, cm, dm, p, short = meta[i]
        if not judge_directed(ctx, "table reuse across blocks" + tag, lines[i], o, short, d, p, cm):
            bad += 1
            if bad >= 6:
                break
    return lines


def attach_family(ctx, exe_s):
    """FAMILY 'how the dictionary's tables reach the working context', in the ASan+UBSan build (the input lives in an exact-size allocation): the full product
    attach preference {default, attach, copy, load} x dedicated dictionary search {0,1} x forceMaxWindow {0,1} x one level per strategy (all lazy-class
    levels) for a referenced CDict and for loadDictionary, plus compress_usingCDict / compressBegin_usingCDict; row match finder {auto, off, on}, input size
    (below / above the attach cut-offs, unknown for the streamed mode) and dictionary (raw vocabulary text small / large, ZDICT, exact-OF) rotate."""
    rng = ctx.rng
    words = [bytes(rng.choice(b"abcdefghijklmnopqrstuvwxyz") for _ in range(rng.randint(3, 9))) for _ in range(300)]
    text = b" ".join(rng.choice(words) for _ in range(24000))
    dicts = [("raw", text[:30000]), ("raw", text[:100000])]
    rc, o, err = frames.run_lines(exe_s, ["mkdict 20000 %d %d 5" % (rng.randrange(1 << 30), rng.randint(32768, (1 << 31) - 1))])
    if o and not o[0].startswith(("err", "bad")):
        dicts.append(("zdict", bytes.fromhex(o[0])))
    dicts.append(("exactof", dictgen.build_exact_of(rng, text[5000:13000])[0]))
    lines, meta = [], []
    k = 0
    combos = []
    for lvl in [1, 3, 5, 6, 8, 10, 13, 16]:
        for dds in (0, 1):
            for attach in (0, 1, 2, 3):
                for fmw in (0, 1):
                    for cm in "rl":
                        combos.append((lvl, dds, attach, fmw, cm))
    for lvl in [3, 5, 6, 7, 9, 10, 12, 13]:
        for dds in (0, 1):
            for cm in "cb":
                combos.append((lvl, dds, (lvl + dds) % 4, (lvl // 2 + dds) % 2, cm))
    for (lvl, dds, attach, fmw, cm) in combos:
        kind, d = dicts[k % len(dicts)]
        p = {100: lvl}
        if fmw: p[1000] = 1
        row = (k // 4) % 3
        if row: p[1011] = row
        wl = [None, 17, None, 12, None, 10, 14][(k // 5) % 7]       # small windows: the dictionary scrolls out of reach inside the frame
        if wl: p[101] = wl
        size = [24000, 2000, 150000, 24000][(k // 2) % 4]
        if lvl >= 13 and size > 24000: size = 40000
        dm = "udlr"[(k // 3) % 4]
        ln = "rt %s %s %d %d %s %s %d %d 0" % (d.hex(), cm, attach, dds, frames.pstr(p), dm, rng.randrange(1 << 30), size)
        lines.append(ln)
        meta.append((kind, d, cm, dm, p, "%s dictionary (%d bytes), compress mode %s, attach preference %d, dedicated dictionary search %d, decompress mode %s, params %s, %d bytes, sanitizer build" % (kind, len(d), cm, attach, dds, dm, frames.pstr(p), size)))
        k += 1
    chunks = [list(range(j, len(lines), 16)) for j in range(16)]
    res = frames.parallel(lambda ch: list(zip(ch, run_resilient(exe_s, [lines[i] for i in ch]))), [c for c in chunks if c])
    bad = 0
    for i, o in sorted(res):
        kind, d, cm, dm, p, short = meta[i]
        if not judge_directed(ctx, "attach / copy / load x dedicated search", lines[i], o, short, d, p, cm):
            bad += 1
            if bad >= 6:
                break
    return lines


def hx_seq(variant="plain"):
    return build.link("zvh_dictseq", ["zvh_dictseq.c"], variant)


def history_family(ctx):
    """FAMILY 'one context, one digested dictionary, several frames' (harness/zvh_dictseq.c, op ds).  The indices of a reused working context no longer start
    where the attached dictionary's end; the dictionary's own tables are built from EXPLICIT compression parameters, so that the dictionary can be longer than its
    chain / binary-tree table (chainLog 6..10 against 1..112 KB of content: the older nodes are recycled and every search has to stop at the table's horizon),
    or from a level (16..22 and others).  Design (deterministic): strategy (btopt / btultra / btultra2 with every chainLog class; btlazy2 / lazy2 / lazy / greedy /
    dfast / fast) x chainLog class x supply (compress_usingCDict, refCDict + compress2 / compressStream2 with unknown size, compressBegin_usingCDict,
    createCDict_advanced2, parameters on the context + loadDictionary by copy / by reference) ; attach preference (attach mostly, default, copy and load as
    controls), what happens between the frames (nothing, session reset, full reset, a frame without dictionary; fresh contexts as control), dictionary size
    and kind (raw / ZDICT_finalizeDictionary), hashLog / searchLog / minMatch / targetLength and frame sizes (1 KB .. 256 KB) rotate.  Vocabulary text over a
    2..7-letter alphabet: many candidates per hash bucket, long common prefixes.  Sanitizer build (exact-size inputs) for every line, plain build for a quarter of them."""
    rng = ctx.rng
    exe_s, exe = hx_seq("san"), hx_seq("plain")
    lines = []
    dsz = [8192, 1024, 30000, 4096, 65536, 112000, 16384]
    sups = "ABSGPMN"
    k = 0

    def frames_for(k, big):
        pool = [4096, 1000, 4096, 8192, 20000, 2048, 4096, 65536 if big else 12000]
        fs = [pool[(k + 3 * j) % len(pool)] for j in range(5)]
        if big and k % 9 == 4: fs[2] = 262144
        return fs
    for strat in (7, 8, 9):
        for ccls in (0, 1, 2, 3):
            for si, sup in enumerate(sups):
                dn = dsz[(k + si) % len(dsz)]
                fit = max(6, dn.bit_length() + 1)
                clog = [7, 6 + k % 3, min(10, fit), fit][ccls]
                hlog = [10, 8, 12, 9, 14][(k // 2) % 5]
                cp = "%d,%d,%d,%d,%d,%d,%d" % ([17, 18, 19][k % 3], clog, hlog, [7, 5, 9, 4][(k // 3) % 4], [4, 3, 4, 5][k % 4], [48, 16, 999, 64][(k // 5) % 4], strat)
                attach = 1 if k % 6 else [2, 0, 3][(k // 6) % 3]
                ctxk = "F" if k % 8 == 7 else "RRsRpRiR"[(k // 2) % 8]
                lines.append("ds %d %s %s %s %d %s %s %s %d" % (dn, "z" if k % 5 == 3 else "r", cp, sup, attach, ctxk, "du"[k % 2], ",".join(map(str, frames_for(k, ccls >= 2 and dn <= 30000))), rng.randrange(1 << 30)))
                k += 1
    for strat in (6, 5, 4, 3, 2, 1):
        for si, sup in enumerate(sups):
            if strat <= 2 and si % 2: continue
            dn = dsz[(k + si) % len(dsz)]
            cp = "%d,%d,%d,%d,%d,%d,%d" % ([17, 18, 16][k % 3], [6, 7, 8, 10][k % 4], [10, 8, 12, 9][(k // 2) % 4], [5, 3, 7, 4][(k // 3) % 4], [4, 3, 5, 6][k % 4], [8, 16, 4, 32][(k // 5) % 4], strat)
            lines.append("ds %d %s %s %s %d %s %s %s %d" % (dn, "z" if k % 5 == 3 else "r", cp, sup, 1 if k % 6 else 0, "RsRpRiRF"[k % 8], "du"[k % 2], ",".join(map(str, frames_for(k, True))), rng.randrange(1 << 30)))
            k += 1
    for j, lvl in enumerate([16, 17, 18, 19, 20, 21, 22, 13, 15, 5, 9, 3]):
        sup = "BPSMNAG"[j % 7]
        lines.append("ds %d %s L%d %s %d %s %s %s %d" % (dsz[(j * 3) % len(dsz)], "z" if j % 4 == 1 else "r", lvl, sup, 1 if j % 5 else 0, "RRsipR"[j % 6], "du"[j % 2], ",".join(map(str, frames_for(j, lvl < 20))), rng.randrange(1 << 30)))
    jobs = [(exe_s, list(range(j, len(lines), 16)), " [sanitizer build]") for j in range(16)] + [(exe, list(range(j, len(lines), 16))[::2], "") for j in range(8)]
    res = frames.parallel(lambda job: [(i, o, job[2]) for i, o in zip(job[1], run_resilient_ds(job[0], [lines[i] for i in job[1]]))], [jb for jb in jobs if jb[1]])
    bad = 0
    for i, o, tag in sorted(res):
        if o == "SKIPPED" or o.startswith("ok "):
            continue
        if o.startswith("cerr") and ("parameter" in o or "unsupported" in o.lower()):
            continue
        what = "the library crashed / the sanitizer reported" if o.startswith("CRASH") else "compression with an accepted dictionary failed" if o.startswith("cerr") else "dictionary round trip broken"
        ctx.violation("several frames through one context with one digested dictionary%s: %s: %s (%s)" % (tag, what, o[:300], lines[i]), dict(kind="monitor", family="history", op=lines[i], result=o[:3000], san=bool(tag)))
        bad += 1
        if bad >= 6:
            break
    return lines


def run_resilient_ds(exe, lines):
    out, rest, crashes = [], list(lines), 0
    while rest:
        rc, o, err = frames.run_lines(exe, rest, timeout=3000)
        o = [x for x in o[:len(rest)] if x.startswith(("ok ", "FAIL", "cerr", "bad"))]
        out += o
        if len(o) == len(rest):
            break
        m = re.search(r"(ERROR: \w+: [^\n]*|runtime error: [^\n]*)", err)
        loc = [x for x in re.findall(r"#\d+ 0x\w+ in (\w+)", err) if not x.startswith("__")][:4]
        out.append("CRASH rc=%s %s in %s" % (rc, m.group(1)[:160] if m else err[-160:].replace("\n", " "), "<".join(loc)))
        crashes += 1
        rest = rest[len(o) + 1:]
        if crashes >= 4:
            out += ["SKIPPED"] * len(rest)
            break
    return out


def correspondence(ctx):
    rng = ctx.rng
    quick = ctx.quick()
    ev, distinct, samples = 0, set(), []
    exe_s = hx("san")
    exe = hx("plain")
    # trained dictionaries from the library itself
    trained = []
    rc, out, err = frames.run_lines(frames.harness("plain"), ["xxh -"])     # warm the shared harness (and make sure it builds)
    # ---------- (1) loaders ----------
    nd = 900 if quick else 8000
    dicts = []
    for i in range(nd):
        k, d = gen_dict(rng)
        if d is None:
            continue
        dicts.append((k, d))
    lines = ["load " + (d.hex() or "-") for k, d in dicts]
    co = frames.parallel(lambda ch: frames.run_lines(exe_s, ch, timeout=1500)[1], frames.split_chunks(lines, 16))
    if len(co) != len(lines):
        ctx.violation("dictionary loading crashed in the sanitizer build (%d of %d lines answered)" % (len(co), len(lines)), dict(kind="monitor", ops=lines[len(co):len(co) + 1]))
    rcm, mout, merr = zv.run([zv.driver_exe(), "dec"], "\n".join("dictload " + (d.hex() or "-") for k, d in dicts) + "\n", timeout=1500)
    mo = mout.split("\n")
    kinds = {}
    accepted = []
    for (k, d), a, b in zip(dicts, co, mo):
        ma = re.match(r"C=(\w+) D=(\w+) idDict=(\d+) idC=(\d+) idD=(\d+) loadC=(\S+) loadD=(\S+)", a)
        mb = re.match(r"C=(\w+):?(\S*) D=(\w+):?(\S*) idDict=(\d+)", b)
        if not ma or not mb:
            ctx.violation("unparsable load lines: %s | %s" % (a[:100], b[:100]), dict(kind="internal"), no_input=True); break
        cC, cD = ma.group(1) == "ok", ma.group(2) == "ok"
        mC, mD = mb.group(1) == "ok", mb.group(3) == "ok"
        kinds[(k, cC, cD)] = kinds.get((k, cC, cD), 0) + 1
        what = None
        if cC != cD:
            what = "the two loaders disagree: compressor side %s, decoder side %s" % (ma.group(1), ma.group(2))
        elif (ma.group(6) == "ok") != cC or (ma.group(7) == "ok") != cD:
            what = "CDict/DDict creation and loadDictionary disagree: %s" % a
        elif cC and not (ma.group(3) == ma.group(4) == ma.group(5)):
            what = "dictionary ID queries disagree: %s" % a
        if what:
            ctx.violation("%s (%s dictionary, %d bytes)" % (what, k, len(d)), dict(kind="monitor", op="load " + d.hex(), result=a))
            continue
        if (cC, cD) != (mC, mD) or (cC and (ma.group(4) != mb.group(2) or ma.group(3) != mb.group(5))):
            ctx.violation("loader model and library disagree on a %s dictionary (%d bytes): library %s / model %s" % (k, len(d), a, b), dict(kind="tie-loader", op="load " + d.hex(), code=a, model=b), no_input=True)
            continue
        if cC:
            accepted.append((k, d))
    ev += len(lines); distinct |= set(lines)
    samples.append(dict(op=lines[0][:120], code=co[0] if co else "", model=mo[0]))
    # ---------- (2)+(3) round trips ----------
    nr = 1400 if quick else 12000
    rl, meta = [], []
    pool = [x for x in accepted if x[0] != "raw" or len(x[1]) >= 8] or accepted
    for i in range(nr):
        k, d = rng.choice(pool)
        cm = rng.choice(CM)
        dm = rng.choice("p" if cm in "pR" else "udlrm")
        lvl = rng.choice([-3, 1, 1, 2, 3, 3, 4, 5, 6, 7, 9, 12, 13, 16, 19])
        p = {100: lvl}
        if rng.random() < 0.3: p[101] = rng.choice([10, 12, 14, 17, 18, 20])
        if rng.random() < 0.2: p[105] = rng.randint(3, 7)
        if rng.random() < 0.2: p[107] = rng.randint(1, 9)
        if rng.random() < 0.15: p[201] = 1
        if rng.random() < 0.1: p[202] = 0
        if rng.random() < 0.1: p[160] = 1
        if rng.random() < 0.1: p[1010] = rng.randint(0, 2)
        size = rng.choice([0, 1, 50, 3000, 20000, 60000, 150000, 400000] if not (k == "ofhole" and lvl <= 4) else [200000, 300000, 400000])
        nother = rng.choice([0, 3, 15, 16, 17, 24, 40]) if dm == "m" else 0
        has_id = len(d) >= 8 and d[:4] == dictgen.MAGIC.to_bytes(4, "little") and d[4:8] != b"\0\0\0\0"
        if (p.get(202) == 0 and cm in "rl") or not has_id or cm in "pR":
            nother = 0          # a frame that names no dictionary cannot select one from a table
        rl.append("rt %s %s %d %d %s %s %d %d %d" % (d.hex() or "-", cm, rng.choice([0, 0, 1, 2, 3]), 1 if (rng.random() < 0.15 and cm in "cr") else 0, frames.pstr(p), dm, rng.randrange(1 << 30), size, nother))
        meta.append((k, d, cm, dm, p, size))
    ro = frames.parallel(lambda ch: frames.run_lines(exe, ch, timeout=3000)[1], frames.split_chunks(rl, 16))
    if len(ro) != len(rl):
        ctx.violation("dictionary round-trip harness crashed (%d of %d lines answered)" % (len(ro), len(rl)), dict(kind="monitor"), no_input=True)
    modes = {}
    ml, mmeta = [], []
    for ln, o, (k, d, cm, dm, p, size) in zip(rl, ro, meta):
        modes[(cm, dm)] = modes.get((cm, dm), 0) + 1
        short = "%s dictionary (%d bytes), compress mode %s, decompress mode %s, params %s, %d bytes" % (k, len(d), cm, dm, frames.pstr(p), size)
        if o.startswith("cerr"):
            if "parameter" in o or "unsupported" in o.lower():
                continue
            ctx.violation("compression with an accepted dictionary failed: %s (%s)" % (o, short), dict(kind="monitor", op=ln, result=o))
            continue
        if not o.startswith("ok"):
            ctx.violation("dictionary round trip broken: %s (%s)" % (o[:120], short), dict(kind="monitor", op=ln, result=o[:3000]))
            continue
        m = re.match(r"ok fid=(\d+) n=(\d+) in=(\w+) wrong=(\S+) frame=(\S+)", o)
        fid, wrong, fhex = int(m.group(1)), m.group(4), m.group(5)
        did = int.from_bytes(d[4:8], "little") if (len(d) >= 8 and d[:4] == dictgen.MAGIC.to_bytes(4, "little")) else 0
        want = 0 if ((p.get(202) == 0 and cm in "rl") or cm in "pR") else did      # ZSTD_compress_usingDict / _usingCDict ignore the context's advanced parameters
        if fid != want:
            ctx.violation("frame records dictionary ID %d, the dictionary's is %d (%s)" % (fid, want, short), dict(kind="monitor", op=ln, result=o[:300]))
        if wrong != "-" and fid != 0 and wrong != "dictionary_wrong":
            ctx.violation("frame naming dictionary %d decoded with the same dictionary under another ID: %s instead of dictionary_wrong (%s)" % (fid, wrong, short), dict(kind="monitor", op=ln, result=o[:300]))
        if size <= 60000 and len(ml) < (150 if quick else 2500):
            ml.append("decd %d %s %s %d" % (size, fhex, d.hex() or "-", 1 if cm in "pR" else 0))
            mmeta.append((ln, m.group(2), m.group(3), short))
    if ml:
        mo2 = frames.parallel(lambda ch: frames.model_lines(ch, timeout=3000), frames.split_chunks(ml, 16))
        for (ln, n, xx, short), r in zip(mmeta, mo2):
            if r != "ok %s %s" % (n, xx):
                ctx.violation("independent Lean decoder (dictionary loaded by the loader model) disagrees: %s, expected ok %s %s (%s)" % (r[:80], n, xx, short), dict(kind="tie-decoder", op=ln, model=r), no_input=True)
    ev += len(rl); distinct |= set(rl)
    samples.append(dict(op=rl[0][-200:], code=ro[0][:120] if ro else ""))
    # ---------- (4) directed families ----------
    t4 = ctx.elapsed()
    l4 = reuse_family(ctx, exe, exe_s)
    t5 = ctx.elapsed()
    l5 = attach_family(ctx, exe_s)
    t6 = ctx.elapsed()
    l6 = history_family(ctx)
    ev += len(l4) + len(l5) + len(l6); distinct |= set(l4) | set(l5) | set(l6)
    directed = dict(table_reuse_across_blocks=len(l4), attach_matrix_sanitizer=len(l5), frames_through_one_context=len(l6), seconds=[round(t5 - t4, 1), round(t6 - t5, 1), round(ctx.elapsed() - t6, 1)])
    return dict(evaluations=ev, distinct_nontrivial=len(distinct),
                rule="load lines (dictionary families x both loaders, sanitizer build) + rt lines (accepted dictionary x supply mode x attach x dedicated search x parameters x decode mode x input); distinct = distinct op lines",
                samples=samples[:3], loader_outcomes={"%s C=%s D=%s" % k: v for k, v in sorted(kinds.items())}, mode_pairs={"%s->%s" % k: v for k, v in sorted(modes.items())},
                frames_decoded_by_lean=len(ml), directed_families=directed)


def search_failing_input(ctx, broken, log):
    """a broken C08 obligation (e.g. repeat_valid_sound after the completeness loop changed): dictionaries whose needed offset code is missing,
    compressed at the fast levels that trust a 'valid' table"""
    rng = ctx.rng
    exe = hx("plain")
    lines = []
    for i in range(300):
        k, d = gen_dict(rng, "ofhole")
        lines.append("rt %s %s 0 0 100=%d,101=%d u %d %d 0" % (d.hex(), rng.choice("ucl"), rng.choice([1, 2, 3, 4]), rng.choice([18, 19, 20]), rng.randrange(1 << 30), rng.choice([200000, 300000, 400000])))
    ro = frames.parallel(lambda ch: frames.run_lines(exe, ch, timeout=3000)[1], frames.split_chunks(lines, 16))
    for ln, o in zip(lines, ro):
        if o.startswith(("derr", "MISMATCH")):
            return dict(desc="dictionary round trip fails: %s" % o[:100], op=ln, result=o[:2000])
    return None


def replay(ctx, data):
    op = data.get("op") or data.get("witness", {}).get("op")
    if op.startswith("ds "):
        res, bad = [], False
        for variant in ("plain", "san"):
            rc, out, err = frames.run_lines(hx_seq(variant), [op])
            bad = bad or not (out and out[0].startswith("ok "))
            res.append("%s build: %s" % (variant, out[0][:300] if out else err[-600:]))
        return dict(violates=bad, result=res)
    rc, out, err = frames.run_lines(hx("plain"), [op])
    bad = not (out and out[0].startswith(("ok", "C=")))
    res = [o[:300] for o in out]
    if not bad and data.get("family"):          # directed families also run in the sanitizer build
        rc, out, err = frames.run_lines(hx("san"), [op])
        bad = not (out and out[0].startswith(("ok", "C=")))
        res += ["sanitizer build: " + (out[0][:300] if out else err[-600:])]
    return dict(violates=bad, result=res)
