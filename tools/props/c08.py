"""C08 — dictionaries.  (1) both loaders vs Model/Dict.lean (accept / reject, dictionary ID) on structurally valid dictionaries with unusual
entropy tables, mutated ones, arbitrary bytes behind the dictionary magic and raw content, in the ASan+UBSan build; (2) round trips over
compression supply modes x attach preferences x dedicated dict search x levels x decompression modes (incl. the multi-DDict table with up to
40 other dictionaries), inputs built from dictionary pieces; every frame also decoded by the independent Lean decoder with the dictionary
loaded by the decoder-side loader MODEL; (3) the frame records the dictionary's ID; the same dictionary under another ID is refused."""
import re
import build, zv, frames, dictgen

ASSUMPTIONS = ["the compressor front end is an oracle: each emitted frame is validated (library decoder in several modes + independent Lean decoder)",
               "'every dictionary' = the generator's families (valid with zero / low-probability symbols, extreme table logs, odd repeat offsets, truncated / mutated, raw of any length, trained)"]

CM = "ucrlpbR"
DM = "udlrpm"


def hx(variant="plain"):
    return build.link("zvh_dict", ["zvh_dict.c"], variant)


def gen_dict(rng, kind=None):
    kind = kind or rng.choice(["valid", "valid", "valid", "ofhole", "mut", "rawmagic", "raw", "trunc", "tinycontent", "trained"])
    content = bytes(rng.choice(b"etaoin shrdlu,.\n0123456789") for _ in range(rng.choice([8, 9, 64, 700, 3000, 20000, 70000])))
    if kind == "raw":
        n = rng.choice([0, 1, 7, 8, 9, 100, 5000, 150000])
        return kind, bytes(rng.getrandbits(8) % 90 + 32 for _ in range(n))
    if kind == "rawmagic":
        return kind, dictgen.MAGIC.to_bytes(4, "little") + bytes(rng.getrandbits(8) for _ in range(rng.choice([0, 3, 4, 5, 40, 400])))
    if kind == "tinycontent":
        content = content[:rng.choice([0, 1, 2, 7, 8])]
    if kind == "ofhole":
        # the offset code the compressor may need (highbit(content + 128 KB)) is missing while larger ones exist
        need = (len(content) + 131072).bit_length() - 1
        hole = rng.choice([need, need, need - 1, need + 1, rng.randint(0, need)])
        d, meta = dictgen.build(rng, content, of_zero=(hole,), of_force=(min(31, need + rng.randint(1, 3)), 1, 5))
        return kind, d
    if kind == "trained":
        return kind, None
    reps = None
    if rng.random() < 0.3:
        n = len(content)
        reps = [rng.choice([0, 1, n, n + 1, max(1, n - 1), 1 << 31]) for _ in range(3)]
    d, meta = dictgen.build(rng, content, reps=reps,
                            ll_zero=tuple(rng.sample(range(35), rng.choice([0, 0, 3, 10]))), ml_zero=tuple(rng.sample(range(52), rng.choice([0, 0, 5, 20]))),
                            of_zero=tuple(rng.sample(range(20), rng.choice([0, 0, 2, 6]))))
    if kind == "mut":
        b = bytearray(d)
        for _ in range(rng.choice([1, 1, 2, 5])):
            k = rng.randrange(4, min(len(b), 140))
            b[k] ^= 1 << rng.randrange(8)
        d = bytes(b)
    elif kind == "trunc":
        d = d[:rng.randrange(8, min(len(d), 160))]
    return kind, d


def correspondence(ctx):
    rng = ctx.rng
    quick = ctx.quick()
    ev, distinct, samples = 0, set(), []
    exe_s = hx("san")
    exe = hx("plain")
    # trained dictionaries from the library itself
    trained = []
    rc, out, err = frames.run_lines(frames.harness("plain"), ["xxh -"])     # warm the shared harness (and make sure it builds)
    # ---------- (1) loaders ----------
    nd = 900 if quick else 8000
    dicts = []
    for i in range(nd):
        k, d = gen_dict(rng)
        if d is None:
            continue
        dicts.append((k, d))
    lines = ["load " + (d.hex() or "-") for k, d in dicts]
    co = frames.parallel(lambda ch: frames.run_lines(exe_s, ch, timeout=1500)[1], frames.split_chunks(lines, 16))
    if len(co) != len(lines):
        ctx.violation("dictionary loading crashed in the sanitizer build (%d of %d lines answered)" % (len(co), len(lines)), dict(kind="monitor", ops=lines[len(co):len(co) + 1]))
    rcm, mout, merr = zv.run([zv.driver_exe(), "dec"], "\n".join("dictload " + (d.hex() or "-") for k, d in dicts) + "\n", timeout=1500)
    mo = mout.split("\n")
    kinds = {}
    accepted = []
    for (k, d), a, b in zip(dicts, co, mo):
        ma = re.match(r"C=(\w+) D=(\w+) idDict=(\d+) idC=(\d+) idD=(\d+) loadC=(\S+) loadD=(\S+)", a)
        mb = re.match(r"C=(\w+):?(\S*) D=(\w+):?(\S*) idDict=(\d+)", b)
        if not ma or not mb:
            ctx.violation("unparsable load lines: %s | %s" % (a[:100], b[:100]), dict(kind="internal"), no_input=True); break
        cC, cD = ma.group(1) == "ok", ma.group(2) == "ok"
        mC, mD = mb.group(1) == "ok", mb.group(3) == "ok"
        kinds[(k, cC, cD)] = kinds.get((k, cC, cD), 0) + 1
        what = None
        if cC != cD:
            what = "the two loaders disagree: compressor side %s, decoder side %s" % (ma.group(1), ma.group(2))
        elif (ma.group(6) == "ok") != cC or (ma.group(7) == "ok") != cD:
            what = "CDict/DDict creation and loadDictionary disagree: %s" % a
        elif cC and not (ma.group(3) == ma.group(4) == ma.group(5)):
            what = "dictionary ID queries disagree: %s" % a
        if what:
            ctx.violation("%s (%s dictionary, %d bytes)" % (what, k, len(d)), dict(kind="monitor", op="load " + d.hex(), result=a))
            continue
        if (cC, cD) != (mC, mD) or (cC and (ma.group(4) != mb.group(2) or ma.group(3) != mb.group(5))):
            ctx.violation("loader model and library disagree on a %s dictionary (%d bytes): library %s / model %s" % (k, len(d), a, b), dict(kind="tie-loader", op="load " + d.hex(), code=a, model=b), no_input=True)
            continue
        if cC:
            accepted.append((k, d))
    ev += len(lines); distinct |= set(lines)
    samples.append(dict(op=lines[0][:120], code=co[0] if co else "", model=mo[0]))
    # ---------- (2)+(3) round trips ----------
    nr = 1400 if quick else 12000
    rl, meta = [], []
    pool = [x for x in accepted if x[0] != "raw" or len(x[1]) >= 8] or accepted
    for i in range(nr):
        k, d = rng.choice(pool)
        cm = rng.choice(CM)
        dm = rng.choice("p" if cm in "pR" else "udlrm")
        lvl = rng.choice([-3, 1, 1, 2, 3, 3, 4, 5, 6, 7, 9, 12, 13, 16, 19])
        p = {100: lvl}
        if rng.random() < 0.3: p[101] = rng.choice([10, 12, 14, 17, 18, 20])
        if rng.random() < 0.2: p[105] = rng.randint(3, 7)
        if rng.random() < 0.2: p[107] = rng.randint(1, 9)
        if rng.random() < 0.15: p[201] = 1
        if rng.random() < 0.1: p[202] = 0
        if rng.random() < 0.1: p[160] = 1
        if rng.random() < 0.1: p[1010] = rng.randint(0, 2)
        size = rng.choice([0, 1, 50, 3000, 20000, 60000, 150000, 400000] if not (k == "ofhole" and lvl <= 4) else [200000, 300000, 400000])
        nother = rng.choice([0, 3, 15, 16, 17, 24, 40]) if dm == "m" else 0
        has_id = len(d) >= 8 and d[:4] == dictgen.MAGIC.to_bytes(4, "little") and d[4:8] != b"\0\0\0\0"
        if (p.get(202) == 0 and cm in "rl") or not has_id or cm in "pR":
            nother = 0          # a frame that names no dictionary cannot select one from a table
        rl.append("rt %s %s %d %d %s %s %d %d %d" % (d.hex() or "-", cm, rng.choice([0, 0, 1, 2, 3]), 1 if (rng.random() < 0.15 and cm in "cr") else 0, frames.pstr(p), dm, rng.randrange(1 << 30), size, nother))
        meta.append((k, d, cm, dm, p, size))
    ro = frames.parallel(lambda ch: frames.run_lines(exe, ch, timeout=3000)[1], frames.split_chunks(rl, 16))
    if len(ro) != len(rl):
        ctx.violation("dictionary round-trip harness crashed (%d of %d lines answered)" % (len(ro), len(rl)), dict(kind="monitor"), no_input=True)
    modes = {}
    ml, mmeta = [], []
    for ln, o, (k, d, cm, dm, p, size) in zip(rl, ro, meta):
        modes[(cm, dm)] = modes.get((cm, dm), 0) + 1
        short = "%s dictionary (%d bytes), compress mode %s, decompress mode %s, params %s, %d bytes" % (k, len(d), cm, dm, frames.pstr(p), size)
        if o.startswith("cerr"):
            if "parameter" in o or "unsupported" in o.lower():
                continue
            ctx.violation("compression with an accepted dictionary failed: %s (%s)" % (o, short), dict(kind="monitor", op=ln, result=o))
            continue
        if not o.startswith("ok"):
            ctx.violation("dictionary round trip broken: %s (%s)" % (o[:120], short), dict(kind="monitor", op=ln, result=o[:3000]))
            continue
        m = re.match(r"ok fid=(\d+) n=(\d+) in=(\w+) wrong=(\S+) frame=(\S+)", o)
        fid, wrong, fhex = int(m.group(1)), m.group(4), m.group(5)
        did = int.from_bytes(d[4:8], "little") if (len(d) >= 8 and d[:4] == dictgen.MAGIC.to_bytes(4, "little")) else 0
        want = 0 if ((p.get(202) == 0 and cm in "rl") or cm in "pR") else did      # ZSTD_compress_usingDict / _usingCDict ignore the context's advanced parameters
        if fid != want:
            ctx.violation("frame records dictionary ID %d, the dictionary's is %d (%s)" % (fid, want, short), dict(kind="monitor", op=ln, result=o[:300]))
        if wrong != "-" and fid != 0 and wrong != "dictionary_wrong":
            ctx.violation("frame naming dictionary %d decoded with the same dictionary under another ID: %s instead of dictionary_wrong (%s)" % (fid, wrong, short), dict(kind="monitor", op=ln, result=o[:300]))
        if size <= 60000 and len(ml) < (150 if quick else 2500):
            ml.append("decd %d %s %s %d" % (size, fhex, d.hex() or "-", 1 if cm in "pR" else 0))
            mmeta.append((ln, m.group(2), m.group(3), short))
    if ml:
        mo2 = frames.parallel(lambda ch: frames.model_lines(ch, timeout=3000), frames.split_chunks(ml, 16))
        for (ln, n, xx, short), r in zip(mmeta, mo2):
            if r != "ok %s %s" % (n, xx):
                ctx.violation("independent Lean decoder (dictionary loaded by the loader model) disagrees: %s, expected ok %s %s (%s)" % (r[:80], n, xx, short), dict(kind="tie-decoder", op=ln, model=r), no_input=True)
    ev += len(rl); distinct |= set(rl)
    samples.append(dict(op=rl[0][-200:], code=ro[0][:120] if ro else ""))
    return dict(evaluations=ev, distinct_nontrivial=len(distinct),
                rule="load lines (dictionary families x both loaders, sanitizer build) + rt lines (accepted dictionary x supply mode x attach x dedicated search x parameters x decode mode x input); distinct = distinct op lines",
                samples=samples[:3], loader_outcomes={"%s C=%s D=%s" % k: v for k, v in sorted(kinds.items())}, mode_pairs={"%s->%s" % k: v for k, v in sorted(modes.items())},
                frames_decoded_by_lean=len(ml))


def search_failing_input(ctx, broken, log):
    """a broken C08 obligation (e.g. repeat_valid_sound after the completeness loop changed): dictionaries whose needed offset code is missing,
    compressed at the fast levels that trust a 'valid' table"""
    rng = ctx.rng
    exe = hx("plain")
    lines = []
    for i in range(300):
        k, d = gen_dict(rng, "ofhole")
        lines.append("rt %s %s 0 0 100=%d,101=%d u %d %d 0" % (d.hex(), rng.choice("ucl"), rng.choice([1, 2, 3, 4]), rng.choice([18, 19, 20]), rng.randrange(1 << 30), rng.choice([200000, 300000, 400000])))
    ro = frames.parallel(lambda ch: frames.run_lines(exe, ch, timeout=3000)[1], frames.split_chunks(lines, 16))
    for ln, o in zip(lines, ro):
        if o.startswith(("derr", "MISMATCH")):
            return dict(desc="dictionary round trip fails: %s" % o[:100], op=ln, result=o[:2000])
    return None


def replay(ctx, data):
    op = data.get("op") or data.get("witness", {}).get("op")
    rc, out, err = frames.run_lines(hx("plain"), [op])
    return dict(violates=not (out and out[0].startswith(("ok", "C="))), result=[o[:300] for o in out])
